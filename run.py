#!/usr/bin/env python3
"""Orchestrator.  `run.py setup` builds the framework, `run.py check <Cxx> [--tier quick|thorough]`
decides one property (exit 0 / exit 1 + VIOLATION line), `run.py replay <file>` re-executes a replay."""
import argparse
import json
import multiprocessing
import os
import subprocess
import sys
import time

ROOT = os.path.dirname(os.path.abspath(__file__))
sys.path.insert(0, ROOT)

from vlib import leancheck, monitors, props, purediff  # noqa: E402
from vlib.cosim import Divergence, History, Stats  # noqa: E402
from vlib.procs import Harness  # noqa: E402
from vlib.runner import run_many  # noqa: E402

HARNESS = os.path.join(ROOT, "harness")
ENV = dict(os.environ, CARGO_NET_OFFLINE="true")


def build_harness(builds=("osmosis",)):
    """rebuild the harness against /repo's current working tree (path dependencies)"""
    out = {}
    with leancheck.Lock("cargo"):
        lock_src = "/repo/Cargo.lock"
        for b in builds:
            cmd = ["cargo", "build", "--offline", "--quiet"]
            if b == "miniwasm":
                cmd += ["--features", "miniwasm", "--target-dir", os.path.join(HARNESS, "target-miniwasm")]
            t = time.time()
            p = subprocess.run(cmd, cwd=HARNESS, capture_output=True, text=True, env=ENV)
            out[b] = {"rc": p.returncode, "wall_s": round(time.time() - t, 1), "tail": (p.stderr or "")[-1500:] if p.returncode else ""}
        _ = lock_src
    return out


def build_lean():
    rc, out, dt = leancheck.lake_build(["MW", "driver"])
    return {"rc": rc, "wall_s": round(dt, 1), "tail": out[-1500:] if rc else ""}


def load_known():
    p = os.path.join(ROOT, "known_findings.json")
    if not os.path.exists(p):
        return []
    return json.load(open(p)).get("findings", [])


def match_known(f, known):
    for k in known:
        if k.get("status") != "known" or k["property"] != f["property"]:
            continue
        sig = dict(k["signature"])
        if sig.pop("monitor", None) != f["monitor"]:
            continue
        if all(f["signature"].get(a) == b for a, b in sig.items()):
            return k
    return None


def _worker(args):
    (n, seed, profile, length, build, mode, use_monitors) = args
    mons = monitors.ALL if use_monitors else None
    stats, divs, findings = run_many(n, seed, profile, length, build=build, stop_on_first=True, monitors=mons, mode=mode)
    return stats, divs, findings


def run_parallel(total, seed, profile, length, build, mode, workers, use_monitors=True):
    if workers <= 1:
        return _worker((total, seed, profile, length, build, mode, use_monitors))
    per = max(1, total // workers)
    jobs = [(per, seed * 131 + i, profile, length, build, mode, use_monitors) for i in range(workers)]
    with multiprocessing.Pool(workers) as pool:
        res = pool.map(_worker, jobs)
    stats = Stats()
    divs, findings = [], []
    for s, d, f in res:
        stats.merge(s)
        divs += d
        findings += f
    return stats, divs, findings


def relevant(div, spec):
    ch = div["channel"]
    det = div["detail"]
    if "call" not in det and "msg" in det:      # treasury divergence
        return "treasury" in spec.get("extra", [])
    if ch.startswith("proto."):
        return "proto" in spec.get("extra", [])
    if ch.startswith("migrate."):
        return "migration" in spec.get("extra", [])
    if ch == "build-vs-build":
        return "crossbuild" in spec.get("extra", [])
    if ch in ("outcome", "msgs"):
        call = det.get("call", {})
        var = monitors.variant(call.get("msg")) if call.get("entry") == "execute" else call.get("entry")
        return var in spec["variants"]
    if ch.startswith("probe."):
        return "reply" in spec["variants"]
    if ch.startswith("state."):
        key = ch.split(".", 1)[1]
        return key in spec["state_keys"] or not spec["state_keys"]
    return True


def write_replay(pid, kind, seed, n, payload):
    d = os.path.join(ROOT, "replays")
    os.makedirs(d, exist_ok=True)
    path = os.path.join(d, "%s-%s-%d-%d.json" % (pid, kind, seed, n))
    payload = dict(payload)
    payload.update(property=pid, kind=kind, replay_cmd="python3 run.py replay %s" % path)
    with open(path, "w") as f:
        json.dump(payload, f, indent=1)
    return path


def replay_events(events, build="osmosis", profile=None):
    """re-execute a recorded history implementation-led with all monitors"""
    import random
    from vlib.cosim import Setup
    h = Harness(build)
    stats = Stats()
    hist = History(h, None, 0, profile or {}, stats, build=build, monitors=monitors.ALL, mode="impl")
    try:
        boot = events[0]["boot"]
        # rebuild the Setup deterministically from the recorded boot message
        hist.su = SetupFromBoot(boot)
        hist.time = int(boot["time"])
        hist.height = boot["height"]
        from vlib.implworld import ImplWorld
        h.reset("staking", hist.su.chain_prefix, hist.su.contract, getattr(hist.su, "chain_id", None))
        hist.iw = ImplWorld(h, hist.su.contract, hist.su.chain_prefix, hist.time, hist.height)
        hist.events.append(events[0])
        tx = hist.iw.run_exec(boot["sender"], [], boot["msg"], None, 0, entry="instantiate")
        if tx["committed"]:
            hist._impl_dump()
            for ev in events[1:]:
                hist.event(ev)
    finally:
        h.close()
    _ = random, Setup
    return hist.findings


def SetupFromBoot(boot):
    """a cosim.Setup recovered from a recorded boot request (same derived accounts)"""
    import random
    from vlib.cosim import Setup
    m = boot["msg"]
    eq = m["native_chain_config"]["account_address_prefix"] == m["protocol_chain_config"]["account_address_prefix"]
    su = Setup(random.Random(0), {"equal_prefixes": eq})
    su.contract = boot["self"]
    su.chain_prefix = boot["chain_prefix"]
    su.chain_id = boot.get("chain_id", "osmosis-1")
    su.admin = boot["sender"]
    su.staker = m["native_chain_config"]["staker_address"]
    su.collector = m["native_chain_config"]["reward_collector_address"]
    su.channel = m["protocol_chain_config"]["ibc_channel_id"]
    su.sub = m["liquid_stake_token_denom"]
    su.lst = "factory/%s/%s" % (su.contract, su.sub)
    return su


def check(pid, tier, seed):
    t0 = time.time()
    spec = props.P[pid]
    quick = tier == "quick"
    out_lines = []
    violations = []
    known = load_known()
    notes = {}

    # 0. regenerate the tables / registry from the current sources (translator)
    g = subprocess.run([sys.executable, os.path.join(ROOT, "translator", "generate.py")], capture_output=True, text=True)
    notes["translator"] = (g.stdout + g.stderr).strip()[-300:]
    if g.returncode == 0:
        g = subprocess.run([sys.executable, os.path.join(ROOT, "translator", "interface.py")], capture_output=True, text=True)
        notes["translator_interface"] = (g.stdout + g.stderr).strip()[-300:]
    if g.returncode != 0:
        path = write_replay(pid, "build", seed, 0, {"broken_theorem_or_stream": "translator failed on /repo's sources", "detail": notes["translator"] + " " + notes.get("translator_interface", "")})
        return finish(pid, tier, seed, t0, spec, None, None, None, [("build", path, True)], [], notes)
    # 1. builds from the current tree
    builds = spec.get("builds", ["osmosis"])
    hb = build_harness(builds)
    notes["harness_build"] = hb
    lb = build_lean()
    notes["lean_build"] = {k: v for k, v in lb.items() if k != "tail"}
    if any(v["rc"] != 0 for v in hb.values()):
        path = write_replay(pid, "build", seed, 0, {"broken_theorem_or_stream": "harness build against /repo failed", "detail": hb})
        return finish(pid, tier, seed, t0, spec, None, None, None, [("build", path, True)], [], notes)
    if lb["rc"] != 0:
        path = write_replay(pid, "build", seed, 0, {"broken_theorem_or_stream": "lake build failed", "detail": lb})
        return finish(pid, tier, seed, t0, spec, None, None, None, [("build", path, True)], [], notes)

    # 2. proof obligations
    proofs = leancheck.check_proofs(spec["module"], tier)

    # 3. pure-function differential
    pure_stats = None
    pure_divs = []
    if spec["pure"]:
        n = 6000 if quick else 400_000
        pure_stats, pure_divs = purediff.run(spec["pure"], n, seed)

    # 4. model-led co-simulation (correspondence) + monitors on the common answers
    profile = dict(spec["profile"])
    profile["weights"] = spec["weights"]
    nh, length, workers = (spec.get("quick_histories", 120), 70, 4) if quick else (spec.get("thorough_histories", 6000), 160, 16)
    all_stats = Stats()
    divs, findings = [], []
    if not spec.get("skip_staking"):
        for b in builds:
            s, d, f = run_parallel(nh, seed, profile, length, b, "model", workers)
            all_stats.merge(s)
            divs += d
            findings += f
        # 5. implementation-led monitors (independent of the contract model)
        for b in builds:
            s2, _, f2 = run_parallel(max(nh // 2, 8), seed + 1, profile, length, b, "impl", workers)
            all_stats.merge(s2)
            findings += f2
    if "crossbuild" in spec.get("extra", []):
        from vlib.runner import cross_build
        cs, cd, cf = cross_build(40 if quick else 1500, seed + 7, profile, 50 if quick else 120)
        findings += cf
        all_stats.histories += cs["histories"]
        all_stats.calls += cs["calls"]
        notes["cross_build"] = cs
        divs += cd
    if "proto" in spec.get("extra", []):
        from vlib import protodiff
        ps_, pd = protodiff.run(6 if quick else 200, seed)
        all_stats.calls += ps_["evaluations"]
        all_stats.histories += ps_["types"]
        all_stats.signatures |= {("proto", i) for i in range(ps_["distinct"])}
        all_stats.samples = (ps_["samples"][:2] + all_stats.samples)[:3]
        notes["proto_differential"] = {k: v for k, v in ps_.items() if k != "samples"}
        for x in pd:
            divs.append({"seed": seed, "channel": "proto." + x["kind"], "detail": x, "events": []})
    if "migration" in spec.get("extra", []):
        from vlib import migdiff
        ms_, md, mf = migdiff.run((300 if pid in ("C18", "C16") else 120) if quick else (20000 if pid in ("C18", "C16") else 4000), seed)
        all_stats.histories += ms_["cases"]
        all_stats.calls += ms_["cases"]
        all_stats.signatures |= {("migrate", i) for i in range(ms_["signatures"])}
        all_stats.samples = (ms_["samples"][:2] + all_stats.samples)[:3]
        notes["migration_differential"] = {k: v for k, v in ms_.items() if k != "samples"}
        divs += md
        findings += mf
    if "treasury" in spec.get("extra", []):
        from vlib import treasury
        ts, td, tf = treasury.run(150 if quick else 4000, seed, 60 if quick else 120)
        all_stats.histories += ts["histories"]
        all_stats.calls += ts["calls"]
        all_stats.signatures |= {("treasury",) + x for x in ts["signatures"]}
        for k, v in ts["outcomes"].items():
            all_stats.by_outcome["treasury:" + k] = v
        all_stats.samples = (ts["samples"][:1] + all_stats.samples)[:3]
        divs += td
        findings += tf

    mine = [f for f in findings if f["property"] == pid]
    rel_divs = [d for d in divs if relevant(d, spec)]
    other_divs = [d for d in divs if not relevant(d, spec)]
    notes["irrelevant_divergences"] = [{"seed": d["seed"], "channel": d["channel"]} for d in other_divs][:10]
    notes["findings_for_other_properties"] = sorted({"%s:%s" % (f["property"], f["monitor"]) for f in findings if f["property"] != pid})

    known_hits = {}
    new = {}
    for f in mine:
        k = match_known(f, known)
        key = (f["monitor"], json.dumps(f["signature"], sort_keys=True))
        if k is not None:
            known_hits.setdefault(key, (k, f))
        else:
            new.setdefault(key, f)
    for (k, f) in known_hits.values():
        out_lines.append("KNOWN-FINDING: property=%s %s" % (pid, k["what"]))
    n = 0
    for key, f in new.items():
        n += 1
        path = write_replay(pid, "monitor", f["seed"], n, {"seed": f["seed"], "monitor": f["monitor"], "signature": f["signature"],
                                                            "what": f["what"], "failing_event": f["event"], "events": f["events"]})
        violations.append(("monitor", path, False))
    pure_soft = []
    for d in pure_divs:
        if d.get("missing"):
            # a helper that is no longer found under its name (renamed / moved): the direct differential of that helper is
            # skipped and noted; its behaviour is still compared through the entry points that use it
            notes.setdefault("helpers_not_found", []).append(d.get("fn"))
            continue
        if spec.get("pure_only_panics") and not (isinstance(d.get("impl"), dict) and "panic" in d["impl"]):
            pure_soft.append(d)       # a different typed result is not a failing input of this property
            continue
        n += 1
        path = write_replay(pid, "pure", seed, n, d)
        violations.append(("pure", path, False))
        new[("pure", n)] = d
    if pure_soft and not new:
        path = write_replay(pid, "correspondence", seed, 0, {"broken_theorem_or_stream": "pure-function correspondence (%s)" % pure_soft[0].get("fn"),
                                                              "detail": pure_soft[0], "others": len(pure_soft) - 1})
        violations.append(("correspondence", path, True))
    # a correspondence break that is itself a failing input of the property (e.g. bytes canonical under the
    # pinned protobuf definition that the bindings do not return, a non-canonical type URL)
    for d in rel_divs:
        det = d["detail"] if isinstance(d["detail"], dict) else {}
        if det.get("witness"):
            n += 1
            path = write_replay(pid, "witness", d["seed"], n, {"seed": d["seed"], "kind_of_input": det.get("kind"), "input": det,
                                                                "what": det.get("what", det.get("kind"))})
            violations.append(("witness", path, False))
            new[("witness", n)] = det
    # broken proof / correspondence with no monitor finding -> search, then report
    if proofs["broken"] and not new and not spec.get("skip_staking") and any(
            "Interface" in str(b_.get("file", "")) for b_ in proofs["broken"] if isinstance(b_, dict)):
        # the source declares a message the model does not cover: send it (fields filled by type, any sender) to the
        # real contract in implementation-led histories under the monitors
        sprofile = dict(profile)
        sprofile["weights"] = dict(spec["weights"], unknown=14, breaker=3, resume=3)
        s4, _, f4 = run_parallel(480 if quick else 4000, seed + 77, sprofile, length + 80, builds[0], "impl", 8 if quick else workers)
        all_stats.merge(s4)
        for f in f4:
            if f["property"] == pid and match_known(f, known) is None:
                key = (f["monitor"], json.dumps(f["signature"], sort_keys=True))
                if key not in new:
                    new[key] = f
                    n += 1
                    path = write_replay(pid, "monitor", f["seed"], n, {"seed": f["seed"], "monitor": f["monitor"], "signature": f["signature"],
                                                                        "what": f["what"], "failing_event": f["event"], "events": f["events"],
                                                                        "broken_theorem": proofs["broken"], "found_by": "search after the interface theorem broke"})
                    violations.append(("monitor", path, False))
    if proofs["broken"] and not new:
        path = write_replay(pid, "proof", seed, 0, {"broken_theorem_or_stream": proofs["broken"],
                                                     "searched": "model-led and implementation-led monitors over %d histories" % all_stats.histories})
        violations.append(("proof", path, True))
    if rel_divs and not new:
        # search: implementation-led histories biased toward the diverging handler
        GEN_OF = {"liquid_stake": ["stake"], "liquid_unstake": ["unstake"], "submit_batch": ["submit", "advance"],
                  "withdraw": ["withdraw", "deliver"], "receive_rewards": ["rewards"], "receive_unstaked_tokens": ["deliver"],
                  "recover_pending_ibc_transfers": ["recover", "timeout", "stake"], "resume_contract": ["resume", "unauthorized"],
                  "circuit_breaker": ["breaker"], "fee_withdraw": ["fee_withdraw", "rewards", "update_config"], "update_config": ["update_config"],
                  "transfer_ownership": ["ownership"], "accept_ownership": ["ownership", "advance"], "reply": ["stake", "ack"],
                  "sudo": ["ack", "timeout", "stray"]}
        boosted = dict(spec["weights"])
        for d in rel_divs[:3]:
            call = d["detail"].get("call", {}) if isinstance(d["detail"], dict) else {}
            var = monitors.variant(call.get("msg")) if call.get("entry") == "execute" else call.get("entry")
            for k in GEN_OF.get(var, []):
                boosted[k] = boosted.get(k, 5) * 4 + 20
        if not spec.get("skip_staking"):
            sprofile = dict(profile)
            sprofile["weights"] = boosted
            s3, _, f3 = run_parallel(400 if quick else 4000, seed + 99, sprofile, length + 30, builds[0], "impl", workers)
            all_stats.merge(s3)
            for f in f3:
                if f["property"] == pid and match_known(f, known) is None:
                    key = (f["monitor"], json.dumps(f["signature"], sort_keys=True))
                    if key not in new:
                        new[key] = f
                        n += 1
                        path = write_replay(pid, "monitor", f["seed"], n, {"seed": f["seed"], "monitor": f["monitor"], "signature": f["signature"],
                                                                            "what": f["what"], "failing_event": f["event"], "events": f["events"],
                                                                            "found_by": "search after correspondence break"})
                        violations.append(("monitor", path, False))
    if rel_divs and not new:
        found = None
        for d in rel_divs[:5]:
            if not d["events"] or "boot" not in d["events"][0] or "self" not in d["events"][0].get("boot", {}):
                continue
            try:
                fs = [f for f in replay_events(d["events"]) if f["property"] == pid and match_known(f, known) is None]
            except Exception as e:  # the replay itself may crash on a changed tree
                fs = []
                notes["replay_error"] = repr(e)
            if fs:
                found = (d, fs[0])
                break
        if found:
            d, f = found
            path = write_replay(pid, "monitor", d["seed"], 99, {"seed": d["seed"], "monitor": f["monitor"], "what": f["what"],
                                                                 "signature": f["signature"], "events": d["events"][:f["upto"]],
                                                                 "correspondence": {"channel": d["channel"], "detail": d["detail"]}})
            violations.append(("monitor", path, False))
        else:
            d = rel_divs[0]
            path = write_replay(pid, "correspondence", d["seed"], 0, {
                "seed": d["seed"], "broken_theorem_or_stream": "correspondence channel %s" % d["channel"],
                "detail": d["detail"], "events": d["events"]})
            violations.append(("correspondence", path, True))
    return finish(pid, tier, seed, t0, spec, proofs, all_stats, pure_stats, violations, out_lines, notes,
                  known_hits=[k["what"] for k, _ in known_hits.values()], divs=len(divs))


def finish(pid, tier, seed, t0, spec, proofs, stats, pure_stats, violations, out_lines, notes, known_hits=(), divs=0):
    wall = time.time() - t0
    cov = {
        "obligations": proofs["obligations"] if proofs else 0,
        "discharged": proofs["discharged"] if proofs else 0,
        "checker_cmd": "cd /verif/lean && lake build %s && lake env lean .audit/Audit_%s.lean  (#print axioms per theorem)" % (
            spec["module"], spec["module"].replace(".", "_")),
        "trusted_base": props.TRUSTED_BASE + spec.get("trusted_extra", []),
        "theorems": proofs["theorems"] if proofs else [],
        "axioms": proofs["axioms"] if proofs else {},
        "partial_theorems": proofs["partial"] if proofs else [],
        "broken": proofs["broken"] if proofs else [],
        "notes": notes,
    }
    if proofs and "leanchecker" in proofs:
        cov["leanchecker"] = proofs["leanchecker"]
    evaluations = 0
    distinct = 0
    samples = []
    if stats is not None:
        cov["traces_validated_against_impl"] = stats.histories
        cov["distribution"] = stats.as_dict()
        evaluations += stats.calls
        distinct += len(stats.signatures)
        samples += stats.samples[:2]
        cov["correspondence_divergences"] = divs
    if pure_stats is not None:
        cov["pure_differential"] = {k: v for k, v in pure_stats.items() if k != "samples"}
        evaluations += pure_stats["evaluations"]
        distinct += pure_stats["distinct"]
        samples += pure_stats["samples"][:2]
    cov["evaluations"] = evaluations
    cov["distinct_nontrivial"] = distinct
    cov["rule"] = ("co-simulation: distinct <handler, outcome, error kind or emitted message types> signatures among compared entry-point calls; "
                   "pure differential: distinct argument tuples")
    cov["samples"] = samples or [{"theorems": (proofs or {}).get("theorems", [])[:5]}]
    cov["known_findings_seen"] = list(known_hits)
    ev = {"property_id": pid, "tier": tier, "seed": seed, "level": "proof", "coverage": cov,
          "assumptions": spec["assumptions"], "wall_s": round(wall, 1), "violations": len(violations)}
    evdir = os.environ.get("MW_EVIDENCE_DIR") or os.path.join(ROOT, "evidence")   # tools/coverage.py redirects its runs
    os.makedirs(evdir, exist_ok=True)
    with open(os.path.join(evdir, pid + ".json"), "w") as f:
        json.dump(ev, f, indent=1, default=str)
    for l in out_lines:
        print(l)
    for kind, path, nofail in violations:
        print("VIOLATION property=%s replay=%s%s" % (pid, path, " no-failing-input-found" if nofail else ""))
    if proofs:
        print("%s: %d/%d theorems checked, %d histories, %d calls compared, %d divergences, %.0fs" % (
            pid, proofs["discharged"], proofs["obligations"], stats.histories if stats else 0, stats.calls if stats else 0, divs, wall))
    return 1 if violations else 0


def cmd_setup():
    t = time.time()
    g = subprocess.run([sys.executable, os.path.join(ROOT, "translator", "generate.py")], capture_output=True, text=True)
    print("translator:", (g.stdout + g.stderr).strip()[-300:])
    g2 = subprocess.run([sys.executable, os.path.join(ROOT, "translator", "interface.py")], capture_output=True, text=True)
    print("translator:", (g2.stdout + g2.stderr).strip()[-300:])
    hb = build_harness(("osmosis", "miniwasm"))
    for b, v in hb.items():
        print("harness[%s]: rc=%d %.0fs %s" % (b, v["rc"], v["wall_s"], v["tail"][-400:]))
    lb = build_lean()
    print("lean: rc=%d %.0fs %s" % (lb["rc"], lb["wall_s"], lb["tail"][-400:]))
    mods = sorted({s["module"] for s in props.P.values()})
    rc, out, dt = leancheck.lake_build(mods)
    print("props: rc=%d %.0fs" % (rc, dt))
    if rc:
        print(out[-2000:])
    print("setup done in %.0fs" % (time.time() - t))
    return 0 if (all(v["rc"] == 0 for v in hb.values()) and lb["rc"] == 0 and rc == 0) else 1


def main():
    ap = argparse.ArgumentParser()
    sub = ap.add_subparsers(dest="cmd")
    sub.add_parser("setup")
    c = sub.add_parser("check")
    c.add_argument("pid")
    c.add_argument("--tier", default=os.environ.get("VERIF_TIER", "quick"))
    c.add_argument("--seed", type=int, default=int(os.environ.get("VERIF_SEED", "1")))
    r = sub.add_parser("replay")
    r.add_argument("path")
    a = ap.parse_args()
    if a.cmd == "setup":
        sys.exit(cmd_setup())
    if a.cmd == "check":
        tier = a.tier if a.tier in ("quick", "thorough") else "quick"
        kind = props.P[a.pid].get("kind", "staking")
        if kind == "staking":
            try:
                rc = check(a.pid, tier, a.seed)
            except Exception:  # noqa: BLE001
                # the machinery itself failed on this tree (e.g. a reader met bytes it cannot interpret): the
                # property is not shown to hold; the replay names what broke
                import traceback
                tb = traceback.format_exc()
                path = write_replay(a.pid, "machinery", a.seed, 0, {"broken_theorem_or_stream": "the check crashed before reaching a verdict", "traceback": tb[-3000:]})
                evdir = os.environ.get("MW_EVIDENCE_DIR") or os.path.join(ROOT, "evidence")
                os.makedirs(evdir, exist_ok=True)
                json.dump({"property_id": a.pid, "tier": tier, "seed": a.seed, "level": "proof",
                           "coverage": {"obligations": 0, "discharged": 0, "evaluations": 0, "distinct_nontrivial": 0,
                                        "rule": "the check crashed; see the replay", "samples": [{"traceback": tb[-800:]}],
                                        "checker_cmd": "python3 run.py check %s" % a.pid, "trusted_base": props.TRUSTED_BASE,
                                        "theorems": [], "axioms": {}},
                           "wall_s": 0.0, "violations": 1}, open(os.path.join(evdir, a.pid + ".json"), "w"), indent=1)
                print("VIOLATION property=%s replay=%s no-failing-input-found" % (a.pid, path))
                rc = 1
            sys.exit(rc)
        from vlib import special
        sys.exit(special.check(a.pid, tier, a.seed))
    if a.cmd == "replay":
        rep = json.load(open(a.path))
        if "events" not in rep:
            print(json.dumps(rep, indent=1)[:4000])
            sys.exit(0)
        build_harness(("osmosis",))
        fs = replay_events(rep["events"])
        for f in fs:
            print("MONITOR %s/%s: %s" % (f["property"], f["monitor"], f["what"]))
        hit = [f for f in fs if f["property"] == rep["property"]]
        print("reproduced" if hit else "not reproduced")
        sys.exit(1 if hit else 0)
    ap.print_help()


if __name__ == "__main__":
    main()
