import MW.Basic
