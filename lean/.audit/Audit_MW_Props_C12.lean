import MW.Props.C12
#print axioms MW.Props.C12.nominate_ok
#print axioms MW.Props.C12.revoke_ok
#print axioms MW.Props.C12.accept_sound
#print axioms MW.Props.C12.accept_consumes
#print axioms MW.Props.C12.revoke_cancels
#print axioms MW.Props.C12.inv_boot
#print axioms MW.Props.C12.inv_step
#print axioms MW.Props.C12.inv_reach
#print axioms MW.Props.C12.admin_changes_only_by_accept
#print axioms MW.Props.C12.nomination_by_admin
#print axioms MW.Props.C12.renominate_restarts_clock
#print axioms MW.Props.C12.former_admin_loses_rights
#print axioms MW.Props.C12.staking_ownership_steps
#print axioms MW.Props.C12.treasury_runs_machine
