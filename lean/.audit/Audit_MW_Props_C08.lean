import MW.Props.C08
#print axioms MW.Props.C08.admin_only
#print axioms MW.Props.C08.breaker_auth
#print axioms MW.Props.C08.accept_auth
#print axioms MW.Props.C08.rewards_auth
#print axioms MW.Props.C08.unstaked_auth
#print axioms MW.Props.C08.withdraw_own
#print axioms MW.Props.C08.former_admin_powerless
#print axioms MW.Props.C08.failed_tx_changes_nothing
#print axioms MW.Props.C08.success_was_authorized
#print axioms MW.Props.C08.unauthorized_tx_without_effect
#print axioms MW.Props.C08.matrix_covers_source_interface
