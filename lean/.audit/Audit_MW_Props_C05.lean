import MW.Props.C05
#print axioms MW.Props.C05.findReq_removeReq
#print axioms MW.Props.C05.findReq_removeReq_other
#print axioms MW.Props.C05.withdraw_pays
#print axioms MW.Props.C05.withdraw_once
#print axioms MW.Props.C05.withdraw_without_request
#print axioms MW.Props.C05.withdraw_frame_others
#print axioms MW.Props.C05.findReq_setReqAmount
#print axioms MW.Props.C05.findReq_append_new
#print axioms MW.Props.C05.unstake_accumulates
#print axioms MW.Props.C05.sum_floor_le
#print axioms MW.Props.C05.payouts_le_received
#print axioms MW.Props.C05.batch_total_is_sum
#print axioms MW.Props.C05.single_payout_bounded
#print axioms MW.Props.C05.payouts_every_history
#print axioms MW.Props.C05.no_request_no_payout
#print axioms MW.Props.C05.withdraw_tx_pays
#print axioms MW.Props.C05.messages_are_the_modelled_ones
