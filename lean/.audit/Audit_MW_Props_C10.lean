import MW.Props.C10
#print axioms MW.Props.C10.boot_halted
#print axioms MW.Props.C10.halted_blocks
#print axioms MW.Props.C10.breaker_frame
#print axioms MW.Props.C10.resume_exact
#print axioms MW.Props.C10.halted_tx_without_effect
#print axioms MW.Props.C10.halted_hook_without_effect
#print axioms MW.Props.C10.breaker_tx_exact
#print axioms MW.Props.C10.resume_tx_exact
#print axioms MW.Props.C10.breaker_succeeds_for_admin_and_monitors
#print axioms MW.Props.C10.flag_changes_only_by
#print axioms MW.Props.C10.callbacks_keep_config
#print axioms MW.Props.C10.C10_flag_step
#print axioms MW.Props.C10.C10_flag_history
#print axioms MW.Props.C10.value_moving_are_source_messages
