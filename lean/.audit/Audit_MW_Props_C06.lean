import MW.Props.C06
#print axioms MW.Props.C06.lifecycle_inv
#print axioms MW.Props.C06.submit_sound
#print axioms MW.Props.C06.submit_fails_only_for
#print axioms MW.Props.C06.expected_le_total
#print axioms MW.Props.C06.batch_evolution
#print axioms MW.Props.C06.callbacks_leave_batches
#print axioms MW.Props.C06.expected_immutable
#print axioms MW.Props.C06.lifecycle_every_world_history
#print axioms MW.Props.C06.received_only_by_staker_world
#print axioms MW.Props.C06.messages_are_the_modelled_ones
