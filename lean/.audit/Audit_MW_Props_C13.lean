import MW.Props.C13
#print axioms MW.Props.C13.routeAllowed_iff
#print axioms MW.Props.C13.swap_in_sound
#print axioms MW.Props.C13.swap_out_sound
#print axioms MW.Props.C13.not_allowed_rejected
#print axioms MW.Props.C13.spend_sound
#print axioms MW.Props.C13.update_config_sound
#print axioms MW.Props.C13.swap_in_wire
#print axioms MW.Props.C13.swap_out_wire
#print axioms MW.Props.C13.config_changes_only_by_update
#print axioms MW.Props.C13.treasury_interface_is_modelled
