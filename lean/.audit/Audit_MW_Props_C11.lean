import MW.Props.C11
#print axioms MW.Props.C11.checkedMulRatio_some
#print axioms MW.Props.C11.reward_split
#print axioms MW.Props.C11.reward_refused_no_lst
#print axioms MW.Props.C11.reward_refused_fee_exceeds
#print axioms MW.Props.C11.fee_withdraw
#print axioms MW.Props.C11.C11_split_world
#print axioms MW.Props.C11.C11_fee_withdraw_world
#print axioms MW.Props.C11.messages_are_the_modelled_ones
#print axioms MW.Props.C11.C11_fee_ledger
#print axioms MW.Props.C11.C11_withdrawn_le_accrued
#print axioms MW.Props.C11.fee_balance_moves_only_by
