import MW.Props.C04
#print axioms MW.Props.C04.mint_eq_floor
#print axioms MW.Props.C04.unbond_eq_floor
#print axioms MW.Props.C04.mint_fails_only_on_overflow
#print axioms MW.Props.C04.stake_guards
#print axioms MW.Props.C04.stake_no_dilution
#print axioms MW.Props.C04.submit_no_dilution
#print axioms MW.Props.C04.unbond_le_total
#print axioms MW.Props.C04.roundtrip_no_profit
#print axioms MW.Props.C04.messages_are_the_modelled_ones
