import MW.Props.C04
#print axioms MW.Props.C04.mint_eq_floor
#print axioms MW.Props.C04.unbond_eq_floor
#print axioms MW.Props.C04.mint_fails_only_on_overflow
#print axioms MW.Props.C04.stake_guards
#print axioms MW.Props.C04.stake_no_dilution
#print axioms MW.Props.C04.submit_no_dilution
#print axioms MW.Props.C04.unbond_le_total
#print axioms MW.Props.C04.roundtrip_no_profit
#print axioms MW.Props.C04.RateLe.refl
#print axioms MW.Props.C04.execute_rate
#print axioms MW.Props.C04.runExec_rate
#print axioms MW.Props.C04.step_rate
#print axioms MW.Props.C04.RateLe.trans
#print axioms MW.Props.C04.C04_rate_history
#print axioms MW.Props.C04.messages_are_the_modelled_ones
