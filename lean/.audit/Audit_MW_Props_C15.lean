import MW.Props.C15
#print axioms MW.Props.C15.getRates_congr
#print axioms MW.Props.C15.getRates_spec
#print axioms MW.Props.C15.oracle_msgs_some
#print axioms MW.Props.C15.oracle_msgs_none
#print axioms MW.Props.C15.stake_posts_post_rates
#print axioms MW.Props.C15.submit_posts_post_rates
#print axioms MW.Props.C15.rewards_posts_post_rates
#print axioms MW.Props.C15.resume_posts_post_rates
#print axioms MW.Props.C15.withdraw_posts_post_rates
#print axioms MW.Props.C15.every_total_change_posts
#print axioms MW.Props.C15.state_query_rate
#print axioms MW.Props.C15.no_oracle_posts_nothing
#print axioms MW.Props.C15.resume_succeeds_without_oracle
#print axioms MW.Props.C15.oracle_optional
#print axioms MW.Props.C15.oracle_optional_posts_nothing
#print axioms MW.Props.C15.messages_are_the_modelled_ones
