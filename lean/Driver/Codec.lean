import Lean.Data.Json
import MW.Chain.World
import MW.Proto.Msgs
import MW.Treasury.Model
import MW.Staking.Migrate
/-!
# JSON glue of the model driver: serde forms of the contract messages in, canonical results out.
Not part of the verified model; part of the correspondence machinery (trusted base).
-/
open Lean MW MW.Staking MW.Chain

namespace Driver

abbrev P := Except String

def optField (j : Json) (k : String) : Option Json :=
  match j.getObjVal? k with
  | .ok .null => none
  | .ok v => some v
  | .error _ => none

def reqField (j : Json) (k : String) : P Json :=
  match j.getObjVal? k with
  | .ok v => .ok v
  | .error _ => .error s!"missing field {k}"

def asStr (j : Json) : P String :=
  match j with
  | .str s => .ok s
  | _ => .error "expected string"

def asNatNum (j : Json) (max : Nat) : P Nat :=
  match j.getNat? with
  | .ok n => if n ≤ max then .ok n else .error "number out of range"
  | .error _ => .error "expected unsigned number"

def asU64 (j : Json) : P Nat := asNatNum j U64.max
def asU32 (j : Json) : P Nat := asNatNum j U32.max

/-- `Uint128` travels as a decimal string (`u128::from_str`: optional leading `+`) -/
def asU128 (j : Json) : P Nat := do
  let s ← asStr j
  let cs := s.toList
  let ds := match cs with | '+' :: r => r | _ => cs
  if ds.isEmpty || !(ds.all Char.isDigit) then throw "bad Uint128"
  let v := ds.foldl (fun a c => a * 10 + (c.toNat - '0'.toNat)) 0
  if v ≤ U128.max then pure v else throw "Uint128 overflow"

/-- plain `u128` in serde-json-wasm also travels as a string -/
def asBool (j : Json) : P Bool :=
  match j with
  | .bool b => .ok b
  | _ => .error "expected bool"

def asArr (j : Json) : P (Array Json) :=
  match j with
  | .arr a => .ok a
  | _ => .error "expected array"

def optMap {α} (j : Json) (k : String) (f : Json → P α) : P (Option α) :=
  match optField j k with
  | none => .ok none
  | some v => (f v).map some

def strList (j : Json) : P (List String) := do
  let a ← asArr j
  a.toList.mapM asStr

/-- `deny_unknown_fields` -/
def onlyFields (j : Json) (allowed : List String) : P Unit :=
  match j with
  | .obj kvs =>
    if kvs.toList.all (fun (k, _) => allowed.contains k) then .ok () else .error "unknown field"
  | _ => .error "expected object"

def parseCoin (j : Json) : P Coin := do
  let d ← (← reqField j "denom") |> asStr
  let a ← (← reqField j "amount") |> asU128
  pure ⟨d, a⟩

def parseCoins (j : Json) : P (List Coin) := do
  let a ← asArr j
  a.toList.mapM parseCoin

def parseUnsafeNative (j : Json) : P UnsafeNative := do
  onlyFields j ["account_address_prefix", "validator_address_prefix", "token_denom", "validators",
                "unbonding_period", "staker_address", "reward_collector_address"]
  pure {
    accountPrefix := ← (← reqField j "account_address_prefix") |> asStr
    validatorPrefix := ← (← reqField j "validator_address_prefix") |> asStr
    tokenDenom := ← (← reqField j "token_denom") |> asStr
    validators := ← (← reqField j "validators") |> strList
    unbondingPeriod := ← (← reqField j "unbonding_period") |> asU64
    staker := ← (← reqField j "staker_address") |> asStr
    rewardCollector := ← (← reqField j "reward_collector_address") |> asStr }

def parseUnsafeProto (j : Json) : P UnsafeProto := do
  onlyFields j ["account_address_prefix", "ibc_token_denom", "ibc_channel_id",
                "minimum_liquid_stake_amount", "oracle_address"]
  pure {
    accountPrefix := ← (← reqField j "account_address_prefix") |> asStr
    ibcDenom := ← (← reqField j "ibc_token_denom") |> asStr
    channel := ← (← reqField j "ibc_channel_id") |> asStr
    minStake := ← (← reqField j "minimum_liquid_stake_amount") |> asU128
    oracle := ← optMap j "oracle_address" asStr }

def parseUnsafeFee (j : Json) : P UnsafeFee := do
  onlyFields j ["dao_treasury_fee", "treasury_address"]
  pure {
    fee := ← (← reqField j "dao_treasury_fee") |> asU128
    treasury := ← optMap j "treasury_address" asStr }

def parseInstantiate (j : Json) : P InstantiateMsg := do
  onlyFields j ["native_chain_config", "protocol_chain_config", "protocol_fee_config",
                "liquid_stake_token_denom", "batch_period", "monitors"]
  pure {
    native := ← (← reqField j "native_chain_config") |> parseUnsafeNative
    proto := ← (← reqField j "protocol_chain_config") |> parseUnsafeProto
    feeCfg := ← (← reqField j "protocol_fee_config") |> parseUnsafeFee
    lstSubdenom := ← (← reqField j "liquid_stake_token_denom") |> asStr
    batchPeriod := ← (← reqField j "batch_period") |> asU64
    monitors := ← (← reqField j "monitors") |> strList }

/-- the single-key object of an externally tagged serde enum -/
def variant (j : Json) : P (String × Json) :=
  match j with
  | .obj kvs =>
    match kvs.toList with
    | [(k, v)] => .ok (k, v)
    | _ => .error "expected single-variant object"
  | _ => .error "expected object"

def parseExec (j : Json) : P ExecMsg := do
  let (k, v) ← variant j
  match k with
  | "liquid_stake" => do
    onlyFields v ["mint_to", "transfer_to_native_chain", "expected_mint_amount"]
    pure (.liquidStake (← optMap v "mint_to" asStr) (← optMap v "transfer_to_native_chain" asBool)
      (← optMap v "expected_mint_amount" asU128))
  | "liquid_unstake" => do onlyFields v []; pure .liquidUnstake
  | "submit_batch" => do onlyFields v []; pure .submitBatch
  | "withdraw" => do onlyFields v ["batch_id"]; pure (.withdraw (← (← reqField v "batch_id") |> asU64))
  | "add_validator" => do onlyFields v ["new_validator"]; pure (.addValidator (← (← reqField v "new_validator") |> asStr))
  | "remove_validator" => do onlyFields v ["validator"]; pure (.removeValidator (← (← reqField v "validator") |> asStr))
  | "transfer_ownership" => do onlyFields v ["new_owner"]; pure (.transferOwnership (← (← reqField v "new_owner") |> asStr))
  | "accept_ownership" => do onlyFields v []; pure .acceptOwnership
  | "revoke_ownership_transfer" => do onlyFields v []; pure .revokeOwnershipTransfer
  | "update_config" => do
    onlyFields v ["native_chain_config", "protocol_chain_config", "protocol_fee_config", "monitors", "batch_period"]
    pure (.updateConfig (← optMap v "native_chain_config" parseUnsafeNative)
      (← optMap v "protocol_chain_config" parseUnsafeProto)
      (← optMap v "protocol_fee_config" parseUnsafeFee)
      (← optMap v "monitors" strList) (← optMap v "batch_period" asU64))
  | "receive_rewards" => do onlyFields v []; pure .receiveRewards
  | "receive_unstaked_tokens" => do
    onlyFields v ["batch_id"]; pure (.receiveUnstakedTokens (← (← reqField v "batch_id") |> asU64))
  | "circuit_breaker" => do onlyFields v []; pure .circuitBreaker
  | "resume_contract" => do
    onlyFields v ["total_native_token", "total_liquid_stake_token", "total_reward_amount"]
    pure (.resumeContract (← (← reqField v "total_native_token") |> asU128)
      (← (← reqField v "total_liquid_stake_token") |> asU128)
      (← (← reqField v "total_reward_amount") |> asU128))
  | "recover_pending_ibc_transfers" => do
    onlyFields v ["paginated", "selected_packets", "receiver"]
    pure (.recover (← optMap v "paginated" asBool)
      (← optMap v "selected_packets" (fun x => do let a ← asArr x; a.toList.mapM asU64))
      (← optMap v "receiver" asStr))
  | "fee_withdraw" => do onlyFields v ["amount"]; pure (.feeWithdraw (← (← reqField v "amount") |> asU128))
  | _ => throw s!"unknown variant {k}"

/-! ## output -/

def jNat (n : Nat) : Json := Json.num (JsonNumber.fromNat n)
def jStrNat (n : Nat) : Json := Json.str (toString n)
def jOpt {α} (f : α → Json) : Option α → Json
  | none => .null
  | some a => f a
def jCoin (c : Coin) : Json := Json.mkObj [("denom", .str c.denom), ("amount", jStrNat c.amount)]

def jSubMsg (build : Build) (m : SubMsg) : Json :=
  let base : List (String × Json) := [("id", jNat m.id), ("reply_on", Json.str (if m.replyAlways then "always" else "never"))]
  match m.msg with
  | .bankSend to coins =>
    Json.mkObj (base ++ [("kind", Json.str "bank_send"), ("to", Json.str to), ("amount", Json.arr (coins.map jCoin).toArray)])
  | other =>
    match MW.Proto.encodeMsg build other with
    | some (url, bytes) =>
      Json.mkObj (base ++ [("kind", Json.str "stargate"), ("type_url", Json.str url), ("value", Json.str (MW.Proto.toHex bytes))])
    | none => Json.mkObj (base ++ [("kind", Json.str "unknown")])

def jErr (e : Err) : Json :=
  match e with
  | .panic site => Json.mkObj [("panic", .str site)]
  | _ => Json.mkObj [("err", Json.mkObj [("kind", .str e.kind)])]

def jResult (build : Build) (r : R (List SubMsg)) : Json :=
  match r with
  | .ok msgs => Json.mkObj [("ok", Json.mkObj [("msgs", Json.arr (msgs.map (jSubMsg build)).toArray)])]
  | .error e => jErr e

def jQ {α} (f : α → Json) (r : R α) : Json :=
  match r with
  | .ok a => Json.mkObj [("ok", f a)]
  | .error e => jErr e

def jConfig (c : Config) : Json :=
  Json.mkObj [
    ("native_chain_config", Json.mkObj [
      ("account_address_prefix", .str c.native.accountPrefix),
      ("validator_address_prefix", .str c.native.validatorPrefix),
      ("token_denom", .str c.native.tokenDenom),
      ("validators", Json.arr (c.native.validators.map Json.str).toArray),
      ("unbonding_period", jNat c.native.unbondingPeriod),
      ("staker_address", .str c.native.staker),
      ("reward_collector_address", .str c.native.rewardCollector)]),
    ("protocol_chain_config", Json.mkObj [
      ("account_address_prefix", .str c.proto.accountPrefix),
      ("ibc_channel_id", .str c.proto.channel),
      ("ibc_token_denom", .str c.proto.ibcDenom),
      ("minimum_liquid_stake_amount", jStrNat c.proto.minStake),
      ("oracle_address", jOpt Json.str c.proto.oracle)]),
    ("protocol_fee_config", Json.mkObj [
      ("dao_treasury_fee", jStrNat c.feeCfg.fee),
      ("treasury_address", jOpt Json.str c.feeCfg.treasury)]),
    ("liquid_stake_token_denom", .str c.lstDenom),
    ("monitors", Json.arr (c.monitors.map Json.str).toArray),
    ("batch_period", jNat c.batchPeriod),
    ("stopped", .bool c.stopped)]

def jStateResp (s : StateResp) : Json :=
  Json.mkObj [
    ("total_native_token", jStrNat s.totalNative),
    ("total_liquid_stake_token", jStrNat s.totalLst),
    ("rate", .str (decimalToString s.rate)),
    ("pending_owner", .str s.pendingOwner),
    ("total_reward_amount", jStrNat s.totalReward),
    ("total_fees", jStrNat s.totalFees)]

def jBatchResp (b : BatchResp) : Json :=
  Json.mkObj [
    ("id", jNat b.id),
    ("batch_total_liquid_stake", jStrNat b.total),
    ("expected_native_unstaked", jStrNat b.expected),
    ("received_native_unstaked", jStrNat b.received),
    ("unstake_request_count", jNat b.reqCount),
    ("next_batch_action_time", jStrNat b.nextActionNs),
    ("status", .str b.status)]

def jBatches (bs : List BatchResp) : Json := Json.mkObj [("batches", Json.arr (bs.map jBatchResp).toArray)]

def jPacket (p : Packet) : Json :=
  Json.mkObj [("sequence", jNat p.seq), ("amount", jCoin p.coin), ("receiver", .str p.receiver),
              ("status", .str p.status.asStr)]

def jWaiting (w : Waiting) : Json := Json.mkObj [("amount", jCoin w.coin), ("receiver", .str w.receiver)]

def jReq (r : Req) : Json :=
  Json.mkObj [("batch_id", jNat r.batch), ("user", .str r.user), ("amount", jStrNat r.amount)]

def parseStatus (j : Json) : P BatchStatus := do
  match (← asStr j) with
  | "Pending" => pure .pending
  | "Submitted" => pure .submitted
  | "Received" => pure .received
  | _ => throw "bad status"

/-- answer a `QueryMsg` from the model -/
def answerQuery (s : CState) (j : Json) : Json :=
  match variant j with
  | .error _ => jErr .parse
  | .ok (k, v) =>
    let r : P Json := do
      match k with
      | "config" => do onlyFields v []; pure (Json.mkObj [("ok", jConfig s.config)])
      | "state" => do onlyFields v []; pure (jQ jStateResp (queryState s))
      | "batch" => do
        onlyFields v ["id"]
        pure (jQ jBatchResp (queryBatch s (← (← reqField v "id") |> asU64)))
      | "batches" => do
        onlyFields v ["start_after", "limit", "status"]
        pure (jQ jBatches (queryBatches s (← optMap v "start_after" asU64) (← optMap v "limit" asU32)
          (← optMap v "status" parseStatus)))
      | "batches_by_ids" => do
        onlyFields v ["ids"]
        let ids ← (← asArr (← reqField v "ids")).toList.mapM asU64
        pure (jQ jBatches (queryBatchesByIds s ids))
      | "pending_batch" => do onlyFields v []; pure (jQ jBatchResp (queryPendingBatch s))
      | "unstake_requests" => do
        onlyFields v ["user"]
        let u ← (← reqField v "user") |> asStr
        pure (Json.mkObj [("ok", Json.arr ((queryUnstakeRequests s u).map jReq).toArray)])
      | "all_unstake_requests" => do
        onlyFields v ["start_after", "limit"]
        let rs := queryAllRequests s (← optMap v "start_after" asU64) (← optMap v "limit" asU32)
        pure (Json.mkObj [("ok", Json.arr (rs.map jReq).toArray)])
      | "all_unstake_requests_v2" => do
        onlyFields v ["start_after", "limit"]
        let rs := queryAllRequests s (← optMap v "start_after" asU64) (← optMap v "limit" asU32)
        pure (Json.mkObj [("ok", Json.arr (rs.map fun r => Json.arr #[.str r.user, jNat r.batch, jStrNat r.amount]).toArray)])
      | "ibc_queue" => do
        onlyFields v ["start_after", "limit"]
        let ps := queryIbcQueue s (← optMap v "start_after" asU64) (← optMap v "limit" asU32)
        pure (Json.mkObj [("ok", Json.mkObj [("ibc_queue", Json.arr (ps.map jPacket).toArray)])])
      | "ibc_reply_queue" => do
        onlyFields v ["start_after", "limit"]
        let ps := queryReplyQueue s (← optMap v "start_after" asU64) (← optMap v "limit" asU32)
        pure (Json.mkObj [("ok", Json.mkObj [("ibc_queue", Json.arr (ps.map jWaiting).toArray)])])
      | _ => throw "unmodelled query"
    match r with
    | .ok j => j
    | .error "unmodelled query" => Json.mkObj [("unmodelled", .bool true)]
    | .error _ => jErr .parse

def dumpContract (s : CState) (users : List String) : Json :=
  let q (m : Json) := answerQuery s m
  let e := Json.mkObj []
  Json.mkObj [
    ("config", q (Json.mkObj [("config", e)])),
    ("state", q (Json.mkObj [("state", e)])),
    ("batches", q (Json.mkObj [("batches", Json.mkObj [("start_after", .null), ("limit", .null), ("status", .null)])])),
    ("pending", q (Json.mkObj [("pending_batch", e)])),
    ("ibc_queue", q (Json.mkObj [("ibc_queue", Json.mkObj [("start_after", .null), ("limit", .null)])])),
    ("reply_queue", q (Json.mkObj [("ibc_reply_queue", Json.mkObj [("start_after", .null), ("limit", .null)])])),
    ("requests", Json.mkObj (users.map fun u => (u, q (Json.mkObj [("unstake_requests", Json.mkObj [("user", .str u)])])))),
    ("admin", jOpt Json.str s.admin),
    ("owner_min_time", jOpt jStrNat s.st.ownerMinTime),
    ("pending_owner", jOpt Json.str s.st.pendingOwner),
    ("version", Json.mkObj [("contract", .str s.version.1), ("version", .str s.version.2)]),
    ("raw_totals", Json.mkObj [("total_native_token", jStrNat s.st.totalNative),
      ("total_liquid_stake_token", jStrNat s.st.totalLst), ("total_reward_amount", jStrNat s.st.totalReward),
      ("total_fees", jStrNat s.st.totalFees)])]

def jPktState : PktState → String
  | .pending => "pending" | .delivered => "delivered" | .refunded => "refunded"

def dumpLedger (w : World) (accounts denoms : List String) : Json :=
  Json.mkObj [
    ("bal", Json.mkObj (accounts.map fun a => (a, Json.mkObj (denoms.map fun d => (d, jStrNat (w.bal a d)))))),
    ("remote", Json.mkObj (accounts.map fun a => (a, Json.mkObj (denoms.map fun d => (d, jStrNat (w.remote a d)))))),
    ("supply", Json.mkObj (denoms.map fun d => (d, jStrNat (w.supply d)))),
    ("pkts", Json.arr (w.pkts.map fun p => Json.mkObj [
        ("seq", jNat p.seq), ("channel", .str p.channel), ("sender", .str p.sender), ("receiver", .str p.receiver),
        ("coin", jCoin p.coin), ("state", .str (jPktState p.state))]).toArray),
    ("next_seq", jNat w.nextSeq), ("time", jStrNat w.timeNs), ("height", jNat w.height)]

def jReplyIn : ReplyResult → Json
  | .ok seq => Json.mkObj [("ok", jNat seq)]
  | .okNoData => Json.mkObj [("ok_nodata", .bool true)]
  | .okBadData => Json.mkObj [("ok_raw", .str "ff")]
  | .err => Json.mkObj [("err", .str "submission failed")]

def jSudo : SudoMsg → Json
  | .ack ch seq ok => Json.mkObj [("ibc_lifecycle_complete", Json.mkObj [("ibc_ack", Json.mkObj [
      ("channel", .str ch), ("sequence", jNat seq), ("ack", .str ""), ("success", .bool ok)])])]
  | .timeout ch seq => Json.mkObj [("ibc_lifecycle_complete", Json.mkObj [("ibc_timeout", Json.mkObj [
      ("channel", .str ch), ("sequence", jNat seq)])])]

/-! ## treasury -/
open MW.Treasury in
def parseRoute (j : Json) : P SwapRoute := do
  onlyFields j ["pool_id", "token_in_denom", "token_out_denom"]
  pure { poolId := ← (← reqField j "pool_id") |> asU64
         tokenIn := ← (← reqField j "token_in_denom") |> asStr
         tokenOut := ← (← reqField j "token_out_denom") |> asStr }

open MW.Treasury in
def parseRoutes (j : Json) : P (List SwapRoute) := do
  (← asArr j).toList.mapM parseRoute

open MW.Treasury in
def parseRoutesList (j : Json) : P (List (List SwapRoute)) := do
  (← asArr j).toList.mapM parseRoutes

def parseCoinStrict (j : Json) : P Coin := do
  onlyFields j ["denom", "amount"]
  parseCoin j

open MW.Treasury in
def parseTInstantiate (j : Json) : P TInstantiate := do
  onlyFields j ["admin", "trader", "allowed_swap_routes"]
  pure { admin := ← optMap j "admin" asStr, trader := ← optMap j "trader" asStr,
         routes := ← (← reqField j "allowed_swap_routes") |> parseRoutesList }

open MW.Treasury in
def parseTExec (j : Json) : P TExec := do
  let (k, v) ← variant j
  match k with
  | "transfer_ownership" => do onlyFields v ["new_owner"]; pure (.transferOwnership (← (← reqField v "new_owner") |> asStr))
  | "accept_ownership" => do onlyFields v []; pure .acceptOwnership
  | "revoke_ownership_transfer" => do onlyFields v []; pure .revokeOwnershipTransfer
  | "spend_funds" => do
    onlyFields v ["amount", "receiver", "channel_id"]
    pure (.spendFunds (← (← reqField v "amount") |> parseCoinStrict) (← (← reqField v "receiver") |> asStr)
      (← optMap v "channel_id" asStr))
  | "swap_exact_amount_in" => do
    onlyFields v ["routes", "token_in", "token_out_min_amount"]
    pure (.swapIn (← (← reqField v "routes") |> parseRoutes) (← (← reqField v "token_in") |> parseCoinStrict)
      (← (← reqField v "token_out_min_amount") |> asU128))
  | "swap_exact_amount_out" => do
    onlyFields v ["routes", "token_out", "token_in_max_amount"]
    pure (.swapOut (← (← reqField v "routes") |> parseRoutes) (← (← reqField v "token_out") |> parseCoinStrict)
      (← (← reqField v "token_in_max_amount") |> asU128))
  | "update_config" => do
    onlyFields v ["trader", "allowed_swap_routes"]
    pure (.updateConfig (← optMap v "trader" asStr) (← optMap v "allowed_swap_routes" parseRoutesList))
  | _ => throw s!"unknown variant {k}"

open MW.Treasury in
def jRoute (r : SwapRoute) : Json :=
  Json.mkObj [("pool_id", jNat r.poolId), ("token_in_denom", .str r.tokenIn), ("token_out_denom", .str r.tokenOut)]

open MW.Treasury in
def dumpTreasury (s : TState) : Json :=
  let cfgJ : Json := match queryConfig s with
    | .ok (a, t, rs) => Json.mkObj [("ok", Json.mkObj [("admin", .str a), ("trader", .str t),
        ("allowed_swap_routes", Json.arr (rs.map fun r => Json.arr (r.map jRoute).toArray).toArray)])]
    | .error e => jErr e
  Json.mkObj [("config", cfgJ), ("admin", jOpt Json.str s.own.admin), ("pending_owner", jOpt Json.str s.own.pending),
              ("owner_min_time", jOpt jStrNat s.own.minTime),
              ("version", Json.mkObj [("contract", .str s.version.1), ("version", .str s.version.2)])]

/-! ## migrations -/

def optStrList (j : Json) (k : String) : P (Option (List String)) := optMap j k strList

def parseStatusPkt (j : Json) : P PktStatus := do
  match (← asStr j) with
  | "sent" => pure .sent
  | "ack_success" => pure .ackSuccess
  | "ack_failure" => pure .ackFailure
  | "timed_out" => pure .timedOut
  | _ => throw "bad packet status"

def parseCfg0418 (j : Json) : P Cfg0418 := do
  let pf ← reqField j "protocol_fee_config"
  let ma ← reqField j "multisig_address_config"
  pure { nativeTokenDenom := ← (← reqField j "native_token_denom") |> asStr
         lstDenom := ← (← reqField j "liquid_stake_token_denom") |> asStr
         treasury := ← (← reqField j "treasury_address") |> asStr
         operators := ← optStrList j "operators"
         monitors := ← optStrList j "monitors"
         validators := ← (← reqField j "validators") |> strList
         batchPeriod := ← (← reqField j "batch_period") |> asU64
         unbondingPeriod := ← (← reqField j "unbonding_period") |> asU64
         fee := ← (← reqField pf "dao_treasury_fee") |> asU128
         staker := ← (← reqField ma "staker_address") |> asStr
         rewardCollector := ← (← reqField ma "reward_collector_address") |> asStr
         minStake := ← (← reqField j "minimum_liquid_stake_amount") |> asU128
         channel := ← (← reqField j "ibc_channel_id") |> asStr
         stopped := ← (← reqField j "stopped") |> asBool
         oracleContract := ← optMap j "oracle_contract_address" asStr
         oracleContractV2 := ← optMap j "oracle_contract_address_v2" asStr
         oracle := ← optMap j "oracle_address" asStr }

def parseCfg0420 (j : Json) : P Cfg0420 := do
  let pf ← reqField j "protocol_fee_config"
  let ma ← reqField j "multisig_address_config"
  pure { nativeTokenDenom := ← (← reqField j "native_token_denom") |> asStr
         lstDenom := ← (← reqField j "liquid_stake_token_denom") |> asStr
         treasury := ← (← reqField j "treasury_address") |> asStr
         monitors := ← optStrList j "monitors"
         validators := ← (← reqField j "validators") |> strList
         batchPeriod := ← (← reqField j "batch_period") |> asU64
         unbondingPeriod := ← (← reqField j "unbonding_period") |> asU64
         fee := ← (← reqField pf "dao_treasury_fee") |> asU128
         staker := ← (← reqField ma "staker_address") |> asStr
         rewardCollector := ← (← reqField ma "reward_collector_address") |> asStr
         minStake := ← (← reqField j "minimum_liquid_stake_amount") |> asU128
         channel := ← (← reqField j "ibc_channel_id") |> asStr
         stopped := ← (← reqField j "stopped") |> asBool
         oracle := ← optMap j "oracle_address" asStr
         sendFeesToTreasury := ← (← reqField j "send_fees_to_treasury") |> asBool }

def parseCfgCur (j : Json) : P Config := do
  let n ← reqField j "native_chain_config"
  let p ← reqField j "protocol_chain_config"
  let f ← reqField j "protocol_fee_config"
  pure { native := { accountPrefix := ← (← reqField n "account_address_prefix") |> asStr
                     validatorPrefix := ← (← reqField n "validator_address_prefix") |> asStr
                     tokenDenom := ← (← reqField n "token_denom") |> asStr
                     validators := ← (← reqField n "validators") |> strList
                     unbondingPeriod := ← (← reqField n "unbonding_period") |> asU64
                     staker := ← (← reqField n "staker_address") |> asStr
                     rewardCollector := ← (← reqField n "reward_collector_address") |> asStr }
         proto := { accountPrefix := ← (← reqField p "account_address_prefix") |> asStr
                    channel := ← (← reqField p "ibc_channel_id") |> asStr
                    ibcDenom := ← (← reqField p "ibc_token_denom") |> asStr
                    minStake := ← (← reqField p "minimum_liquid_stake_amount") |> asU128
                    oracle := ← optMap p "oracle_address" asStr }
         feeCfg := { fee := ← (← reqField f "dao_treasury_fee") |> asU128, treasury := ← optMap f "treasury_address" asStr }
         lstDenom := ← (← reqField j "liquid_stake_token_denom") |> asStr
         monitors := ← (← reqField j "monitors") |> strList
         batchPeriod := ← (← reqField j "batch_period") |> asU64
         stopped := ← (← reqField j "stopped") |> asBool }

def jCfg0420 (c : Cfg0420) : Json :=
  Json.mkObj [("native_token_denom", .str c.nativeTokenDenom), ("liquid_stake_token_denom", .str c.lstDenom),
    ("treasury_address", .str c.treasury), ("monitors", jOpt (fun l => Json.arr (l.map Json.str).toArray) c.monitors),
    ("validators", Json.arr (c.validators.map Json.str).toArray), ("batch_period", jNat c.batchPeriod),
    ("unbonding_period", jNat c.unbondingPeriod),
    ("protocol_fee_config", Json.mkObj [("dao_treasury_fee", jStrNat c.fee)]),
    ("multisig_address_config", Json.mkObj [("staker_address", .str c.staker), ("reward_collector_address", .str c.rewardCollector)]),
    ("minimum_liquid_stake_amount", jStrNat c.minStake), ("ibc_channel_id", .str c.channel), ("stopped", .bool c.stopped),
    ("oracle_address", jOpt Json.str c.oracle), ("send_fees_to_treasury", .bool c.sendFeesToTreasury)]

def parseMigrateMsg (j : Json) : P MigrateMsg := do
  let (k, v) ← variant j
  match k with
  | "v0_4_18_to_v0_4_20" => do
    onlyFields v ["send_fees_to_treasury"]
    pure (.v0418 (← (← reqField v "send_fees_to_treasury") |> asBool))
  | "v0_4_20_to_v1_0_0" => do
    onlyFields v ["native_account_address_prefix", "native_validator_address_prefix", "native_token_denom",
                  "protocol_account_address_prefix"]
    pure (.v0420 (← (← reqField v "native_account_address_prefix") |> asStr)
      (← (← reqField v "native_validator_address_prefix") |> asStr)
      (← (← reqField v "native_token_denom") |> asStr)
      (← (← reqField v "protocol_account_address_prefix") |> asStr))
  | "v1_0_0_to_v1_1_0" => do onlyFields v []; pure .v100
  | _ => throw s!"unknown variant {k}"

def parseKV {α} (j : Json) (f : Json → P α) : P (List (Nat × α)) := do
  (← asArr j).toList.mapM fun e => do
    let a ← asArr e
    match a.toList with
    | [k, v] => do pure (← asU64 k, ← f v)
    | _ => throw "expected [key, value]"

def parseLegacyPkt (j : Json) : P LegacyPkt := do
  pure { seq := ← (← reqField j "sequence") |> asU64, amount := ← (← reqField j "amount") |> asU128,
         status := ← (← reqField j "status") |> parseStatusPkt }

def parseMStore (j : Json) : P MStore := do
  let version : Option (String × String) ← match optField j "version" with
    | none => pure none
    | some v => do pure (some (← (← reqField v "contract") |> asStr, ← (← reqField v "version") |> asStr))
  let layout := match j.getObjVal? "layout" with | .ok (.str s) => s | _ => ""
  let cfgJ ← reqField j "config"
  let cfg : Option CfgLayout := match layout with
    | "0418" => (parseCfg0418 cfgJ).toOption.map CfgLayout.c0418
    | "0420" => (parseCfg0420 cfgJ).toOption.map CfgLayout.c0420
    | "cur" => (parseCfgCur cfgJ).toOption.map CfgLayout.cur
    | _ => none
  let li ← match optField j "linflight" with | some x => parseKV x parseLegacyPkt | none => pure []
  let lw ← match optField j "lwaiting" with
    | some x => parseKV x (fun v => do (← reqField v "amount") |> asU128)
    | none => pure []
  pure { version, cfg, linflight := li, lwaiting := lw }

def dumpMStore (st : MStore) : Json :=
  Json.mkObj [
    ("version", jOpt (fun v => Json.mkObj [("contract", .str v.1), ("version", .str v.2)]) st.version),
    ("config", match st.cfg with
      | some (.c0420 c) => jCfg0420 c
      | some (.cur c) => jConfig c
      | _ => .null),
    ("inflight", Json.arr (st.inflight.map fun (k, p) => Json.arr #[jNat k, jPacket p]).toArray),
    ("waiting", Json.arr (st.waiting.map fun (k, w) => Json.arr #[jNat k, jWaiting w]).toArray)]

end Driver
