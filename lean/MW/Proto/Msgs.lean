import MW.Proto.Wire
import MW.Staking.Types
/-!
# Stargate encoding of the messages the contracts emit

`encodeMsg build m` is the `(type_url, value)` pair of the `CosmosMsg::Stargate` the real
code builds for `m` (osmosis-std for bank / wasm / ibc / poolmanager / osmosis token factory,
initia-proto for the miniwasm token factory).  Field numbers are pinned here by hand from
the target chains' definitions (source cited per message); C19/C20 compare the regenerated
schema of the repository with these.
-/
namespace MW.Proto
open MW MW.Staking

/-- cosmos.base.v1beta1.Coin { 1 denom, 2 amount } -/
def encCoin (c : Coin) : Bytes := fString 1 c.denom ++ fString 2 (toString c.amount)

/-- (type_url, bytes) for stargate messages; `none` for `BankMsg::Send` (not a stargate msg) -/
def encodeMsg (build : Build) : Msg → Option (String × Bytes)
  | .createDenom sender sub =>
    -- osmosis.tokenfactory.v1beta1.MsgCreateDenom / miniwasm.tokenfactory.v1.MsgCreateDenom { 1 sender, 2 subdenom }
    let body := fString 1 sender ++ fString 2 sub
    match build with
    | .osmosis => some ("/osmosis.tokenfactory.v1beta1.MsgCreateDenom", body)
    | .miniwasm => some ("/miniwasm.tokenfactory.v1.MsgCreateDenom", body)
  | .mint sender denom amount mintTo =>
    -- MsgMint { 1 sender, 2 amount Coin, 3 mintToAddress }
    let body := fString 1 sender ++ fMsg 2 (encCoin ⟨denom, amount⟩) ++ fString 3 mintTo
    match build with
    | .osmosis => some ("/osmosis.tokenfactory.v1beta1.MsgMint", body)
    | .miniwasm => some ("/miniwasm.tokenfactory.v1.MsgMint", body)
  | .burn sender denom amount burnFrom =>
    match build with
    | .osmosis =>
      -- MsgBurn { 1 sender, 2 amount Coin, 3 burnFromAddress }
      some ("/osmosis.tokenfactory.v1beta1.MsgBurn",
            fString 1 sender ++ fMsg 2 (encCoin ⟨denom, amount⟩) ++ fString 3 burnFrom)
    | .miniwasm =>
      -- miniwasm MsgBurn { 1 sender, 2 amount Coin }
      some ("/miniwasm.tokenfactory.v1.MsgBurn", fString 1 sender ++ fMsg 2 (encCoin ⟨denom, amount⟩))
  | .bankSend _ _ => none
  | .msgSend sender to coins =>
    -- cosmos.bank.v1beta1.MsgSend { 1 from_address, 2 to_address, 3 repeated Coin amount }
    some ("/cosmos.bank.v1beta1.MsgSend",
          fString 1 sender ++ fString 2 to ++ (coins.flatMap fun c => fMsg 3 (encCoin c)))
  | .wasmExec sender contract payload =>
    -- cosmwasm.wasm.v1.MsgExecuteContract { 1 sender, 2 contract, 3 msg bytes, 5 repeated Coin funds }
    some ("/cosmwasm.wasm.v1.MsgExecuteContract",
          fString 1 sender ++ fString 2 contract ++ fBytes 3 payload.toUTF8.toList)
  | .transfer channel port sender receiver coin timeoutNs memo =>
    -- ibc.applications.transfer.v1.MsgTransfer { 1 source_port, 2 source_channel, 3 token, 4 sender,
    --   5 receiver, 6 timeout_height (absent), 7 timeout_timestamp, 8 memo }
    some ("/ibc.applications.transfer.v1.MsgTransfer",
          fString 1 port ++ fString 2 channel ++ fMsg 3 (encCoin coin) ++ fString 4 sender
            ++ fString 5 receiver ++ fUint 7 timeoutNs ++ fString 8 memo)
  | .swapIn sender routes tokenIn minOut =>
    -- osmosis.poolmanager.v1beta1.MsgSwapExactAmountIn { 1 sender, 2 repeated {1 pool_id, 2 token_out_denom},
    --   3 token_in, 4 token_out_min_amount }
    some ("/osmosis.poolmanager.v1beta1.MsgSwapExactAmountIn",
          fString 1 sender ++ (routes.flatMap fun r => fMsg 2 (fUint 1 r.poolId ++ fString 2 r.denom))
            ++ fMsg 3 (encCoin tokenIn) ++ fString 4 (toString minOut))
  | .swapOut sender routes tokenOut maxIn =>
    -- MsgSwapExactAmountOut { 1 sender, 2 repeated {1 pool_id, 2 token_in_denom}, 3 token_in_max_amount, 4 token_out }
    some ("/osmosis.poolmanager.v1beta1.MsgSwapExactAmountOut",
          fString 1 sender ++ (routes.flatMap fun r => fMsg 2 (fUint 1 r.poolId ++ fString 2 r.denom))
            ++ fString 3 (toString maxIn) ++ fMsg 4 (encCoin tokenOut))

end MW.Proto
