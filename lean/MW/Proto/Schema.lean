import MW.Proto.Codec
import MW.Generated.Tables
/-!
# Descriptor-driven layer: wire shape of a field, well-formedness of a table, compatibility
# between two tables, and the typed round trip for one message level
-/
namespace MW.Proto
open MW.Generated

/-- protobuf wire type of a field from its kind / label / packedness -/
def wireOf (f : FD) : Nat :=
  if f.kind = 10 then 2                                   -- map entries are length-delimited
  else if f.label = 2 ∧ f.packed then 2                   -- packed repeated scalars
  else if f.kind ∈ [3, 4, 5, 6, 7, 8, 11, 12] then 0      -- varint kinds
  else if f.kind ∈ [14, 16, 18] then 1                    -- 64-bit
  else if f.kind ∈ [13, 15, 17] then 5                    -- 32-bit
  else 2                                                  -- string, bytes, message

/-- what two bindings must agree on for a tag to be wire compatible: wire type, repeatedness,
packedness, and scalar kind (string/bytes/varint families are not interchangeable) -/
def shape (f : FD) : Nat × Bool × Bool × Nat := (wireOf f, f.label == 2, f.packed, f.kind)

def strictlyAscending : List Nat → Bool
  | [] => true
  | [_] => true
  | a :: b :: rest => a < b && strictlyAscending (b :: rest)

/-- a message descriptor is well formed: tags in 1 .. 2^29-1 and strictly ascending (hence
unique), kind and label codes valid, packed only on repeated scalars, references present exactly
on message / enumeration / map-of-message fields -/
def wfMsg (m : MD) : Bool :=
  strictlyAscending (m.fields.map (·.tag))
  && m.fields.all (fun f =>
      1 ≤ f.tag && f.tag < 2 ^ 29 && 1 ≤ f.kind && f.kind ≤ 18 && f.label ≤ 3
      && (!f.packed || (f.label == 2 && f.kind != 1 && f.kind != 2 && f.kind != 9 && f.kind != 10))
      && ((f.kind == 9 || f.kind == 8) == (f.ref != 0) || f.kind == 10))

def wfTable (t : List MD) : Bool := t.all wfMsg

/-- every field of `old` is still there with the same tag, kind, label, packedness and target -/
def extends_ (new old : MD) : Bool :=
  old.fields.all (fun f => new.fields.any (fun g => g == f))

/-- walk two tables that are ascending by name: every message of the second must be matched by
name in the first, and matched pairs must satisfy `p` (linear; structural on the first table) -/
def mergeAll (p : MD → MD → Bool) : List MD → List MD → Bool
  | [], bs => bs.isEmpty
  | a :: as, bs =>
    match bs with
    | [] => true
    | b :: bs' =>
      if a.name = b.name then p a b && mergeAll p as bs'
      else if a.name < b.name then mergeAll p as bs
      else false

def namesAscending (t : List MD) : Bool := strictlyAscending (t.map (·.name))

/-- `t` contains every message of `base` with all its fields unchanged (new messages and new
fields with fresh tags are allowed); both tables ascending by name -/
def matchesBaseline (t base : List MD) : Bool :=
  namesAscending t && namesAscending base && mergeAll extends_ t base

/-- on every tag two descriptors share, the wire shapes agree -/
def compatible (a b : MD) : Bool :=
  a.fields.all (fun f => match b.fields.find? (fun g => g.tag == f.tag) with
    | some g => wireOf f == wireOf g && (f.label == 2) == (g.label == 2) && f.packed == g.packed && f.kind == g.kind
    | none => true)

def matchesReference (t r : List MD) : Bool :=
  namesAscending t && namesAscending r && mergeAll compatible t r

/-! ## typed layer (one message level; sub-messages are opaque length-delimited payloads) -/

/-- a wire field conforms to a descriptor: its tag is declared and its wire type is the
declared one -/
def conformsField (m : MD) (w : WField) : Bool :=
  m.fields.any (fun f => f.tag == w.tag && wireOf f == w.val.wireType)

/-- decoding against a descriptor: parse the wire fields and drop the unknown ones (prost's
behaviour for unknown tags) -/
def decodeTyped (m : MD) (bs : Bytes) : Option (List WField) :=
  (decodeFields bs).map (fun fs => fs.filter (conformsField m))

def encodeTyped (_m : MD) (fs : List WField) : Bytes := encodeFields fs

/-- typed round trip, one level: a list of well-formed wire fields that all conform to the
descriptor survives encode → decode unchanged (nothing is dropped, reordered or altered).
Nested messages are covered by applying the theorem again to the payload. -/
theorem msg_roundtrip_partial (m : MD) (fs : List WField) (hw : ∀ f ∈ fs, WFField f)
    (hc : ∀ f ∈ fs, conformsField m f = true) : decodeTyped m (encodeTyped m fs) = some fs := by
  unfold decodeTyped encodeTyped
  rw [wire_roundtrip fs hw]
  simp only [Option.map_some, Option.some.injEq]
  exact List.filter_eq_self.mpr hc

/-- fields unknown to the descriptor are dropped and the known ones kept, in order -/
theorem unknown_fields_dropped (m : MD) (fs : List WField) (hw : ∀ f ∈ fs, WFField f) :
    decodeTyped m (encodeTyped m fs) = some (fs.filter (conformsField m)) := by
  unfold decodeTyped encodeTyped
  rw [wire_roundtrip fs hw]; rfl

/-- two descriptors that agree on the tags used encode a value identically (the encoder does
not look at anything but the wire fields) and each decodes the other's bytes to the same value -/
theorem compat_bytes_identical (a b : MD) (fs : List WField) (hw : ∀ f ∈ fs, WFField f)
    (ha : ∀ f ∈ fs, conformsField a f = true) (hb : ∀ f ∈ fs, conformsField b f = true) :
    encodeTyped a fs = encodeTyped b fs ∧ decodeTyped b (encodeTyped a fs) = some fs
      ∧ decodeTyped a (encodeTyped b fs) = some fs :=
  ⟨rfl, msg_roundtrip_partial b fs hw hb, msg_roundtrip_partial a fs hw ha⟩

/-! ## Any -/

structure AnyMsg where
  typeUrl : String
  value : Bytes
deriving DecidableEq, Repr

/-- `MessageExt::to_any` -/
def toAny (url : String) (m : MD) (fs : List WField) : AnyMsg := { typeUrl := url, value := encodeTyped m fs }

/-- `MessageExt::from_any`: the type URL must be exactly the registered one -/
def fromAny (url : String) (m : MD) (a : AnyMsg) : Option (List WField) :=
  if a.typeUrl = url then decodeTyped m a.value else none

theorem any_roundtrip (url : String) (m : MD) (fs : List WField) (hw : ∀ f ∈ fs, WFField f)
    (hc : ∀ f ∈ fs, conformsField m f = true) : fromAny url m (toAny url m fs) = some fs := by
  simp [fromAny, toAny, msg_roundtrip_partial m fs hw hc]

theorem any_rejects_other_url (url other : String) (m : MD) (v : Bytes) (h : other ≠ url) :
    fromAny url m { typeUrl := other, value := v } = none := by
  simp [fromAny, h]

end MW.Proto
