import MW.Proto.Wire
/-!
# Protobuf wire format: decoder and round-trip theorems (all sizes)

`encodeFields` / `decodeFields` work on the generic wire representation (a list of tagged
values); `MW.Proto.Schema` adds the descriptor-driven typed layer.
-/
namespace MW.Proto

inductive WVal where
  | varint (n : Nat)
  | fixed64 (b : Bytes)
  | lenDelim (b : Bytes)
  | fixed32 (b : Bytes)
deriving DecidableEq, Repr

structure WField where
  tag : Nat
  val : WVal
deriving DecidableEq, Repr

def WVal.wireType : WVal → Nat
  | .varint _ => 0 | .fixed64 _ => 1 | .lenDelim _ => 2 | .fixed32 _ => 5

def encodeField (f : WField) : Bytes :=
  varint (f.tag * 8 + f.val.wireType) ++
  match f.val with
  | .varint n => varint n
  | .fixed64 b => b
  | .lenDelim b => varint b.length ++ b
  | .fixed32 b => b

def encodeFields (fs : List WField) : Bytes := fs.flatMap encodeField

/-- decode one varint; `none` on truncated input -/
def decodeVarint : Bytes → Option (Nat × Bytes)
  | [] => none
  | b :: rest =>
    if b.toNat < 128 then some (b.toNat, rest)
    else match decodeVarint rest with
      | some (n, rest') => some (b.toNat - 128 + 128 * n, rest')
      | none => none

theorem decodeVarint_length {bs : Bytes} {n : Nat} {rest : Bytes} (h : decodeVarint bs = some (n, rest)) :
    rest.length < bs.length := by
  induction bs generalizing n rest with
  | nil => simp [decodeVarint] at h
  | cons b tl ih =>
    simp only [decodeVarint] at h
    split at h
    · cases h; simp
    · split at h
      · rename_i n' rest' hd
        cases h
        have := ih hd
        simp; omega
      · cases h

/-- decode a field list; structural recursion on a fuel argument (the input length suffices) -/
def decodeFieldsFuel : Nat → Bytes → Option (List WField)
  | _, [] => some []
  | 0, _ :: _ => none
  | fuel + 1, bs =>
    match decodeVarint bs with
    | none => none
    | some (key, rest) =>
      let tag := key / 8
      let wt := key % 8
      if tag = 0 then none else
      match wt with
      | 0 => match decodeVarint rest with
        | none => none
        | some (n, rest') => (decodeFieldsFuel fuel rest').map (⟨tag, .varint n⟩ :: ·)
      | 1 => if rest.length < 8 then none
             else (decodeFieldsFuel fuel (rest.drop 8)).map (⟨tag, .fixed64 (rest.take 8)⟩ :: ·)
      | 2 => match decodeVarint rest with
        | none => none
        | some (len, rest') =>
          if rest'.length < len then none
          else (decodeFieldsFuel fuel (rest'.drop len)).map (⟨tag, .lenDelim (rest'.take len)⟩ :: ·)
      | 5 => if rest.length < 4 then none
             else (decodeFieldsFuel fuel (rest.drop 4)).map (⟨tag, .fixed32 (rest.take 4)⟩ :: ·)
      | _ => none

def decodeFields (bs : Bytes) : Option (List WField) := decodeFieldsFuel bs.length bs

/-! ## round trips -/

theorem varint_roundtrip (n : Nat) (rest : Bytes) : decodeVarint (varint n ++ rest) = some (n, rest) := by
  induction n using Nat.strongRecOn with
  | _ n ih =>
    rw [varint]
    split
    · rename_i h
      simp only [List.cons_append, List.nil_append, decodeVarint]
      have : (UInt8.ofNat n).toNat = n := by
        simp [UInt8.toNat_ofNat]; omega
      simp [this, h]
    · rename_i h
      simp only [List.cons_append, decodeVarint]
      have hb : (UInt8.ofNat (n % 128 + 128)).toNat = n % 128 + 128 := by
        simp [UInt8.toNat_ofNat]; omega
      rw [hb]
      have : ¬ (n % 128 + 128 < 128) := by omega
      simp only [this, ↓reduceIte]
      rw [ih (n / 128) (by omega)]
      simp only [Option.some.injEq, Prod.mk.injEq, and_true]
      omega

theorem varint_ne_nil (n : Nat) : varint n ≠ [] := by
  rw [varint]; split <;> simp

/-- well-formed wire fields: field numbers ≥ 1, fixed-width payloads have their width -/
def WFField (f : WField) : Prop :=
  1 ≤ f.tag ∧ match f.val with
    | .fixed64 b => b.length = 8
    | .fixed32 b => b.length = 4
    | _ => True

theorem encodeField_length_pos (f : WField) : 0 < (encodeField f).length := by
  unfold encodeField
  have := varint_ne_nil (f.tag * 8 + f.val.wireType)
  cases h : varint (f.tag * 8 + f.val.wireType) with
  | nil => exact absurd h this
  | cons a b => simp

theorem decode_step (f : WField) (hf : WFField f) (rest : Bytes) (fuel : Nat)
    (hfuel : (encodeField f ++ rest).length ≤ fuel + 1) :
    decodeFieldsFuel (fuel + 1) (encodeField f ++ rest) = (decodeFieldsFuel fuel rest).map (f :: ·) := by
  obtain ⟨tag, val⟩ := f
  obtain ⟨htag, hval⟩ := hf
  simp only at htag
  have hkey : ∀ wt, wt < 8 → (tag * 8 + wt) / 8 = tag ∧ (tag * 8 + wt) % 8 = wt := by
    intro wt h; omega
  unfold encodeField
  rw [decodeFieldsFuel]
  · cases val with
    | varint n =>
      simp only [WVal.wireType, List.append_assoc, varint_roundtrip]
      obtain ⟨h1, h2⟩ := hkey 0 (by omega)
      simp only [Nat.add_zero] at h1 h2 ⊢
      have : ¬ tag * 8 / 8 = 0 := by omega
      simp only [this, ↓reduceIte, h2, varint_roundtrip, h1]
      have ht0 : ¬ tag = 0 := by omega
      simp only [ht0, ↓reduceIte]
    | fixed64 b =>
      simp only [WVal.wireType, List.append_assoc, varint_roundtrip]
      obtain ⟨h1, h2⟩ := hkey 1 (by omega)
      have : ¬ (tag * 8 + 1) / 8 = 0 := by omega
      simp only at hval
      simp only [this, ↓reduceIte, h2, h1, List.length_append, hval]
      have : ¬ (8 + rest.length < 8) := by omega
      simp only [this, ↓reduceIte]
      have ht0 : ¬ tag = 0 := by omega
      simp [ht0, List.drop_left' hval, List.take_left' hval]
    | lenDelim b =>
      simp only [WVal.wireType, List.append_assoc, varint_roundtrip]
      obtain ⟨h1, h2⟩ := hkey 2 (by omega)
      have : ¬ (tag * 8 + 2) / 8 = 0 := by omega
      simp only [this, ↓reduceIte, h2, h1, varint_roundtrip, List.length_append]
      have : ¬ (b.length + rest.length < b.length) := by omega
      simp only [this, ↓reduceIte]
      have ht0 : ¬ tag = 0 := by omega
      simp [ht0]
    | fixed32 b =>
      simp only [WVal.wireType, List.append_assoc, varint_roundtrip]
      obtain ⟨h1, h2⟩ := hkey 5 (by omega)
      have : ¬ (tag * 8 + 5) / 8 = 0 := by omega
      simp only at hval
      simp only [this, ↓reduceIte, h2, h1, List.length_append, hval]
      have : ¬ (4 + rest.length < 4) := by omega
      simp only [this, ↓reduceIte]
      have ht0 : ¬ tag = 0 := by omega
      simp [ht0, List.drop_left' hval, List.take_left' hval]
  · intro h
    have := encodeField_length_pos ⟨tag, val⟩
    unfold encodeField at this
    rw [List.append_eq_nil_iff] at h
    rw [h.1] at this
    simp at this

theorem wire_roundtrip_fuel (fs : List WField) (hf : ∀ f ∈ fs, WFField f) (fuel : Nat)
    (hfuel : (encodeFields fs).length ≤ fuel) : decodeFieldsFuel fuel (encodeFields fs) = some fs := by
  induction fs generalizing fuel with
  | nil => simp [encodeFields]; cases fuel <;> simp [decodeFieldsFuel]
  | cons f rest ih =>
    have hpos := encodeField_length_pos f
    simp only [encodeFields, List.flatMap_cons] at hfuel ⊢
    cases fuel with
    | zero => simp only [List.length_append] at hfuel; omega
    | succ fuel =>
      rw [decode_step f (hf f (by simp)) _ fuel (by simpa using hfuel)]
      have := ih (fun g hg => hf g (List.mem_cons_of_mem _ hg)) fuel (by
        simp only [List.length_append] at hfuel
        unfold encodeFields; omega)
      unfold encodeFields at this
      rw [this]; rfl

/-- wire round trip: every well-formed field list, of any length and with payloads of any
size, decodes back to itself -/
theorem wire_roundtrip (fs : List WField) (hf : ∀ f ∈ fs, WFField f) :
    decodeFields (encodeFields fs) = some fs :=
  wire_roundtrip_fuel fs hf _ (Nat.le_refl _)

end MW.Proto
