import MW.Proto.Schema
/-!
# Typed round trip through arbitrary nesting depth

`MW.Proto.Schema.msg_roundtrip_partial` is the typed round trip for one message level (sub-messages
are opaque payloads).  Here values are trees: a field is a scalar wire value or a nested message
whose own fields are typed by the descriptor its field refers to.  `typed_roundtrip` is the
round trip for every such tree — any depth, any width — against any descriptor environment.
-/
namespace MW.Proto
open MW.Generated

mutual
  /-- a typed value: a scalar wire value or a nested message -/
  inductive TVal where
    | scalar (v : WVal)
    | msg (fs : TFields)
  /-- the fields of a message value, in encoding order -/
  inductive TFields where
    | nil
    | cons (tag : Nat) (v : TVal) (rest : TFields)
end

mutual
  /-- the wire value of a typed value: a nested message is the length-delimited encoding of its fields -/
  def TVal.toW : TVal → WVal
    | .scalar v => v
    | .msg fs => .lenDelim (encodeFields fs.toW)
  def TFields.toW : TFields → List WField
    | .nil => []
    | .cons t v rest => ⟨t, v.toW⟩ :: rest.toW
end

mutual
  /-- number of fields at all levels (fuel the decoder needs) -/
  def TVal.size : TVal → Nat
    | .scalar _ => 0
    | .msg fs => fs.size
  def TFields.size : TFields → Nat
    | .nil => 0
    | .cons _ v rest => 1 + v.size + rest.size
end

def WFVal : WVal → Prop
  | .fixed64 b => b.length = 8
  | .fixed32 b => b.length = 4
  | _ => True

mutual
  /-- field numbers ≥ 1 and fixed-width payloads of their width, at every level -/
  def TVal.WF : TVal → Prop
    | .scalar v => WFVal v
    | .msg fs => fs.WF
  def TFields.WF : TFields → Prop
    | .nil => True
    | .cons t v rest => 1 ≤ t ∧ v.WF ∧ rest.WF
end

/-- the declared field a wire field conforms to (tag declared, wire type as declared) -/
def fieldFor (m : MD) (w : WField) : Option FD :=
  m.fields.find? (fun f => f.tag == w.tag && wireOf f == w.val.wireType)

/-- a singular / repeated message field (kind 9); map entries and packed payloads stay opaque -/
def isMsg (f : FD) : Bool := f.kind == 9

mutual
  /-- the value is typed by the descriptor, at every level: every field is declared with its wire
  type; a field declared as a message holds a nested message typed by the referenced descriptor,
  every other field a scalar -/
  def TVal.Conforms (env : Nat → Option MD) (f : FD) : TVal → Prop
    | .scalar _ => isMsg f = false
    | .msg fs => isMsg f = true ∧ ∃ sub, env f.ref = some sub ∧ fs.Conforms env sub
  def TFields.Conforms (env : Nat → Option MD) (m : MD) : TFields → Prop
    | .nil => True
    | .cons t v rest => (∃ f, fieldFor m ⟨t, v.toW⟩ = some f ∧ v.Conforms env f) ∧ rest.Conforms env m
end

/-- decode the wire fields of one message against its descriptor, recursively: unknown fields are
dropped, message fields are parsed and decoded against the referenced descriptor -/
def liftFields (env : Nat → Option MD) : Nat → MD → List WField → Option TFields
  | _, _, [] => some .nil
  | 0, _, _ :: _ => none
  | n + 1, m, w :: rest =>
    match fieldFor m w with
    | none => liftFields env n m rest
    | some f =>
      if isMsg f then
        match w.val with
        | .lenDelim b =>
          match env f.ref with
          | none => none
          | some sub =>
            match decodeFields b with
            | none => none
            | some ws =>
              match liftFields env n sub ws, liftFields env n m rest with
              | some sv, some r => some (.cons w.tag (.msg sv) r)
              | _, _ => none
        | _ => none
      else (liftFields env n m rest).map (.cons w.tag (.scalar w.val))

/-- typed decoding of a message against a descriptor environment -/
def decodeNested (env : Nat → Option MD) (fuel : Nat) (m : MD) (bs : Bytes) : Option TFields :=
  match decodeFields bs with
  | none => none
  | some ws => liftFields env fuel m ws

def encodeNested (fs : TFields) : Bytes := encodeFields fs.toW

theorem wf_toW : ∀ (fs : TFields), fs.WF → ∀ f ∈ fs.toW, WFField f
  | .nil, _ => by intro f hf; simp [TFields.toW] at hf
  | .cons t v rest, h => by
    obtain ⟨h1, h2, h3⟩ := h
    intro f hf
    simp only [TFields.toW, List.mem_cons] at hf
    rcases hf with rfl | hf
    · refine ⟨h1, ?_⟩
      cases v with
      | scalar w => cases w <;> simp_all [TVal.toW, TVal.WF, WFVal]
      | msg sub => simp [TVal.toW]
    · exact wf_toW rest h3 f hf

theorem msg_wireType {f : FD} (h : isMsg f = true) : wireOf f = 2 := by
  simp only [isMsg, beq_iff_eq] at h
  simp [wireOf, h]

mutual
  /-- lifting the wire form of a conforming tree gives the tree back -/
  theorem lift_toW (env : Nat → Option MD) : ∀ (fs : TFields) (m : MD) (n : Nat), fs.WF → fs.Conforms env m →
      fs.size ≤ n → liftFields env n m fs.toW = some fs
    | .nil, m, n, _, _, _ => by cases n <;> simp [TFields.toW, liftFields]
    | .cons t v rest, m, n, hw, hc, hn => by
      obtain ⟨_, hwv, hwr⟩ := hw
      obtain ⟨⟨f, hf, hcv⟩, hcr⟩ := hc
      simp only [TFields.size] at hn
      cases n with
      | zero => omega
      | succ n =>
        simp only [TFields.toW, liftFields, hf]
        have hrest := lift_toW env rest m n hwr hcr (by omega)
        cases v with
        | scalar w =>
          simp only [TVal.Conforms] at hcv
          simp only [hcv, Bool.false_eq_true, ↓reduceIte, hrest, Option.map_some, TVal.toW]
        | msg sub =>
          obtain ⟨hm, sd, hsd, hcs⟩ := hcv
          simp only [TVal.size] at hn
          have hsub := lift_toW env sub sd n hwv hcs (by omega)
          have hdec := wire_roundtrip sub.toW (wf_toW sub hwv)
          simp only [hm, ↓reduceIte, TVal.toW, hsd, hdec, hsub, hrest]
end

/-- **typed round trip, every nesting depth**: a well-formed value tree typed by a descriptor (with
its nested messages typed by the referenced descriptors, to any depth) survives encode → decode
unchanged, against any descriptor environment -/
theorem typed_roundtrip (env : Nat → Option MD) (m : MD) (fs : TFields) (hw : fs.WF) (hc : fs.Conforms env m) :
    decodeNested env fs.size m (encodeNested fs) = some fs := by
  unfold decodeNested encodeNested
  rw [wire_roundtrip fs.toW (wf_toW fs hw)]
  exact lift_toW env fs m fs.size hw hc (Nat.le_refl _)

end MW.Proto
