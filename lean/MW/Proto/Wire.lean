/-!
# Protobuf wire format (proto3, as prost 0.12 emits it): encoder

Fields are written in ascending tag order, proto3 default values (empty string / bytes,
zero) are omitted, an `Option<Message>` that is `Some` and every element of a repeated
message field is written even when empty.
-/
namespace MW.Proto

abbrev Bytes := List UInt8

/-- base-128 varint, little-endian groups -/
def varint (n : Nat) : Bytes :=
  if h : n < 128 then [UInt8.ofNat n]
  else UInt8.ofNat (n % 128 + 128) :: varint (n / 128)
termination_by n
decreasing_by omega

def tag (field wireType : Nat) : Bytes := varint (field * 8 + wireType)

def lenDelim (field : Nat) (body : Bytes) : Bytes := tag field 2 ++ varint body.length ++ body

/-- `string` field (omitted when empty) -/
def fString (field : Nat) (s : String) : Bytes :=
  if s.isEmpty then [] else lenDelim field s.toUTF8.toList

/-- `bytes` field (omitted when empty) -/
def fBytes (field : Nat) (b : Bytes) : Bytes :=
  if b.isEmpty then [] else lenDelim field b

/-- `uint64` / `uint32` / `bool` / enum field (omitted when zero) -/
def fUint (field : Nat) (n : Nat) : Bytes :=
  if n = 0 then [] else tag field 0 ++ varint n

/-- embedded message that is present (`Some(..)` or a repeated element) -/
def fMsg (field : Nat) (body : Bytes) : Bytes := lenDelim field body

def hexDigit (n : Nat) : Char := "0123456789abcdef".toList.getD n '?'
def toHex (bs : Bytes) : String :=
  String.ofList (bs.flatMap fun b => [hexDigit (b.toNat / 16), hexDigit (b.toNat % 16)])

#guard toHex (varint 300) = "ac02"
#guard toHex (fString 1 "ab") = "0a026162"

end MW.Proto
