import MW.Bytes.Bech32
/-!
# Injectivity of the bech32 encoding (helper lemmas for C09)
-/
namespace MW.Bech32

theorem byteBits_length (b : UInt8) : (byteBits b).length = 8 := by simp [byteBits]

theorem byteBits_inj (a b : UInt8) (h : byteBits a = byteBits b) : a = b := by
  have hbits : ∀ i, i < 8 → a.toNat.testBit i = b.toNat.testBit i := by
    intro i hi
    have := congrArg (fun l => l[7 - i]?) h
    simp only [byteBits, List.getElem?_map, List.getElem?_range (show 7 - i < 8 by omega), Option.map_some] at this
    have h7 : 7 - (7 - i) = i := by omega
    simpa [h7] using this
  have hnat : a.toNat = b.toNat := by
    apply Nat.eq_of_testBit_eq
    intro i
    by_cases hi : i < 8
    · exact hbits i hi
    · have ha : a.toNat < 2 ^ i := Nat.lt_of_lt_of_le a.toNat_lt (Nat.pow_le_pow_right (by decide) (by omega : 8 ≤ i))
      have hb : b.toNat < 2 ^ i := Nat.lt_of_lt_of_le b.toNat_lt (Nat.pow_le_pow_right (by decide) (by omega : 8 ≤ i))
      rw [Nat.testBit_lt_two_pow ha, Nat.testBit_lt_two_pow hb]
  exact UInt8.toNat_inj.mp hnat

theorem flatMap_byteBits_inj (d₁ d₂ : List UInt8) (h : d₁.flatMap byteBits = d₂.flatMap byteBits) : d₁ = d₂ := by
  induction d₁ generalizing d₂ with
  | nil =>
    cases d₂ with
    | nil => rfl
    | cons b r =>
      have := congrArg List.length h
      simp [List.flatMap_cons, byteBits_length] at this
      omega
  | cons a r ih =>
    cases d₂ with
    | nil =>
      have := congrArg List.length h
      simp [List.flatMap_cons, byteBits_length] at this
    | cons b r' =>
      simp only [List.flatMap_cons] at h
      obtain ⟨h1, h2⟩ := List.append_inj h (by simp [byteBits_length])
      rw [byteBits_inj a b h1, ih r' h2]

theorem bitsToNat5_inj (a b c d e a' b' c' d' e' : Bool)
    (h : bitsToNat [a, b, c, d, e] = bitsToNat [a', b', c', d', e']) :
    a = a' ∧ b = b' ∧ c = c' ∧ d = d' ∧ e = e' := by
  revert a b c d e a' b' c' d' e'
  decide

theorem chunk5_all_len5 (l : List Bool) : ∀ c ∈ chunk5 l, c.length = 5 := by
  fun_induction chunk5 l with
  | case1 => simp
  | case2 a b c d e rest ih =>
    intro x hx
    simp only [List.mem_cons] at hx
    rcases hx with hx | hx
    · subst hx; rfl
    · exact ih x hx
  | case3 l h1 h2 =>
    intro x hx
    simp only [List.mem_singleton] at hx
    subst hx
    have : l.length < 5 := by
      match l with
      | [] => exact absurd rfl h1
      | [_] => simp
      | [_, _] => simp
      | [_, _, _] => simp
      | [_, _, _, _] => simp
      | a :: b :: c :: d :: e :: rest => exact absurd rfl (h2 a b c d e rest)
    simp; omega

theorem chunk5_inj (x y : List Bool) (hl : x.length = y.length) (h : chunk5 x = chunk5 y) : x = y := by
  fun_induction chunk5 x generalizing y with
  | case1 => cases y with
    | nil => rfl
    | cons _ _ => simp at hl
  | case2 a b c d e rest ih =>
    match y, hl with
    | a' :: b' :: c' :: d' :: e' :: rest', hl =>
      simp only [chunk5, List.cons.injEq] at h
      obtain ⟨⟨h1, h2, h3, h4, h5, _⟩, hr⟩ := h
      subst h1 h2 h3 h4 h5
      rw [ih rest' (by simpa using hl) hr]
    | [], hl => simp at hl
    | [_], hl => simp at hl
    | [_, _], hl => simp at hl
    | [_, _, _], hl => simp at hl
    | [_, _, _, _], hl => simp at hl
  | case3 l h1 h2 =>
    have hlen : l.length < 5 := by
      match l with
      | [] => exact absurd rfl h1
      | [_] => simp
      | [_, _] => simp
      | [_, _, _] => simp
      | [_, _, _, _] => simp
      | a :: b :: c :: d :: e :: rest => exact absurd rfl (h2 a b c d e rest)
    have hy : chunk5 y = [y ++ List.replicate (5 - y.length) false] := by
      match y, hl with
      | [], hl => exact absurd (List.length_eq_zero_iff.mp hl) h1
      | [_], _ => rfl
      | [_, _], _ => rfl
      | [_, _, _], _ => rfl
      | [_, _, _, _], _ => rfl
      | _ :: _ :: _ :: _ :: _ :: _, hl => simp at hl; omega
    rw [hy] at h
    simp only [List.cons.injEq, and_true] at h
    exact (List.append_inj h hl).1

theorem map_inj_on {α β} (f : α → β) (l₁ l₂ : List α)
    (hinj : ∀ a ∈ l₁, ∀ b ∈ l₂, f a = f b → a = b) (h : l₁.map f = l₂.map f) : l₁ = l₂ := by
  induction l₁ generalizing l₂ with
  | nil => cases l₂ with
    | nil => rfl
    | cons _ _ => simp at h
  | cons a r ih =>
    cases l₂ with
    | nil => simp at h
    | cons b r' =>
      simp only [List.map_cons, List.cons.injEq] at h
      rw [hinj a (by simp) b (by simp) h.1]
      rw [ih r' (fun x hx y hy => hinj x (List.mem_cons_of_mem _ hx) y (List.mem_cons_of_mem _ hy)) h.2]

theorem bitsToNat_inj_len5 (x y : List Bool) (hx : x.length = 5) (hy : y.length = 5)
    (h : bitsToNat x = bitsToNat y) : x = y := by
  match x, y, hx, hy with
  | [a, b, c, d, e], [a', b', c', d', e'], _, _ =>
    obtain ⟨h1, h2, h3, h4, h5⟩ := bitsToNat5_inj a b c d e a' b' c' d' e' h
    subst h1 h2 h3 h4 h5; rfl

/-- `ToBase32` is injective on inputs of equal length -/
theorem toBase32_inj (d₁ d₂ : List UInt8) (hl : d₁.length = d₂.length) (h : toBase32 d₁ = toBase32 d₂) : d₁ = d₂ := by
  unfold toBase32 at h
  have hc : chunk5 (d₁.flatMap byteBits) = chunk5 (d₂.flatMap byteBits) :=
    map_inj_on bitsToNat _ _ (fun a ha b hb hab =>
      bitsToNat_inj_len5 a b (chunk5_all_len5 _ a ha) (chunk5_all_len5 _ b hb) hab) h
  have hlen : (d₁.flatMap byteBits).length = (d₂.flatMap byteBits).length := by
    have : ∀ d : List UInt8, (d.flatMap byteBits).length = 8 * d.length := by
      intro d; induction d with
      | nil => rfl
      | cons a r ih => simp [List.flatMap_cons, byteBits_length, ih]; omega
    rw [this, this, hl]
  exact flatMap_byteBits_inj _ _ (chunk5_inj _ _ hlen hc)

theorem bitsToNat_lt (l : List Bool) (h : l.length = 5) : bitsToNat l < 32 := by
  match l, h with
  | [a, b, c, d, e], _ => revert a b c d e; decide

theorem toBase32_lt (d : List UInt8) : ∀ v ∈ toBase32 d, v < 32 := by
  intro v hv
  unfold toBase32 at hv
  obtain ⟨c, hc, rfl⟩ := List.mem_map.mp hv
  exact bitsToNat_lt c (chunk5_all_len5 _ c hc)

/-- the charset maps distinct 5-bit symbols to distinct characters -/
theorem charset_inj : ∀ a < 32, ∀ b < 32, charset.getD a '?' = charset.getD b '?' → a = b := by
  decide

theorem checksum_lt (hrp : List UInt8) (data : List Nat) : ∀ v ∈ checksum hrp data, v < 32 := by
  intro v hv
  unfold checksum at hv
  simp only [List.mem_map, List.mem_range] at hv
  obtain ⟨i, _, rfl⟩ := hv
  exact Nat.lt_of_le_of_lt Nat.and_le_right (by decide)

theorem checksum_length (hrp : List UInt8) (data : List Nat) : (checksum hrp data).length = 6 := by
  simp [checksum]

/-- bech32 encoding under one human-readable part is injective in the (equally long) data -/
theorem encode_inj (hrp : String) (d₁ d₂ : List Nat) (x : String) (hl : d₁.length = d₂.length)
    (h1 : ∀ v ∈ d₁, v < 32) (h2 : ∀ v ∈ d₂, v < 32)
    (e1 : encode hrp d₁ = some x) (e2 : encode hrp d₂ = some x) : d₁ = d₂ := by
  unfold encode at e1 e2
  split at e1
  · cases e1
  · rename_i case hc
    rw [hc] at e2
    simp only [Option.some.injEq] at e1 e2
    rw [← e2] at e1
    have := congrArg String.toList e1
    simp only [String.toList_append, String.toList_ofList, List.append_cancel_left_eq] at this
    have hm := map_inj_on (fun v => charset.getD v '?') _ _ (fun a ha b hb hab => by
      have ha' : a < 32 := by
        rcases List.mem_append.mp ha with h | h
        · exact h1 a h
        · exact checksum_lt _ _ a h
      have hb' : b < 32 := by
        rcases List.mem_append.mp hb with h | h
        · exact h2 b h
        · exact checksum_lt _ _ b h
      exact charset_inj a ha' b hb' hab) this
    exact (List.append_inj hm hl).1

end MW.Bech32
