import MW.Bytes.Sha256
/-!
# bech32 0.9.1 (`bech32::decode`, `bech32::encode`, `ToBase32`), executable, core-only.

Follows the crate's code paths (see DESIGN.md Appendix E): the separator is the *last* `'1'`,
the human-readable part is 1..83 bytes in 33..126 and not mixed case, data characters are
ASCII charset members whose case is consistent with the hrp, at least six data symbols,
and *both* checksum constants (bech32 = 1, bech32m = 0x2bc830a3) are accepted by `decode`.
-/
namespace MW.Bech32

def charset : List Char := "qpzry9x8gf2tvdw0s3jn54khce6mua7l".toList

inductive Variant | bech32 | bech32m
deriving DecidableEq, Repr

inductive Case | upper | lower | none
deriving DecidableEq, Repr

def gen : List Nat := [0x3b6a57b2, 0x26508e6d, 0x1ea119fa, 0x3d4233dd, 0x2a1462b3]

def polymodStep (chk v : Nat) : Nat :=
  let b := chk >>> 25
  let chk := (((chk &&& 0x01ffffff) <<< 5) ^^^ v)
  (List.range 5).foldl (fun c i => if (b >>> i) &&& 1 = 1 then c ^^^ gen.getD i 0 else c) chk

def polymod (vs : List Nat) : Nat := vs.foldl polymodStep 1

def hrpExpand (hrp : List UInt8) : List Nat :=
  hrp.map (fun b => b.toNat >>> 5) ++ [0] ++ hrp.map (fun b => b.toNat &&& 0x1f)

def variantOfRemainder (r : Nat) : Option Variant :=
  if r = 1 then some .bech32 else if r = 0x2bc830a3 then some .bech32m else none

def checksum (hrp : List UInt8) (data : List Nat) : List Nat :=
  let pm := polymod (hrpExpand hrp ++ data ++ [0, 0, 0, 0, 0, 0]) ^^^ 1
  (List.range 6).map fun i => (pm >>> (5 * (5 - i))) &&& 31

/-- `convert_bits(data, 8, 5, pad = true)` as the crate computes it (accumulator form); kept as a
cross-check of the bit-level definition below -/
def toBase32Aux : List UInt8 → (acc bits : Nat) → List Nat
  | [], acc, bits => if bits > 0 then [(acc <<< (5 - bits)) &&& 31] else []
  | b :: rest, acc, bits =>
    let acc := ((acc <<< 8) ||| b.toNat) &&& 0xfff   -- only the low 12 bits can matter
    let bits := bits + 8
    if bits ≥ 10 then
      ((acc >>> (bits - 5)) &&& 31) :: ((acc >>> (bits - 10)) &&& 31) :: toBase32Aux rest acc (bits - 10)
    else
      ((acc >>> (bits - 5)) &&& 31) :: toBase32Aux rest acc (bits - 5)

def toBase32Acc (data : List UInt8) : List Nat := toBase32Aux data 0 0

/-- the eight bits of a byte, most significant first -/
def byteBits (b : UInt8) : List Bool := (List.range 8).map (fun i => b.toNat.testBit (7 - i))

/-- big-endian value of a bit list -/
def bitsToNat (bs : List Bool) : Nat := bs.foldl (fun acc b => 2 * acc + b.toNat) 0

/-- split into groups of five, the last one padded with zero bits -/
def chunk5 : List Bool → List (List Bool)
  | [] => []
  | a :: b :: c :: d :: e :: rest => [a, b, c, d, e] :: chunk5 rest
  | l => [l ++ List.replicate (5 - l.length) false]

/-- `ToBase32` (`convert_bits(data, 8, 5, pad = true)`): the bit string of the bytes regrouped
into 5-bit symbols, zero-padded at the end -/
def toBase32 (data : List UInt8) : List Nat := (chunk5 (data.flatMap byteBits)).map bitsToNat

#guard (List.range 120).all (fun n =>
  let d := (List.range (n % 41)).map (fun i => UInt8.ofNat (i * 37 + n * 11 + 3))
  toBase32 d == toBase32Acc d)

/-- `convert_bits(data, 5, 8, pad = false)` as `Vec::<u8>::from_base32` does -/
def fromBase32 (data : List Nat) : Option (List UInt8) := Id.run do
  let mut acc := 0
  let mut bits := 0
  let mut out : Array UInt8 := #[]
  for v in data do
    acc := ((acc <<< 5) ||| v) &&& 0xfff
    bits := bits + 5
    if bits ≥ 8 then
      bits := bits - 8
      out := out.push (UInt8.ofNat ((acc >>> bits) &&& 0xff))
  if bits ≥ 5 || ((acc <<< (8 - bits)) &&& 0xff) != 0 then return none
  return some out.toList

def isLowerB (b : UInt8) : Bool := b ≥ 97 && b ≤ 122
def isUpperB (b : UInt8) : Bool := b ≥ 65 && b ≤ 90

/-- `check_hrp`: `none` = rejected -/
def checkHrp (hrp : List UInt8) : Option Case :=
  if hrp.isEmpty || hrp.length > 83 then none
  else if hrp.any (fun b => !(b ≥ 33 && b ≤ 126)) then none
  else
    let hasLower := hrp.any isLowerB
    let hasUpper := hrp.any isUpperB
    if hasLower && hasUpper then none
    else if hasUpper then some .upper
    else if hasLower then some .lower
    else some .none

def lowerB (b : UInt8) : UInt8 := if isUpperB b then b + 32 else b
def lowerAscii (s : String) : String := String.ofList (s.toList.map fun c => if c.isUpper then c.toLower else c)

def charIndex (c : Char) : Option Nat :=
  let lc := if c.isUpper then c.toLower else c
  let i := charset.idxOf lc
  if i < 32 then some i else none

/-- the data part: every char ASCII, case consistent, in the charset -/
def decodeData : List Char → Case → Option (List Nat)
  | [], _ => some []
  | c :: cs, case =>
    if c.toNat ≥ 128 then none else
    let case? : Option Case :=
      if c.isLower then (match case with | .upper => none | _ => some .lower)
      else if c.isUpper then (match case with | .lower => none | _ => some .upper)
      else some case
    match case? with
    | none => none
    | some case' =>
      match charIndex c with
      | none => none
      | some v => (decodeData cs case').map (v :: ·)

/-- split at the last `'1'` -/
def splitLast1 (cs : List Char) : Option (List Char × List Char) :=
  let r := cs.reverse
  let after := r.takeWhile (· != '1')
  if after.length = r.length then none
  else some ((r.drop (after.length + 1)).reverse, after.reverse)

def decode (s : String) : Option (String × List Nat × Variant) :=
  match splitLast1 s.toList with
  | none => none
  | some (hrpC, dataC) =>
    let hrpS := String.ofList hrpC
    let hrpB := hrpS.toUTF8.toList
    match checkHrp hrpB with
    | none => none
    | some case =>
      let hrpLower := if case = .upper then lowerAscii hrpS else hrpS
      match decodeData dataC case with
      | none => none
      | some data =>
        if data.length < 6 then none else
        match variantOfRemainder (polymod (hrpExpand hrpLower.toUTF8.toList ++ data)) with
        | none => none
        | some v => some (hrpLower, data.take (data.length - 6), v)

/-- `bech32::encode(hrp, data, Variant::Bech32)` -/
def encode (hrp : String) (data : List Nat) : Option String :=
  match checkHrp hrp.toUTF8.toList with
  | none => none
  | some case =>
    let hrpLower := if case = .upper then lowerAscii hrp else hrp
    let cs := checksum hrpLower.toUTF8.toList data
    some (hrpLower ++ "1" ++ String.ofList ((data ++ cs).map fun v => charset.getD v '?'))

-- BIP-173 vectors (tests)
#guard (decode "A12UEL5L").map (·.1) = some "a"
#guard (decode "abcdef1qpzry9x8gf2tvdw0s3jn54khce6mua7lmqqqxw").isSome
#guard (decode "split1checkupstagehandshakeupstreamerranterredcaperred2y9e3w").isSome
#guard (decode "split1checkupstagehandshakeupstreamerranterredcaperred2y9e2w").isNone
#guard (decode "osmo12z558dm3ew6avgjdj07mfslx80rp9sh8nt7q3w").map (·.1) = some "osmo"
#guard (decode "osmo12z558dm3ew6avgjdj07mfslx80rp9sh8nt7q3w").bind (fun (h, d, _) => encode h d)
  = some "osmo12z558dm3ew6avgjdj07mfslx80rp9sh8nt7q3w"
#guard ((decode "osmo12z558dm3ew6avgjdj07mfslx80rp9sh8nt7q3w").bind (fun (_, d, _) => fromBase32 d)).map toBase32
  = (decode "osmo12z558dm3ew6avgjdj07mfslx80rp9sh8nt7q3w").map (·.2.1)

end MW.Bech32
