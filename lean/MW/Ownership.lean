import MW.Lemmas
/-!
# The two-step, seven-day handover machine shared by both contracts

`execute_transfer_ownership`, `execute_revoke_ownership_transfer` and
`execute_accept_ownership` are textually the same in contracts/staking/src/execute.rs and
contracts/treasury/src/execute.rs.  They are modelled once, over the three stored values they
touch; each contract's handlers are shown to be this machine on its own store
(`MW.Props.C12`).
-/
namespace MW

structure Own where
  admin : Option String
  pending : Option String
  minTime : Option Nat          -- `Timestamp` in nanoseconds
deriving DecidableEq, Repr, Inhabited

namespace Own

def SEVEN_DAYS : Nat := 60 * 60 * 24 * 7

def isAdmin (o : Own) (sender : String) : Bool := o.admin == some sender

/-- `execute_transfer_ownership`; `validated` is the result of `addr_validate(new_owner)` -/
def nominate (o : Own) (nowS : Nat) (sender : String) (validated : R String) : R Own := do
  ensure (o.isAdmin sender) .admin
  let n ← validated
  let t ← add64 "A22a" nowS SEVEN_DAYS
  let tn ← mul64 "A22b" t 1000000000
  pure { o with pending := some n, minTime := some tn }

/-- `execute_revoke_ownership_transfer` -/
def revoke (o : Own) (sender : String) : R Own := do
  ensure (o.isAdmin sender) .admin
  pure { o with pending := none, minTime := none }

def ripe (minTime : Option Nat) (nowS : Nat) : Bool :=
  match minTime with
  | some t => decide (t / 1000000000 ≤ nowS)
  | none => true

/-- `execute_accept_ownership` (the time lock is *not* cleared by the code) -/
def accept (o : Own) (nowS : Nat) (sender : String) : R Own := do
  ensure (ripe o.minTime nowS) .ownershipNotReady
  ensure (o.pending == some sender) .noPendingOwner
  pure { o with pending := none, admin := some sender }

end Own
end MW
