import MW.Chain.World
import MW.Staking.Effects
/-!
# What a successful dispatch did to the world, message kind by message kind

Helper lemmas for the ledger invariants over the chain model (`MW/Inv/WorldLedger.lean`).
-/
namespace MW.Chain
open MW MW.Staking

/-! ## balances -/

@[simp] theorem Bal.add_apply (b : Bal) (a d : String) (n : Nat) (a' d' : String) :
    (b.add a d n) a' d' = if a' = a ∧ d' = d then b a' d' + n else b a' d' := rfl

@[simp] theorem Bal.sub_apply (b : Bal) (a d : String) (n : Nat) (a' d' : String) :
    (b.sub a d n) a' d' = if a' = a ∧ d' = d then b a' d' - n else b a' d' := rfl

/-- amount of `denom` in a coin list -/
def coinSum (denom : String) : List Coin → Nat
  | [] => 0
  | c :: rest => (if c.denom = denom then c.amount else 0) + coinSum denom rest

/-- a successful move from `src` to a different account `dst`: per denom, `dst` gains and `src`
loses exactly the amount listed; third parties are untouched -/
theorem bankMove_ok {bal b : Bal} {src dst : String} {coins : List Coin} (hne : src ≠ dst)
    (h : bankMove bal src dst coins = some b) (d : String) :
    b dst d = bal dst d + coinSum d coins ∧ coinSum d coins ≤ bal src d ∧ b src d = bal src d - coinSum d coins
      ∧ (∀ a, a ≠ src → a ≠ dst → b a d = bal a d) := by
  induction coins generalizing bal with
  | nil => simp only [bankMove, Option.some.injEq] at h; subst h; simp [coinSum]
  | cons c rest ih =>
    simp only [bankMove] at h
    split at h
    · cases h
    · split at h
      · cases h
      · rename_i h0 hlt
        obtain ⟨h1, h2, h3, h4⟩ := ih h
        have hne' : ¬ dst = src := fun e => hne e.symm
        simp only [Bal.add_apply, Bal.sub_apply, hne, hne', false_and, true_and, ↓reduceIte] at h1 h2 h3 h4
        simp only [coinSum]
        by_cases hd : c.denom = d
        · subst hd
          simp only [↓reduceIte] at h1 h2 h3 ⊢
          refine ⟨by omega, by omega, by omega, ?_⟩
          intro a ha hb
          have := h4 a ha hb
          simpa [ha, hb] using this
        · have hd' : ¬ d = c.denom := fun e => hd e.symm
          simp only [hd, hd', ↓reduceIte] at h1 h2 h3 ⊢
          refine ⟨by omega, by omega, by omega, ?_⟩
          intro a ha hb
          have := h4 a ha hb
          simpa [ha, hb] using this

/-- a move never changes the balances of a denom it does not carry -/
theorem bankMove_other_denom {bal b : Bal} {src dst : String} {coins : List Coin}
    (h : bankMove bal src dst coins = some b) (d : String) (hd : coinSum d coins = 0) (hpos : ∀ c ∈ coins, c.denom = d → False) (a : String) :
    b a d = bal a d := by
  induction coins generalizing bal with
  | nil => simp only [bankMove, Option.some.injEq] at h; subst h; rfl
  | cons c rest ih =>
    simp only [bankMove] at h
    split at h
    · cases h
    · split at h
      · cases h
      · have hc : ¬ c.denom = d := fun e => hpos c (by simp) e
        have hc' : ¬ d = c.denom := fun e => hc e.symm
        have hrest : coinSum d rest = 0 := by simpa [coinSum, hc] using hd
        have := ih h hrest (fun c' hc'' => hpos c' (List.mem_cons_of_mem _ hc''))
        rw [this]
        simp [hc']

/-! ## dispatchAll -/

theorem dispatchAll_cons_ok {f : Faults} {d dF : Disp} {m : SubMsg} {rest : List SubMsg}
    (h : dispatchAll f d (m :: rest) = (dF, true)) :
    ∃ d1, dispatch f d m = (d1, true) ∧ dispatchAll f d1 rest = (dF, true) := by
  simp only [dispatchAll] at h
  split at h
  · rename_i d' heq; exact ⟨d', heq, h⟩
  · cases h

theorem dispatchAll_append_ok {f : Faults} {d dF : Disp} {a b : List SubMsg}
    (h : dispatchAll f d (a ++ b) = (dF, true)) :
    ∃ d1, dispatchAll f d a = (d1, true) ∧ dispatchAll f d1 b = (dF, true) := by
  induction a generalizing d with
  | nil => exact ⟨d, rfl, h⟩
  | cons m rest ih =>
    obtain ⟨d1, h1, h2⟩ := dispatchAll_cons_ok h
    obtain ⟨d2, h3, h4⟩ := ih h2
    refine ⟨d2, ?_, h4⟩
    simp only [dispatchAll, h1, h3]

theorem dispatchAll_nil_ok {f : Faults} {d dF : Disp} (h : dispatchAll f d [] = (dF, true)) : dF = d := by
  simp only [dispatchAll, Prod.mk.injEq] at h; exact h.1.symm

/-- oracle messages (`MsgExecuteContract` to the oracle) do not touch the world -/
theorem dispatch_wasm {f : Faults} {d d' : Disp} {sender c p : String} {b : Bool}
    (h : dispatch f d (plain (.wasmExec sender c p)) = (d', b)) : d' = d := by
  simp only [dispatch, plain, Prod.mk.injEq] at h; exact h.1.symm

theorem dispatchAll_oracle {f : Faults} {d dF : Disp} {orc : List SubMsg} {contract : String}
    (ho : ∀ x ∈ orc, ∃ o p, x = plain (.wasmExec contract o p)) (h : dispatchAll f d orc = (dF, true)) : dF = d := by
  induction orc generalizing d with
  | nil => exact dispatchAll_nil_ok h
  | cons m rest ih =>
    obtain ⟨d1, h1, h2⟩ := dispatchAll_cons_ok h
    obtain ⟨o, p, hm⟩ := ho m (by simp)
    subst hm
    have := dispatch_wasm h1
    subst this
    exact ih (fun x hx => ho x (List.mem_cons_of_mem _ hx)) h2

theorem dispatch_mint_ok {f : Faults} {d d' : Disp} {sender denom to : String} {amount : Nat}
    (h : dispatch f d (plain (.mint sender denom amount to)) = (d', true)) :
    sender = d.w.self ∧ amount ≠ 0 ∧
    d' = { d with w := { d.w with supply := fun x => if x = denom then d.w.supply x + amount else d.w.supply x,
                                  bal := d.w.bal.add to denom amount } } := by
  simp only [dispatch, plain] at h
  split at h
  · cases h
  · rename_i hc
    simp only [Bool.or_eq_true, decide_eq_true_eq, not_or] at hc
    cases h
    exact ⟨Decidable.of_not_not hc.1, hc.2, rfl⟩

theorem dispatch_burn_ok {f : Faults} {d d' : Disp} {sender denom from_ : String} {amount : Nat}
    (h : dispatch f d (plain (.burn sender denom amount from_)) = (d', true)) :
    sender = d.w.self ∧ amount ≠ 0 ∧ amount ≤ d.w.bal from_ denom ∧ amount ≤ d.w.supply denom ∧
    d' = { d with w := { d.w with supply := fun x => if x = denom then d.w.supply x - amount else d.w.supply x,
                                  bal := d.w.bal.sub from_ denom amount } } := by
  simp only [dispatch, plain] at h
  split at h
  · cases h
  · rename_i hc
    simp only [Bool.or_eq_true, decide_eq_true_eq, not_or, Nat.not_lt] at hc
    cases h
    exact ⟨Decidable.of_not_not hc.1.1.1, hc.1.1.2, hc.1.2, hc.2, rfl⟩

theorem dispatch_msgSend_ok {f : Faults} {d d' : Disp} {sender to : String} {coins : List Coin}
    (h : dispatch f d (plain (.msgSend sender to coins)) = (d', true)) :
    sender = d.w.self ∧ ∃ b, bankMove d.w.bal d.w.self to coins = some b ∧ d' = { d with w := { d.w with bal := b } } := by
  simp only [dispatch, plain] at h
  split at h
  · cases h
  · rename_i hc
    simp only [Bool.or_eq_true, decide_eq_true_eq, not_or] at hc
    split at h
    · rename_i b hb
      cases h
      exact ⟨Decidable.of_not_not hc.1, b, hb, rfl⟩
    · cases h

theorem dispatch_bankSend_ok {f : Faults} {d d' : Disp} {to : String} {coins : List Coin}
    (h : dispatch f d (plain (.bankSend to coins)) = (d', true)) :
    ∃ b, bankMove d.w.bal d.w.self to coins = some b ∧ d' = { d with w := { d.w with bal := b } } := by
  simp only [dispatch, plain] at h
  split at h
  · cases h
  · split at h
    · rename_i b hb
      cases h
      exact ⟨b, hb, rfl⟩
    · cases h

/-- anatomy of a committed transaction: the attached funds moved, the handler succeeded, and every
message it returned was dispatched successfully, in order, starting from the world with the funds
moved and the handler's store -/
theorem runExecCore_some {w w' : World} {sender : String} {funds : List Coin} {msg : ExecMsg} {f : Faults}
    {txi : Option Nat} {calls : List Call} (h : runExecCore w sender funds msg f txi = (some w', calls)) :
    ∃ bal1 c' msgs d,
      (if funds.isEmpty then some w.bal else bankMove w.bal sender w.self funds) = some bal1
      ∧ execute w.c (w.env txi) { sender, funds } msg = .ok (c', msgs)
      ∧ dispatchAll f { w := { w with bal := bal1, c := c' },
                        calls := [Call.execute { sender, funds } msg (.ok msgs)] } msgs = (d, true)
      ∧ w' = d.w := by
  unfold runExecCore at h
  simp only at h
  split at h
  · cases h
  · rename_i bal1 hb
    cases hx : execute ({ w with bal := bal1 } : World).c (({ w with bal := bal1 } : World).env txi) { sender, funds } msg with
    | error e => simp only [hx] at h; cases h
    | ok r =>
      obtain ⟨c', msgs⟩ := r
      simp only [hx] at h
      split at h
      · rename_i d hd
        simp only [Prod.mk.injEq, Option.some.injEq] at h
        exact ⟨bal1, c', msgs, d, hb, hx, hd, h.1.symm⟩
      · cases h

/-- a successfully dispatched tracked transfer: the coins leave the contract, a pending packet with
the next sequence number exists, and `reply` moved the waiting entry into the packet table -/
theorem dispatch_transferSub_ok {f : Faults} {d d' : Disp} {s : CState} {env : Env} {id : Nat} {recv : String} {coin : Coin}
    (h : dispatch f d (transferSub s env id recv coin) = (d', true)) :
    env.contract = d.w.self ∧ 0 < coin.amount ∧ coin.amount ≤ d.w.bal d.w.self coin.denom ∧
    ∃ wt, d.w.c.waiting.find? id = some wt ∧
      d'.w = { d.w with
        bal := d.w.bal.sub d.w.self coin.denom coin.amount, nextSeq := d.w.nextSeq + 1,
        pkts := d.w.pkts ++ [{ seq := d.w.nextSeq, channel := s.config.proto.channel, sender := env.contract,
                               receiver := recv, coin := coin, state := .pending }],
        c := { d.w.c with waiting := d.w.c.waiting.erase id,
                          inflight := d.w.c.inflight.insert d.w.nextSeq
                            { seq := d.w.nextSeq, coin := wt.coin, receiver := wt.receiver, status := .sent } } } := by
  simp only [dispatch, transferSub] at h
  split at h
  · rename_i hok
    simp only [Bool.and_eq_true, decide_eq_true_eq, Bool.not_eq_true'] at hok
    simp only [↓reduceIte] at h
    split at h
    · rename_i c' o hr
      obtain ⟨_, wt, seq, hseq, hw, hc'⟩ := reply_eff hr
      cases hseq
      simp only [Prod.mk.injEq, and_true] at h
      subst h
      refine ⟨hok.1.1.1, hok.1.1.2, hok.1.2, wt, hw, ?_⟩
      simp only [hc']
    · cases h
  · simp only [↓reduceIte] at h
    split at h
    · rename_i c' o hr
      obtain ⟨_, wt, seq, hseq, _⟩ := reply_eff hr
      cases hseq
    · cases h

end MW.Chain
