import MW.Staking.Query
/-!
# The chain around the staking contract (bank, token factory, IBC transfer, ibc-hooks,
# CosmWasm sub-message / reply / rollback semantics)

This is an *assumption* about Osmosis / CosmWasm / ibc-go written from their documentation
(DESIGN.md §4.3, §8), not repository code.  Clause by clause:

* a transaction first moves the attached funds to the contract, then runs the handler, then
  dispatches the returned messages in order; any failure rolls the whole transaction back;
* bank sends need strictly positive amounts and sufficient balance, and the sender of a
  `MsgSend` must be the contract itself;
* the token factory mints/burns positive amounts for the denom's creator only; a burn needs the
  amount both in the holder's balance and in the supply (bank `BurnCoins`);
* `MsgTransfer` (always a sub-message with `ReplyOn::Always` here) escrows the coins, creates a
  packet with the next sequence number and calls `reply(id, ok seq)`; if it cannot be
  submitted `reply(id, err)` is called; an error from `reply` fails the transaction;
* an error acknowledgement or a timeout refunds the coins to the sender *before* the
  `sudo` callback; a success acknowledgement credits the receiver on the remote chain;
* an ibc-hooks delivery credits the intermediate account derived from (channel, native
  sender) with exactly one coin and executes the message as that account.
-/
namespace MW.Chain
open MW MW.Staking

inductive PktState | pending | delivered | refunded
deriving DecidableEq, Repr, Inhabited

structure ChainPkt where
  seq : Nat
  channel : String
  sender : String
  receiver : String
  coin : Coin
  state : PktState
deriving DecidableEq, Repr, Inhabited

abbrev Bal := String → String → Nat

def Bal.get (b : Bal) (a d : String) : Nat := b a d
def Bal.add (b : Bal) (a d : String) (n : Nat) : Bal :=
  fun a' d' => if a' = a ∧ d' = d then b a' d' + n else b a' d'
def Bal.sub (b : Bal) (a d : String) (n : Nat) : Bal :=
  fun a' d' => if a' = a ∧ d' = d then b a' d' - n else b a' d'

structure World where
  c : CState
  self : String                    -- the contract's address
  chainPrefix : String
  timeNs : Nat
  height : Nat
  bal : Bal                        -- bank balances on the protocol chain
  supply : String → Nat            -- token-factory supply per denom
  remote : Bal                     -- what the native chain has credited per (receiver, denom)
  pkts : List ChainPkt             -- every transfer packet sent from the protocol chain
  nextSeq : Nat

instance : Inhabited World where
  default := { c := default, self := "", chainPrefix := "", timeNs := 0, height := 0,
               bal := fun _ _ => 0, supply := fun _ => 0, remote := fun _ _ => 0, pkts := [], nextSeq := 1 }

def World.env (w : World) (txIndex : Option Nat := some 0) : Env :=
  { timeNs := w.timeNs, height := w.height, txIndex := txIndex, contract := w.self, chainPrefix := w.chainPrefix }

/-- faults the environment may inject into one transaction -/
structure Faults where
  failTransfer : List Nat := []     -- indices (0-based, among the transfers of this tx) that cannot be submitted
  failOracle : Bool := false
deriving Repr, Inhabited

/-- one entry-point invocation made by the chain, with the model's result (the call log the
correspondence check replays against the implementation) -/
inductive Call where
  | execute (info : Info) (msg : ExecMsg) (res : R (List SubMsg))
  | reply (id : Nat) (r : ReplyResult) (res : R (List SubMsg))
  | sudo (msg : SudoMsg) (res : R (List SubMsg))
deriving Repr

def coinsPositive (cs : List Coin) : Bool := cs.all (fun c => c.amount > 0)

/-- move coins between two accounts; `none` if a balance is insufficient or an amount is zero -/
def bankMove (bal : Bal) (src dst : String) : List Coin → Option Bal
  | [] => some bal
  | c :: rest =>
    if c.amount = 0 then none
    else if bal src c.denom < c.amount then none
    else bankMove ((bal.sub src c.denom c.amount).add dst c.denom c.amount) src dst rest

/-- state threaded while dispatching the messages of one response -/
structure Disp where
  w : World
  transfers : Nat := 0              -- number of MsgTransfers seen so far in this tx
  calls : List Call := []

/-- dispatch one message; the `Bool` is `false` when the message (hence the transaction)
failed.  Entry-point calls made on the way are appended to `calls` in either case. -/
def dispatch (f : Faults) (d : Disp) (m : SubMsg) : Disp × Bool :=
  let w := d.w
  match m.msg with
  | .createDenom sender _ => (d, sender = w.self)
  | .mint sender denom amount mintTo =>
    if sender ≠ w.self || amount = 0 then (d, false)
    else ({ d with w := { w with supply := fun x => if x = denom then w.supply x + amount else w.supply x,
                                 bal := w.bal.add mintTo denom amount } }, true)
  | .burn sender denom amount burnFrom =>
    if sender ≠ w.self || amount = 0 || w.bal burnFrom denom < amount || w.supply denom < amount then (d, false)
    else ({ d with w := { w with supply := fun x => if x = denom then w.supply x - amount else w.supply x,
                                 bal := w.bal.sub burnFrom denom amount } }, true)
  | .bankSend to coins =>
    if coins.isEmpty then (d, false) else
    match bankMove w.bal w.self to coins with
    | some b => ({ d with w := { w with bal := b } }, true)
    | none => (d, false)
  | .msgSend sender to coins =>
    if sender ≠ w.self || coins.isEmpty then (d, false) else
    match bankMove w.bal w.self to coins with
    | some b => ({ d with w := { w with bal := b } }, true)
    | none => (d, false)
  | .wasmExec sender _ _ => (d, !(sender ≠ w.self || f.failOracle))
  | .transfer channel _port sender receiver coin _timeout _memo =>
    let idx := d.transfers
    let d := { d with transfers := idx + 1 }
    let submitOk := sender = w.self && coin.amount > 0 && w.bal w.self coin.denom ≥ coin.amount
                    && !(f.failTransfer.contains idx)
    if submitOk then
      let seq := w.nextSeq
      let w1 := { w with bal := w.bal.sub w.self coin.denom coin.amount, nextSeq := seq + 1,
                         pkts := w.pkts ++ [{ seq, channel, sender, receiver, coin, state := .pending }] }
      if m.replyAlways then
        let res := reply w1.c m.id (.ok seq)
        let call := Call.reply m.id (.ok seq) (res.map (·.2))
        match res with
        | .ok (c', _) => ({ d with w := { w1 with c := c' }, calls := d.calls ++ [call] }, true)
        | .error _ => ({ d with calls := d.calls ++ [call] }, false)
      else ({ d with w := w1 }, true)
    else
      if m.replyAlways then
        -- reply(err): the contract may swallow the error by returning Ok (ours never does)
        let res := reply w.c m.id .err
        let call := Call.reply m.id .err (res.map (·.2))
        match res with
        | .ok (c', _) => ({ d with w := { w with c := c' }, calls := d.calls ++ [call] }, true)
        | .error _ => ({ d with calls := d.calls ++ [call] }, false)
      else (d, false)
  | .swapIn .. => (d, true)
  | .swapOut .. => (d, true)

def dispatchAll (f : Faults) : Disp → List SubMsg → Disp × Bool
  | d, [] => (d, true)
  | d, m :: rest =>
    match dispatch f d m with
    | (d', true) => dispatchAll f d' rest
    | (d', false) => (d', false)

/-- result of one transaction: the new world (unchanged on failure), whether it committed and
the log of entry-point calls made up to the point of failure -/
structure TxResult where
  w : World
  committed : Bool
  calls : List Call

/-- the body of a transaction: `some w'` when every step succeeded (the world to commit),
`none` when the handler or any dispatched message failed; plus the call log -/
def runExecCore (w : World) (sender : String) (funds : List Coin) (msg : ExecMsg) (f : Faults)
    (txIndex : Option Nat) : Option World × List Call :=
  let info : Info := { sender, funds }
  match (if funds.isEmpty then some w.bal else bankMove w.bal sender w.self funds) with
  | none => (none, [])
  | some bal1 =>
    let w1 := { w with bal := bal1 }
    let res := execute w1.c (w1.env txIndex) info msg
    let call := Call.execute info msg (res.map (·.2))
    match res with
    | .error _ => (none, [call])
    | .ok (c', msgs) =>
      let d0 : Disp := { w := { w1 with c := c' }, calls := [call] }
      match dispatchAll f d0 msgs with
      | (d, true) => (some d.w, d.calls)
      | (d, false) => (none, d.calls)

/-- execute one message as a transaction: commit the new world or keep the old one -/
def runExec (w : World) (sender : String) (funds : List Coin) (msg : ExecMsg) (f : Faults)
    (txIndex : Option Nat := some 0) : TxResult :=
  match runExecCore w sender funds msg f txIndex with
  | (some w', calls) => { w := w', committed := true, calls }
  | (none, calls) => { w, committed := false, calls }

/-- events of a history (DESIGN.md §4.3) -/
inductive Event where
  | advance (dtNs : Nat) (dHeight : Nat)
  | exec (sender : String) (funds : List Coin) (msg : ExecMsg) (faults : Faults) (txIndex : Option Nat)
  | hook (channel nativeSender : String) (coin : Coin) (msg : ExecMsg) (faults : Faults)
  | ack (seq : Nat) (success : Bool)
  | timeout (seq : Nat)
  | strayAck (channel : String) (seq : Nat) (success : Bool)
  | strayTimeout (channel : String) (seq : Nat)
  | donate (sender : String) (coin : Coin)
  | faucet (to : String) (coin : Coin)            -- tokens arriving from elsewhere (test set-up)
  | reseq (next : Nat)
    -- the next sequence number the chain will assign is `next`: ibc-go numbers packets per (port, channel), so after the
    -- operator moves the contract to another channel the numbering continues wherever that channel's counter stands,
    -- possibly on numbers already used on the previous channel (excluded from the honest environment: no re-routing)
deriving Repr, Inhabited

def sudoCall (w : World) (m : SudoMsg) : World × List Call :=
  let res := sudo w.c m
  match res with
  | .ok (c', _) => ({ w with c := c' }, [Call.sudo m (res.map (·.2))])
  | .error _ => (w, [Call.sudo m (res.map (·.2))])

def setPktState (pkts : List ChainPkt) (seq : Nat) (st : PktState) : List ChainPkt :=
  pkts.map fun p => if p.seq = seq then { p with state := st } else p

/-- one step of the world; returns the new world, whether the event "took" and the call log -/
def step (w : World) : Event → TxResult
  | .advance dt dh => { w := { w with timeNs := w.timeNs + dt, height := w.height + dh }, committed := true, calls := [] }
  | .exec sender funds msg f txi => runExec w sender funds msg f txi
  | .hook channel nativeSender coin msg f =>
    match deriveIntermediateSender channel nativeSender w.chainPrefix with
    | none => { w, committed := false, calls := [] }
    | some acct =>
      if coin.amount = 0 then { w, committed := false, calls := [] } else
      let w1 := { w with bal := w.bal.add acct coin.denom coin.amount }
      let r := runExec w1 acct [coin] msg f
      if r.committed then r else { w, committed := false, calls := r.calls }
  | .ack seq success =>
    match w.pkts.find? (fun p => p.seq = seq && p.state = .pending) with
    | none => { w, committed := false, calls := [] }
    | some p =>
      let w1 := if success then
          { w with pkts := setPktState w.pkts seq .delivered, remote := w.remote.add p.receiver p.coin.denom p.coin.amount }
        else
          { w with pkts := setPktState w.pkts seq .refunded, bal := w.bal.add p.sender p.coin.denom p.coin.amount }
      let (w2, calls) := sudoCall w1 (.ack p.channel seq success)
      { w := w2, committed := true, calls }
  | .timeout seq =>
    match w.pkts.find? (fun p => p.seq = seq && p.state = .pending) with
    | none => { w, committed := false, calls := [] }
    | some p =>
      let w1 := { w with pkts := setPktState w.pkts seq .refunded, bal := w.bal.add p.sender p.coin.denom p.coin.amount }
      let (w2, calls) := sudoCall w1 (.timeout p.channel seq)
      { w := w2, committed := true, calls }
  | .strayAck channel seq success =>
    let (w2, calls) := sudoCall w (.ack channel seq success)
    { w := w2, committed := true, calls }
  | .strayTimeout channel seq =>
    let (w2, calls) := sudoCall w (.timeout channel seq)
    { w := w2, committed := true, calls }
  | .donate sender coin =>
    match bankMove w.bal sender w.self [coin] with
    | none => { w, committed := false, calls := [] }
    | some b => { w := { w with bal := b }, committed := true, calls := [] }
  | .faucet to coin => { w := { w with bal := w.bal.add to coin.denom coin.amount }, committed := true, calls := [] }
  | .reseq n => { w := { w with nextSeq := n }, committed := true, calls := [] }

end MW.Chain
