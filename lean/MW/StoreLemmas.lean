import MW.Store
/-!
# Lemmas about `AMap` (sorted association lists), phrased through `find?`
-/
namespace MW.AMap
variable {α : Type}

@[simp] theorem find?_nil (k : Nat) : find? ([] : AMap α) k = none := rfl

theorem find?_cons (k' : Nat) (v : α) (rest : AMap α) (k : Nat) :
    find? ((k', v) :: rest) k = if k' = k then some v else find? rest k := rfl

theorem find?_insert_self (m : AMap α) (k : Nat) (v : α) : (m.insert k v).find? k = some v := by
  induction m with
  | nil => simp [insert, find?]
  | cons kv rest ih =>
    obtain ⟨k', v'⟩ := kv
    simp only [insert]
    split
    · simp [find?]
    · split
      · simp [find?]
      · rename_i h1 h2
        simp only [find?]
        have : ¬ k' = k := fun h => h2 h.symm
        simp [this, ih]

theorem find?_insert_other (m : AMap α) (k k' : Nat) (v : α) (h : k' ≠ k) :
    (m.insert k v).find? k' = m.find? k' := by
  induction m with
  | nil => simp [insert, find?, h.symm]
  | cons kv rest ih =>
    obtain ⟨k0, v0⟩ := kv
    simp only [insert]
    split
    · simp [find?, h.symm]
    · split
      · rename_i h1 h2
        subst h2
        simp [find?, h.symm]
      · simp only [find?]
        split
        · rfl
        · exact ih

theorem find?_insert (m : AMap α) (k k' : Nat) (v : α) :
    (m.insert k v).find? k' = if k' = k then some v else m.find? k' := by
  split
  · rename_i h; subst h; exact find?_insert_self m k' v
  · rename_i h; exact find?_insert_other m k k' v h

theorem find?_erase_self (m : AMap α) (k : Nat) : (m.erase k).find? k = none := by
  unfold erase
  induction m with
  | nil => rfl
  | cons kv rest ih =>
    obtain ⟨k', v'⟩ := kv
    by_cases hk : k' = k
    · simp only [List.filter_cons, hk, decide_true, Bool.not_true, Bool.false_eq_true, ↓reduceIte]
      exact ih
    · simp only [List.filter_cons, hk, decide_false, Bool.not_false, ↓reduceIte, find?]
      exact ih

theorem find?_erase_other (m : AMap α) (k k' : Nat) (h : k' ≠ k) : (m.erase k).find? k' = m.find? k' := by
  unfold erase
  induction m with
  | nil => rfl
  | cons kv rest ih =>
    obtain ⟨k0, v0⟩ := kv
    by_cases hk : k0 = k
    · have hne : ¬ k0 = k' := fun h' => h (by rw [← h', hk])
      simp only [List.filter_cons, hk, decide_true, Bool.not_true, Bool.false_eq_true, ↓reduceIte, find?]
      subst hk
      simp only [hne, ↓reduceIte]
      exact ih
    · simp only [List.filter_cons, hk, decide_false, Bool.not_false, ↓reduceIte, find?]
      split
      · rfl
      · exact ih

theorem find?_erase (m : AMap α) (k k' : Nat) :
    (m.erase k).find? k' = if k' = k then none else m.find? k' := by
  split
  · rename_i h; subst h; exact find?_erase_self m k'
  · rename_i h; exact find?_erase_other m k k' h

theorem mem_of_find? {m : AMap α} {k : Nat} {v : α} (h : m.find? k = some v) : (k, v) ∈ m := by
  induction m with
  | nil => simp at h
  | cons kv rest ih =>
    obtain ⟨k', v'⟩ := kv
    simp only [find?] at h
    split at h
    · rename_i hk; cases h; subst hk; simp
    · exact List.mem_cons_of_mem _ (ih h)

theorem find?_isSome_of_mem {m : AMap α} {k : Nat} {v : α} (h : (k, v) ∈ m) : (m.find? k).isSome := by
  induction m with
  | nil => simp at h
  | cons kv rest ih =>
    obtain ⟨k', v'⟩ := kv
    simp only [find?]
    split
    · rfl
    · simp only [List.mem_cons, Prod.mk.injEq] at h
      rename_i hk
      rcases h with ⟨h1, _⟩ | h
      · exact absurd h1.symm hk
      · exact ih h

/-! ## sortedness -/

theorem sorted_nil : Sorted ([] : AMap α) := List.Pairwise.nil

theorem sorted_cons {k : Nat} {v : α} {rest : AMap α} :
    Sorted ((k, v) :: rest) ↔ (∀ x ∈ rest, k < x.1) ∧ Sorted rest := by
  unfold Sorted; exact List.pairwise_cons

theorem mem_insert_key {m : AMap α} {k : Nat} {v : α} {x : Nat × α} (h : x ∈ m.insert k v) :
    x.1 = k ∨ x ∈ m := by
  induction m with
  | nil => simp [insert] at h; left; rw [h]
  | cons kv rest ih =>
    obtain ⟨k0, v0⟩ := kv
    simp only [insert] at h
    split at h
    · simp only [List.mem_cons] at h
      rcases h with h | h | h
      · left; rw [h]
      · right; rw [h]; simp
      · right; exact List.mem_cons_of_mem _ h
    · split at h
      · simp only [List.mem_cons] at h
        rcases h with h | h
        · left; rw [h]
        · right; exact List.mem_cons_of_mem _ h
      · simp only [List.mem_cons] at h
        rcases h with h | h
        · right; rw [h]; simp
        · rcases ih h with h' | h'
          · left; exact h'
          · right; exact List.mem_cons_of_mem _ h'

theorem sorted_insert {m : AMap α} (hs : Sorted m) (k : Nat) (v : α) : Sorted (m.insert k v) := by
  induction m with
  | nil => simp [insert, Sorted]
  | cons kv rest ih =>
    obtain ⟨k0, v0⟩ := kv
    obtain ⟨h1, h2⟩ := sorted_cons.mp hs
    simp only [insert]
    split
    · rename_i hlt
      refine sorted_cons.mpr ⟨?_, hs⟩
      intro x hx
      simp only [List.mem_cons] at hx
      rcases hx with hx | hx
      · rw [hx]; exact hlt
      · exact Nat.lt_trans hlt (h1 x hx)
    · split
      · rename_i _ heq; subst heq
        exact sorted_cons.mpr ⟨h1, h2⟩
      · rename_i hnlt hne
        refine sorted_cons.mpr ⟨?_, ih h2⟩
        intro x hx
        rcases mem_insert_key hx with hx | hx
        · rw [hx]; omega
        · exact h1 x hx

/-- in a sorted map a key occurs once: membership determines `find?` -/
theorem find?_of_mem_sorted {m : AMap α} (hs : Sorted m) {k : Nat} {v : α} (h : (k, v) ∈ m) : m.find? k = some v := by
  induction m with
  | nil => simp at h
  | cons kv rest ih =>
    obtain ⟨k0, v0⟩ := kv
    obtain ⟨h1, h2⟩ := sorted_cons.mp hs
    simp only [List.mem_cons, Prod.mk.injEq] at h
    simp only [find?]
    rcases h with ⟨hk, hv⟩ | h
    · subst hk hv; simp
    · have := h1 (k, v) h
      have hne : ¬ k0 = k := by simp at this; omega
      simp only [hne, ↓reduceIte]
      exact ih h2 h

theorem sorted_erase {m : AMap α} (hs : Sorted m) (k : Nat) : Sorted (m.erase k) := by
  unfold erase Sorted; exact List.Pairwise.filter _ hs

theorem sorted_after {m : AMap α} (hs : Sorted m) (c : Option Nat) : Sorted (m.after c) := by
  unfold after
  cases c with
  | none => exact hs
  | some c => unfold Sorted; exact List.Pairwise.filter _ hs

end MW.AMap
