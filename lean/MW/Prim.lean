/-!
# Primitive arithmetic of cosmwasm-std 1.5.9 as used by the contracts

`Uint128` is modelled as `Nat` together with *checked* operations against `2^128-1`;
every operation that panics in Rust (overflow with `overflow-checks = true`, division by
zero, `multiply_ratio` overflow) returns `Err.panic site`.  Nothing is totalised.
-/
namespace MW

/-- Errors of both contracts.  `panic` carries the panic site (DESIGN.md Appendix A). -/
inductive Err where
  | std (what : String)            -- StdError::{GenericErr, NotFound, ParseErr, ..}
  | parse                          -- the message JSON does not deserialize
  | unauthorized | admin | noPendingOwner | ownershipNotReady
  | payment (what : String)
  | minimumLiquidStake | mintError | duplicateValidator | validatorNotFound | invalidAddress
  | ibcChannelNotFound | ibcChannelConfigWrong | batchNotReady | batchEmpty | batchNotClaimable
  | tokensAlreadyClaimed | noRequestInBatch | invalidReplyId | noInflightPackets
  | invalidUnstakeAmount | halted | failedIbcTransfer | contractLocked | receiveRewardsTooSmall
  | noLiquidStake | mintAmountMismatch | insufficientFunds | missingMintAddress
  | treasuryNotConfigured | version (what : String) | invalidReceiver | inconsistentDenom
  | swapRouteNotAllowed | invalidTokenIn | invalidTokenOut
  | panic (site : String)
deriving DecidableEq, Repr, Inhabited

def Err.isPanic : Err → Bool
  | .panic _ => true
  | _ => false

/-- the Rust `Debug` name of the error variant (compared as `error_kind`, logged only) -/
def Err.kind : Err → String
  | .std _ => "Std" | .parse => "Parse" | .unauthorized => "Unauthorized" | .admin => "Admin"
  | .noPendingOwner => "NoPendingOwner" | .ownershipNotReady => "OwnershipTransferNotReady"
  | .payment _ => "Payment" | .minimumLiquidStake => "MinimumLiquidStakeAmount"
  | .mintError => "MintError" | .duplicateValidator => "DuplicateValidator"
  | .validatorNotFound => "ValidatorNotFound" | .invalidAddress => "InvalidAddress"
  | .ibcChannelNotFound => "IbcChannelNotFound" | .ibcChannelConfigWrong => "IbcChannelConfigWrong"
  | .batchNotReady => "BatchNotReady" | .batchEmpty => "BatchEmpty"
  | .batchNotClaimable => "BatchNotClaimable" | .tokensAlreadyClaimed => "TokensAlreadyClaimed"
  | .noRequestInBatch => "NoRequestInBatch" | .invalidReplyId => "InvalidReplyID"
  | .noInflightPackets => "NoInflightPackets" | .invalidUnstakeAmount => "InvalidUnstakeAmount"
  | .halted => "Halted" | .failedIbcTransfer => "FailedIBCTransfer" | .contractLocked => "ContractLocked"
  | .receiveRewardsTooSmall => "ReceiveRewardsTooSmall" | .noLiquidStake => "NoLiquidStake"
  | .mintAmountMismatch => "MintAmountMismatch" | .insufficientFunds => "InsufficientFunds"
  | .missingMintAddress => "MissingMintAddress" | .treasuryNotConfigured => "TreasuryNotConfigured"
  | .version _ => "Version" | .invalidReceiver => "InvalidReceiver" | .inconsistentDenom => "InconsistentDenom"
  | .swapRouteNotAllowed => "SwapRouteNotAllowed" | .invalidTokenIn => "InvalidTokenInDenom"
  | .invalidTokenOut => "InvalidTokenOutDenom" | .panic _ => "PANIC"

abbrev R (α : Type) := Except Err α

/-- a guard: `ensure c e` fails with `e` unless `c` holds.  Handlers are written as flat chains of
binds over `ensure` / `loadSome` (no `if .. then throw ..` statements) so that
`h : handler .. = .ok ..` unfolds into one conjunction of facts. -/
def ensure (c : Bool) (e : Err) : R Unit := if c then .ok () else .error e

/-- unwrap an optional value or fail with `e` -/
def loadSome {α} (o : Option α) (e : Err) : R α :=
  match o with
  | some a => .ok a
  | none => .error e

def U128.max : Nat := 2 ^ 128 - 1
def U64.max : Nat := 2 ^ 64 - 1
def U32.max : Nat := 2 ^ 32 - 1

/-- `Uint128 + Uint128` / `+=` (panics on overflow) -/
def add128 (site : String) (a b : Nat) : R Nat :=
  if a + b ≤ U128.max then .ok (a + b) else .error (.panic site)

/-- `u64 + u64` under `overflow-checks = true` -/
def add64 (site : String) (a b : Nat) : R Nat :=
  if a + b ≤ U64.max then .ok (a + b) else .error (.panic site)

/-- `u64 * u64` under `overflow-checks = true` -/
def mul64 (site : String) (a b : Nat) : R Nat :=
  if a * b ≤ U64.max then .ok (a * b) else .error (.panic site)

/-- `usize - usize` under `overflow-checks = true` -/
def subUsize (site : String) (a b : Nat) : R Nat :=
  if b ≤ a then .ok (a - b) else .error (.panic site)

/-- `Uint128::checked_sub` -/
def checkedSub (a b : Nat) : Option Nat := if b ≤ a then some (a - b) else none

/-- `Uint128::multiply_ratio(self, n, d)`: `floor(self*n/d)` over the exact 256-bit product;
panics on `d = 0` and when the quotient does not fit 128 bits. -/
def mulRatio (site : String) (a n d : Nat) : R Nat :=
  if d = 0 then .error (.panic (site ++ ":div0"))
  else if a * n / d ≤ U128.max then .ok (a * n / d)
  else .error (.panic (site ++ ":overflow"))

/-- `Uint128::checked_multiply_ratio`: `None` on a zero denominator or a 128-bit overflow -/
def checkedMulRatio (a n d : Nat) : Option Nat :=
  if d = 0 then none else if a * n / d ≤ U128.max then some (a * n / d) else none

/-- `Decimal::from_ratio(n, d)`: atomics = `floor(n * 10^18 / d)`; same two panics -/
def decimalFromRatio (site : String) (n d : Nat) : R Nat :=
  mulRatio site n (10 ^ 18) d

/-- 18-digit zero-padded fraction with trailing zeros removed -/
def trimZerosRev : List Char → List Char
  | '0' :: cs => trimZerosRev cs
  | cs => cs

def padLeft (n : Nat) (s : String) : String :=
  String.ofList (List.replicate (n - s.length) '0') ++ s

/-- `impl Display for Decimal` -/
def decimalToString (atomics : Nat) : String :=
  let whole := atomics / 10 ^ 18
  let frac := atomics % 10 ^ 18
  if frac = 0 then toString whole
  else
    let fs := padLeft 18 (toString frac)
    toString whole ++ "." ++ String.ofList (trimZerosRev fs.toList.reverse).reverse

#guard decimalToString (2 * 10 ^ 18) = "2"
#guard decimalToString (5 * 10 ^ 17) = "0.5"
#guard decimalToString 2000666222592469176 = "2.000666222592469176"
#guard decimalToString 0 = "0"
#guard decimalToString 1 = "0.000000000000000001"

structure Coin where
  denom : String
  amount : Nat
deriving DecidableEq, Repr, Inhabited

end MW
