namespace MW
def hello := "hi"
end MW
