import MW.Chain.Dispatch
import MW.Staking.Effects
/-!
# A committed LiquidStake on the chain model (helper lemmas for C03)

What one committed `LiquidStake` transaction does to the LST ledgers of the chain model: the supply
grows by the minted amount `m`; with a protocol-chain recipient the recipient's bank balance grows by
exactly `m` and nobody else's LST balance changes; with a native-chain recipient a pending IBC packet
carrying exactly `m` LST to the recipient is created and no bank balance of LST changes.
-/
namespace MW.Chain
open MW MW.Staking

theorem dispatch_mint_plain {f : Faults} {d d' : Disp} {sender denom to : String} {amount : Nat}
    (h : dispatch f d (plain (.mint sender denom amount to)) = (d', true)) :
    d' = { d with w := { d.w with supply := fun x => if x = denom then d.w.supply x + amount else d.w.supply x,
                                  bal := d.w.bal.add to denom amount } } :=
  (dispatch_mint_ok h).2.2

/-- the bank/supply state threaded through the messages of a stake, for the LST denom `X` -/
theorem stake_msgs_lst {f : Faults} {d0 dF : Disp} {s : CState} {env : Env} {m a id1 : Nat} {orc : List SubMsg} {last : SubMsg}
    (X D : String) (hXD : D ≠ X) (hX : s.config.lstDenom = X) (hD : s.config.proto.ibcDenom = D)
    (horc : ∀ x ∈ orc, ∃ o p, x = plain (.wasmExec env.contract o p))
    (hd : dispatchAll f d0 ([plain (.mint env.contract X m env.contract)] ++ orc
            ++ [transferSub s env id1 s.config.native.staker ⟨D, a⟩] ++ [last]) = (dF, true)) :
    ∃ d2, dispatch f d2 last = (dF, true)
      ∧ d2.w.supply X = d0.w.supply X + m
      ∧ (∀ acct, d2.w.bal acct X = (d0.w.bal.add env.contract X m) acct X)
      ∧ d2.w.self = d0.w.self
      ∧ d2.w.pkts = d0.w.pkts ++ [(ChainPkt.mk d0.w.nextSeq s.config.proto.channel env.contract
                                   s.config.native.staker ⟨D, a⟩ .pending)]
      ∧ d2.w.nextSeq = d0.w.nextSeq + 1
      ∧ env.contract = d0.w.self := by
  obtain ⟨d3, h123, h4⟩ := dispatchAll_append_ok hd
  obtain ⟨d2', h12, h3⟩ := dispatchAll_append_ok h123
  obtain ⟨d1, h1, h2⟩ := dispatchAll_append_ok h12
  -- mint
  obtain ⟨d1', hm, hnil⟩ := dispatchAll_cons_ok h1
  have := dispatchAll_nil_ok hnil; subst this
  have hd1 := dispatch_mint_plain hm
  -- oracle
  have := dispatchAll_oracle horc h2; subst this
  -- tracked transfer of the staked asset
  obtain ⟨d3', ht, hnil3⟩ := dispatchAll_cons_ok h3
  have := dispatchAll_nil_ok hnil3; subst this
  obtain ⟨hself, _, _, wt, _, hw3⟩ := dispatch_transferSub_ok ht
  -- the last message
  obtain ⟨d4, hl, hnil4⟩ := dispatchAll_cons_ok h4
  have := dispatchAll_nil_ok hnil4; subst this
  refine ⟨d3, hl, ?_, ?_, ?_, ?_, ?_, ?_⟩
  · rw [hw3, hd1]; simp
  · intro acct
    rw [hw3, hd1]
    simp only [Bal.sub_apply, Bal.add_apply]
    have : ¬ X = D := fun e => hXD e.symm
    simp [this]
  · rw [hw3, hd1]
  · rw [hw3, hd1]
  · rw [hw3, hd1]
  · rw [hself, hd1]


/-- **a committed LiquidStake on the chain model.**  For a sender and a recipient other than the
contract: the LST supply grows by the minted amount `m ≠ 0`; a protocol-chain recipient's bank balance
of LST grows by exactly `m`, the contract's own LST balance is as before and nobody else's changes; for
a native-chain recipient no bank balance of LST changes and a pending packet carrying exactly `m` LST
from the contract to the recipient has been created. -/
theorem stake_tx_delivers {w : World} {sender : String} {funds : List Coin} {mt : Option String} {tn : Option Bool}
    {ex : Option Nat} {f : Faults} {txi : Option Nat} (hs : sender ≠ w.self) (hr : mt.getD sender ≠ w.self)
    (hXD : w.c.config.proto.ibcDenom ≠ w.c.config.lstDenom)
    (hc : (step w (.exec sender funds (.liquidStake mt tn ex) f txi)).committed = true) :
    ∃ m, m ≠ 0
      ∧ (step w (.exec sender funds (.liquidStake mt tn ex) f txi)).w.supply w.c.config.lstDenom = w.supply w.c.config.lstDenom + m
      ∧ ((deliverOnProtocol w.c.config (mt.getD sender) tn = true
           ∧ (step w (.exec sender funds (.liquidStake mt tn ex) f txi)).w.bal (mt.getD sender) w.c.config.lstDenom
               = w.bal (mt.getD sender) w.c.config.lstDenom + m
           ∧ ∀ acct, acct ≠ mt.getD sender →
               (step w (.exec sender funds (.liquidStake mt tn ex) f txi)).w.bal acct w.c.config.lstDenom = w.bal acct w.c.config.lstDenom)
        ∨ (deliverOnProtocol w.c.config (mt.getD sender) tn = false
           ∧ (∀ acct, (step w (.exec sender funds (.liquidStake mt tn ex) f txi)).w.bal acct w.c.config.lstDenom
                        = w.bal acct w.c.config.lstDenom)
           ∧ ChainPkt.mk (w.nextSeq + 1) w.c.config.proto.channel w.self (mt.getD sender) ⟨w.c.config.lstDenom, m⟩ .pending
               ∈ (step w (.exec sender funds (.liquidStake mt tn ex) f txi)).w.pkts)) := by
  simp only [step, runExec] at hc ⊢
  cases hcore : runExecCore w sender funds (.liquidStake mt tn ex) f txi with
  | mk o calls =>
    cases o with
    | none => simp [hcore] at hc
    | some w' =>
      simp only [hcore]
      obtain ⟨bal1, c', msgs, d, hbal, hx, hd, hw'⟩ := runExecCore_some hcore
      subst hw'
      simp only [execute, bind_ok] at hx
      obtain ⟨pay, hp, hx⟩ := hx
      obtain ⟨hfunds, hpay0⟩ := mustPay_ok hp
      simp only at hfunds
      subst hfunds
      simp only [List.isEmpty_cons, Bool.false_eq_true, ↓reduceIte] at hbal
      have hX1 : ∀ acct, bal1 acct w.c.config.lstDenom = w.bal acct w.c.config.lstDenom := by
        intro acct
        apply bankMove_other_denom hbal
        · simp [coinSum, hXD]
        · intro c hc hcd
          simp only [List.mem_singleton] at hc
          subst hc
          exact hXD hcd
      obtain ⟨st, m, id1, orc, _, _, _, hm0, _, _, horc, hcase⟩ := liquidStake_eff hx
      refine ⟨m, hm0, ?_⟩
      simp only at hcase
      have henv : (w.env txi).contract = w.self := rfl
      rcases hcase with ⟨hdel, hs', hout⟩ | ⟨hdel, _, hs', hout⟩
      · subst hout
        obtain ⟨d2, hl, h1, h2, h3, _, _, h6⟩ :=
          stake_msgs_lst w.c.config.lstDenom w.c.config.proto.ibcDenom hXD rfl rfl horc hd
        obtain ⟨_, b, hbm, hdF⟩ := dispatch_msgSend_ok hl
        subst hdF
        rw [h3] at hbm
        simp only at hbm
        obtain ⟨g1, _, g3, g4⟩ := bankMove_ok (fun e => hr e.symm) hbm w.c.config.lstDenom
        simp only [coinSum, ↓reduceIte, Nat.add_zero] at g1 g3 g4
        refine ⟨by simpa using h1, .inl ⟨hdel, ?_, ?_⟩⟩
        · simp only
          rw [g1, h2]
          simp only [Bal.add_apply, henv]
          have : ¬ (mt.getD sender = w.self) := hr
          simp [this, hX1]
        · intro acct ha
          simp only
          by_cases hself : acct = w.self
          · subst hself
            rw [g3, h2]
            simp only [Bal.add_apply, henv, and_self, ↓reduceIte, hX1]
            omega
          · rw [g4 acct hself ha, h2]
            simp only [Bal.add_apply, henv]
            simp [hself, hX1]
      · subst hout
        obtain ⟨d2, hl, h1, h2, h3, h4, h5, h6⟩ :=
          stake_msgs_lst w.c.config.lstDenom w.c.config.proto.ibcDenom hXD rfl rfl horc hd
        obtain ⟨_, _, _, wt, _, hdF⟩ := dispatch_transferSub_ok hl
        refine ⟨by rw [hdF]; simpa using h1, .inr ⟨by simpa using hdel, ?_, ?_⟩⟩
        · intro acct
          rw [hdF]
          simp only [Bal.sub_apply]
          rw [h2, h3]
          simp only [Bal.add_apply, henv]
          by_cases hself : acct = w.self
          · subst hself; simp [hX1]
          · simp [hself, hX1]
        · rw [hdF]
          simp only [h4, h5, List.mem_append, List.mem_singleton]
          right
          simp [henv]

end MW.Chain
