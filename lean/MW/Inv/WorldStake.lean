import MW.Chain.Dispatch
import MW.Staking.Effects
/-!
# A committed LiquidStake on the chain model (helper lemmas for C03)

What one committed `LiquidStake` transaction does to the LST ledgers of the chain model: the supply
grows by the minted amount `m`; with a protocol-chain recipient the recipient's bank balance grows by
exactly `m` and nobody else's LST balance changes; with a native-chain recipient a pending IBC packet
carrying exactly `m` LST to the recipient is created and no bank balance of LST changes.
-/
namespace MW.Chain
open MW MW.Staking

theorem dispatch_mint_plain {f : Faults} {d d' : Disp} {sender denom to : String} {amount : Nat}
    (h : dispatch f d (plain (.mint sender denom amount to)) = (d', true)) :
    d' = { d with w := { d.w with supply := fun x => if x = denom then d.w.supply x + amount else d.w.supply x,
                                  bal := d.w.bal.add to denom amount } } :=
  (dispatch_mint_ok h).2.2

/-- the bank/supply state threaded through the messages of a stake, for the LST denom `X` -/
theorem stake_msgs_lst {f : Faults} {d0 dF : Disp} {s : CState} {env : Env} {m a id1 : Nat} {orc : List SubMsg} {last : SubMsg}
    (X D : String) (hXD : D ≠ X) (hX : s.config.lstDenom = X) (hD : s.config.proto.ibcDenom = D)
    (horc : ∀ x ∈ orc, ∃ o p, x = plain (.wasmExec env.contract o p))
    (hd : dispatchAll f d0 ([plain (.mint env.contract X m env.contract)] ++ orc
            ++ [transferSub s env id1 s.config.native.staker ⟨D, a⟩] ++ [last]) = (dF, true)) :
    ∃ d2, dispatch f d2 last = (dF, true)
      ∧ d2.w.supply X = d0.w.supply X + m
      ∧ (∀ acct, d2.w.bal acct X = (d0.w.bal.add env.contract X m) acct X)
      ∧ d2.w.self = d0.w.self
      ∧ d2.w.pkts = d0.w.pkts ++ [(ChainPkt.mk d0.w.nextSeq s.config.proto.channel env.contract
                                   s.config.native.staker ⟨D, a⟩ .pending)]
      ∧ d2.w.nextSeq = d0.w.nextSeq + 1
      ∧ env.contract = d0.w.self := by
  obtain ⟨d3, h123, h4⟩ := dispatchAll_append_ok hd
  obtain ⟨d2', h12, h3⟩ := dispatchAll_append_ok h123
  obtain ⟨d1, h1, h2⟩ := dispatchAll_append_ok h12
  -- mint
  obtain ⟨d1', hm, hnil⟩ := dispatchAll_cons_ok h1
  have := dispatchAll_nil_ok hnil; subst this
  have hd1 := dispatch_mint_plain hm
  -- oracle
  have := dispatchAll_oracle horc h2; subst this
  -- tracked transfer of the staked asset
  obtain ⟨d3', ht, hnil3⟩ := dispatchAll_cons_ok h3
  have := dispatchAll_nil_ok hnil3; subst this
  obtain ⟨hself, _, _, wt, _, hw3⟩ := dispatch_transferSub_ok ht
  -- the last message
  obtain ⟨d4, hl, hnil4⟩ := dispatchAll_cons_ok h4
  have := dispatchAll_nil_ok hnil4; subst this
  refine ⟨d3, hl, ?_, ?_, ?_, ?_, ?_, ?_⟩
  · rw [hw3, hd1]; simp
  · intro acct
    rw [hw3, hd1]
    simp only [Bal.sub_apply, Bal.add_apply]
    have : ¬ X = D := fun e => hXD e.symm
    simp [this]
  · rw [hw3, hd1]
  · rw [hw3, hd1]
  · rw [hw3, hd1]
  · rw [hself, hd1]


/-- **a committed LiquidStake on the chain model.**  For a sender and a recipient other than the
contract: the LST supply grows by the minted amount `m ≠ 0`; a protocol-chain recipient's bank balance
of LST grows by exactly `m`, the contract's own LST balance is as before and nobody else's changes; for
a native-chain recipient no bank balance of LST changes and a pending packet carrying exactly `m` LST
from the contract to the recipient has been created. -/
theorem stake_tx_delivers {w : World} {sender : String} {funds : List Coin} {mt : Option String} {tn : Option Bool}
    {ex : Option Nat} {f : Faults} {txi : Option Nat} (hs : sender ≠ w.self) (hr : mt.getD sender ≠ w.self)
    (hXD : w.c.config.proto.ibcDenom ≠ w.c.config.lstDenom)
    (hc : (step w (.exec sender funds (.liquidStake mt tn ex) f txi)).committed = true) :
    ∃ m, m ≠ 0
      ∧ (step w (.exec sender funds (.liquidStake mt tn ex) f txi)).w.supply w.c.config.lstDenom = w.supply w.c.config.lstDenom + m
      ∧ ((deliverOnProtocol w.c.config (mt.getD sender) tn = true
           ∧ (step w (.exec sender funds (.liquidStake mt tn ex) f txi)).w.bal (mt.getD sender) w.c.config.lstDenom
               = w.bal (mt.getD sender) w.c.config.lstDenom + m
           ∧ ∀ acct, acct ≠ mt.getD sender →
               (step w (.exec sender funds (.liquidStake mt tn ex) f txi)).w.bal acct w.c.config.lstDenom = w.bal acct w.c.config.lstDenom)
        ∨ (deliverOnProtocol w.c.config (mt.getD sender) tn = false
           ∧ (∀ acct, (step w (.exec sender funds (.liquidStake mt tn ex) f txi)).w.bal acct w.c.config.lstDenom
                        = w.bal acct w.c.config.lstDenom)
           ∧ ChainPkt.mk (w.nextSeq + 1) w.c.config.proto.channel w.self (mt.getD sender) ⟨w.c.config.lstDenom, m⟩ .pending
               ∈ (step w (.exec sender funds (.liquidStake mt tn ex) f txi)).w.pkts)) := by
  simp only [step, runExec] at hc ⊢
  cases hcore : runExecCore w sender funds (.liquidStake mt tn ex) f txi with
  | mk o calls =>
    cases o with
    | none => simp [hcore] at hc
    | some w' =>
      simp only [hcore]
      obtain ⟨bal1, c', msgs, d, hbal, hx, hd, hw'⟩ := runExecCore_some hcore
      subst hw'
      simp only [execute, bind_ok] at hx
      obtain ⟨pay, hp, hx⟩ := hx
      obtain ⟨hfunds, hpay0⟩ := mustPay_ok hp
      simp only at hfunds
      subst hfunds
      simp only [List.isEmpty_cons, Bool.false_eq_true, ↓reduceIte] at hbal
      have hX1 : ∀ acct, bal1 acct w.c.config.lstDenom = w.bal acct w.c.config.lstDenom := by
        intro acct
        apply bankMove_other_denom hbal
        · simp [coinSum, hXD]
        · intro c hc hcd
          simp only [List.mem_singleton] at hc
          subst hc
          exact hXD hcd
      obtain ⟨st, m, id1, orc, _, _, _, hm0, _, _, horc, hcase⟩ := liquidStake_eff hx
      refine ⟨m, hm0, ?_⟩
      simp only at hcase
      have henv : (w.env txi).contract = w.self := rfl
      rcases hcase with ⟨hdel, hs', hout⟩ | ⟨hdel, _, hs', hout⟩
      · subst hout
        obtain ⟨d2, hl, h1, h2, h3, _, _, h6⟩ :=
          stake_msgs_lst w.c.config.lstDenom w.c.config.proto.ibcDenom hXD rfl rfl horc hd
        obtain ⟨_, b, hbm, hdF⟩ := dispatch_msgSend_ok hl
        subst hdF
        rw [h3] at hbm
        simp only at hbm
        obtain ⟨g1, _, g3, g4⟩ := bankMove_ok (fun e => hr e.symm) hbm w.c.config.lstDenom
        simp only [coinSum, ↓reduceIte, Nat.add_zero] at g1 g3 g4
        refine ⟨by simpa using h1, .inl ⟨hdel, ?_, ?_⟩⟩
        · simp only
          rw [g1, h2]
          simp only [Bal.add_apply, henv]
          have : ¬ (mt.getD sender = w.self) := hr
          simp [this, hX1]
        · intro acct ha
          simp only
          by_cases hself : acct = w.self
          · subst hself
            rw [g3, h2]
            simp only [Bal.add_apply, henv, and_self, ↓reduceIte, hX1]
            omega
          · rw [g4 acct hself ha, h2]
            simp only [Bal.add_apply, henv]
            simp [hself, hX1]
      · subst hout
        obtain ⟨d2, hl, h1, h2, h3, h4, h5, h6⟩ :=
          stake_msgs_lst w.c.config.lstDenom w.c.config.proto.ibcDenom hXD rfl rfl horc hd
        obtain ⟨_, _, _, wt, _, hdF⟩ := dispatch_transferSub_ok hl
        refine ⟨by rw [hdF]; simpa using h1, .inr ⟨by simpa using hdel, ?_, ?_⟩⟩
        · intro acct
          rw [hdF]
          simp only [Bal.sub_apply]
          rw [h2, h3]
          simp only [Bal.add_apply, henv]
          by_cases hself : acct = w.self
          · subst hself; simp [hX1]
          · simp [hself, hX1]
        · rw [hdF]
          simp only [h4, h5, List.mem_append, List.mem_singleton]
          right
          simp [henv]


theorem findCoin_singleton {c r : Coin} {D : String} (h : findCoin [c] D = some r) : r = c ∧ c.denom = D := by
  unfold findCoin at h
  simp only [List.find?_cons, List.find?_nil] at h
  split at h
  · rename_i hd
    simp only [decide_eq_true_eq] at hd
    simp only [Option.some.injEq] at h
    exact ⟨h.symm, hd⟩
  · cases h

/-- **a committed ReceiveRewards on the chain model**: the reward `a` leaves the sender (the ibc-hooks
account), `a − fee` travels on toward the staker in a pending packet, and `fee = floor(rate·a/100000)`
lands with the treasury (when one is configured) or stays in the contract (when none is) — fee plus
restaked amount is the reward exactly, on the ledgers. -/
theorem rewards_tx_split {w : World} {sender : String} {coin : Coin} {f : Faults} {txi : Option Nat}
    (hs : sender ≠ w.self) (hc : (runExec w sender [coin] .receiveRewards f txi).committed = true) :
    coin.denom = w.c.config.proto.ibcDenom
    ∧ w.c.config.feeCfg.fee * coin.amount / 100000 ≤ coin.amount
    ∧ coin.amount ≤ w.bal sender w.c.config.proto.ibcDenom
    ∧ ChainPkt.mk w.nextSeq w.c.config.proto.channel w.self w.c.config.native.staker
        ⟨w.c.config.proto.ibcDenom, coin.amount - w.c.config.feeCfg.fee * coin.amount / 100000⟩ .pending
        ∈ (runExec w sender [coin] .receiveRewards f txi).w.pkts
    ∧ (∀ t, w.c.config.feeCfg.treasury = some t → t ≠ w.self → t ≠ sender →
          (runExec w sender [coin] .receiveRewards f txi).w.bal t w.c.config.proto.ibcDenom
            = w.bal t w.c.config.proto.ibcDenom + w.c.config.feeCfg.fee * coin.amount / 100000
          ∧ (runExec w sender [coin] .receiveRewards f txi).w.bal w.self w.c.config.proto.ibcDenom
            = w.bal w.self w.c.config.proto.ibcDenom
          ∧ (runExec w sender [coin] .receiveRewards f txi).w.bal sender w.c.config.proto.ibcDenom
            = w.bal sender w.c.config.proto.ibcDenom - coin.amount)
    ∧ (w.c.config.feeCfg.treasury = none →
          (runExec w sender [coin] .receiveRewards f txi).w.bal w.self w.c.config.proto.ibcDenom
            = w.bal w.self w.c.config.proto.ibcDenom + w.c.config.feeCfg.fee * coin.amount / 100000
          ∧ (runExec w sender [coin] .receiveRewards f txi).w.bal sender w.c.config.proto.ibcDenom
            = w.bal sender w.c.config.proto.ibcDenom - coin.amount) := by
  simp only [runExec] at hc ⊢
  cases hcore : runExecCore w sender [coin] .receiveRewards f txi with
  | mk o calls =>
    cases o with
    | none => simp [hcore] at hc
    | some w2 =>
      simp only [hcore]
      obtain ⟨bal1, c', msgs, d, hbal, hx, hd, hw2⟩ := runExecCore_some hcore
      subst hw2
      simp only [List.isEmpty_cons, Bool.false_eq_true, ↓reduceIte] at hbal
      obtain ⟨b1, b2, b3, b4⟩ := bankMove_ok hs hbal w.c.config.proto.ibcDenom
      simp only [execute] at hx
      obtain ⟨reward, fee', id, orc, _, _, _, hfc, hfee, hle, _, horc, hs', hout⟩ := receiveRewards_eff hx
      obtain ⟨hrc, hden⟩ := findCoin_singleton hfc
      subst hrc
      subst hfee
      have hcs : coinSum w.c.config.proto.ibcDenom [reward] = reward.amount := by simp [coinSum, hden]
      rw [hcs] at b1 b2 b3
      subst hout
      obtain ⟨d2, h12, h3⟩ := dispatchAll_append_ok hd
      obtain ⟨d1, h1, h2⟩ := dispatchAll_append_ok h12
      have := dispatchAll_oracle horc h1; subst this
      obtain ⟨d2', ht, hnil⟩ := dispatchAll_cons_ok h2
      have := dispatchAll_nil_ok hnil; subst this
      obtain ⟨_, _, hle2, wt, _, hw3⟩ := dispatch_transferSub_ok ht
      have henv : (w.env txi).contract = w.self := rfl
      have hns : ¬ (sender = w.self) := hs
      refine ⟨hden, hle, b2, ?_, ?_, ?_⟩
      · -- the packet toward the staker survives whatever follows
        cases htre : w.c.config.feeCfg.treasury with
        | none =>
          simp only [treasuryMsgs, htre] at h3
          have := dispatchAll_nil_ok h3; subst this
          rw [hw3]; simp [henv]
        | some t =>
          simp only [treasuryMsgs, htre] at h3
          obtain ⟨d4, hb, hnil4⟩ := dispatchAll_cons_ok h3
          have := dispatchAll_nil_ok hnil4; subst this
          obtain ⟨b, hbm, hd4⟩ := dispatch_bankSend_ok hb
          subst hd4
          rw [hw3]; simp [henv]
      · intro t htre hts htn
        simp only [treasuryMsgs, htre] at h3
        obtain ⟨d4, hb, hnil4⟩ := dispatchAll_cons_ok h3
        have := dispatchAll_nil_ok hnil4; subst this
        obtain ⟨b, hbm, hd4⟩ := dispatch_bankSend_ok hb
        subst hd4
        rw [hw3] at hbm
        simp only at hbm
        obtain ⟨g1, g2, g3, g4⟩ := bankMove_ok (fun e => hts e.symm) hbm w.c.config.proto.ibcDenom
        simp only [coinSum, ↓reduceIte, Nat.add_zero, Bal.sub_apply, and_self] at g1 g2 g3 g4
        have hts' : ¬ (t = w.self) := hts
        refine ⟨?_, ?_, ?_⟩
        · simp only; rw [g1]; simp only [hts', false_and, ↓reduceIte]
          rw [b4 t htn hts]
        · simp only; rw [g3, b1]; omega
        · simp only; rw [g4 sender hs (fun e => htn e.symm)]; simp only [hns, false_and, ↓reduceIte]; exact b3
      · intro htre
        simp only [treasuryMsgs, htre] at h3
        have := dispatchAll_nil_ok h3; subst this
        rw [hw3]
        simp only [Bal.sub_apply, and_self, ↓reduceIte, hns, false_and]
        refine ⟨?_, b3⟩
        rw [b1]; omega


/-- anatomy of a committed ibc-hooks delivery: the coin is credited to the derived hook account, which
then sends the message with that coin attached -/
theorem hook_committed {w : World} {channel ns : String} {coin : Coin} {msg : ExecMsg} {f : Faults}
    (hc : (step w (.hook channel ns coin msg f)).committed = true) :
    ∃ acct, deriveIntermediateSender channel ns w.chainPrefix = some acct ∧ coin.amount ≠ 0
      ∧ (runExec { w with bal := w.bal.add acct coin.denom coin.amount } acct [coin] msg f).committed = true
      ∧ (step w (.hook channel ns coin msg f)).w
          = (runExec { w with bal := w.bal.add acct coin.denom coin.amount } acct [coin] msg f).w := by
  simp only [step] at hc ⊢
  split at hc
  · simp at hc
  · rename_i acct hacct
    split at hc
    · simp at hc
    · rename_i hamt
      split at hc
      · rename_i hcm
        refine ⟨acct, hacct, hamt, hcm, ?_⟩
        simp only [hamt, ↓reduceIte, hcm]
      · simp at hc

end MW.Chain
