import MW.Inv.NoPanic
import MW.Inv.MapSum
import MW.Staking.PageLemmas
/-!
# RecoverPendingIbcTransfers never panics inside the envelope

The three panic sites of `recover` (Appendix A of DESIGN.md): `A26` — the largest key of the packet table is taken
with `unwrap` (safe: at least one packet was selected, and every selected packet is in the table); `A27` — the amounts
are summed with unchecked `+=` (safe: the selected packets are pairwise distinct entries of the table, so their sum is
at most the table's total, which the envelope bounds); `A28` — `max key + 1` (safe: keys are below 2^64 − 1).
-/
namespace MW.Staking
open MW

/-- what `selectPackets` returns: pairwise distinct packets, each stored under its own sequence number -/
theorem loadPacketsAux_facts {s : CState} (hk : ∀ k p, s.inflight.find? k = some p → p.seq = k) (recv : String)
    (ids : List Nat) (acc ps : List Packet)
    (hacc : (acc.map (·.seq)).Nodup ∧ ∀ p ∈ acc, s.inflight.find? p.seq = some p)
    (h : loadPacketsAux s recv ids acc = .ok ps) :
    (ps.map (·.seq)).Nodup ∧ ∀ p ∈ ps, s.inflight.find? p.seq = some p := by
  induction ids generalizing acc with
  | nil => simp [loadPacketsAux] at h; subst h; exact hacc
  | cons id rest ih =>
    simp only [loadPacketsAux] at h
    split at h
    · exact ih acc hacc h
    · rename_i hnot
      split at h
      · cases h
      · rename_i p hp
        split at h
        · cases h
        · apply ih (acc ++ [p]) ?_ h
          have hseq := hk id p hp
          refine ⟨?_, ?_⟩
          · rw [List.map_append, List.nodup_append]
            refine ⟨hacc.1, by simp, ?_⟩
            intro a ha b hb
            simp only [List.map_cons, List.map_nil, List.mem_singleton] at hb
            subst hb
            rw [hseq]
            intro heq; subst heq
            apply hnot
            obtain ⟨q, hq, hqs⟩ := List.mem_map.mp ha
            exact List.any_eq_true.mpr ⟨q, hq, by simp [hqs]⟩
          · intro q hq
            simp only [List.mem_append, List.mem_singleton] at hq
            rcases hq with hq | hq
            · exact hacc.2 q hq
            · subst hq; rw [hseq]; exact hp

theorem selectPackets_facts {s : CState} (hi : CInv s) {recv : String} {sel : Option (List Nat)} {page : Bool}
    {ps : List Packet} (h : selectPackets s recv sel page = .ok ps) :
    (ps.map (·.seq)).Nodup ∧ ∀ p ∈ ps, s.inflight.find? p.seq = some p := by
  cases sel with
  | some ids =>
    simp only [selectPackets, loadPackets] at h
    exact loadPacketsAux_facts hi.seqKey recv ids [] ps ⟨by simp, by simp⟩ h
  | none =>
    simp only [selectPackets, Except.ok.injEq] at h
    have hmem : ∀ p ∈ ps, s.inflight.find? p.seq = some p := by
      intro p hpm
      rw [← h] at hpm
      obtain ⟨_, k, hk⟩ := mem_paginate _ _ _ _ p hpm
      have h1 := AMap.find?_of_mem_sorted hi.sortedI hk
      have h2 := hi.seqKey _ _ h1
      rw [h2]; exact h1
    refine ⟨?_, hmem⟩
    rw [← h, paginate_is_page, List.map_map]
    have hsub : List.Sublist (MW.Staking.page s.inflight none ((if page = true then some 10 else none).getD U32.max)
        (refundable recv)) s.inflight := by
      unfold MW.Staking.page AMap.after
      exact (List.take_sublist _ _).trans List.filter_sublist
    have hpw : List.Pairwise (fun a b : Nat × Packet => a.2.seq ≠ b.2.seq) s.inflight := by
      have hs : List.Pairwise (fun a b : Nat × Packet => a.1 < b.1) s.inflight := hi.sortedI
      refine List.Pairwise.imp_of_mem ?_ hs
      intro a b ha hb hlt
      have h1 := hi.seqKey _ _ (AMap.find?_of_mem_sorted hi.sortedI (show (a.1, a.2) ∈ s.inflight from ha))
      have h2 := hi.seqKey _ _ (AMap.find?_of_mem_sorted hi.sortedI (show (b.1, b.2) ∈ s.inflight from hb))
      omega
    unfold List.Nodup
    rw [List.pairwise_map]
    exact hpw.sublist hsub

theorem sumBy_le_length {α : Type} (f : α → Nat) (B : Nat) (m : AMap α) (h : ∀ kv ∈ m, f kv.2 ≤ B) :
    AMap.sumBy f m ≤ m.length * B := by
  induction m with
  | nil => simp
  | cons kv rest ih =>
    obtain ⟨k, v⟩ := kv
    have h1 := h (k, v) (by simp)
    have h2 := ih (fun x hx => h x (List.mem_cons_of_mem _ hx))
    simp only [AMap.sumBy, List.length_cons, Nat.add_mul, Nat.one_mul] at *
    omega

theorem sumAmounts_err {site : String} {ps : List Packet} {acc : Nat} {e : Err} (h : sumAmounts site ps acc = .error e) :
    U128.max < acc + (ps.map (·.coin.amount)).sum := by
  induction ps generalizing acc with
  | nil => simp [sumAmounts] at h
  | cons p r ih =>
    simp only [sumAmounts] at h
    split at h
    · rename_i e' he
      have := add128_err he
      simp only [List.map_cons, List.sum_cons]; omega
    · rename_i a ha
      simp only [add128_ok] at ha
      have := ih h
      simp only [List.map_cons, List.sum_cons]; omega

theorem loadPacketsAux_err {s : CState} {recv : String} {ids : List Nat} {acc : List Packet} {e : Err}
    (h : loadPacketsAux s recv ids acc = .error e) : e.isPanic = false := by
  induction ids generalizing acc with
  | nil => simp [loadPacketsAux] at h
  | cons id rest ih =>
    simp only [loadPacketsAux] at h
    split at h
    · exact ih h
    · split at h
      · cases h; rfl
      · split at h
        · cases h; rfl
        · exact ih h

theorem maxKey_mem {α : Type} {m : AMap α} {k : Nat} (h : m.maxKey? = some k) : ∃ v, (k, v) ∈ m := by
  unfold AMap.maxKey? at h
  cases hl : m.getLast? with
  | none => rw [hl] at h; cases h
  | some kv =>
    rw [hl] at h
    simp only [Option.map_some, Option.some.injEq] at h
    obtain ⟨k', v⟩ := kv
    simp only at h; subst h
    exact ⟨v, List.mem_of_getLast? hl⟩

/-- the envelope facts `recover` needs: keys below 2^64 − 1, amounts ≤ `amt`, at most `len` entries, with
`len × amt` inside 128 bits -/
theorem recover_np (s : CState) (env : Env) (info : Info) (sel : Option (List Nat)) (rc : Option String) (page : Bool)
    (e : Err) (hi : CInv s) (ht : TimeOK env) (amt len : Nat)
    (hkeys : ∀ k p, s.inflight.find? k = some p → k + 1 ≤ U64.max)
    (hamt : ∀ kp ∈ s.inflight, kp.2.coin.amount ≤ amt) (hlen : s.inflight.length ≤ len) (hroom : len * amt ≤ U128.max)
    (h : recover s env info sel rc page = .error e) : e.isPanic = false := by
  unfold recover at h
  simp only [bind_err, bind_ok, ensure_err, ensure_ok] at h
  rcases h with h | ⟨_, _, h⟩
  · rw [h.2]; rfl
  rcases h with h | ⟨recv, _, h⟩
  · unfold recoverReceiver at h
    split at h
    · exact validateAddress_err h
    · cases h
  rcases h with h | ⟨ps, hps, h⟩
  · unfold selectPackets at h
    split at h
    · exact loadPacketsAux_err h
    · cases h
  obtain ⟨hnd, hfound⟩ := selectPackets_facts hi hps
  rcases h with h | ⟨denom, hden, h⟩
  · unfold firstDenom at h; split at h <;> cases h; rfl
  rcases h with h | ⟨_, _, h⟩
  · rw [h.2]; rfl
  have hne : ps ≠ [] := by intro hn; subst hn; simp [firstDenom] at hden
  rcases h with h | ⟨maxId, hmax, h⟩
  · -- A26: the table is not empty
    exfalso
    obtain ⟨hnone, _⟩ := loadSome_err h
    obtain ⟨p, hp⟩ := List.exists_mem_of_ne_nil ps hne
    have hf := hfound p hp
    unfold AMap.maxKey? at hnone
    cases hl : s.inflight.getLast? with
    | some kv => rw [hl] at hnone; cases hnone
    | none =>
      have : s.inflight = [] := List.getLast?_eq_none_iff.mp hl
      rw [this] at hf; cases hf
  simp only [loadSome_ok] at hmax
  rcases h with h | ⟨total, _, h⟩
  · -- A27: the sum of distinct entries is at most the table's total
    exfalso
    have hover := sumAmounts_err h
    have hsum := sumBy_erasePackets (fun p => p.coin.amount) hi.sortedI ps hnd hfound
    have hle := sumBy_le_length (fun p : Packet => p.coin.amount) amt s.inflight hamt
    have : s.inflight.length * amt ≤ len * amt := Nat.mul_le_mul_right _ hlen
    omega
  rcases h with h | ⟨_, _, h⟩
  · -- A28
    exfalso
    have := add64_err h
    obtain ⟨v, hv⟩ := maxKey_mem hmax
    have := hkeys maxId v (AMap.find?_of_mem_sorted hi.sortedI hv)
    omega
  rcases h with h | ⟨_, _, h⟩
  · exact ibcSub_err ht h
  · cases h

end MW.Staking
