import MW.Inv.WorldOwn
/-!
# The withdrawable fee balance along every history

`execute_fees`: whatever message succeeds, `total_fees` afterwards plus what the message withdrew equals `total_fees`
before plus what the message accrued — where *accrued* is the protocol fee of a reward when no treasury is configured
and the ownerless stake swept by a stake when the LST total is zero, *withdrawn* is the amount of a FeeWithdraw, and
every other message (ResumeContract included) accrues and withdraws nothing.  Replies and callbacks do not touch the
totals.  Lifted to the chain model: along every history, with no condition on the environment,
`total_fees + Σ withdrawn = Σ accrued` — FeeWithdraw can never have sent more than has accrued.
-/
namespace MW.Chain
open MW MW.Staking

/-- what a successful message adds to the withdrawable fee balance -/
def feeIn (s : CState) (info : Info) : ExecMsg → Nat
  | .receiveRewards =>
    if s.config.feeCfg.treasury.isNone
    then s.config.feeCfg.fee * ((findCoin info.funds s.config.proto.ibcDenom).map (·.amount)).getD 0 / 100000 else 0
  | .liquidStake .. => if s.st.totalLst = 0 ∧ s.st.totalNative ≠ 0 then s.st.totalNative else 0
  | _ => 0

/-- what a successful message takes out of it -/
def feeOut : ExecMsg → Nat
  | .feeWithdraw a => a
  | _ => 0

theorem execute_fees {s s' : CState} {env : Env} {info : Info} {m : ExecMsg} {out : List SubMsg}
    (hx : execute s env info m = .ok (s', out)) :
    s'.st.totalFees + feeOut m = s.st.totalFees + feeIn s info m := by
  cases m <;> simp only [execute] at hx
  case liquidStake mt tn ex =>
    simp only [bind_ok] at hx
    obtain ⟨pay, _, hx⟩ := hx
    obtain ⟨st, _, _, _, _, hsw, _, _, _, _, _, hcase⟩ := liquidStake_eff hx
    have hst : st.totalFees = s.st.totalFees + (if s.st.totalLst = 0 ∧ s.st.totalNative ≠ 0 then s.st.totalNative else 0) := by
      rcases sweep_eff hsw with ⟨h1, h2, h3⟩ | ⟨h1, h3⟩
      · subst h3; simp [h1, h2]
      · subst h3; simp [h1]
    rcases hcase with ⟨_, hs', _⟩ | ⟨_, _, hs', _⟩ <;> subst hs' <;> simp only [feeIn, feeOut, hst] <;> omega
  case liquidUnstake =>
    simp only [bind_ok] at hx
    obtain ⟨a, _, hx⟩ := hx
    obtain ⟨_, _, b, _, hs'⟩ := liquidUnstake_eff hx
    subst hs'; rfl
  case submitBatch =>
    obtain ⟨_, _, _, _, _, _, _, _, _, _, hs', _⟩ := submitBatch_eff hx
    subst hs'; rfl
  case withdraw b =>
    obtain ⟨_, _, _, _, _, _, _, _, _, _, _, hs', _⟩ := withdraw_eff hx
    subst hs'; rfl
  case addValidator v => obtain ⟨_, _, _, _, hs'⟩ := addValidator_eff hx; subst hs'; rfl
  case removeValidator v => obtain ⟨_, _, _, hs'⟩ := removeValidator_eff hx; subst hs'; rfl
  case transferOwnership n => obtain ⟨_, o, _, hs'⟩ := transferOwnership_eff hx; subst hs'; rfl
  case acceptOwnership => obtain ⟨_, o, _, hs'⟩ := acceptOwnership_eff hx; subst hs'; rfl
  case revokeOwnershipTransfer => obtain ⟨_, o, _, hs'⟩ := revokeOwnership_eff hx; subst hs'; rfl
  case updateConfig n p f mo bp =>
    obtain ⟨_, _, nat', proto', fee', mons', bp', _, _, _, _, _, hs'⟩ := updateConfig_eff hx
    subst hs'; rfl
  case receiveRewards =>
    obtain ⟨reward, fee, _, _, _, _, _, hc, hfee, _, _, _, hs', _⟩ := receiveRewards_eff hx
    subst hs'
    simp only [feeIn, feeOut, hc, Option.map_some, Option.getD_some, ← hfee]
    split <;> omega
  case receiveUnstakedTokens b =>
    obtain ⟨_, _, _, _, _, _, _, _, _, _, _, hs'⟩ := receiveUnstaked_eff hx; subst hs'; rfl
  case circuitBreaker =>
    unfold circuitBreaker at hx
    simp only [bind_ok, pure_ok] at hx
    obtain ⟨_, _, hx⟩ := hx; cases hx; rfl
  case resumeContract n l r =>
    unfold resumeContract at hx
    simp only [bind_ok, pure_ok] at hx
    obtain ⟨_, _, _, _, hx⟩ := hx; cases hx; rfl
  case recover pg sel rc =>
    obtain ⟨_, _, _, _, _, _, _, _, _, _, _, _, _, _, hs', _⟩ := recover_eff hx
    subst hs'; rfl
  case feeWithdraw a =>
    unfold feeWithdraw at hx
    simp only [bind_ok, pure_ok, ensure_ok, decide_eq_true_eq] at hx
    obtain ⟨_, _, _, hle, _, _, hx⟩ := hx; cases hx
    simp only [feeIn, feeOut]; omega

theorem reply_st {s s' : CState} {id : Nat} {res : ReplyResult} {out : List SubMsg}
    (h : reply s id res = .ok (s', out)) : s'.st = s.st := by
  obtain ⟨_, _, _, _, _, hs'⟩ := reply_eff h; subst hs'; rfl

theorem sudo_st {s s' : CState} {m : SudoMsg} {out : List SubMsg}
    (h : sudo s m = .ok (s', out)) : s'.st = s.st := by
  obtain ⟨_, _, hs'⟩ := sudo_eff h; subst hs'; rfl

theorem dispatch_st (f : Faults) (d : Disp) (m : SubMsg) : (dispatch f d m).1.w.c.st = d.w.c.st := by
  unfold dispatch
  cases hm : m.msg <;> simp only
  case mint => split <;> rfl
  case burn => split <;> rfl
  case bankSend => split; rfl; split <;> rfl
  case msgSend => split; rfl; split <;> rfl
  case transfer ch port sender recv coin t memo =>
    split
    · split
      · split
        · rename_i c' o hr; exact reply_st hr
        · rfl
      · rfl
    · split
      · split
        · rename_i c' o hr; exact reply_st hr
        · rfl
      · rfl

theorem dispatchAll_st (f : Faults) (d : Disp) (ms : List SubMsg) : (dispatchAll f d ms).1.w.c.st = d.w.c.st := by
  induction ms generalizing d with
  | nil => rfl
  | cons m rest ih =>
    simp only [dispatchAll]
    have hd := dispatch_st f d m
    split
    · rename_i d' heq
      rw [heq] at hd
      exact (ih d').trans hd
    · rename_i d' heq
      rw [heq] at hd
      exact hd

theorem sudoCall_st (w : World) (m : SudoMsg) : (sudoCall w m).1.c.st = w.c.st := by
  simp only [sudoCall]
  split
  · rename_i c' o hs; exact sudo_st hs
  · rfl

/-- history counters of the fee balance -/
structure FGhost where
  accrued : Nat := 0
  withdrawn : Nat := 0

def fghostExec (w : World) (g : FGhost) (sender : String) (funds : List Coin) (msg : ExecMsg) : FGhost :=
  { accrued := g.accrued + feeIn w.c { sender := sender, funds := funds } msg, withdrawn := g.withdrawn + feeOut msg }

/-- the counters after an event: only committed transactions and ibc-hooks deliveries count -/
def fgstep (w : World) (g : FGhost) (e : Event) : FGhost :=
  if (step w e).committed then
    match e with
    | .exec sender funds msg _ _ => fghostExec w g sender funds msg
    | .hook channel ns coin msg _ =>
      match deriveIntermediateSender channel ns w.chainPrefix with
      | some acct => fghostExec w g acct [coin] msg
      | none => g
    | _ => g
  else g

def FInv (w : World) (g : FGhost) : Prop := w.c.st.totalFees + g.withdrawn = g.accrued

theorem runExec_finv {w : World} {g : FGhost} (sender : String) (funds : List Coin) (msg : ExecMsg) (f : Faults)
    (txi : Option Nat) (hj : FInv w g) :
    FInv (runExec w sender funds msg f txi).w
      (if (runExec w sender funds msg f txi).committed then fghostExec w g sender funds msg else g) := by
  unfold runExec
  cases hcore : runExecCore w sender funds msg f txi with
  | mk o calls =>
    cases o with
    | none => simpa using hj
    | some w' =>
      simp only [↓reduceIte]
      obtain ⟨bal1, c', msgs, d, _, hx, hd, hw'⟩ := runExecCore_some hcore
      subst hw'
      have hc := dispatchAll_st f { w := { w with bal := bal1, c := c' },
                                    calls := [Call.execute { sender, funds } msg (.ok msgs)] } msgs
      rw [hd] at hc
      have hf := execute_fees hx
      unfold FInv at hj ⊢
      simp only [fghostExec]
      rw [hc]
      simp only at hf ⊢
      omega

theorem step_st_other (w : World) (e : Event) (he : ∀ s fu m f t, e ≠ .exec s fu m f t)
    (hh : ∀ c n co m f, e ≠ .hook c n co m f) : (step w e).w.c.st = w.c.st := by
  have key : ∀ (w1 : World) (m : SudoMsg), w1.c = w.c → (sudoCall w1 m).1.c.st = w.c.st := by
    intro w1 m hc
    have := sudoCall_st w1 m
    rw [hc] at this; exact this
  cases e with
  | advance dt dh => rfl
  | exec sender funds msg f txi => exact absurd rfl (he _ _ _ _ _)
  | hook channel ns coin msg f => exact absurd rfl (hh _ _ _ _ _)
  | ack seq success =>
    simp only [step]
    split
    · rfl
    · split <;> (dsimp only; apply key; rfl)
  | timeout seq =>
    simp only [step]
    split
    · rfl
    · dsimp only; apply key; rfl
  | strayAck channel seq success => simp only [step]; exact key w _ rfl
  | strayTimeout channel seq => simp only [step]; exact key w _ rfl
  | donate sender coin =>
    simp only [step]
    split <;> rfl
  | faucet to coin => rfl
  | reseq n => rfl

/-- every event of the world preserves `FInv` (no condition on the environment) -/
theorem step_finv {w : World} {g : FGhost} (e : Event) (hj : FInv w g) : FInv (step w e).w (fgstep w g e) := by
  by_cases hx : ∃ s fu m f t, e = .exec s fu m f t
  · obtain ⟨sender, funds, msg, f, txi, rfl⟩ := hx
    simp only [step, fgstep]
    exact runExec_finv sender funds msg f txi hj
  by_cases hk : ∃ c n co m f, e = .hook c n co m f
  · obtain ⟨channel, ns, coin, msg, f, rfl⟩ := hk
    simp only [step, fgstep]
    split
    · simpa using hj
    · rename_i acct hacct
      split
      · simpa using hj
      · have h1 := runExec_finv (w := { w with bal := w.bal.add acct coin.denom coin.amount }) (g := g) acct [coin] msg f (some 0) hj
        split
        · rename_i hc
          simp only [hc, ↓reduceIte, hacct] at h1 ⊢
          exact h1
        · simpa using hj
  · have he : ∀ s fu m f t, e ≠ .exec s fu m f t := fun s fu m f t h => hx ⟨s, fu, m, f, t, h⟩
    have hh : ∀ c n co m f, e ≠ .hook c n co m f := fun c n co m f h => hk ⟨c, n, co, m, f, h⟩
    have hg : fgstep w g e = g := by
      unfold fgstep
      split
      · cases e with
        | exec sender funds msg f txi => exact absurd rfl (he _ _ _ _ _)
        | hook channel ns coin msg f => exact absurd rfl (hh _ _ _ _ _)
        | _ => rfl
      · rfl
    unfold FInv at hj ⊢
    rw [hg, step_st_other w e he hh]; exact hj

/-- world and fee counters after a history -/
def runF (w : World) (g : FGhost) : List Event → World × FGhost
  | [] => (w, g)
  | e :: es => runF (step w e).w (fgstep w g e) es

theorem runF_world (w : World) (g : FGhost) (g' : WGhost) (evs : List Event) : (runF w g evs).1 = (runW w g' evs).1 := by
  induction evs generalizing w g g' with
  | nil => rfl
  | cons e es ih => simp only [runF, runW]; exact ih _ _ _

theorem runF_finv {w : World} {g : FGhost} (evs : List Event) (hj : FInv w g) : FInv (runF w g evs).1 (runF w g evs).2 := by
  induction evs generalizing w g with
  | nil => exact hj
  | cons e rest ih => simp only [runF]; exact ih (step_finv e hj)

theorem finv_boot {env : Env} {info : Info} {msg : InstantiateMsg} {c0 : CState} {out : List SubMsg}
    (hi : instantiate env info msg = .ok (c0, out)) (self pfx : String) (t h : Nat) :
    FInv (bootWorld c0 self pfx t h) {} := by
  unfold instantiate at hi
  simp only [bind_ok, pure_ok] at hi
  obtain ⟨_, _, _, _, _, _, _, _, _, _, _, _, _, _, hi⟩ := hi
  cases hi
  simp [FInv, bootWorld]

/-- **every history, no environment condition** -/
theorem world_history_finv {env : Env} {info : Info} {msg : InstantiateMsg} {c0 : CState} {out : List SubMsg}
    (hi : instantiate env info msg = .ok (c0, out)) (self pfx : String) (t hgt : Nat) (evs : List Event) :
    FInv (runF (bootWorld c0 self pfx t hgt) {} evs).1 (runF (bootWorld c0 self pfx t hgt) {} evs).2 :=
  runF_finv evs (finv_boot hi self pfx t hgt)

end MW.Chain
