import MW.Inv.Ghost
/-!
# Reachable contract states with history counters; the accounting invariants hold in all of them
-/
namespace MW.Staking
open MW

/-- the two denoms keep their shapes: `ibc/…` and `factory/…` -/
structure CfgInv (s : CState) : Prop where
  ibc : s.config.proto.ibcDenom.toList.take 4 = "ibc/".toList
  lst : s.config.lstDenom.toList.take 4 = "fact".toList

theorem CfgInv.distinct {s : CState} (h : CfgInv s) : DenomsDistinct s := by
  intro heq
  have h1 := h.ibc
  rw [heq, h.lst] at h1
  revert h1; decide

theorem cfginv_instantiate {env : Env} {info : Info} {msg : InstantiateMsg} {s : CState} {out : List SubMsg}
    (h : instantiate env info msg = .ok (s, out)) : CfgInv s := by
  unfold instantiate at h
  simp only [bind_ok, pure_ok] at h
  obtain ⟨_, _, pr, hp, _, _, _, _, _, _, _, _, _, _, h⟩ := h
  cases h
  constructor
  · unfold UnsafeProto.validate at hp
    simp only [bind_ok, pure_ok, ensure_ok] at hp
    obtain ⟨_, _, _, _, den, hden, _, _, hp⟩ := hp
    subst hp
    unfold validateIbcDenom at hden
    split at hden
    · rename_i hc; cases hden; exact hc.1
    · cases hden
  · simp [String.toList_append]

theorem cfginv_execute {s s' : CState} {env : Env} {info : Info} {m : ExecMsg} {out : List SubMsg} (h : CfgInv s)
    (hx : execute s env info m = .ok (s', out)) : CfgInv s' := by
  cases m <;> simp only [execute] at hx
  case liquidStake mt tn ex =>
    simp only [bind_ok] at hx
    obtain ⟨pay, _, hx⟩ := hx
    obtain ⟨_, _, _, _, _, _, _, _, _, _, _, hcase⟩ := liquidStake_eff hx
    rcases hcase with ⟨_, hs', _⟩ | ⟨_, _, hs', _⟩ <;> subst hs' <;> exact ⟨h.ibc, h.lst⟩
  case liquidUnstake =>
    simp only [bind_ok] at hx
    obtain ⟨a, _, hx⟩ := hx
    obtain ⟨_, _, b, _, hs'⟩ := liquidUnstake_eff hx
    subst hs'; exact ⟨h.ibc, h.lst⟩
  case submitBatch =>
    obtain ⟨_, _, _, _, _, _, _, _, _, _, hs', _⟩ := submitBatch_eff hx
    subst hs'; exact ⟨h.ibc, h.lst⟩
  case withdraw b =>
    obtain ⟨_, _, _, _, _, _, _, _, _, _, _, hs', _⟩ := withdraw_eff hx
    subst hs'; exact ⟨h.ibc, h.lst⟩
  case addValidator v => obtain ⟨_, _, _, _, hs'⟩ := addValidator_eff hx; subst hs'; exact ⟨h.ibc, h.lst⟩
  case removeValidator v => obtain ⟨_, _, _, hs'⟩ := removeValidator_eff hx; subst hs'; exact ⟨h.ibc, h.lst⟩
  case transferOwnership n => obtain ⟨_, o, _, hs'⟩ := transferOwnership_eff hx; subst hs'; exact ⟨h.ibc, h.lst⟩
  case acceptOwnership => obtain ⟨_, o, _, hs'⟩ := acceptOwnership_eff hx; subst hs'; exact ⟨h.ibc, h.lst⟩
  case revokeOwnershipTransfer => obtain ⟨_, o, _, hs'⟩ := revokeOwnership_eff hx; subst hs'; exact ⟨h.ibc, h.lst⟩
  case updateConfig n p f mo bp =>
    obtain ⟨_, _, nat', proto', fee', mons', bp', _, hp, _, _, _, hs'⟩ := updateConfig_eff hx
    subst hs'
    refine ⟨?_, h.lst⟩
    rcases optValidate_eff hp with ⟨_, hp'⟩ | ⟨c, _, hp'⟩
    · subst hp'; exact h.ibc
    · unfold UnsafeProto.validate at hp'
      simp only [bind_ok, pure_ok, ensure_ok] at hp'
      obtain ⟨_, _, _, _, den, hden, _, _, hp'⟩ := hp'
      subst hp'
      unfold validateIbcDenom at hden
      split at hden
      · rename_i hc; cases hden; exact hc.1
      · cases hden
  case receiveRewards =>
    obtain ⟨_, _, _, _, _, _, _, _, _, _, _, _, hs', _⟩ := receiveRewards_eff hx
    subst hs'; exact ⟨h.ibc, h.lst⟩
  case receiveUnstakedTokens b =>
    obtain ⟨_, _, _, _, _, _, _, _, _, _, _, hs'⟩ := receiveUnstaked_eff hx; subst hs'; exact ⟨h.ibc, h.lst⟩
  case circuitBreaker =>
    unfold circuitBreaker at hx
    simp only [bind_ok, pure_ok] at hx
    obtain ⟨_, _, hx⟩ := hx; cases hx; exact ⟨h.ibc, h.lst⟩
  case resumeContract n l r =>
    unfold resumeContract at hx
    simp only [bind_ok, pure_ok] at hx
    obtain ⟨_, _, _, _, hx⟩ := hx; cases hx; exact ⟨h.ibc, h.lst⟩
  case recover pg sel rc =>
    obtain ⟨_, _, _, _, _, _, _, _, _, _, _, _, _, _, hs', _⟩ := recover_eff hx
    subst hs'; exact ⟨h.ibc, h.lst⟩
  case feeWithdraw a =>
    unfold feeWithdraw at hx
    simp only [bind_ok, pure_ok] at hx
    obtain ⟨_, _, _, _, _, _, hx⟩ := hx; cases hx; exact ⟨h.ibc, h.lst⟩

theorem cfginv_cstep {s : CState} (h : CfgInv s) (e : CEv) : CfgInv (cstep s e) := by
  cases e with
  | exec env info msg =>
    simp only [cstep]; split
    · rename_i r hr; obtain ⟨s', out⟩ := r; exact cfginv_execute h hr
    · exact h
  | reply id res =>
    simp only [cstep]; split
    · rename_i r hr; obtain ⟨s', out⟩ := r
      obtain ⟨_, _, _, _, _, hs'⟩ := reply_eff hr; subst hs'; exact ⟨h.ibc, h.lst⟩
    · exact h
  | sudo m =>
    simp only [cstep]; split
    · rename_i r hr; obtain ⟨s', out⟩ := r
      obtain ⟨_, _, hs'⟩ := sudo_eff hr; subst hs'; exact ⟨h.ibc, h.lst⟩
    · exact h

/-- payout bookkeeping per batch -/
structure PInv (x : GC) : Prop where
  /-- open requests + withdrawn requests = batch total -/
  total : ∀ k b, x.s.batches.find? k = some b → sumReqs x.s.reqs k + x.g.wd k = b.total
  /-- nothing is withdrawn before a batch is Received -/
  fresh : ∀ k b, x.s.batches.find? k = some b → b.status ≠ .received → x.g.wd k = 0 ∧ x.g.paid k = 0
  /-- batches that do not exist yet have no withdrawals -/
  future : ∀ k, x.s.batches.find? k = none → x.g.wd k = 0 ∧ x.g.paid k = 0
  /-- payouts are the floors of pro-rata shares: paid·total ≤ received·withdrawn -/
  paidLe : ∀ k b R, x.s.batches.find? k = some b → b.received = some R → x.g.paid k * b.total ≤ R * x.g.wd k

theorem sendSum_single (D from_ to : String) (a : Nat) :
    sendSum D [plain (.msgSend from_ to [⟨D, a⟩])] = a := by
  simp [sendSum, plain]

theorem pinv_exec {x : GC} (hp : PInv x) (hi : CInv x.s) {env : Env} {info : Info}
    {m : ExecMsg} {s' : CState} {out : List SubMsg} (hx : execute x.s env info m = .ok (s', out)) :
    PInv { s := s', g := ghostAfter x.s x.g m s' out } := by
  obtain ⟨s, g⟩ := x
  simp only at hi hx ⊢
  have htotal : ∀ k b, s.batches.find? k = some b → sumReqs s.reqs k + g.wd k = b.total := hp.total
  have hfresh : ∀ k b, s.batches.find? k = some b → b.status ≠ .received → g.wd k = 0 ∧ g.paid k = 0 := hp.fresh
  have hfuture : ∀ k, s.batches.find? k = none → g.wd k = 0 ∧ g.paid k = 0 := hp.future
  have hpaidLe : ∀ k b R, s.batches.find? k = some b → b.received = some R → g.paid k * b.total ≤ R * g.wd k := hp.paidLe
  clear hp
  -- a handler that changes neither batches nor requests nor the withdrawal counters
  have frame : ∀ (g' : Ghost), g'.wd = g.wd → g'.paid = g.paid → s'.batches = s.batches → s'.reqs = s.reqs →
      PInv { s := s', g := g' } := by
    intro g' h1 h2 h3 h4
    exact { total := by simp only [h1, h3, h4]; exact htotal
            fresh := by simp only [h1, h2, h3]; exact hfresh
            future := by simp only [h1, h2, h3]; exact hfuture
            paidLe := by simp only [h1, h2, h3]; exact hpaidLe }
  cases m <;> simp only [execute] at hx
  case liquidStake mt tn ex =>
    simp only [bind_ok] at hx
    obtain ⟨pay, _, hx⟩ := hx
    obtain ⟨_, _, _, _, _, _, _, _, _, _, _, hcase⟩ := liquidStake_eff hx
    rcases hcase with ⟨_, hs', _⟩ | ⟨_, _, hs', _⟩ <;> subst hs' <;> exact frame _ rfl rfl rfl rfl
  case liquidUnstake =>
    simp only [bind_ok] at hx
    obtain ⟨a, hpay, hx⟩ := hx
    obtain ⟨_, _, b, hb, hs'⟩ := liquidUnstake_eff hx
    subst hs'
    obtain ⟨hst, _, _, hrc⟩ := hi.pend b hb
    have hs : ∀ k, sumReqs (reqsAfterUnstake s.reqs s.pendingId info.sender a) k
        = sumReqs s.reqs k + (if s.pendingId = k then a else 0) := by
      intro k
      simp only [reqsAfterUnstake]
      split
      · rename_i r0 hr0
        have := sumReqs_setReqAmount hi.rkeys hr0 (r0.amount + a) k
        split at this <;> split <;> simp_all <;> omega
      · rw [sumReqs_append, sumReqs_cons, sumReqs_nil]; simp
    constructor
    · intro k b' hb'
      simp only [AMap.find?_insert] at hb'
      simp only [ghostAfter]
      rw [hs]
      split at hb'
      · rename_i hk; cases hb'; subst hk
        have := htotal _ b hb
        simp only [↓reduceIte, grown]; omega
      · rename_i hk
        have : ¬ s.pendingId = k := fun h => hk h.symm
        simp only [this, ↓reduceIte, Nat.add_zero]
        exact htotal k b' hb'
    · intro k b' hb' hne
      simp only [AMap.find?_insert] at hb'
      simp only [ghostAfter]
      split at hb'
      · rename_i hk; cases hb'; subst hk
        exact hfresh _ b hb (by rw [hst]; simp)
      · exact hfresh k b' hb' hne
    · intro k hk
      simp only [AMap.find?_insert] at hk
      simp only [ghostAfter]
      split at hk
      · cases hk
      · exact hfuture k hk
    · intro k b' R hb' hR
      simp only [AMap.find?_insert] at hb'
      simp only [ghostAfter]
      split at hb'
      · cases hb'; simp only [grown] at hR; rw [hrc] at hR; cases hR
      · exact hpaidLe k b' R hb' hR
  case submitBatch =>
    obtain ⟨batch, unbond, orc, _, hb, _, _, _, _, _, hs', _⟩ := submitBatch_eff hx
    subst hs'
    have hid : batch.id = s.pendingId := hi.idKey _ batch hb
    obtain ⟨hst, _, _, hrc⟩ := hi.pend batch hb
    have hnone : s.batches.find? (s.pendingId + 1) = none := by
      cases hf : s.batches.find? (s.pendingId + 1) with
      | none => rfl
      | some b' =>
        have := (hi.keys (s.pendingId + 1)).mp (by rw [hf]; rfl)
        omega
    simp only [hid]
    constructor
    · intro k b' hb'
      simp only [AMap.find?_insert] at hb'
      simp only [ghostAfter]
      split at hb'
      · rename_i hk; cases hb'; subst hk
        simp only [Batch.updateStatus]
        exact htotal _ batch hb
      · split at hb'
        · rename_i _ hk; cases hb'; subst hk
          have hw := (hfuture _ hnone).1
          have : sumReqs s.reqs (s.pendingId + 1) = 0 :=
            sumReqs_eq_zero (fun r hr => by have := (hi.rpos r hr).2.2; omega)
          simp [Batch.new, this, hw]
        · exact htotal k b' hb'
    · intro k b' hb' hne
      simp only [AMap.find?_insert] at hb'
      simp only [ghostAfter]
      split at hb'
      · rename_i hk; subst hk
        exact hfresh _ batch hb (by rw [hst]; simp)
      · split at hb'
        · rename_i _ hk; subst hk; exact hfuture _ hnone
        · exact hfresh k b' hb' hne
    · intro k hk
      simp only [AMap.find?_insert] at hk
      simp only [ghostAfter]
      split at hk
      · cases hk
      · split at hk
        · cases hk
        · exact hfuture k hk
    · intro k b' R hb' hR
      simp only [AMap.find?_insert] at hb'
      simp only [ghostAfter]
      split at hb'
      · cases hb'; simp only [Batch.updateStatus] at hR; rw [hrc] at hR; cases hR
      · split at hb'
        · cases hb'; simp [Batch.new] at hR
        · exact hpaidLe k b' R hb' hR
  case withdraw bid =>
    obtain ⟨batch, recv, req, orc, _, hb, hst, hrecv, hr, hT, horc, hs', hout⟩ := withdraw_eff hx
    subst hs' hout
    have hid : batch.id = bid := hi.idKey _ batch hb
    rw [hid] at hr
    obtain ⟨_, _, _, ho4⟩ := sums_oracle env s.config.proto.ibcDenom orc horc
    have hrem := fun k => sumReqs_removeReq hi.rkeys hr k
    simp only [hid]
    have hpay : sendSum s.config.proto.ibcDenom
        ([plain (.msgSend env.contract info.sender [⟨s.config.proto.ibcDenom, recv * req.amount / batch.total⟩])] ++ orc)
        = recv * req.amount / batch.total := by
      rw [sendSum_append, ho4, sendSum_single]; rfl
    constructor
    · intro k b' hb'
      simp only [ghostAfter]
      have := hrem k
      have hold := htotal k b' hb'
      by_cases hk : k = bid
      · subst hk; simp only [↓reduceIte] at this ⊢; omega
      · have hk' : ¬ bid = k := fun h => hk h.symm
        simp only [hk, hk', ↓reduceIte, Nat.add_zero] at this ⊢
        rw [this]; exact hold
    · intro k b' hb' hne
      simp only [ghostAfter]
      by_cases hk : k = bid
      · subst hk; rw [hb] at hb'; cases hb'; exact absurd hst hne
      · simp only [hk, ↓reduceIte]; exact hfresh k b' hb' hne
    · intro k hk
      simp only [ghostAfter]
      by_cases hkb : k = bid
      · subst hkb; rw [hb] at hk; cases hk
      · simp only [hkb, ↓reduceIte]; exact hfuture k hk
    · intro k b' R hb' hR
      simp only [ghostAfter]
      by_cases hk : k = bid
      · subst hk
        rw [hb] at hb'; cases hb'
        rw [hrecv] at hR; cases hR
        simp only [↓reduceIte, hpay]
        have hold := hpaidLe _ batch recv hb hrecv
        have h1 := hrem k
        simp only [↓reduceIte] at h1
        have hdiff : sumReqs s.reqs k - sumReqs (removeReq s.reqs k info.sender) k = req.amount := by omega
        rw [hdiff]
        have hfl : recv * req.amount / batch.total * batch.total ≤ recv * req.amount := Nat.div_mul_le_self _ _
        rw [Nat.add_mul, Nat.mul_add]
        omega
      · simp only [hk, ↓reduceIte]; exact hpaidLe k b' R hb' hR
  case addValidator v => obtain ⟨_, _, _, _, hs'⟩ := addValidator_eff hx; subst hs'; exact frame _ rfl rfl rfl rfl
  case removeValidator v => obtain ⟨_, _, _, hs'⟩ := removeValidator_eff hx; subst hs'; exact frame _ rfl rfl rfl rfl
  case transferOwnership n => obtain ⟨_, o, _, hs'⟩ := transferOwnership_eff hx; subst hs'; exact frame _ rfl rfl rfl rfl
  case acceptOwnership => obtain ⟨_, o, _, hs'⟩ := acceptOwnership_eff hx; subst hs'; exact frame _ rfl rfl rfl rfl
  case revokeOwnershipTransfer => obtain ⟨_, o, _, hs'⟩ := revokeOwnership_eff hx; subst hs'; exact frame _ rfl rfl rfl rfl
  case updateConfig n p f mo bp =>
    obtain ⟨_, _, _, _, _, _, _, _, _, _, _, _, hs'⟩ := updateConfig_eff hx; subst hs'; exact frame _ rfl rfl rfl rfl
  case receiveRewards =>
    obtain ⟨_, _, _, _, _, _, _, _, _, _, _, _, hs', _⟩ := receiveRewards_eff hx
    subst hs'; exact frame _ rfl rfl rfl rfl
  case receiveUnstakedTokens bid =>
    obtain ⟨coin, batch, t, _, _, _, _, hb, hst, _, _, hs'⟩ := receiveUnstaked_eff hx
    subst hs'
    have hid : batch.id = bid := hi.idKey _ batch hb
    obtain ⟨hw0, hp0⟩ := hfresh _ batch hb (by rw [hst]; simp)
    simp only [hid]
    constructor
    · intro k b' hb'
      simp only [AMap.find?_insert] at hb'
      simp only [ghostAfter]
      split at hb'
      · rename_i hk; cases hb'; subst hk; exact htotal _ batch hb
      · exact htotal k b' hb'
    · intro k b' hb' hne
      simp only [AMap.find?_insert] at hb'
      simp only [ghostAfter]
      split at hb'
      · cases hb'; simp at hne
      · exact hfresh k b' hb' hne
    · intro k hk
      simp only [AMap.find?_insert] at hk
      simp only [ghostAfter]
      split at hk
      · cases hk
      · exact hfuture k hk
    · intro k b' R hb' hR
      simp only [AMap.find?_insert] at hb'
      simp only [ghostAfter]
      split at hb'
      · rename_i hk; cases hb'; subst hk
        rw [hw0, hp0]; simp
      · exact hpaidLe k b' R hb' hR
  case circuitBreaker =>
    unfold circuitBreaker at hx
    simp only [bind_ok, pure_ok] at hx
    obtain ⟨_, _, hx⟩ := hx; cases hx; exact frame _ rfl rfl rfl rfl
  case resumeContract n l r =>
    unfold resumeContract at hx
    simp only [bind_ok, pure_ok] at hx
    obtain ⟨_, _, _, _, hx⟩ := hx; cases hx; exact frame _ rfl rfl rfl rfl
  case recover pg sel rc =>
    obtain ⟨_, _, _, _, _, _, _, _, _, _, _, _, _, _, hs', _⟩ := recover_eff hx
    subst hs'; exact frame _ rfl rfl rfl rfl
  case feeWithdraw a =>
    unfold feeWithdraw at hx
    simp only [bind_ok, pure_ok] at hx
    obtain ⟨_, _, _, _, _, _, hx⟩ := hx; cases hx; exact frame _ rfl rfl rfl rfl

/-- reachable contract states together with their history counters -/
def GReach (x : GC) : Prop :=
  ∃ env info msg s0 out evs, instantiate env info msg = .ok (s0, out)
    ∧ x = List.foldl gcstep { s := s0, g := {} } evs

theorem gfold_s (x : GC) (evs : List CEv) : (List.foldl gcstep x evs).s = List.foldl cstep x.s evs := by
  induction evs generalizing x with
  | nil => rfl
  | cons e es ih => simp only [List.foldl_cons]; rw [ih, gcstep_s]

theorem greach_creach {x : GC} (h : GReach x) : CReach x.s := by
  obtain ⟨env, info, msg, s0, out, evs, hi, hx⟩ := h
  exact ⟨env, info, msg, s0, out, evs, hi, by rw [hx, gfold_s]⟩

structure AllInv (x : GC) : Prop where
  c : CInv x.s
  cfg : CfgInv x.s
  g : GInv x
  p : PInv x

theorem allinv_step {x : GC} (h : AllInv x) (e : CEv) : AllInv (gcstep x e) := by
  cases e with
  | exec env info msg =>
    simp only [gcstep]
    split
    · rename_i s' out hx
      exact ⟨cinv_execute h.c hx, cfginv_execute h.cfg hx, ginv_exec h.g h.c h.cfg.distinct hx, pinv_exec h.p h.c hx⟩
    · exact h
  | reply id res =>
    have hb : (cstep x.s (.reply id res)).batches = x.s.batches ∧ (cstep x.s (.reply id res)).reqs = x.s.reqs
        ∧ (cstep x.s (.reply id res)).st = x.s.st := by
      simp only [cstep]; split
      · rename_i r hr; obtain ⟨s', out⟩ := r
        obtain ⟨_, _, _, _, _, hs'⟩ := reply_eff hr; subst hs'; exact ⟨rfl, rfl, rfl⟩
      · exact ⟨rfl, rfl, rfl⟩
    refine ⟨by rw [gcstep_s]; exact cinv_cstep h.c _, by rw [gcstep_s]; exact cfginv_cstep h.cfg _, ?_, ?_⟩
    · exact ⟨by simp only [gcstep, hb.2.2]; exact h.g.n1, by simp only [gcstep, hb.2.2]; exact h.g.l1⟩
    · exact { total := by simp only [gcstep, hb.1, hb.2.1]; exact h.p.total
              fresh := by simp only [gcstep, hb.1]; exact h.p.fresh
              future := by simp only [gcstep, hb.1]; exact h.p.future
              paidLe := by simp only [gcstep, hb.1]; exact h.p.paidLe }
  | sudo m =>
    have hb : (cstep x.s (.sudo m)).batches = x.s.batches ∧ (cstep x.s (.sudo m)).reqs = x.s.reqs
        ∧ (cstep x.s (.sudo m)).st = x.s.st := by
      simp only [cstep]; split
      · rename_i r hr; obtain ⟨s', out⟩ := r
        obtain ⟨_, _, hs'⟩ := sudo_eff hr; subst hs'; exact ⟨rfl, rfl, rfl⟩
      · exact ⟨rfl, rfl, rfl⟩
    refine ⟨by rw [gcstep_s]; exact cinv_cstep h.c _, by rw [gcstep_s]; exact cfginv_cstep h.cfg _, ?_, ?_⟩
    · exact ⟨by simp only [gcstep, hb.2.2]; exact h.g.n1, by simp only [gcstep, hb.2.2]; exact h.g.l1⟩
    · exact { total := by simp only [gcstep, hb.1, hb.2.1]; exact h.p.total
              fresh := by simp only [gcstep, hb.1]; exact h.p.fresh
              future := by simp only [gcstep, hb.1]; exact h.p.future
              paidLe := by simp only [gcstep, hb.1]; exact h.p.paidLe }

theorem allinv_boot {env : Env} {info : Info} {msg : InstantiateMsg} {s0 : CState} {out : List SubMsg}
    (h : instantiate env info msg = .ok (s0, out)) : AllInv { s := s0, g := {} } := by
  have hc := cinv_instantiate h
  refine ⟨hc, cfginv_instantiate h, ?_, ?_⟩
  · unfold instantiate at h
    simp only [bind_ok, pure_ok] at h
    obtain ⟨_, _, _, _, _, _, _, _, _, _, _, _, _, _, h⟩ := h
    cases h
    exact ⟨by simp, by simp⟩
  · unfold instantiate at h
    simp only [bind_ok, pure_ok] at h
    obtain ⟨_, _, _, _, _, _, _, _, _, _, _, _, due, _, h⟩ := h
    cases h
    constructor
    · intro k b hb
      simp only [AMap.find?] at hb
      split at hb
      · cases hb; simp [sumReqs, Batch.new]
      · simp at hb
    · intro k b hb _; exact ⟨rfl, rfl⟩
    · intro k _; exact ⟨rfl, rfl⟩
    · intro k b R hb hR
      simp only [AMap.find?] at hb
      split at hb
      · cases hb; simp [Batch.new] at hR
      · simp at hb

/-- every invariant holds in every reachable state, for histories of any length -/
theorem allinv_reach {x : GC} (h : GReach x) : AllInv x := by
  obtain ⟨env, info, msg, s0, out, evs, hi, hx⟩ := h
  subst hx
  have : ∀ (y : GC), AllInv y → AllInv (List.foldl gcstep y evs) := by
    induction evs with
    | nil => intro y hy; exact hy
    | cons e es ih => intro y hy; exact ih _ (allinv_step hy e)
  exact this _ (allinv_boot hi)

end MW.Staking
