import MW.Chain.Dispatch
import MW.Staking.Effects
import MW.StoreLemmas
/-!
# A committed RecoverPendingIbcTransfers / FeeWithdraw on the chain model (helpers for C07, C11)
-/
namespace MW.Chain
open MW MW.Staking

/-- **a committed recovery on the chain model.**  The selected packets (refundable ones of one
receiver and one denom; or, for the admin, the packets named) leave the packet table, exactly their sum
leaves the contract's bank balance in one new pending packet to that same receiver, and that packet is
tracked in turn under the sequence the chain assigned. -/
theorem recover_tx_resends {w : World} {sender : String} {pg : Option Bool} {sel : Option (List Nat)} {rc : Option String}
    {f : Faults} {txi : Option Nat}
    (hc : (step w (.exec sender [] (.recover pg sel rc) f txi)).committed = true) :
    ∃ recv packets denom total,
      recoverReceiver w.c.config rc = .ok recv
      ∧ selectPackets w.c recv sel (pg.getD false) = .ok packets
      ∧ firstDenom packets = .ok denom ∧ packets.all (fun p => p.coin.denom = denom) = true
      ∧ sumAmounts "A27" packets 0 = .ok total
      ∧ 0 < total ∧ total ≤ w.bal w.self denom
      ∧ (step w (.exec sender [] (.recover pg sel rc) f txi)).w.bal w.self denom = w.bal w.self denom - total
      ∧ (step w (.exec sender [] (.recover pg sel rc) f txi)).w.pkts
          = w.pkts ++ [ChainPkt.mk w.nextSeq w.c.config.proto.channel w.self recv ⟨denom, total⟩ .pending]
      ∧ (step w (.exec sender [] (.recover pg sel rc) f txi)).w.c.inflight
          = (erasePackets w.c.inflight packets).insert w.nextSeq
              { seq := w.nextSeq, coin := ⟨denom, total⟩, receiver := recv, status := .sent } := by
  simp only [step, runExec] at hc ⊢
  cases hcore : runExecCore w sender [] (.recover pg sel rc) f txi with
  | mk o calls =>
    cases o with
    | none => simp [hcore] at hc
    | some w' =>
      simp only [hcore]
      obtain ⟨bal1, c', msgs, d, hbal, hx, hd, hw'⟩ := runExecCore_some hcore
      simp only [List.isEmpty_nil, ↓reduceIte, Option.some.injEq] at hbal
      subst hbal hw'
      simp only [execute] at hx
      obtain ⟨recv, packets, denom, maxId, total, _, h1, h2, h3, h4, _, h5, _, _, hs', hout⟩ := recover_eff hx
      subst hout hs'
      obtain ⟨d1, ht, hnil⟩ := dispatchAll_cons_ok hd
      have := dispatchAll_nil_ok hnil; subst this
      obtain ⟨_, hpos, hle, wt, hwt, hw3⟩ := dispatch_transferSub_ok ht
      simp only [AMap.find?_insert_self, Option.some.injEq] at hwt
      subst hwt
      refine ⟨recv, packets, denom, total, h1, h2, h3, h4, h5, hpos, hle, ?_, ?_, ?_⟩
      · rw [hw3]; simp [Bal.sub_apply]
      · rw [hw3]; rfl
      · rw [hw3]

/-- **a committed FeeWithdraw on the chain model**: exactly `amount` moves from the contract's bank
balance to the configured treasury (which is not the contract), and nobody else's balance of the
staked asset changes -/
theorem fee_withdraw_tx_pays {w : World} {sender : String} {amount : Nat} {f : Faults} {txi : Option Nat}
    (htre : w.c.config.feeCfg.treasury ≠ some w.self)
    (hc : (step w (.exec sender [] (.feeWithdraw amount) f txi)).committed = true) :
    ∃ t, w.c.config.feeCfg.treasury = some t ∧ w.c.admin = some sender ∧ amount ≤ w.c.st.totalFees
      ∧ (step w (.exec sender [] (.feeWithdraw amount) f txi)).w.c.st.totalFees = w.c.st.totalFees - amount
      ∧ (step w (.exec sender [] (.feeWithdraw amount) f txi)).w.bal t w.c.config.proto.ibcDenom
          = w.bal t w.c.config.proto.ibcDenom + amount
      ∧ amount ≤ w.bal w.self w.c.config.proto.ibcDenom
      ∧ (step w (.exec sender [] (.feeWithdraw amount) f txi)).w.bal w.self w.c.config.proto.ibcDenom
          = w.bal w.self w.c.config.proto.ibcDenom - amount
      ∧ (∀ a, a ≠ t → a ≠ w.self →
          (step w (.exec sender [] (.feeWithdraw amount) f txi)).w.bal a w.c.config.proto.ibcDenom
            = w.bal a w.c.config.proto.ibcDenom) := by
  simp only [step, runExec] at hc ⊢
  cases hcore : runExecCore w sender [] (.feeWithdraw amount) f txi with
  | mk o calls =>
    cases o with
    | none => simp [hcore] at hc
    | some w' =>
      simp only [hcore]
      obtain ⟨bal1, c', msgs, d, hbal, hx, hd, hw'⟩ := runExecCore_some hcore
      simp only [List.isEmpty_nil, ↓reduceIte, Option.some.injEq] at hbal
      subst hbal hw'
      simp only [execute] at hx
      unfold feeWithdraw at hx
      simp only [bind_ok, ensure_ok, loadSome_ok, pure_ok] at hx
      obtain ⟨_, ha, _, hle, t, ht, hx⟩ := hx
      cases hx
      obtain ⟨d1, hm, hnil⟩ := dispatchAll_cons_ok hd
      have := dispatchAll_nil_ok hnil; subst this
      obtain ⟨_, b, hbm, hd1⟩ := dispatch_msgSend_ok hm
      subst hd1
      have hts : w.self ≠ t := by
        intro e; apply htre; rw [ht, e]
      obtain ⟨g1, g2, g3, g4⟩ := bankMove_ok hts hbm w.c.config.proto.ibcDenom
      simp only [coinSum, ↓reduceIte, Nat.add_zero] at g1 g2 g3 g4
      exact ⟨t, ht, assertAdmin_ok.mp ha, by simpa using hle, rfl, g1, g2, g3, fun a h1 h2 => g4 a h2 h1⟩

end MW.Chain
