import MW.Inv.WorldLst
/-!
# Ledger invariants over the chain model: part 3, every event of every history

`WInv` = the packet coupling (P2) + the LST supply equation (L1) + the LST custody equation (L2),
stated on the *chain model's own ledgers* (token-factory supply, bank balance of the contract),
and preserved by every event of the world: transactions with their sub-message replies and
whole-transaction rollback, ibc-hooks deliveries, acknowledgements, timeouts, stray callbacks,
donations, faucets and clock advances — under the honest-environment conditions `EvOK`.
-/
namespace MW.Chain
open MW MW.Staking

/-- history counters of the world-level statement -/
structure WGhost where
  rebaseL : Int := 0        -- what ResumeContract declared beyond the actual supply
  donL : Nat := 0           -- LST given to the contract outside the protocol

structure WInv (w : World) (g : WGhost) : Prop where
  pkt : WPkt w
  l1 : (w.supply w.c.config.lstDenom : Int) + g.rebaseL = w.c.st.totalLst
  l2 : w.bal w.self w.c.config.lstDenom = pendTotal w.c + refundableSum w.c w.c.config.lstDenom + g.donL

/-- counters after a committed transaction -/
def ghostExec (w : World) (g : WGhost) (funds : List Coin) : ExecMsg → WGhost
  | .liquidUnstake => g
  | .resumeContract _ l _ =>
    { rebaseL := (l : Int) - w.supply w.c.config.lstDenom, donL := g.donL + coinSum w.c.config.lstDenom funds }
  | _ => { g with donL := g.donL + coinSum w.c.config.lstDenom funds }

theorem cfginv_reach {s : CState} (h : CReach s) : CfgInv s := by
  obtain ⟨env, info, msg, s0, out, evs, hi, rfl⟩ := h
  have h0 := cfginv_instantiate hi
  clear hi
  induction evs generalizing s0 with
  | nil => exact h0
  | cons e es ih => exact ih _ (cfginv_cstep h0 e)

/-- the packet coupling survives the handler's own changes to the store -/
theorem wpkt_after_handler {w : World} {c' : CState} {bal1 : Bal} (hp : WPkt w)
    (hch : c'.config.proto.channel = w.c.config.proto.channel)
    (hnoNew : ∀ k e, c'.inflight.find? k = some e → w.c.inflight.find? k = some e)
    (hkeep : ∀ k e, w.c.inflight.find? k = some e → e.status = .sent → c'.inflight.find? k = some e) :
    WPkt { w with bal := bal1, c := c' } := by
  refine ⟨hp.sender, hp.seqLt, hp.nodup, ?_, ?_⟩
  · intro k e h; exact hp.keyLt k e (hnoNew k e h)
  · intro p hpm hpend
    obtain ⟨h1, h2⟩ := hp.p2 p hpm hpend
    exact ⟨by rw [hch]; exact h1, hkeep _ _ h2 rfl⟩

/-- a committed transaction -/
theorem exec_winv {w w' : World} {g : WGhost} {sender : String} {funds : List Coin} {msg : ExecMsg} {f : Faults}
    {txi : Option Nat} {calls : List Call} (hr : CReach w.c) (hi : WInv w g) (hs : sender ≠ w.self)
    (hok : MsgOKc w.c w.self sender msg) (hx : runExecCore w sender funds msg f txi = (some w', calls)) :
    WInv w' (ghostExec w g funds msg) := by
  have hci := cinv_reach hr
  have hcf := cfginv_reach hr
  unfold runExecCore at hx
  simp only at hx
  split at hx
  · cases hx
  · rename_i bal1 hbal
    have hb1 : bal1 w.self w.c.config.lstDenom = w.bal w.self w.c.config.lstDenom + coinSum w.c.config.lstDenom funds := by
      split at hbal
      · rename_i he
        cases hbal
        have : funds = [] := by simpa using he
        subst this; simp [coinSum]
      · exact (bankMove_ok hs hbal _).1
    split at hx
    · cases hx
    · rename_i c' msgs hexec
      split at hx
      · rename_i d hdisp
        have hw' : d.w = w' := by
          have := congrArg Prod.fst hx
          simpa using this
        subst hw'
        have facts : ExecFacts w.c c' w.self funds msg msgs :=
          execute_facts (hx := hexec) hci hcf rfl hok
        have hpk0 : WPkt { w with bal := bal1, c := c' } := wpkt_after_handler hi.pkt facts.chan facts.noNew facts.keepSent
        obtain ⟨m1, m2, m3, m4, m5, m6, m7, m8, m9⟩ :=
          dispatchAll_mid (d := { w := { w with bal := bal1, c := c' }, calls := _ }) w.c.config.lstDenom hpk0 facts.tracked hdisp
        simp only at m2 m3 m4 m5 m6 m7 m8 m9
        have hl : d.w.c.config.lstDenom = w.c.config.lstDenom := by rw [m8]; exact facts.lst
        have hpt : pendTotal d.w.c = pendTotal c' := pendTotal_congr m5 m6
        have howed := facts.owed
        have hsup := facts.sup
        refine ⟨m1, ?_, ?_⟩
        · rw [hl, m7]
          have h1 := hi.l1
          cases msg <;> simp only [ghostExec, SupSpec] at hsup ⊢ <;> omega
        · rw [hl, m2, hpt, m9]
          have h2 := hi.l2
          cases msg <;> simp only [ghostExec, unstakeFunds] at howed ⊢ <;> omega
      · cases hx

/-! ## acknowledgements and timeouts -/

theorem setPktState_map_seq (pkts : List ChainPkt) (seq : Nat) (st : PktState) :
    (setPktState pkts seq st).map (·.seq) = pkts.map (·.seq) := by
  unfold setPktState
  rw [List.map_map]
  apply List.map_congr_left
  intro p _
  simp only [Function.comp]
  split <;> rfl

theorem mem_setPktState {pkts : List ChainPkt} {seq : Nat} {st : PktState} {q : ChainPkt}
    (h : q ∈ setPktState pkts seq st) :
    ∃ q0 ∈ pkts, q = (if q0.seq = seq then { q0 with state := st } else q0) := by
  unfold setPktState at h
  obtain ⟨q0, hq0, rfl⟩ := List.mem_map.mp h
  exact ⟨q0, hq0, rfl⟩

theorem find_pending {pkts : List ChainPkt} {seq : Nat} {p : ChainPkt}
    (h : pkts.find? (fun p => p.seq = seq && p.state = .pending) = some p) :
    p ∈ pkts ∧ p.seq = seq ∧ p.state = .pending := by
  have h1 := List.mem_of_find?_eq_some h
  have h2 := List.find?_some h
  simp only [Bool.and_eq_true, decide_eq_true_eq] at h2
  exact ⟨h1, h2.1, h2.2⟩

/-- the contract's entry for a chain packet -/
def entryOf (p : ChainPkt) (st : PktStatus) : Packet := ⟨p.seq, p.coin, p.receiver, st⟩

def refundWorld (w : World) (p : ChainPkt) (st : PktStatus) : World :=
  let c' : CState := { w.c with inflight := w.c.inflight.insert p.seq (entryOf p st) }
  { w with pkts := setPktState w.pkts p.seq .refunded, bal := w.bal.add p.sender p.coin.denom p.coin.amount, c := c' }

def deliverWorld (w : World) (p : ChainPkt) (rem : Bal) : World :=
  let c' : CState := { w.c with inflight := w.c.inflight.erase p.seq }
  { w with pkts := setPktState w.pkts p.seq .delivered, remote := rem, c := c' }

/-- a pending packet is refunded (error acknowledgement or timeout): the coins come back to the
contract and its entry becomes refundable -/
theorem refund_winv {w : World} {g : WGhost} {p : ChainPkt} {st : PktStatus} (hr : CReach w.c) (hi : WInv w g)
    (hpm : p ∈ w.pkts) (hpend : p.state = .pending) (hst : st = .ackFailure ∨ st = .timedOut) :
    WInv (refundWorld w p st) g := by
  unfold refundWorld entryOf
  have hci := cinv_reach hr
  obtain ⟨_, hentry⟩ := hi.pkt.p2 p hpm hpend
  have hself := hi.pkt.sender p hpm
  refine ⟨⟨?_, ?_, ?_, ?_, ?_⟩, hi.l1, ?_⟩
  · intro q hq
    obtain ⟨q0, hq0, rfl⟩ := mem_setPktState hq
    have := hi.pkt.sender q0 hq0
    split <;> exact this
  · intro q hq
    obtain ⟨q0, hq0, rfl⟩ := mem_setPktState hq
    have := hi.pkt.seqLt q0 hq0
    split <;> exact this
  · show ((setPktState w.pkts p.seq .refunded).map (·.seq)).Nodup
    rw [setPktState_map_seq]; exact hi.pkt.nodup
  · intro k e h
    simp only [AMap.find?_insert] at h
    split at h
    · rename_i hk; subst hk; exact hi.pkt.seqLt p hpm
    · exact hi.pkt.keyLt k e h
  · intro q hq hqp
    obtain ⟨q0, hq0, rfl⟩ := mem_setPktState hq
    split at hqp
    · cases hqp
    · rename_i hne
      simp only [hne, ↓reduceIte]
      obtain ⟨h1, h2⟩ := hi.pkt.p2 q0 hq0 hqp
      refine ⟨h1, ?_⟩
      simp only [AMap.find?_insert, hne, ↓reduceIte]
      exact h2
  · have hsum := AMap.sumBy_insert_old (refundedAmt w.c.config.lstDenom) hci.sortedI
      { seq := p.seq, coin := p.coin, receiver := p.receiver, status := st } _ hentry
    have h2 := hi.l2
    simp only [refundableSum, pendTotal] at h2 ⊢
    simp only [Bal.add_apply, hself, true_and]
    have hold : refundedAmt w.c.config.lstDenom (⟨p.seq, p.coin, p.receiver, .sent⟩ : Packet) = 0 := by
      simp [refundedAmt]
    have hnew : refundedAmt w.c.config.lstDenom (⟨p.seq, p.coin, p.receiver, st⟩ : Packet)
        = if p.coin.denom = w.c.config.lstDenom then p.coin.amount else 0 := by
      rcases hst with h | h <;> subst h <;> simp [refundedAmt]
    rw [hold, hnew] at hsum
    split
    · rename_i hd
      have hd' : p.coin.denom = w.c.config.lstDenom := hd.symm
      simp only [hd', ↓reduceIte] at hsum
      omega
    · rename_i hd
      have hd' : ¬ p.coin.denom = w.c.config.lstDenom := fun e => hd e.symm
      simp only [hd', ↓reduceIte] at hsum
      omega

/-- a pending packet is delivered: its entry is dropped, nothing comes back -/
theorem deliver_winv {w : World} {g : WGhost} {p : ChainPkt} {rem : Bal} (hr : CReach w.c) (hi : WInv w g)
    (hpm : p ∈ w.pkts) (hpend : p.state = .pending) :
    WInv (deliverWorld w p rem) g := by
  unfold deliverWorld
  have hci := cinv_reach hr
  obtain ⟨_, hentry⟩ := hi.pkt.p2 p hpm hpend
  refine ⟨⟨?_, ?_, ?_, ?_, ?_⟩, hi.l1, ?_⟩
  · intro q hq
    obtain ⟨q0, hq0, rfl⟩ := mem_setPktState hq
    have := hi.pkt.sender q0 hq0
    split <;> exact this
  · intro q hq
    obtain ⟨q0, hq0, rfl⟩ := mem_setPktState hq
    have := hi.pkt.seqLt q0 hq0
    split <;> exact this
  · show ((setPktState w.pkts p.seq .delivered).map (·.seq)).Nodup
    rw [setPktState_map_seq]; exact hi.pkt.nodup
  · intro k e h
    simp only [AMap.find?_erase] at h
    split at h
    · cases h
    · exact hi.pkt.keyLt k e h
  · intro q hq hqp
    obtain ⟨q0, hq0, rfl⟩ := mem_setPktState hq
    split at hqp
    · cases hqp
    · rename_i hne
      simp only [hne, ↓reduceIte]
      obtain ⟨h1, h2⟩ := hi.pkt.p2 q0 hq0 hqp
      refine ⟨h1, ?_⟩
      simp only [AMap.find?_erase, hne, ↓reduceIte]
      exact h2
  · have hsum := AMap.sumBy_erase_old (refundedAmt w.c.config.lstDenom) hci.sortedI _ hentry
    have h2 := hi.l2
    simp only [refundableSum, pendTotal] at h2 ⊢
    have hold : refundedAmt w.c.config.lstDenom (⟨p.seq, p.coin, p.receiver, .sent⟩ : Packet) = 0 := by
      simp [refundedAmt]
    rw [hold] at hsum
    omega

/-! ## every event -/

/-- honest-environment conditions on an event: transactions are not signed by the contract's own
address, the message conditions `MsgOKc`, and the chain delivers acknowledgement / timeout
callbacks only for packets it actually has in flight (a stray callback names another channel or a
sequence the contract does not track) -/
def EvOK (w : World) : Event → Prop
  | .exec sender _ msg _ _ => sender ≠ w.self ∧ MsgOKc w.c w.self sender msg
  | .hook channel ns _ msg _ =>
    ∀ acct, deriveIntermediateSender channel ns w.chainPrefix = some acct → acct ≠ w.self ∧ MsgOKc w.c w.self acct msg
  | .strayAck channel seq _ => channel ≠ w.c.config.proto.channel ∨ w.c.inflight.find? seq = none
  | .strayTimeout channel seq => channel ≠ w.c.config.proto.channel ∨ w.c.inflight.find? seq = none
  | .donate sender _ => sender ≠ w.self
  | _ => True

/-- the history counters after an event -/
def wgstep (w : World) (g : WGhost) (e : Event) : WGhost :=
  if (step w e).committed then
    match e with
    | .exec _ funds msg _ _ => ghostExec w g funds msg
    | .hook _ _ coin msg _ => ghostExec w g [coin] msg
    | .donate _ coin => { g with donL := g.donL + coinSum w.c.config.lstDenom [coin] }
    | .faucet to coin => if to = w.self then { g with donL := g.donL + coinSum w.c.config.lstDenom [coin] } else g
    | _ => g
  else g

theorem winv_frame {w w' : World} {g : WGhost} (hi : WInv w g) (hc : w'.c = w.c) (hs : w'.self = w.self)
    (hp : w'.pkts = w.pkts) (hn : w'.nextSeq = w.nextSeq) (hsup : w'.supply = w.supply)
    (hb : w'.bal w.self w.c.config.lstDenom = w.bal w.self w.c.config.lstDenom) : WInv w' g := by
  refine ⟨⟨?_, ?_, ?_, ?_, ?_⟩, ?_, ?_⟩
  · rw [hp, hs]; exact hi.pkt.sender
  · rw [hp, hn]; exact hi.pkt.seqLt
  · rw [hp]; exact hi.pkt.nodup
  · rw [hc, hn]; exact hi.pkt.keyLt
  · rw [hp, hc]; exact hi.pkt.p2
  · rw [hc, hsup]; exact hi.l1
  · rw [hc, hs, hb]; exact hi.l2

theorem runExec_winv {w : World} {g : WGhost} {sender : String} {funds : List Coin} {msg : ExecMsg} {f : Faults}
    {txi : Option Nat} (hr : CReach w.c) (hi : WInv w g) (hs : sender ≠ w.self) (hok : MsgOKc w.c w.self sender msg) :
    WInv (runExec w sender funds msg f txi).w
      (if (runExec w sender funds msg f txi).committed then ghostExec w g funds msg else g) := by
  unfold runExec
  cases hcore : runExecCore w sender funds msg f txi with
  | mk o calls =>
    cases o with
    | none => simpa using hi
    | some w' => simpa using exec_winv hr hi hs hok hcore

theorem sudo_noop {c : CState} {channel : String} {seq : Nat}
    (h : channel ≠ c.config.proto.channel ∨ c.inflight.find? seq = none) (m : SudoMsg)
    (hm : m = .timeout channel seq ∨ ∃ b, m = .ack channel seq b) : ∀ r, sudo c m = .ok r → r.1 = c := by
  intro r hr
  rcases hm with rfl | ⟨b, rfl⟩
  · unfold sudo at hr
    simp only at hr
    rcases h with h | h
    · simp only [h, ne_eq, not_false_eq_true, ↓reduceIte] at hr; cases hr; rfl
    · split at hr
      · cases hr; rfl
      · simp only [h] at hr; cases hr; rfl
  · unfold sudo at hr
    simp only at hr
    rcases h with h | h
    · simp only [h, ne_eq, not_false_eq_true, ↓reduceIte] at hr; cases hr; rfl
    · split at hr
      · cases hr; rfl
      · simp only [h] at hr; cases hr; rfl

theorem sudoCall_noop {w : World} {channel : String} {seq : Nat}
    (h : channel ≠ w.c.config.proto.channel ∨ w.c.inflight.find? seq = none) (m : SudoMsg)
    (hm : m = .timeout channel seq ∨ ∃ b, m = .ack channel seq b) : (sudoCall w m).1 = w := by
  unfold sudoCall
  simp only
  split
  · rename_i c' o hs
    have := sudo_noop h m hm _ hs
    simp only at this
    subst this
    rfl
  · rfl

/-- every event of the world preserves the ledger invariants -/
theorem step_winv {w : World} {g : WGhost} (e : Event) (hr : CReach w.c) (hi : WInv w g) (hok : EvOK w e) :
    WInv (step w e).w (wgstep w g e) := by
  have hci := cinv_reach hr
  cases e with
  | advance dt dh =>
    simp only [step, wgstep, ↓reduceIte]
    exact winv_frame hi rfl rfl rfl rfl rfl rfl
  | exec sender funds msg f txi =>
    obtain ⟨hs, hm⟩ := hok
    simp only [step, wgstep]
    exact runExec_winv hr hi hs hm
  | hook channel ns coin msg f =>
    simp only [step, wgstep]
    cases hd : deriveIntermediateSender channel ns w.chainPrefix with
    | none => simpa using hi
    | some acct =>
      obtain ⟨hs, hm⟩ := hok acct hd
      simp only
      by_cases h0 : coin.amount = 0
      · simpa [h0] using hi
      · simp only [h0, ↓reduceIte]
        have hi1 : WInv { w with bal := w.bal.add acct coin.denom coin.amount } g := by
          refine winv_frame hi rfl rfl rfl rfl rfl ?_
          simp only [Bal.add_apply]
          have : ¬ w.self = acct := fun e => hs e.symm
          simp [this]
        have := runExec_winv (w := { w with bal := w.bal.add acct coin.denom coin.amount }) (g := g)
          (funds := [coin]) (f := f) (txi := some 0) hr hi1 hs hm
        split
        · rename_i hcm
          simp only [hcm, ↓reduceIte] at this ⊢
          exact this
        · simpa using hi
  | ack seq success =>
    unfold wgstep
    generalize hstep : step w (.ack seq success) = r
    simp only [step] at hstep
    split at hstep
    · subst hstep; simpa using hi
    · rename_i p hf
      obtain ⟨hpm, hseq, hpend⟩ := find_pending hf
      obtain ⟨hch, hentry⟩ := hi.pkt.p2 p hpm hpend
      subst hseq hstep
      simp only [↓reduceIte]
      cases success with
      | true =>
        have : (sudoCall { w with pkts := setPktState w.pkts p.seq .delivered,
                                  remote := w.remote.add p.receiver p.coin.denom p.coin.amount } (.ack p.channel p.seq true)).1
            = deliverWorld w p (w.remote.add p.receiver p.coin.denom p.coin.amount) := by
          simp [sudoCall, sudo, hch, hentry, deliverWorld]
        simp only [↓reduceIte]
        rw [this]
        exact deliver_winv hr hi hpm hpend
      | false =>
        have : (sudoCall { w with pkts := setPktState w.pkts p.seq .refunded,
                                  bal := w.bal.add p.sender p.coin.denom p.coin.amount } (.ack p.channel p.seq false)).1
            = refundWorld w p .ackFailure := by
          simp [sudoCall, sudo, hch, hentry, refundWorld, entryOf]
        simp only [Bool.false_eq_true, ↓reduceIte]
        rw [this]
        exact refund_winv hr hi hpm hpend (.inl rfl)
  | timeout seq =>
    unfold wgstep
    generalize hstep : step w (.timeout seq) = r
    simp only [step] at hstep
    split at hstep
    · subst hstep; simpa using hi
    · rename_i p hf
      obtain ⟨hpm, hseq, hpend⟩ := find_pending hf
      obtain ⟨hch, hentry⟩ := hi.pkt.p2 p hpm hpend
      subst hseq hstep
      have : (sudoCall { w with pkts := setPktState w.pkts p.seq .refunded,
                                bal := w.bal.add p.sender p.coin.denom p.coin.amount } (.timeout p.channel p.seq)).1
          = refundWorld w p .timedOut := by
        simp [sudoCall, sudo, hch, hentry, refundWorld, entryOf]
      simp only [↓reduceIte]
      rw [this]
      exact refund_winv hr hi hpm hpend (.inr rfl)
  | strayAck channel seq success =>
    simp only [step, wgstep, ↓reduceIte]
    rw [sudoCall_noop hok _ (.inr ⟨success, rfl⟩)]
    exact hi
  | strayTimeout channel seq =>
    simp only [step, wgstep, ↓reduceIte]
    rw [sudoCall_noop hok _ (.inl rfl)]
    exact hi
  | donate sender coin =>
    unfold wgstep
    generalize hstep : step w (.donate sender coin) = r
    simp only [step] at hstep
    split at hstep
    · subst hstep; simpa using hi
    · rename_i b hb
      subst hstep
      simp only [↓reduceIte]
      have h1 := (bankMove_ok (show sender ≠ w.self from hok) hb w.c.config.lstDenom).1
      refine ⟨⟨hi.pkt.sender, hi.pkt.seqLt, hi.pkt.nodup, hi.pkt.keyLt, hi.pkt.p2⟩, hi.l1, ?_⟩
      have h2 := hi.l2
      simp only at h2 ⊢
      omega
  | faucet to coin =>
    simp only [step, wgstep, ↓reduceIte]
    by_cases ht : to = w.self
    · subst ht
      simp only [↓reduceIte]
      refine ⟨⟨hi.pkt.sender, hi.pkt.seqLt, hi.pkt.nodup, hi.pkt.keyLt, hi.pkt.p2⟩, hi.l1, ?_⟩
      have h2 := hi.l2
      simp only [Bal.add_apply, coinSum, true_and] at h2 ⊢
      split
      · rename_i hd
        have : coin.denom = w.c.config.lstDenom := hd.symm
        simp only [this, ↓reduceIte]; omega
      · rename_i hd
        have : ¬ coin.denom = w.c.config.lstDenom := fun e => hd e.symm
        simp only [this, ↓reduceIte]; omega
    · simp only [ht, ↓reduceIte]
      refine winv_frame hi rfl rfl rfl rfl rfl ?_
      have : ¬ w.self = to := fun e => ht e.symm
      simp [Bal.add_apply, this]

/-! ## every history -/

/-- the honest-environment conditions hold at every point of the history -/
def AllOK : World → List Event → Prop
  | _, [] => True
  | w, e :: es => EvOK w e ∧ AllOK (step w e).w es

/-- world and counters after a history -/
def runW (w : World) (g : WGhost) : List Event → World × WGhost
  | [] => (w, g)
  | e :: es => runW (step w e).w (wgstep w g e) es

theorem runW_winv {w : World} {g : WGhost} (evs : List Event) (hr : CReach w.c) (hi : WInv w g) (hok : AllOK w evs) :
    WInv (runW w g evs).1 (runW w g evs).2 ∧ CReach (runW w g evs).1.c := by
  induction evs generalizing w g with
  | nil => exact ⟨hi, hr⟩
  | cons e es ih =>
    obtain ⟨h1, h2⟩ := hok
    exact ih (step_creach w e hr) (step_winv e hr hi h1) h2

theorem winv_boot {env : Env} {info : Info} {msg : InstantiateMsg} {c0 : CState} {out : List SubMsg}
    (hi : instantiate env info msg = .ok (c0, out)) (self pfx : String) (t hgt : Nat) :
    WInv (bootWorld c0 self pfx t hgt) {} := by
  unfold instantiate at hi
  simp only [bind_ok, pure_ok, add64_ok] at hi
  obtain ⟨_, _, _, _, _, _, _, _, _, _, _, _, _, _, hi⟩ := hi
  cases hi
  refine ⟨⟨?_, ?_, ?_, ?_, ?_⟩, ?_, ?_⟩
  · intro p hp; simp [bootWorld] at hp
  · intro p hp; simp [bootWorld] at hp
  · simp [bootWorld]
  · intro k e h; simp [bootWorld, AMap.find?] at h
  · intro p hp; simp [bootWorld] at hp
  · simp [bootWorld]
  · simp [bootWorld, pendTotal, refundableSum, AMap.find?, Batch.new]

/-- **Ledger invariants along every history of the chain model** (unbounded length; any interleaving of
transactions with sub-message replies and rollbacks, ibc-hooks deliveries, acknowledgements,
timeouts, stray callbacks, donations, faucets, clock advances) that satisfies the
honest-environment conditions `AllOK`:
* P2 — every pending packet the contract sent is tracked as `sent` with the same coin and receiver;
* L1 — token-factory supply of the LST + what ResumeContract declared on top = the LST total;
* L2 — the contract's own LST balance = pending batch total + refundable LST packets + donations. -/
theorem world_history_winv {env : Env} {info : Info} {msg : InstantiateMsg} {c0 : CState} {out : List SubMsg}
    (hi : instantiate env info msg = .ok (c0, out)) (self pfx : String) (t hgt : Nat) (evs : List Event)
    (hok : AllOK (bootWorld c0 self pfx t hgt) evs) :
    WInv (runW (bootWorld c0 self pfx t hgt) {} evs).1 (runW (bootWorld c0 self pfx t hgt) {} evs).2 :=
  (runW_winv evs ⟨env, info, msg, c0, out, [], hi, rfl⟩ (winv_boot hi self pfx t hgt) hok).1

/-! ## executable forms of the conditions (used to exhibit concrete histories that satisfy them) -/

def msgOKb (s : CState) (self sender : String) : ExecMsg → Bool
  | .liquidStake mt _ _ => mt.getD sender != self
  | .updateConfig _ p _ _ _ => match p with
    | some pr => pr.channel == s.config.proto.channel
    | none => true
  | .recover _ sel _ => sel.isNone
  | _ => true

theorem msgOKb_sound {s : CState} {self sender : String} {m : ExecMsg} (h : msgOKb s self sender m = true) :
    MsgOKc s self sender m := by
  cases m <;> simp only [msgOKb, MsgOKc] at h ⊢
  case liquidStake mt tn ex => simpa using h
  case updateConfig n p f mo bp =>
    intro pr hp; subst hp; simpa using h
  case recover pg sel rc => cases sel <;> simp_all

def evOKb (w : World) : Event → Bool
  | .exec sender _ msg _ _ => sender != w.self && msgOKb w.c w.self sender msg
  | .hook channel ns _ msg _ =>
    match deriveIntermediateSender channel ns w.chainPrefix with
    | some acct => acct != w.self && msgOKb w.c w.self acct msg
    | none => true
  | .strayAck channel seq _ => channel != w.c.config.proto.channel || (w.c.inflight.find? seq).isNone
  | .strayTimeout channel seq => channel != w.c.config.proto.channel || (w.c.inflight.find? seq).isNone
  | .donate sender _ => sender != w.self
  | _ => true

theorem evOKb_sound {w : World} {e : Event} (h : evOKb w e = true) : EvOK w e := by
  cases e <;> simp only [evOKb, EvOK] at h ⊢
  case exec sender funds msg f txi =>
    simp only [Bool.and_eq_true, bne_iff_ne, ne_eq] at h
    exact ⟨h.1, msgOKb_sound h.2⟩
  case hook channel ns coin msg f =>
    intro acct ha
    simp only [ha, Bool.and_eq_true, bne_iff_ne, ne_eq] at h
    exact ⟨h.1, msgOKb_sound h.2⟩
  case strayAck channel seq b =>
    simp only [Bool.or_eq_true, bne_iff_ne, ne_eq, Option.isNone_iff_eq_none] at h
    exact h
  case strayTimeout channel seq =>
    simp only [Bool.or_eq_true, bne_iff_ne, ne_eq, Option.isNone_iff_eq_none] at h
    exact h
  case donate sender coin => simpa using h

def allOKb : World → List Event → Bool
  | _, [] => true
  | w, e :: es => evOKb w e && allOKb (step w e).w es

theorem allOKb_sound {w : World} {evs : List Event} (h : allOKb w evs = true) : AllOK w evs := by
  induction evs generalizing w with
  | nil => trivial
  | cons e es ih =>
    simp only [allOKb, Bool.and_eq_true] at h
    exact ⟨evOKb_sound h.1, ih h.2⟩

end MW.Chain
