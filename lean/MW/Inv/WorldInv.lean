import MW.Inv.WorldD
/-!
# Ledger invariants over the chain model: part 3, every event of every history

`WInv` = the packet coupling (P2) + the LST supply equation (L1) + the LST custody equation (L2)
+ the solvency equation of the staked asset (N2) + the location equation of what was forwarded
toward the staker (F1), stated on the *chain model's own ledgers* (token-factory supply, bank
balance of the contract, the chain's packet list), and preserved by every event of the world:
transactions with their sub-message replies and whole-transaction rollback, ibc-hooks deliveries,
acknowledgements, timeouts, stray callbacks, donations, faucets and clock advances — under the
honest-environment conditions `EvOK`.
-/
namespace MW.Chain
open MW MW.Staking

/-- history counters of the world-level statement -/
structure WGhost where
  rebaseL : Int := 0        -- what ResumeContract declared beyond the actual supply
  donL : Nat := 0           -- LST given to the contract outside the protocol
  swept : Nat := 0          -- native total moved into the fee counter when the LST total was zero
  paid : Int := 0           -- staked asset paid out by withdrawals
  donD : Int := 0           -- staked asset given to the contract outside the protocol
  fwd : Nat := 0            -- staked asset forwarded toward the staker (stakes and net rewards)
  setAside : Nat := 0       -- expected unbonding amounts of all submitted batches
  rebaseN : Int := 0        -- what ResumeContract declared beyond the forwarded stake

structure WInv (w : World) (g : WGhost) : Prop where
  pkt : WPkt w
  l1 : (w.supply w.c.config.lstDenom : Int) + g.rebaseL = w.c.st.totalLst
  l2 : w.bal w.self w.c.config.lstDenom = pendTotal w.c + refundableSum w.c w.c.config.lstDenom + g.donL
  n2 : (w.bal w.self w.c.config.proto.ibcDenom : Int) + g.swept + g.paid = owedD w.c + g.donD
  f1 : locW w.c.config.native.staker w.c.config.proto.ibcDenom w.pkts
        + locC w.c.config.native.staker w.c.config.proto.ibcDenom w.c = g.fwd
  n1 : (w.c.st.totalNative : Int) + g.setAside + g.swept = g.fwd + g.rebaseN

/-- what the handler of a transaction returns: the new store and the messages (`(old store, [])` if
it fails) -/
def execRes (w : World) (sender : String) (funds : List Coin) (msg : ExecMsg) (txi : Option Nat) : CState × List SubMsg :=
  match execute w.c (w.env txi) { sender := sender, funds := funds } msg with
  | .ok r => r
  | .error _ => (w.c, [])

/-- counters after a committed transaction whose handler returned `res` -/
def ghostExec (w : World) (g : WGhost) (funds : List Coin) (msg : ExecMsg) (res : CState × List SubMsg) : WGhost :=
  let X := w.c.config.lstDenom
  let D := w.c.config.proto.ibcDenom
  let S := w.c.config.native.staker
  { rebaseL := (match msg with
      | .resumeContract _ l _ => (l : Int) - w.supply X
      | _ => g.rebaseL),
    donL := (match msg with
      | .liquidUnstake => g.donL
      | _ => g.donL + coinSum X funds),
    swept := g.swept + sweptDelta w.c msg,
    paid := g.paid + paidDelta w.self D res.2 msg,
    donD := g.donD + coinSum D funds - consumedD D funds msg,
    fwd := g.fwd + fwdDelta S D res.2 msg,
    setAside := g.setAside + setAsideDelta w.c res.1 msg,
    rebaseN := (match msg with
      | .resumeContract n _ _ => (n : Int) + g.setAside + g.swept - g.fwd
      | _ => g.rebaseN) }

theorem cfginv_reach {s : CState} (h : CReach s) : CfgInv s := by
  obtain ⟨env, info, msg, s0, out, evs, hi, rfl⟩ := h
  have h0 := cfginv_instantiate hi
  clear hi
  induction evs generalizing s0 with
  | nil => exact h0
  | cons e es ih => exact ih _ (cfginv_cstep h0 e)

/-- the packet coupling survives the handler's own changes to the store -/
theorem wpkt_after_handler {w : World} {c' : CState} {bal1 : Bal} (hp : WPkt w)
    (hch : c'.config.proto.channel = w.c.config.proto.channel)
    (hnoNew : ∀ k e, c'.inflight.find? k = some e → w.c.inflight.find? k = some e)
    (hkeep : ∀ k e, w.c.inflight.find? k = some e → e.status = .sent → c'.inflight.find? k = some e) :
    WPkt { w with bal := bal1, c := c' } := by
  refine ⟨hp.sender, hp.seqLt, hp.nodup, ?_, ?_⟩
  · intro k e h; exact hp.keyLt k e (hnoNew k e h)
  · intro p hpm hpend
    obtain ⟨h1, h2⟩ := hp.p2 p hpm hpend
    exact ⟨by rw [hch]; exact h1, hkeep _ _ h2 rfl⟩

/-- a committed transaction -/
theorem exec_winv {w w' : World} {g : WGhost} {sender : String} {funds : List Coin} {msg : ExecMsg} {f : Faults}
    {txi : Option Nat} {calls : List Call} (hr : CReach w.c) (hi : WInv w g) (hs : sender ≠ w.self)
    (hok : MsgOKc w.c w.self sender msg) (hx : runExecCore w sender funds msg f txi = (some w', calls)) :
    WInv w' (ghostExec w g funds msg (execRes w sender funds msg txi)) := by
  have hci := cinv_reach hr
  have hcf := cfginv_reach hr
  unfold runExecCore at hx
  simp only at hx
  split at hx
  · cases hx
  · rename_i bal1 hbal
    have hb1 : ∀ X, bal1 w.self X = w.bal w.self X + coinSum X funds := by
      intro X
      split at hbal
      · rename_i he
        cases hbal
        have : funds = [] := by simpa using he
        subst this; simp [coinSum]
      · exact (bankMove_ok hs hbal _).1
    split at hx
    · cases hx
    · rename_i c' msgs hexec
      split at hx
      · rename_i d hdisp
        have hw' : d.w = w' := by
          have := congrArg Prod.fst hx
          simpa using this
        subst hw'
        have hout : execRes w sender funds msg txi = (c', msgs) := by
          unfold execRes
          simp only [World.env] at hexec ⊢
          rw [hexec]
        rw [hout]
        have facts : ExecFacts w.c c' w.self funds msg msgs :=
          execute_facts (hx := hexec) hci hcf rfl hok
        have factsD : ExecFactsD w.c c' w.self funds msg msgs :=
          execute_factsD (hx := hexec) hci hcf rfl hok
        have hpk0 : WPkt { w with bal := bal1, c := c' } := wpkt_after_handler hi.pkt facts.chan facts.noNew facts.keepSent
        obtain ⟨m1, m2, m3, m4, m5, m6, m7, m8, m9, m10, m11⟩ :=
          dispatchAll_mid (d := { w := { w with bal := bal1, c := c' }, calls := _ }) w.c.config.lstDenom hpk0 facts.tracked hdisp
        obtain ⟨_, _, n3, _, _, _, _, _, n9, _, _⟩ :=
          dispatchAll_mid (d := { w := { w with bal := bal1, c := c' }, calls := _ }) w.c.config.proto.ibcDenom hpk0 facts.tracked hdisp
        simp only at m2 m3 m4 m5 m6 m7 m8 m9 m10 m11 n3 n9
        have hl : d.w.c.config.lstDenom = w.c.config.lstDenom := by rw [m8]; exact facts.lst
        have hdn : d.w.c.config.proto.ibcDenom = w.c.config.proto.ibcDenom := by rw [m8]; exact factsD.dn
        have hstk : d.w.c.config.native.staker = w.c.config.native.staker := by rw [m8]; exact factsD.staker
        have hpt : pendTotal d.w.c = pendTotal c' := pendTotal_congr m5 m6
        have howedD : owedD d.w.c = owedD c' := by
          unfold owedD recvSum
          rw [m5, m7, m8]
          have := n9
          rw [← factsD.dn] at this
          rw [this]
        have hlocC : locC w.c.config.native.staker w.c.config.proto.ibcDenom d.w.c
            = locC w.c.config.native.staker w.c.config.proto.ibcDenom c' := by
          unfold locC; exact m10 _
        have howed := facts.owed
        have hsup := facts.sup
        have hoD := factsD.owed
        have hloc := factsD.loc
        have hbL := hb1 w.c.config.lstDenom
        have hbD := hb1 w.c.config.proto.ibcDenom
        have hlw := m11 w.c.config.native.staker w.c.config.proto.ibcDenom
        have hnat := factsD.nat
        refine ⟨m1, ?_, ?_, ?_, ?_, ?_⟩
        rotate_left 4
        · rw [m7]
          have h5 := hi.n1
          cases msg <;> simp only [ghostExec, NatSpec, fwdDelta, setAsideDelta, sweptDelta] at hnat ⊢ <;> omega
        · rw [hl, m7]
          have h1 := hi.l1
          cases msg <;> simp only [ghostExec, SupSpec] at hsup ⊢ <;> omega
        · rw [hl, m2, hpt, m9]
          have h2 := hi.l2
          cases msg <;> simp only [ghostExec, unstakeFunds] at howed ⊢ <;> omega
        · rw [hdn, m2, howedD]
          have h3 := hi.n2
          simp only [ghostExec]
          omega
        · rw [hdn, hstk, hlw, hlocC]
          have h4 := hi.f1
          cases msg <;> simp only [ghostExec, fwdDelta, recDelta] at hloc ⊢ <;> omega
      · cases hx

/-! ## acknowledgements and timeouts -/

theorem setPktState_map_seq (pkts : List ChainPkt) (seq : Nat) (st : PktState) :
    (setPktState pkts seq st).map (·.seq) = pkts.map (·.seq) := by
  unfold setPktState
  rw [List.map_map]
  apply List.map_congr_left
  intro p _
  simp only [Function.comp]
  split <;> rfl

theorem mem_setPktState {pkts : List ChainPkt} {seq : Nat} {st : PktState} {q : ChainPkt}
    (h : q ∈ setPktState pkts seq st) :
    ∃ q0 ∈ pkts, q = (if q0.seq = seq then { q0 with state := st } else q0) := by
  unfold setPktState at h
  obtain ⟨q0, hq0, rfl⟩ := List.mem_map.mp h
  exact ⟨q0, hq0, rfl⟩

theorem find_pending {pkts : List ChainPkt} {seq : Nat} {p : ChainPkt}
    (h : pkts.find? (fun p => p.seq = seq && p.state = .pending) = some p) :
    p ∈ pkts ∧ p.seq = seq ∧ p.state = .pending := by
  have h1 := List.mem_of_find?_eq_some h
  have h2 := List.find?_some h
  simp only [Bool.and_eq_true, decide_eq_true_eq] at h2
  exact ⟨h1, h2.1, h2.2⟩

/-- the contract's entry for a chain packet -/
def entryOf (p : ChainPkt) (st : PktStatus) : Packet := ⟨p.seq, p.coin, p.receiver, st⟩

def refundWorld (w : World) (p : ChainPkt) (st : PktStatus) : World :=
  let c' : CState := { w.c with inflight := w.c.inflight.insert p.seq (entryOf p st) }
  { w with pkts := setPktState w.pkts p.seq .refunded, bal := w.bal.add p.sender p.coin.denom p.coin.amount, c := c' }

def deliverWorld (w : World) (p : ChainPkt) (rem : Bal) : World :=
  let c' : CState := { w.c with inflight := w.c.inflight.erase p.seq }
  { w with pkts := setPktState w.pkts p.seq .delivered, remote := rem, c := c' }

theorem setPktState_of_not_mem {pkts : List ChainPkt} {seq : Nat} {st : PktState}
    (h : ∀ q ∈ pkts, q.seq ≠ seq) : setPktState pkts seq st = pkts := by
  unfold setPktState
  induction pkts with
  | nil => rfl
  | cons q rest ih =>
    have hq := h q (by simp)
    simp only [List.map_cons, hq, ↓reduceIte]
    rw [ih (fun x hx => h x (List.mem_cons_of_mem _ hx))]

/-- changing the state of one packet changes the located sum by exactly that packet's contribution -/
theorem locW_setState {pkts : List ChainPkt} {p : ChainPkt} (S D : String) (st : PktState)
    (hnd : (pkts.map (·.seq)).Nodup) (hp : p ∈ pkts) :
    locW S D (setPktState pkts p.seq st) + locPkt S D p = locW S D pkts + locPkt S D { p with state := st } := by
  induction pkts with
  | nil => simp at hp
  | cons q rest ih =>
    simp only [List.map_cons, List.nodup_cons] at hnd
    by_cases hq : q.seq = p.seq
    · have hqp : q = p := by
        simp only [List.mem_cons] at hp
        rcases hp with hp | hp
        · exact hp.symm
        · exact absurd (List.mem_map.mpr ⟨p, hp, rfl⟩) (hq ▸ hnd.1)
      subst hqp
      have hrest : setPktState rest q.seq st = rest := by
        apply setPktState_of_not_mem
        intro x hx e
        exact hnd.1 (List.mem_map.mpr ⟨x, hx, e⟩)
      have : setPktState (q :: rest) q.seq st = { q with state := st } :: rest := by
        show (if q.seq = q.seq then _ else _) :: setPktState rest q.seq st = _
        simp [hrest]
      rw [this]
      simp only [locW, List.map_cons, List.sum_cons]
      omega
    · have hp' : p ∈ rest := by
        simp only [List.mem_cons] at hp
        rcases hp with hp | hp
        · subst hp; exact absurd rfl hq
        · exact hp
      have := ih hnd.2 hp'
      have hs : setPktState (q :: rest) p.seq st = q :: setPktState rest p.seq st := by
        show (if q.seq = p.seq then _ else _) :: setPktState rest p.seq st = _
        simp [hq]
      rw [hs]
      simp only [locW, List.map_cons, List.sum_cons] at this ⊢
      omega

/-- the refund of a pending packet: coins of its denom come back, the same amount becomes refundable -/
theorem refund_amounts {w : World} {g : WGhost} {p : ChainPkt} {st : PktStatus} (hr : CReach w.c) (hi : WInv w g)
    (hpm : p ∈ w.pkts) (hpend : p.state = .pending) (hst : st = .ackFailure ∨ st = .timedOut) (P : String → String → Bool) :
    AMap.sumBy (refW P) (w.c.inflight.insert p.seq (entryOf p st))
      = AMap.sumBy (refW P) w.c.inflight + (if P p.coin.denom p.receiver then p.coin.amount else 0) := by
  have hci := cinv_reach hr
  obtain ⟨_, hentry⟩ := hi.pkt.p2 p hpm hpend
  have hsum := AMap.sumBy_insert_old (refW P) hci.sortedI (entryOf p st) _ hentry
  have hold : refW P (⟨p.seq, p.coin, p.receiver, .sent⟩ : Packet) = 0 := by simp [refW]
  have hnew : refW P (entryOf p st) = if P p.coin.denom p.receiver then p.coin.amount else 0 := by
    rcases hst with h | h <;> subst h <;> simp [refW, entryOf]
  rw [hold, hnew] at hsum
  omega

/-- a pending packet is refunded (error acknowledgement or timeout): the coins come back to the
contract and its entry becomes refundable -/
theorem refund_winv {w : World} {g : WGhost} {p : ChainPkt} {st : PktStatus} (hr : CReach w.c) (hi : WInv w g)
    (hpm : p ∈ w.pkts) (hpend : p.state = .pending) (hst : st = .ackFailure ∨ st = .timedOut) :
    WInv (refundWorld w p st) g := by
  have hci := cinv_reach hr
  obtain ⟨_, hentry⟩ := hi.pkt.p2 p hpm hpend
  have hself := hi.pkt.sender p hpm
  have hL := refund_amounts hr hi hpm hpend hst (fun d _ => decide (d = w.c.config.lstDenom))
  have hD := refund_amounts hr hi hpm hpend hst (fun d _ => decide (d = w.c.config.proto.ibcDenom))
  have hS := refund_amounts hr hi hpm hpend hst
    (fun d r => d == w.c.config.proto.ibcDenom && r == w.c.config.native.staker)
  rw [← refundedAmt_eq_refW] at hL hD
  have hW := locW_setState w.c.config.native.staker w.c.config.proto.ibcDenom .refunded hi.pkt.nodup hpm
  unfold refundWorld
  refine ⟨⟨?_, ?_, ?_, ?_, ?_⟩, hi.l1, ?_, ?_, ?_, hi.n1⟩
  · intro q hq
    obtain ⟨q0, hq0, rfl⟩ := mem_setPktState hq
    have := hi.pkt.sender q0 hq0
    split <;> exact this
  · intro q hq
    obtain ⟨q0, hq0, rfl⟩ := mem_setPktState hq
    have := hi.pkt.seqLt q0 hq0
    split <;> exact this
  · show ((setPktState w.pkts p.seq .refunded).map (·.seq)).Nodup
    rw [setPktState_map_seq]; exact hi.pkt.nodup
  · intro k e h
    simp only [AMap.find?_insert] at h
    split at h
    · rename_i hk; subst hk; exact hi.pkt.seqLt p hpm
    · exact hi.pkt.keyLt k e h
  · intro q hq hqp
    obtain ⟨q0, hq0, rfl⟩ := mem_setPktState hq
    split at hqp
    · cases hqp
    · rename_i hne
      simp only [hne, ↓reduceIte]
      obtain ⟨h1, h2⟩ := hi.pkt.p2 q0 hq0 hqp
      refine ⟨h1, ?_⟩
      simp only [AMap.find?_insert, hne, ↓reduceIte]
      exact h2
  · have h2 := hi.l2
    simp only [refundableSum, pendTotal] at h2 hL ⊢
    simp only [Bal.add_apply, hself, true_and, decide_eq_true_eq] at hL ⊢
    split
    · rename_i hd
      have hd' : p.coin.denom = w.c.config.lstDenom := hd.symm
      simp only [hd', ↓reduceIte] at hL
      omega
    · rename_i hd
      have hd' : ¬ p.coin.denom = w.c.config.lstDenom := fun e => hd e.symm
      simp only [hd', ↓reduceIte] at hL
      omega
  · have h3 := hi.n2
    simp only [owedD, recvSum, refundableSum] at h3 hD ⊢
    simp only [Bal.add_apply, hself, true_and, decide_eq_true_eq] at hD ⊢
    split
    · rename_i hd
      have hd' : p.coin.denom = w.c.config.proto.ibcDenom := hd.symm
      simp only [hd', ↓reduceIte] at hD
      omega
    · rename_i hd
      have hd' : ¬ p.coin.denom = w.c.config.proto.ibcDenom := fun e => hd e.symm
      simp only [hd', ↓reduceIte] at hD
      omega
  · have h4 := hi.f1
    simp only [locC] at h4 hS ⊢
    simp only [locPkt, hpend, true_or, and_true, reduceCtorEq, or_self, and_false, ↓reduceIte] at hW
    simp only [Bool.and_eq_true, beq_iff_eq] at hS
    split at hS
    · rename_i hc
      simp only [hc, and_self, ↓reduceIte] at hW
      omega
    · rename_i hc
      have : ¬ (p.coin.denom = w.c.config.proto.ibcDenom ∧ p.receiver = w.c.config.native.staker) := hc
      simp only [this, ↓reduceIte] at hW
      omega

/-- a pending packet is delivered: its entry is dropped, nothing comes back -/
theorem deliver_winv {w : World} {g : WGhost} {p : ChainPkt} {rem : Bal} (hr : CReach w.c) (hi : WInv w g)
    (hpm : p ∈ w.pkts) (hpend : p.state = .pending) :
    WInv (deliverWorld w p rem) g := by
  have hci := cinv_reach hr
  obtain ⟨_, hentry⟩ := hi.pkt.p2 p hpm hpend
  have hsumP : ∀ P, AMap.sumBy (refW P) (w.c.inflight.erase p.seq) = AMap.sumBy (refW P) w.c.inflight := by
    intro P
    have := AMap.sumBy_erase_old (refW P) hci.sortedI _ hentry
    have hold : refW P (⟨p.seq, p.coin, p.receiver, .sent⟩ : Packet) = 0 := by simp [refW]
    rw [hold] at this
    omega
  have hL := hsumP (fun d _ => decide (d = w.c.config.lstDenom))
  have hD := hsumP (fun d _ => decide (d = w.c.config.proto.ibcDenom))
  rw [← refundedAmt_eq_refW] at hL hD
  have hW := locW_setState w.c.config.native.staker w.c.config.proto.ibcDenom .delivered hi.pkt.nodup hpm
  unfold deliverWorld
  refine ⟨⟨?_, ?_, ?_, ?_, ?_⟩, hi.l1, ?_, ?_, ?_, hi.n1⟩
  · intro q hq
    obtain ⟨q0, hq0, rfl⟩ := mem_setPktState hq
    have := hi.pkt.sender q0 hq0
    split <;> exact this
  · intro q hq
    obtain ⟨q0, hq0, rfl⟩ := mem_setPktState hq
    have := hi.pkt.seqLt q0 hq0
    split <;> exact this
  · show ((setPktState w.pkts p.seq .delivered).map (·.seq)).Nodup
    rw [setPktState_map_seq]; exact hi.pkt.nodup
  · intro k e h
    simp only [AMap.find?_erase] at h
    split at h
    · cases h
    · exact hi.pkt.keyLt k e h
  · intro q hq hqp
    obtain ⟨q0, hq0, rfl⟩ := mem_setPktState hq
    split at hqp
    · cases hqp
    · rename_i hne
      simp only [hne, ↓reduceIte]
      obtain ⟨h1, h2⟩ := hi.pkt.p2 q0 hq0 hqp
      refine ⟨h1, ?_⟩
      simp only [AMap.find?_erase, hne, ↓reduceIte]
      exact h2
  · have h2 := hi.l2
    simp only [refundableSum, pendTotal] at h2 hL ⊢
    omega
  · have h3 := hi.n2
    simp only [owedD, recvSum, refundableSum] at h3 hD ⊢
    omega
  · have h4 := hi.f1
    simp only [locC] at h4 ⊢
    rw [hsumP]
    simp only [locPkt, hpend, true_or, or_true, and_true] at hW
    omega

/-! ## every event -/

/-- honest-environment conditions on an event: transactions are not signed by the contract's own
address, the message conditions `MsgOKc`, and the chain delivers acknowledgement / timeout
callbacks only for packets it actually has in flight (a stray callback names another channel or a
sequence the contract does not track) -/
def EvOK (w : World) : Event → Prop
  | .exec sender _ msg _ _ => sender ≠ w.self ∧ MsgOKc w.c w.self sender msg
  | .hook channel ns _ msg _ =>
    ∀ acct, deriveIntermediateSender channel ns w.chainPrefix = some acct → acct ≠ w.self ∧ MsgOKc w.c w.self acct msg
  | .strayAck channel seq _ => channel ≠ w.c.config.proto.channel ∨ w.c.inflight.find? seq = none
  | .strayTimeout channel seq => channel ≠ w.c.config.proto.channel ∨ w.c.inflight.find? seq = none
  | .donate sender _ => sender ≠ w.self
  | .reseq _ => False
  | _ => True

/-- the history counters after an event -/
def wgstep (w : World) (g : WGhost) (e : Event) : WGhost :=
  if (step w e).committed then
    match e with
    | .exec sender funds msg _ txi => ghostExec w g funds msg (execRes w sender funds msg txi)
    | .hook channel ns coin msg _ =>
      match deriveIntermediateSender channel ns w.chainPrefix with
      | some acct => ghostExec w g [coin] msg (execRes w acct [coin] msg (some 0))
      | none => g
    | .donate _ coin =>
      { g with donL := g.donL + coinSum w.c.config.lstDenom [coin],
               donD := g.donD + coinSum w.c.config.proto.ibcDenom [coin] }
    | .faucet to coin =>
      if to = w.self then
        { g with donL := g.donL + coinSum w.c.config.lstDenom [coin],
                 donD := g.donD + coinSum w.c.config.proto.ibcDenom [coin] }
      else g
    | _ => g
  else g

theorem winv_frame {w w' : World} {g : WGhost} (hi : WInv w g) (hc : w'.c = w.c) (hs : w'.self = w.self)
    (hp : w'.pkts = w.pkts) (hn : w'.nextSeq = w.nextSeq) (hsup : w'.supply = w.supply)
    (hb : ∀ X, w'.bal w.self X = w.bal w.self X) : WInv w' g := by
  refine ⟨⟨?_, ?_, ?_, ?_, ?_⟩, ?_, ?_, ?_, ?_, by rw [hc]; exact hi.n1⟩
  · rw [hp, hs]; exact hi.pkt.sender
  · rw [hp, hn]; exact hi.pkt.seqLt
  · rw [hp]; exact hi.pkt.nodup
  · rw [hc, hn]; exact hi.pkt.keyLt
  · rw [hp, hc]; exact hi.pkt.p2
  · rw [hc, hsup]; exact hi.l1
  · rw [hc, hs, hb]; exact hi.l2
  · rw [hc, hs, hb]; exact hi.n2
  · rw [hc, hp]; exact hi.f1

theorem runExec_winv {w : World} {g : WGhost} {sender : String} {funds : List Coin} {msg : ExecMsg} {f : Faults}
    {txi : Option Nat} (hr : CReach w.c) (hi : WInv w g) (hs : sender ≠ w.self) (hok : MsgOKc w.c w.self sender msg) :
    WInv (runExec w sender funds msg f txi).w
      (if (runExec w sender funds msg f txi).committed then ghostExec w g funds msg (execRes w sender funds msg txi) else g) := by
  unfold runExec
  cases hcore : runExecCore w sender funds msg f txi with
  | mk o calls =>
    cases o with
    | none => simpa using hi
    | some w' => simpa using exec_winv hr hi hs hok hcore

theorem sudo_noop {c : CState} {channel : String} {seq : Nat}
    (h : channel ≠ c.config.proto.channel ∨ c.inflight.find? seq = none) (m : SudoMsg)
    (hm : m = .timeout channel seq ∨ ∃ b, m = .ack channel seq b) : ∀ r, sudo c m = .ok r → r.1 = c := by
  intro r hr
  rcases hm with rfl | ⟨b, rfl⟩
  · unfold sudo at hr
    simp only at hr
    rcases h with h | h
    · simp only [h, ne_eq, not_false_eq_true, ↓reduceIte] at hr; cases hr; rfl
    · split at hr
      · cases hr; rfl
      · simp only [h] at hr; cases hr; rfl
  · unfold sudo at hr
    simp only at hr
    rcases h with h | h
    · simp only [h, ne_eq, not_false_eq_true, ↓reduceIte] at hr; cases hr; rfl
    · split at hr
      · cases hr; rfl
      · simp only [h] at hr; cases hr; rfl

theorem sudoCall_noop {w : World} {channel : String} {seq : Nat}
    (h : channel ≠ w.c.config.proto.channel ∨ w.c.inflight.find? seq = none) (m : SudoMsg)
    (hm : m = .timeout channel seq ∨ ∃ b, m = .ack channel seq b) : (sudoCall w m).1 = w := by
  unfold sudoCall
  simp only
  split
  · rename_i c' o hs
    have := sudo_noop h m hm _ hs
    simp only at this
    subst this
    rfl
  · rfl

/-- every event of the world preserves the ledger invariants -/
theorem step_winv {w : World} {g : WGhost} (e : Event) (hr : CReach w.c) (hi : WInv w g) (hok : EvOK w e) :
    WInv (step w e).w (wgstep w g e) := by
  have hci := cinv_reach hr
  cases e with
  | advance dt dh =>
    simp only [step, wgstep, ↓reduceIte]
    exact winv_frame hi rfl rfl rfl rfl rfl (fun _ => rfl)
  | exec sender funds msg f txi =>
    obtain ⟨hs, hm⟩ := hok
    simp only [step, wgstep]
    exact runExec_winv hr hi hs hm
  | hook channel ns coin msg f =>
    simp only [step, wgstep]
    cases hd : deriveIntermediateSender channel ns w.chainPrefix with
    | none => simpa using hi
    | some acct =>
      obtain ⟨hs, hm⟩ := hok acct hd
      simp only
      by_cases h0 : coin.amount = 0
      · simpa [h0] using hi
      · simp only [h0, ↓reduceIte]
        have hi1 : WInv { w with bal := w.bal.add acct coin.denom coin.amount } g := by
          refine winv_frame hi rfl rfl rfl rfl rfl ?_
          intro X
          simp only [Bal.add_apply]
          have : ¬ w.self = acct := fun e => hs e.symm
          simp [this]
        have := runExec_winv (w := { w with bal := w.bal.add acct coin.denom coin.amount }) (g := g)
          (funds := [coin]) (f := f) (txi := some 0) hr hi1 hs hm
        split
        · rename_i hcm
          simp only [hcm, ↓reduceIte] at this ⊢
          exact this
        · simpa using hi
  | ack seq success =>
    unfold wgstep
    generalize hstep : step w (.ack seq success) = r
    simp only [step] at hstep
    split at hstep
    · subst hstep; simpa using hi
    · rename_i p hf
      obtain ⟨hpm, hseq, hpend⟩ := find_pending hf
      obtain ⟨hch, hentry⟩ := hi.pkt.p2 p hpm hpend
      subst hseq hstep
      simp only [↓reduceIte]
      cases success with
      | true =>
        have : (sudoCall { w with pkts := setPktState w.pkts p.seq .delivered,
                                  remote := w.remote.add p.receiver p.coin.denom p.coin.amount } (.ack p.channel p.seq true)).1
            = deliverWorld w p (w.remote.add p.receiver p.coin.denom p.coin.amount) := by
          simp [sudoCall, sudo, hch, hentry, deliverWorld]
        simp only [↓reduceIte]
        rw [this]
        exact deliver_winv hr hi hpm hpend
      | false =>
        have : (sudoCall { w with pkts := setPktState w.pkts p.seq .refunded,
                                  bal := w.bal.add p.sender p.coin.denom p.coin.amount } (.ack p.channel p.seq false)).1
            = refundWorld w p .ackFailure := by
          simp [sudoCall, sudo, hch, hentry, refundWorld, entryOf]
        simp only [Bool.false_eq_true, ↓reduceIte]
        rw [this]
        exact refund_winv hr hi hpm hpend (.inl rfl)
  | timeout seq =>
    unfold wgstep
    generalize hstep : step w (.timeout seq) = r
    simp only [step] at hstep
    split at hstep
    · subst hstep; simpa using hi
    · rename_i p hf
      obtain ⟨hpm, hseq, hpend⟩ := find_pending hf
      obtain ⟨hch, hentry⟩ := hi.pkt.p2 p hpm hpend
      subst hseq hstep
      have : (sudoCall { w with pkts := setPktState w.pkts p.seq .refunded,
                                bal := w.bal.add p.sender p.coin.denom p.coin.amount } (.timeout p.channel p.seq)).1
          = refundWorld w p .timedOut := by
        simp [sudoCall, sudo, hch, hentry, refundWorld, entryOf]
      simp only [↓reduceIte]
      rw [this]
      exact refund_winv hr hi hpm hpend (.inr rfl)
  | strayAck channel seq success =>
    simp only [step, wgstep, ↓reduceIte]
    rw [sudoCall_noop hok _ (.inr ⟨success, rfl⟩)]
    exact hi
  | strayTimeout channel seq =>
    simp only [step, wgstep, ↓reduceIte]
    rw [sudoCall_noop hok _ (.inl rfl)]
    exact hi
  | donate sender coin =>
    unfold wgstep
    generalize hstep : step w (.donate sender coin) = r
    simp only [step] at hstep
    split at hstep
    · subst hstep; simpa using hi
    · rename_i b hb
      subst hstep
      simp only [↓reduceIte]
      have h1 := (bankMove_ok (show sender ≠ w.self from hok) hb w.c.config.lstDenom).1
      have h1D := (bankMove_ok (show sender ≠ w.self from hok) hb w.c.config.proto.ibcDenom).1
      refine ⟨⟨hi.pkt.sender, hi.pkt.seqLt, hi.pkt.nodup, hi.pkt.keyLt, hi.pkt.p2⟩, hi.l1, ?_, ?_, hi.f1, hi.n1⟩
      · have h2 := hi.l2
        simp only at h2 ⊢
        omega
      · have h3 := hi.n2
        simp only at h3 ⊢
        omega
  | faucet to coin =>
    simp only [step, wgstep, ↓reduceIte]
    by_cases ht : to = w.self
    · subst ht
      simp only [↓reduceIte]
      have hbX : ∀ X, (w.bal.add w.self coin.denom coin.amount) w.self X = w.bal w.self X + coinSum X [coin] := by
        intro X
        simp only [Bal.add_apply, coinSum, true_and]
        by_cases hd : coin.denom = X
        · subst hd; simp
        · have : ¬ X = coin.denom := fun e => hd e.symm
          simp [hd, this]
      refine ⟨⟨hi.pkt.sender, hi.pkt.seqLt, hi.pkt.nodup, hi.pkt.keyLt, hi.pkt.p2⟩, hi.l1, ?_, ?_, hi.f1, hi.n1⟩
      · have h2 := hi.l2
        have := hbX w.c.config.lstDenom
        simp only at h2 this ⊢
        omega
      · have h3 := hi.n2
        have := hbX w.c.config.proto.ibcDenom
        simp only at h3 this ⊢
        omega
    · simp only [ht, ↓reduceIte]
      refine winv_frame hi rfl rfl rfl rfl rfl ?_
      intro X
      have : ¬ w.self = to := fun e => ht e.symm
      simp [Bal.add_apply, this]
  | reseq n => exact absurd hok (by simp [EvOK])

/-! ## every history -/

/-- the honest-environment conditions hold at every point of the history -/
def AllOK : World → List Event → Prop
  | _, [] => True
  | w, e :: es => EvOK w e ∧ AllOK (step w e).w es

/-- world and counters after a history -/
def runW (w : World) (g : WGhost) : List Event → World × WGhost
  | [] => (w, g)
  | e :: es => runW (step w e).w (wgstep w g e) es

theorem runW_winv {w : World} {g : WGhost} (evs : List Event) (hr : CReach w.c) (hi : WInv w g) (hok : AllOK w evs) :
    WInv (runW w g evs).1 (runW w g evs).2 ∧ CReach (runW w g evs).1.c := by
  induction evs generalizing w g with
  | nil => exact ⟨hi, hr⟩
  | cons e es ih =>
    obtain ⟨h1, h2⟩ := hok
    exact ih (step_creach w e hr) (step_winv e hr hi h1) h2

theorem winv_boot {env : Env} {info : Info} {msg : InstantiateMsg} {c0 : CState} {out : List SubMsg}
    (hi : instantiate env info msg = .ok (c0, out)) (self pfx : String) (t hgt : Nat) :
    WInv (bootWorld c0 self pfx t hgt) {} := by
  unfold instantiate at hi
  simp only [bind_ok, pure_ok, add64_ok] at hi
  obtain ⟨_, _, _, _, _, _, _, _, _, _, _, _, _, _, hi⟩ := hi
  cases hi
  refine ⟨⟨?_, ?_, ?_, ?_, ?_⟩, ?_, ?_, ?_, ?_, by simp [bootWorld]⟩
  · intro p hp; simp [bootWorld] at hp
  · intro p hp; simp [bootWorld] at hp
  · simp [bootWorld]
  · intro k e h; simp [bootWorld, AMap.find?] at h
  · intro p hp; simp [bootWorld] at hp
  · simp [bootWorld]
  · simp [bootWorld, pendTotal, refundableSum, AMap.find?, Batch.new]
  · simp [bootWorld, owedD, recvSum, refundableSum, AMap.sumBy, recvAmt, Batch.new]
  · simp [bootWorld, locW, locC]

/-- **Ledger invariants along every history of the chain model** (unbounded length; any interleaving of
transactions with sub-message replies and rollbacks, ibc-hooks deliveries, acknowledgements,
timeouts, stray callbacks, donations, faucets, clock advances) that satisfies the
honest-environment conditions `AllOK`:
* P2 — every pending packet the contract sent is tracked as `sent` with the same coin and receiver;
* L1 — token-factory supply of the LST + what ResumeContract declared on top = the LST total;
* L2 — the contract's own LST balance = pending batch total + refundable LST packets + donations. -/
theorem world_history_winv {env : Env} {info : Info} {msg : InstantiateMsg} {c0 : CState} {out : List SubMsg}
    (hi : instantiate env info msg = .ok (c0, out)) (self pfx : String) (t hgt : Nat) (evs : List Event)
    (hok : AllOK (bootWorld c0 self pfx t hgt) evs) :
    WInv (runW (bootWorld c0 self pfx t hgt) {} evs).1 (runW (bootWorld c0 self pfx t hgt) {} evs).2 :=
  (runW_winv evs ⟨env, info, msg, c0, out, [], hi, rfl⟩ (winv_boot hi self pfx t hgt) hok).1

/-! ## executable forms of the conditions (used to exhibit concrete histories that satisfy them) -/

def msgOKb (s : CState) (self sender : String) : ExecMsg → Bool
  | .liquidStake mt _ _ => mt.getD sender != self
  | .updateConfig n p _ _ _ =>
    (match p with
     | some pr => pr.channel == s.config.proto.channel && pr.ibcDenom == s.config.proto.ibcDenom
     | none => true)
    && (match n with
     | some nr => nr.staker == s.config.native.staker
     | none => true)
  | .recover _ sel _ => sel.isNone
  | .receiveRewards => s.config.feeCfg.treasury != some self
  | .feeWithdraw _ => s.config.feeCfg.treasury != some self
  | _ => true

theorem msgOKb_sound {s : CState} {self sender : String} {m : ExecMsg} (h : msgOKb s self sender m = true) :
    MsgOKc s self sender m := by
  cases m <;> simp only [msgOKb, MsgOKc] at h ⊢
  case liquidStake mt tn ex => simpa using h
  case updateConfig n p f mo bp =>
    simp only [Bool.and_eq_true] at h
    refine ⟨?_, ?_⟩
    · intro pr hp; subst hp; simpa using h.1
    · intro nr hn; subst hn; simpa using h.2
  case recover pg sel rc => cases sel <;> simp_all
  case receiveRewards => simpa using h
  case feeWithdraw a => simpa using h

def evOKb (w : World) : Event → Bool
  | .exec sender _ msg _ _ => sender != w.self && msgOKb w.c w.self sender msg
  | .hook channel ns _ msg _ =>
    match deriveIntermediateSender channel ns w.chainPrefix with
    | some acct => acct != w.self && msgOKb w.c w.self acct msg
    | none => true
  | .strayAck channel seq _ => channel != w.c.config.proto.channel || (w.c.inflight.find? seq).isNone
  | .strayTimeout channel seq => channel != w.c.config.proto.channel || (w.c.inflight.find? seq).isNone
  | .donate sender _ => sender != w.self
  | .reseq _ => false
  | _ => true

theorem evOKb_sound {w : World} {e : Event} (h : evOKb w e = true) : EvOK w e := by
  cases e <;> simp only [evOKb, EvOK] at h ⊢
  case exec sender funds msg f txi =>
    simp only [Bool.and_eq_true, bne_iff_ne, ne_eq] at h
    exact ⟨h.1, msgOKb_sound h.2⟩
  case hook channel ns coin msg f =>
    intro acct ha
    simp only [ha, Bool.and_eq_true, bne_iff_ne, ne_eq] at h
    exact ⟨h.1, msgOKb_sound h.2⟩
  case strayAck channel seq b =>
    simp only [Bool.or_eq_true, bne_iff_ne, ne_eq, Option.isNone_iff_eq_none] at h
    exact h
  case strayTimeout channel seq =>
    simp only [Bool.or_eq_true, bne_iff_ne, ne_eq, Option.isNone_iff_eq_none] at h
    exact h
  case donate sender coin => simpa using h
  case reseq n => cases h

def allOKb : World → List Event → Bool
  | _, [] => true
  | w, e :: es => evOKb w e && allOKb (step w e).w es

theorem allOKb_sound {w : World} {evs : List Event} (h : allOKb w evs = true) : AllOK w evs := by
  induction evs generalizing w with
  | nil => trivial
  | cons e es ih =>
    simp only [allOKb, Bool.and_eq_true] at h
    exact ⟨evOKb_sound h.1, ih h.2⟩

/-- the equations of `WInv` as executable checks (evaluated by the driver on the co-simulated
histories: L1, L2, N2, F1, N1, P2) -/
def winvChecks (w : World) (g : WGhost) : List Bool :=
  let X := w.c.config.lstDenom
  let D := w.c.config.proto.ibcDenom
  let S := w.c.config.native.staker
  [ (w.supply X : Int) + g.rebaseL == w.c.st.totalLst,
    w.bal w.self X == pendTotal w.c + refundableSum w.c X + g.donL,
    (w.bal w.self D : Int) + g.swept + g.paid == owedD w.c + g.donD,
    locW S D w.pkts + locC S D w.c == g.fwd,
    (w.c.st.totalNative : Int) + g.setAside + g.swept == g.fwd + g.rebaseN,
    w.pkts.all (fun p => p.state != .pending ||
      (p.channel == w.c.config.proto.channel &&
       w.c.inflight.find? p.seq == some { seq := p.seq, coin := p.coin, receiver := p.receiver, status := .sent })) ]

end MW.Chain
