import MW.Staking.Effects
/-!
# Lemmas about the request list (model of the `unstake_requests` IndexedMap)
-/
namespace MW.Staking
open MW

def reqKey (r : Req) : Nat × String := (r.batch, r.user)

/-- sum of the open requests of batch `k` -/
def sumReqs (reqs : List Req) (k : Nat) : Nat :=
  ((reqs.filter (fun r => r.batch = k)).map (·.amount)).sum

def KeysNodup (reqs : List Req) : Prop := (reqs.map reqKey).Nodup

theorem sumReqs_nil (k : Nat) : sumReqs [] k = 0 := rfl

theorem sumReqs_cons (r : Req) (rest : List Req) (k : Nat) :
    sumReqs (r :: rest) k = (if r.batch = k then r.amount else 0) + sumReqs rest k := by
  unfold sumReqs
  by_cases h : r.batch = k <;> simp [h]

theorem sumReqs_append (a b : List Req) (k : Nat) : sumReqs (a ++ b) k = sumReqs a k + sumReqs b k := by
  unfold sumReqs; simp [List.filter_append]

theorem findReq_none_iff (reqs : List Req) (p : Nat) (u : String) :
    findReq reqs p u = none ↔ (p, u) ∉ reqs.map reqKey := by
  unfold findReq
  rw [List.find?_eq_none]
  simp only [List.mem_map, reqKey, Prod.mk.injEq, not_exists, not_and]
  constructor
  · intro h r hr h1 h2; exact h r hr (by simp [h1, h2])
  · intro h r hr; have := h r hr; simp only [Bool.and_eq_true, decide_eq_true_eq, not_and]; exact this

theorem findReq_some_mem {reqs : List Req} {p : Nat} {u : String} {r : Req} (h : findReq reqs p u = some r) :
    r ∈ reqs ∧ r.batch = p ∧ r.user = u := by
  unfold findReq at h
  have h1 := List.mem_of_find?_eq_some h
  have h2 := List.find?_some h
  simp only [Bool.and_eq_true, decide_eq_true_eq] at h2
  exact ⟨h1, h2.1, h2.2⟩

theorem keys_setReqAmount (reqs : List Req) (p : Nat) (u : String) (a : Nat) :
    (setReqAmount reqs p u a).map reqKey = reqs.map reqKey := by
  unfold setReqAmount
  induction reqs with
  | nil => rfl
  | cons r rest ih =>
    simp only [List.map_cons, ih]
    congr 1
    split <;> rfl

theorem keysNodup_append_new {reqs : List Req} (h : KeysNodup reqs) (p : Nat) (u : String) (a : Nat)
    (hn : findReq reqs p u = none) : KeysNodup (reqs ++ [{ batch := p, user := u, amount := a }]) := by
  unfold KeysNodup at *
  rw [List.map_append, List.nodup_append]
  refine ⟨h, by simp, ?_⟩
  intro x hx y hy
  simp only [List.map_cons, List.map_nil, List.mem_singleton, reqKey] at hy
  subst hy
  intro heq; subst heq
  exact (findReq_none_iff reqs p u).mp hn hx

theorem keysNodup_removeReq {reqs : List Req} (h : KeysNodup reqs) (p : Nat) (u : String) :
    KeysNodup (removeReq reqs p u) := by
  unfold KeysNodup removeReq at *
  exact List.Nodup.sublist (List.Sublist.map _ (List.filter_sublist)) h

theorem sumReqs_setReqAmount {reqs : List Req} (hk : KeysNodup reqs) {p : Nat} {u : String} {r : Req}
    (hf : findReq reqs p u = some r) (a : Nat) (k : Nat) :
    sumReqs (setReqAmount reqs p u a) k + (if p = k then r.amount else 0)
      = sumReqs reqs k + (if p = k then a else 0) := by
  induction reqs with
  | nil => simp [findReq] at hf
  | cons x rest ih =>
    unfold KeysNodup at hk
    simp only [List.map_cons, List.nodup_cons] at hk
    obtain ⟨hx, hrest⟩ := hk
    simp only [setReqAmount, List.map_cons]
    unfold findReq at hf
    simp only [List.find?_cons] at hf
    by_cases hm : (decide (x.batch = p) && decide (x.user = u)) = true
    · simp only [hm, ↓reduceIte] at hf ⊢
      cases hf
      simp only [Bool.and_eq_true, decide_eq_true_eq] at hm
      -- no other element has this key, so the tail is unchanged
      have htail : List.map (fun r => if (decide (r.batch = p) && decide (r.user = u)) = true then { r with amount := a } else r) rest = rest := by
        rw [show rest = List.map id rest from (List.map_id rest).symm, List.map_map]
        apply List.map_congr_left
        intro y hy
        simp only [Function.comp, id]
        split
        · rename_i hy'
          simp only [Bool.and_eq_true, decide_eq_true_eq] at hy'
          exfalso; apply hx
          simp only [List.mem_map]
          exact ⟨y, hy, by simp [reqKey, hy'.1, hy'.2, hm.1, hm.2]⟩
        · rfl
      rw [htail, sumReqs_cons, sumReqs_cons]
      simp only [hm.1]
      split <;> omega
    · have hm' : (decide (x.batch = p) && decide (x.user = u)) = false := by simpa using hm
      simp only [hm', Bool.false_eq_true, ↓reduceIte] at hf ⊢
      have := ih hrest (by unfold findReq; exact hf)
      unfold setReqAmount at this
      rw [sumReqs_cons, sumReqs_cons]
      omega

theorem sumReqs_removeReq {reqs : List Req} (hk : KeysNodup reqs) {p : Nat} {u : String} {r : Req}
    (hf : findReq reqs p u = some r) (k : Nat) :
    sumReqs (removeReq reqs p u) k + (if p = k then r.amount else 0) = sumReqs reqs k := by
  induction reqs with
  | nil => simp [findReq] at hf
  | cons x rest ih =>
    unfold KeysNodup at hk
    simp only [List.map_cons, List.nodup_cons] at hk
    obtain ⟨hx, hrest⟩ := hk
    unfold findReq at hf
    simp only [List.find?_cons] at hf
    simp only [removeReq, List.filter_cons]
    by_cases hm : (decide (x.batch = p) && decide (x.user = u)) = true
    · simp only [hm, ↓reduceIte, Bool.not_true, Bool.false_eq_true] at hf ⊢
      cases hf
      simp only [Bool.and_eq_true, decide_eq_true_eq] at hm
      have htail : List.filter (fun r => !(decide (r.batch = p) && decide (r.user = u))) rest = rest := by
        rw [List.filter_eq_self]
        intro y hy
        simp only [Bool.not_eq_true', Bool.and_eq_false_iff, decide_eq_false_iff_not]
        by_cases h1 : y.batch = p
        · right; intro h2; apply hx
          simp only [List.mem_map]
          exact ⟨y, hy, by simp [reqKey, h1, h2, hm.1, hm.2]⟩
        · left; exact h1
      rw [htail, sumReqs_cons]
      simp only [hm.1]
      split <;> omega
    · have hm' : (decide (x.batch = p) && decide (x.user = u)) = false := by simpa using hm
      simp only [hm', Bool.false_eq_true, ↓reduceIte, Bool.not_false] at hf ⊢
      have := ih hrest (by unfold findReq; exact hf)
      unfold removeReq at this
      rw [sumReqs_cons, sumReqs_cons]
      omega

theorem mem_removeReq {reqs : List Req} {p : Nat} {u : String} {r : Req} (h : r ∈ removeReq reqs p u) : r ∈ reqs := by
  unfold removeReq at h; exact (List.mem_filter.mp h).1

theorem mem_setReqAmount {reqs : List Req} {p : Nat} {u : String} {a : Nat} {r : Req}
    (h : r ∈ setReqAmount reqs p u a) : ∃ r0 ∈ reqs, r.batch = r0.batch ∧ r.user = r0.user ∧ (r = r0 ∨ r.amount = a) := by
  unfold setReqAmount at h
  simp only [List.mem_map] at h
  obtain ⟨r0, hr0, h⟩ := h
  refine ⟨r0, hr0, ?_⟩
  split at h
  · subst h; exact ⟨rfl, rfl, .inr rfl⟩
  · subst h; exact ⟨rfl, rfl, .inl rfl⟩

theorem any_batch_of_sum_pos {reqs : List Req} {k : Nat} (h : reqs.any (fun r => r.batch = k) = true)
    (hpos : ∀ r ∈ reqs, r.amount > 0) : sumReqs reqs k > 0 := by
  induction reqs with
  | nil => simp at h
  | cons x rest ih =>
    rw [sumReqs_cons]
    simp only [List.any_cons, Bool.or_eq_true, decide_eq_true_eq] at h
    by_cases hx : x.batch = k
    · have := hpos x (by simp)
      simp [hx]; omega
    · rcases h with h | h
      · exact absurd h hx
      · have := ih h (fun r hr => hpos r (List.mem_cons_of_mem _ hr))
        omega

end MW.Staking
