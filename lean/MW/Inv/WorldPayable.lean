import MW.Inv.WorldInv
import MW.Inv.ReqHistory
/-!
# What the open requests are owed is covered (helper lemmas for C02)

`owedOpenAll c` is the staked asset all open requests of all Received batches are entitled to
(`floor(received × own / total)` each).  `JInv`: that amount plus everything paid out so far never
exceeds what the Received batches received — along every history of the chain model.  Together with
the ledger equation N2 this gives `covers`: the contract's bank balance (plus the swept term)
covers, at the same time, every open claim, the retained fees and the refundable transfers.
-/
namespace MW.Chain
open MW MW.Staking

/-- what request `r` is entitled to in store `c`: nothing until its batch is Received -/
def owedReq (c : CState) (r : Req) : Nat :=
  match c.batches.find? r.batch with
  | some b => if b.status = .received then b.received.getD 0 * r.amount / b.total else 0
  | none => 0

def owedList (c : CState) (l : List Req) : Nat := (l.map (owedReq c)).sum

/-- the staked asset owed to all open requests -/
def owedOpenAll (c : CState) : Nat := owedList c c.reqs

theorem owedList_nil (c : CState) : owedList c [] = 0 := rfl
theorem owedList_cons (c : CState) (r : Req) (l : List Req) : owedList c (r :: l) = owedReq c r + owedList c l := by
  simp [owedList]
theorem owedList_append (c : CState) (a b : List Req) : owedList c (a ++ b) = owedList c a + owedList c b := by
  simp [owedList]

theorem owedReq_congr {c c' : CState} {r : Req} (h : c'.batches.find? r.batch = c.batches.find? r.batch) :
    owedReq c' r = owedReq c r := by
  unfold owedReq; rw [h]

theorem owedList_congr {c c' : CState} (l : List Req)
    (h : ∀ r ∈ l, c'.batches.find? r.batch = c.batches.find? r.batch) : owedList c' l = owedList c l := by
  induction l with
  | nil => rfl
  | cons r rest ih =>
    rw [owedList_cons, owedList_cons, owedReq_congr (h r (by simp)), ih (fun x hx => h x (List.mem_cons_of_mem _ hx))]

/-- requests of a batch that is not Received are owed nothing -/
theorem owedReq_zero_of_status {c : CState} {r : Req} {b : Batch} (hb : c.batches.find? r.batch = some b)
    (hst : b.status ≠ .received) : owedReq c r = 0 := by
  unfold owedReq; rw [hb]; simp [hst]

theorem owedReq_zero_of_none {c : CState} {r : Req} (hb : c.batches.find? r.batch = none) : owedReq c r = 0 := by
  unfold owedReq; rw [hb]

/-- removing the request `(k, u)` lowers the total by exactly what it was owed -/
theorem owedList_removeReq (c : CState) {l : List Req} (hk : KeysNodup l) {k : Nat} {u : String} {req : Req}
    (hf : findReq l k u = some req) : owedList c (removeReq l k u) + owedReq c req = owedList c l := by
  induction l with
  | nil => simp [findReq] at hf
  | cons x rest ih =>
    have hk' : KeysNodup rest := by
      unfold KeysNodup at hk ⊢; simp only [List.map_cons, List.nodup_cons] at hk; exact hk.2
    unfold findReq at hf
    simp only [List.find?_cons] at hf
    by_cases hx : (decide (x.batch = k) && decide (x.user = u)) = true
    · simp only [hx, Option.some.injEq] at hf
      subst hf
      simp only [Bool.and_eq_true, decide_eq_true_eq] at hx
      -- no other entry has this key
      have hno : removeReq rest k u = rest := by
        unfold removeReq
        rw [List.filter_eq_self]
        intro y hy
        simp only [Bool.not_eq_true', Bool.and_eq_false_iff, decide_eq_false_iff_not]
        by_cases h1 : y.batch = k
        · right; intro h2
          unfold KeysNodup at hk
          simp only [List.map_cons, List.nodup_cons] at hk
          apply hk.1
          rw [List.mem_map]
          exact ⟨y, hy, by simp [reqKey, h1, h2, hx.1, hx.2]⟩
        · left; exact h1
      have : removeReq (x :: rest) k u = rest := by
        unfold removeReq at hno ⊢
        simp only [List.filter_cons, hx.1, hx.2, decide_true, Bool.and_self, Bool.not_true, Bool.false_eq_true, ↓reduceIte]
        exact hno
      rw [this, owedList_cons]; omega
    · have hx' : (decide (x.batch = k) && decide (x.user = u)) = false := by simpa using hx
      simp only [hx', Bool.false_eq_true, ↓reduceIte] at hf
      have : removeReq (x :: rest) k u = x :: removeReq rest k u := by
        unfold removeReq
        simp only [List.filter_cons, hx', Bool.not_false, ↓reduceIte]
      rw [this, owedList_cons, owedList_cons]
      have := ih hk' (by unfold findReq; exact hf)
      omega

/-- entries of one batch `p` that is owed nothing can be rewritten freely -/
theorem owedList_setReqAmount (c : CState) (l : List Req) (p : Nat) (u : String) (a : Nat)
    (hz : ∀ r : Req, r.batch = p → owedReq c r = 0) : owedList c (setReqAmount l p u a) = owedList c l := by
  induction l with
  | nil => rfl
  | cons x rest ih =>
    unfold setReqAmount at ih ⊢
    simp only [List.map_cons, owedList_cons]
    rw [ih]
    split
    · rename_i hx
      simp only [Bool.and_eq_true, decide_eq_true_eq] at hx
      rw [hz _ (by simp [hx.1]), hz x hx.1]
    · rfl

theorem owedList_reqsAfterUnstake (c : CState) (l : List Req) (p : Nat) (u : String) (a : Nat)
    (hz : ∀ r : Req, r.batch = p → owedReq c r = 0) : owedList c (reqsAfterUnstake l p u a) = owedList c l := by
  unfold reqsAfterUnstake
  split
  · exact owedList_setReqAmount c l p u _ hz
  · rw [owedList_append, owedList_cons, owedList_nil, hz _ rfl]; omega

/-- when batch `k` becomes Received with `R` for total `T`, its open requests become owed their floors;
everything else is unchanged -/
theorem owedList_receive {c c' : CState} {k : Nat} {b : Batch} {R : Nat} (l : List Req)
    (hb : c.batches.find? k = some b) (hst : b.status ≠ .received)
    (hb' : c'.batches.find? k = some { b with received := some R, status := .received, nextAction := none })
    (ho : ∀ j, j ≠ k → c'.batches.find? j = c.batches.find? j) :
    owedList c' l = owedList c l + (((l.filter (fun r => r.batch = k)).map (·.amount)).map (fun a => R * a / b.total)).sum := by
  induction l with
  | nil => rfl
  | cons x rest ih =>
    rw [owedList_cons, owedList_cons, ih]
    by_cases hx : x.batch = k
    · have h0 : owedReq c x = 0 := owedReq_zero_of_status (by rw [hx]; exact hb) hst
      have h1 : owedReq c' x = R * x.amount / b.total := by
        unfold owedReq; rw [hx, hb']; simp
      simp only [List.filter_cons, hx, decide_true, ↓reduceIte, List.map_cons, List.sum_cons]
      omega
    · have : owedReq c' x = owedReq c x := owedReq_congr (ho _ hx)
      simp only [List.filter_cons, hx, decide_false, Bool.false_eq_true, ↓reduceIte]
      omega

theorem sum_floor_le' (R T : Nat) (rs : List Nat) :
    (rs.map (fun r => R * r / T)).sum ≤ R * rs.sum / T := by
  induction rs with
  | nil => simp
  | cons r rest ih =>
    simp only [List.map_cons, List.sum_cons]
    have h1 : R * r / T + R * rest.sum / T ≤ (R * r + R * rest.sum) / T := by
      by_cases hT : T = 0
      · subst hT; simp
      · rw [Nat.le_div_iff_mul_le (Nat.pos_of_ne_zero hT), Nat.add_mul]
        have a1 := Nat.div_mul_le_self (R * r) T
        have a2 := Nat.div_mul_le_self (R * rest.sum) T
        omega
    rw [Nat.mul_add]
    omega

/-- one successful call: what the open requests are owed, plus what the call pays out, grows by at
most what the call adds to the received amounts -/
theorem execute_owed {s s' : CState} {env : Env} {info : Info} {m : ExecMsg} {out : List SubMsg} (self : String)
    (hi : CInv s) (hx : execute s env info m = .ok (s', out)) :
    (owedOpenAll s' : Int) + paidDelta self s.config.proto.ibcDenom out m + recvSum s ≤ owedOpenAll s + recvSum s' := by
  have hbc := execute_batchChange hx
  rcases execute_reqs hx with hr | ⟨a, hm, hr⟩ | ⟨bb, batch, recv, req, hm, hfb, hstb, hrecv, hfr, hT, hr, orc, hout, horc⟩
  · -- request table unchanged
    cases hbc with
    | none m hb _ =>
      have e1 : owedOpenAll s' = owedOpenAll s := by
        unfold owedOpenAll; rw [hr]; exact owedList_congr _ (fun r _ => by rw [hb])
      have e2 : recvSum s' = recvSum s := by unfold recvSum; rw [hb]
      have e3 : paidDelta self s.config.proto.ibcDenom out m = 0 := by
        cases m <;> simp only [paidDelta]
        case withdraw bb =>
          exfalso
          obtain ⟨batch, _, req, _, _, _, _, _, hfr, _, _, hs2, _⟩ := withdraw_eff (by simpa [execute] using hx)
          rw [hs2] at hr; simp only at hr
          have := findReq_removeReq_self s.reqs batch.id info.sender
          rw [hr, hfr] at this; cases this
      rw [e1, e2, e3]; omega
    | unstake b0 a isNew hb0 _ hbb =>
      -- cannot happen together with an unchanged table, but the conclusion holds anyway
      have hst := (hi.pend b0 hb0).1
      have hz : ∀ r : Req, r.batch = s.pendingId → owedReq s' r = 0 := by
        intro r hrb
        apply owedReq_zero_of_status (b := grown b0 a isNew)
        · rw [hbb, hrb, AMap.find?_insert_self]
        · simp [grown, hst]
      have hz0 : ∀ r : Req, r.batch = s.pendingId → owedReq s r = 0 := by
        intro r hrb; exact owedReq_zero_of_status (by rw [hrb]; exact hb0) (by simp [hst])
      have e1 : owedOpenAll s' = owedOpenAll s := by
        unfold owedOpenAll; rw [hr]
        unfold owedList
        congr 1
        apply List.map_congr_left
        intro r _
        by_cases hrb : r.batch = s.pendingId
        · rw [hz r hrb, hz0 r hrb]
        · exact owedReq_congr (by rw [hbb, AMap.find?_insert_other _ _ _ _ hrb])
      have hsum := AMap.sumBy_insert_old recvAmt hi.sortedB (grown b0 a isNew) b0 hb0
      have h0 : recvAmt b0 = 0 := by simp [recvAmt, hst]
      have h1 : recvAmt (grown b0 a isNew) = 0 := by simp [recvAmt, grown, hst]
      have e2 : recvSum s' = recvSum s := by unfold recvSum; rw [hbb]; omega
      rw [e1, e2]; simp only [paidDelta]; omega
    | submit batch unbond _ hpb _ _ _ _ _ hbb =>
      have hid : batch.id = s.pendingId := hi.idKey _ _ hpb
      have hst := (hi.pend batch hpb).1
      have hnone : s.batches.find? (batch.id + 1) = none := by
        cases hf : s.batches.find? (batch.id + 1) with
        | none => rfl
        | some x => have := (hi.keys (batch.id + 1)).mp (by simp [hf]); omega
      have e1 : owedOpenAll s' = owedOpenAll s := by
        unfold owedOpenAll; rw [hr]
        unfold owedList
        congr 1
        apply List.map_congr_left
        intro r hrm
        by_cases h1 : r.batch = batch.id
        · rw [owedReq_zero_of_status (c := s') (b := ({ batch with expected := some unbond }).updateStatus .submitted
                (some (env.seconds + s.config.native.unbondingPeriod))) (by rw [hbb, h1, AMap.find?_insert_self])
                (by simp [Batch.updateStatus]),
              owedReq_zero_of_status (c := s) (b := batch) (by rw [h1, hid]; exact hpb) (by simp [hst])]
        · have h2 : r.batch ≠ batch.id + 1 := by
            have := (hi.rpos r hrm).2.2; omega
          exact owedReq_congr (by rw [hbb, AMap.find?_insert_other _ _ _ _ h1, AMap.find?_insert_other _ _ _ _ h2])
      have h1 := AMap.sumBy_insert_new recvAmt (Batch.new (batch.id + 1) 0 (env.seconds + s.config.batchPeriod)) hnone
      have hb' : (s.batches.insert (batch.id + 1) (Batch.new (batch.id + 1) 0 (env.seconds + s.config.batchPeriod))).find? batch.id
          = some batch := by
        have hne : batch.id ≠ batch.id + 1 := by omega
        rw [AMap.find?_insert_other _ _ _ _ hne, hid]; exact hpb
      have h2 := AMap.sumBy_insert_old recvAmt (AMap.sorted_insert hi.sortedB _ _)
        (({ batch with expected := some unbond }).updateStatus .submitted (some (env.seconds + s.config.native.unbondingPeriod)))
        batch hb'
      have e0 : recvAmt batch = 0 := by simp [recvAmt, hst]
      have e1' : recvAmt (Batch.new (batch.id + 1) 0 (env.seconds + s.config.batchPeriod)) = 0 := by simp [recvAmt, Batch.new]
      have e2' : recvAmt (({ batch with expected := some unbond }).updateStatus .submitted
          (some (env.seconds + s.config.native.unbondingPeriod))) = 0 := by simp [recvAmt, Batch.updateStatus]
      have e2 : recvSum s' = recvSum s := by unfold recvSum; rw [hbb]; omega
      rw [e1, e2]; simp only [paidDelta]; omega
    | receive bid coin batch t _ _ _ hfb hstb _ _ _ hbb =>
      have hid : batch.id = bid := hi.idKey _ _ hfb
      have hne : batch.status ≠ .received := by rw [hstb]; simp
      have hfb' : s.batches.find? batch.id = some batch := by rw [hid]; exact hfb
      have hol := owedList_receive (c := s) (c' := s') (k := batch.id) (b := batch) (R := coin.amount) s.reqs hfb' hne
        (by rw [hbb, AMap.find?_insert_self]) (fun j hj => by rw [hbb, AMap.find?_insert_other _ _ _ _ hj])
      have hsumreq := (hi.sums batch.id batch hfb').2 hne
      have hfl := sum_floor_le' coin.amount batch.total ((s.reqs.filter (fun r => r.batch = batch.id)).map (·.amount))
      have hs : ((s.reqs.filter (fun r => r.batch = batch.id)).map (·.amount)).sum = sumReqs s.reqs batch.id := rfl
      rw [hs, hsumreq] at hfl
      have hle : coin.amount * batch.total / batch.total ≤ coin.amount := by
        by_cases hT : batch.total = 0
        · rw [hT]; simp
        · rw [Nat.mul_div_cancel _ (Nat.pos_of_ne_zero hT)]; exact Nat.le_refl _
      have e1 : owedOpenAll s' ≤ owedOpenAll s + coin.amount := by
        unfold owedOpenAll; rw [hr, hol]; omega
      have hsum := AMap.sumBy_insert_old recvAmt hi.sortedB
        ({ batch with received := some coin.amount, status := .received, nextAction := none }) batch hfb'
      have e0 : recvAmt batch = 0 := by simp [recvAmt, hstb]
      have e1' : recvAmt ({ batch with received := some coin.amount, status := .received, nextAction := none }) = coin.amount := by
        simp [recvAmt]
      have e2 : recvSum s' = recvSum s + coin.amount := by unfold recvSum; rw [hbb]; omega
      rw [e2]; simp only [paidDelta]; omega
  · -- unstake
    subst hm
    cases hbc with
    | none m hb hp =>
      exfalso
      -- an unstake always rewrites the pending batch
      simp only [execute, bind_ok] at hx
      obtain ⟨a', _, hx⟩ := hx
      obtain ⟨_, _, b, hb0, hs'⟩ := liquidUnstake_eff hx
      subst hs'
      have h1 := congrArg (fun m => AMap.find? m s.pendingId) hb
      simp only [AMap.find?_insert_self, hb0] at h1
      have : (grown b a' (findReq s.reqs s.pendingId info.sender).isNone).total = b.total := by
        simp only [Option.some.injEq] at h1; rw [h1]
      have ha' : a' ≠ 0 := (mustPay_ok (by assumption)).2
      simp [grown] at this; omega
    | unstake b0 a' isNew hb0 _ hbb =>
      have hst := (hi.pend b0 hb0).1
      have hz : ∀ r : Req, r.batch = s.pendingId → owedReq s' r = 0 := by
        intro r hrb
        apply owedReq_zero_of_status (b := grown b0 a' isNew)
        · rw [hbb, hrb, AMap.find?_insert_self]
        · simp [grown, hst]
      have hz0 : ∀ r : Req, r.batch = s.pendingId → owedReq s r = 0 := by
        intro r hrb; exact owedReq_zero_of_status (by rw [hrb]; exact hb0) (by simp [hst])
      have e1 : owedOpenAll s' = owedOpenAll s := by
        unfold owedOpenAll; rw [hr, owedList_reqsAfterUnstake s' _ _ _ _ hz]
        unfold owedList
        congr 1
        apply List.map_congr_left
        intro r _
        by_cases hrb : r.batch = s.pendingId
        · rw [hz r hrb, hz0 r hrb]
        · exact owedReq_congr (by rw [hbb, AMap.find?_insert_other _ _ _ _ hrb])
      have hsum := AMap.sumBy_insert_old recvAmt hi.sortedB (grown b0 a' isNew) b0 hb0
      have h0 : recvAmt b0 = 0 := by simp [recvAmt, hst]
      have h1 : recvAmt (grown b0 a' isNew) = 0 := by simp [recvAmt, grown, hst]
      have e2 : recvSum s' = recvSum s := by unfold recvSum; rw [hbb]; omega
      rw [e1, e2]; simp only [paidDelta]; omega
  · -- withdraw
    subst hm
    have hbsame : s'.batches = s.batches := by
      obtain ⟨_, _, _, _, _, _, _, _, _, _, _, hs2, _⟩ := withdraw_eff (by simpa [execute] using hx)
      rw [hs2]
    have hid := hi.idKey _ _ hfb
    have hrem := owedList_removeReq s hi.rkeys hfr
    have howed : owedReq s req = recv * req.amount / batch.total := by
      have hmem := findReq_some_mem hfr
      have hkey : req.batch = batch.id := by
        unfold findReq at hfr
        have := List.find?_some hfr
        simp only [Bool.and_eq_true, decide_eq_true_eq] at this
        exact this.1
      unfold owedReq
      rw [hkey, hid, hfb]; simp [hstb, hrecv]
    have e1 : owedOpenAll s' + recv * req.amount / batch.total = owedOpenAll s := by
      have hc := owedList_congr (c := s) (c' := s') (removeReq s.reqs batch.id info.sender) (fun r _ => by rw [hbsame])
      unfold owedOpenAll; rw [hr, hc, ← howed]; exact hrem
    have e2 : recvSum s' = recvSum s := by unfold recvSum; rw [hbsame]
    have e3 : paidDelta self s.config.proto.ibcDenom out (.withdraw bb) ≤ (recv * req.amount / batch.total : Nat) := by
      simp only [paidDelta]
      obtain ⟨ho1, _⟩ := sums_oracle_w self s.config.proto.ibcDenom env.contract orc horc
      rw [hout, balSum_append, ho1]
      simp only [balSum, balEff, plain, coinSum, ↓reduceIte]
      split <;> omega
    rw [e2]; omega


/-! ## along every history of the chain model -/

/-- the invariant: what the open requests are owed plus what has been paid out never exceeds what the
Received batches received -/
def JInv (w : World) (g : WGhost) : Prop := (owedOpenAll w.c : Int) + g.paid ≤ recvSum w.c

theorem owed_recv_congr {c c' : CState} (hr : c'.reqs = c.reqs) (hb : c'.batches = c.batches) :
    owedOpenAll c' = owedOpenAll c ∧ recvSum c' = recvSum c := by
  constructor
  · unfold owedOpenAll; rw [hr]; exact owedList_congr _ (fun r _ => by rw [hb])
  · unfold recvSum; rw [hb]

/-- dispatching messages changes the contract store only through `reply`, which touches neither the
requests nor the batches -/
theorem dispatch_rb (f : Faults) (d : Disp) (m : SubMsg) :
    (dispatch f d m).1.w.c.reqs = d.w.c.reqs ∧ (dispatch f d m).1.w.c.batches = d.w.c.batches := by
  unfold dispatch
  cases hm : m.msg <;> simp only
  case createDenom => simp
  case mint => split <;> exact ⟨rfl, rfl⟩
  case burn => split <;> exact ⟨rfl, rfl⟩
  case bankSend => split; exact ⟨rfl, rfl⟩; split <;> exact ⟨rfl, rfl⟩
  case msgSend => split; exact ⟨rfl, rfl⟩; split <;> exact ⟨rfl, rfl⟩
  case wasmExec => simp
  case swapIn => simp
  case swapOut => simp
  case transfer ch port sender recv coin t memo =>
    split
    · split
      · split
        · rename_i c' o hr
          have := reply_batches hr
          exact ⟨this.2.2, this.1⟩
        · exact ⟨rfl, rfl⟩
      · exact ⟨rfl, rfl⟩
    · split
      · split
        · rename_i c' o hr
          have := reply_batches hr
          exact ⟨this.2.2, this.1⟩
        · exact ⟨rfl, rfl⟩
      · exact ⟨rfl, rfl⟩

theorem dispatchAll_rb (f : Faults) (d : Disp) (ms : List SubMsg) :
    (dispatchAll f d ms).1.w.c.reqs = d.w.c.reqs ∧ (dispatchAll f d ms).1.w.c.batches = d.w.c.batches := by
  induction ms generalizing d with
  | nil => exact ⟨rfl, rfl⟩
  | cons m rest ih =>
    simp only [dispatchAll]
    have hd := dispatch_rb f d m
    split
    · rename_i d' heq
      rw [heq] at hd
      have := ih d'
      exact ⟨this.1.trans hd.1, this.2.trans hd.2⟩
    · rename_i d' heq
      rw [heq] at hd
      exact hd

theorem sudoCall_rb (w : World) (m : SudoMsg) :
    (sudoCall w m).1.c.reqs = w.c.reqs ∧ (sudoCall w m).1.c.batches = w.c.batches := by
  simp only [sudoCall]
  split
  · rename_i c' o hs
    have := sudo_batches hs
    exact ⟨this.2.2, this.1⟩
  · exact ⟨rfl, rfl⟩

/-- one transaction -/
theorem runExec_jinv {w : World} {g : WGhost} (sender : String) (funds : List Coin) (msg : ExecMsg) (f : Faults)
    (txi : Option Nat) (hr : CReach w.c) (hj : JInv w g) :
    JInv (runExec w sender funds msg f txi).w
      (if (runExec w sender funds msg f txi).committed then ghostExec w g funds msg (execRes w sender funds msg txi) else g) := by
  unfold runExec
  cases hcore : runExecCore w sender funds msg f txi with
  | mk o calls =>
    cases o with
    | none => simpa using hj
    | some w' =>
      simp only [↓reduceIte]
      obtain ⟨bal1, c', msgs, d, _, hx, hd, hw'⟩ := runExecCore_some hcore
      subst hw'
      have hrb := dispatchAll_rb f { w := { w with bal := bal1, c := c' },
                                     calls := [Call.execute { sender, funds } msg (.ok msgs)] } msgs
      rw [hd] at hrb
      obtain ⟨e1, e2⟩ := owed_recv_congr (c := c') (c' := d.w.c) hrb.1 hrb.2
      have hres : execRes w sender funds msg txi = (c', msgs) := by simp only [execRes, hx]
      have hown := execute_owed w.self (cinv_reach hr) hx
      unfold JInv at hj ⊢
      simp only [ghostExec, hres]
      rw [e1, e2]
      omega

theorem jinv_of_rb {w w' : World} {g g' : WGhost} (hj : JInv w g) (hr : w'.c.reqs = w.c.reqs)
    (hb : w'.c.batches = w.c.batches) (hp : g'.paid = g.paid) : JInv w' g' := by
  obtain ⟨e1, e2⟩ := owed_recv_congr hr hb
  unfold JInv at hj ⊢
  rw [e1, e2, hp]; exact hj

/-- events other than transactions leave requests, batches and the paid counter alone -/
theorem step_rb_other (w : World) (e : Event) (he : ∀ s fu m f t, e ≠ .exec s fu m f t) (hh : ∀ c n co m f, e ≠ .hook c n co m f) :
    (step w e).w.c.reqs = w.c.reqs ∧ (step w e).w.c.batches = w.c.batches := by
  have key : ∀ (w1 : World) (m : SudoMsg), w1.c = w.c →
      (sudoCall w1 m).1.c.reqs = w.c.reqs ∧ (sudoCall w1 m).1.c.batches = w.c.batches := by
    intro w1 m hc
    have := sudoCall_rb w1 m
    rw [hc] at this; exact this
  cases e with
  | advance dt dh => exact ⟨rfl, rfl⟩
  | exec sender funds msg f txi => exact absurd rfl (he _ _ _ _ _)
  | hook channel ns coin msg f => exact absurd rfl (hh _ _ _ _ _)
  | ack seq success =>
    simp only [step]
    split
    · exact ⟨rfl, rfl⟩
    · split <;> (dsimp only; apply key; rfl)
  | timeout seq =>
    simp only [step]
    split
    · exact ⟨rfl, rfl⟩
    · dsimp only; apply key; rfl
  | strayAck channel seq success => simp only [step]; exact key w _ rfl
  | strayTimeout channel seq => simp only [step]; exact key w _ rfl
  | donate sender coin =>
    simp only [step]
    split <;> exact ⟨rfl, rfl⟩
  | faucet to coin => exact ⟨rfl, rfl⟩
  | reseq n => exact ⟨rfl, rfl⟩

theorem wgstep_paid_other (w : World) (g : WGhost) (e : Event) (he : ∀ s fu m f t, e ≠ .exec s fu m f t)
    (hh : ∀ c n co m f, e ≠ .hook c n co m f) : (wgstep w g e).paid = g.paid := by
  unfold wgstep
  split
  · cases e with
    | exec sender funds msg f txi => exact absurd rfl (he _ _ _ _ _)
    | hook channel ns coin msg f => exact absurd rfl (hh _ _ _ _ _)
    | faucet to coin => simp only; split <;> rfl
    | _ => rfl
  · rfl

/-- every event of the world preserves `JInv` (no condition on the environment is needed) -/
theorem step_jinv {w : World} {g : WGhost} (e : Event) (hr : CReach w.c) (hj : JInv w g) :
    JInv (step w e).w (wgstep w g e) := by
  by_cases hx : ∃ s fu m f t, e = .exec s fu m f t
  · obtain ⟨sender, funds, msg, f, txi, rfl⟩ := hx
    simp only [step, wgstep]
    exact runExec_jinv sender funds msg f txi hr hj
  by_cases hk : ∃ c n co m f, e = .hook c n co m f
  · obtain ⟨channel, ns, coin, msg, f, rfl⟩ := hk
    simp only [step, wgstep]
    split
    · simpa using hj
    · rename_i acct hacct
      split
      · simpa using hj
      · have h1 := runExec_jinv (w := { w with bal := w.bal.add acct coin.denom coin.amount }) (g := g) acct [coin] msg f (some 0) hr hj
        split
        · rename_i hc
          simp only [hc, ↓reduceIte, hacct] at h1 ⊢
          exact h1
        · simpa using hj
  · have he : ∀ s fu m f t, e ≠ .exec s fu m f t := fun s fu m f t h => hx ⟨s, fu, m, f, t, h⟩
    have hh : ∀ c n co m f, e ≠ .hook c n co m f := fun c n co m f h => hk ⟨c, n, co, m, f, h⟩
    obtain ⟨h1, h2⟩ := step_rb_other w e he hh
    exact jinv_of_rb hj h1 h2 (wgstep_paid_other w g e he hh)

theorem runW_jinv {w : World} {g : WGhost} (evs : List Event) (hr : CReach w.c) (hj : JInv w g) :
    JInv (runW w g evs).1 (runW w g evs).2 := by
  induction evs generalizing w g with
  | nil => exact hj
  | cons e rest ih =>
    simp only [runW]
    exact ih (step_creach w e hr) (step_jinv e hr hj)

theorem jinv_boot {env : Env} {info : Info} {msg : InstantiateMsg} {c0 : CState} {out : List SubMsg}
    (hi : instantiate env info msg = .ok (c0, out)) (self pfx : String) (t h : Nat) :
    JInv (bootWorld c0 self pfx t h) {} := by
  unfold instantiate at hi
  simp only [bind_ok, pure_ok] at hi
  obtain ⟨_, _, _, _, _, _, _, _, _, _, _, _, _, _, hi⟩ := hi
  cases hi
  simp [JInv, bootWorld, owedOpenAll, owedList, recvSum, AMap.sumBy, recvAmt, Batch.new]


theorem owedReq_le_owedList (c : CState) {l : List Req} {r : Req} (h : r ∈ l) : owedReq c r ≤ owedList c l := by
  induction l with
  | nil => cases h
  | cons x rest ih =>
    rw [owedList_cons]
    rcases List.mem_cons.mp h with rfl | h'
    · omega
    · have := ih h'; omega

/-- the claim of one open request of a Received batch is part of `owedOpenAll` -/
theorem claim_le_owedOpenAll {c : CState} {k : Nat} {u : String} {b : Batch} {recv : Nat} {r : Req} (hi : CInv c)
    (hb : c.batches.find? k = some b) (hst : b.status = .received) (hrecv : b.received = some recv)
    (hreq : findReq c.reqs k u = some r) : recv * r.amount / b.total ≤ owedOpenAll c := by
  obtain ⟨hmem, hkey, _⟩ := findReq_some_mem hreq
  have : owedReq c r = recv * r.amount / b.total := by
    unfold owedReq; rw [hkey, hb]; simp [hst, hrecv]
  rw [← this]
  exact owedReq_le_owedList c hmem


/-- `JInv` as a run-time check (the driver evaluates it on every co-simulated event) -/
def jinvCheck (w : World) (g : WGhost) : Bool := decide ((owedOpenAll w.c : Int) + g.paid ≤ recvSum w.c)

end MW.Chain
