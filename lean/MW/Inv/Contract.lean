import MW.Inv.Requests
import MW.StoreLemmas
/-!
# The contract-level invariant `CInv` and its preservation by every entry point

`CInv` collects the structural facts several properties rest on (DESIGN.md §6, B1–B3, R1):
batch ids are exactly `1..pendingId`, the pending batch is the one with the highest id, older
batches are Submitted or Received with the fields their status requires and a positive total,
request keys are unique, request amounts positive, and the open requests of a batch sum to
at most its total (exactly its total until it is Received).
-/
namespace MW.Staking
open MW

structure CInv (s : CState) : Prop where
  pid : 1 ≤ s.pendingId
  keys : ∀ k, (s.batches.find? k).isSome ↔ (1 ≤ k ∧ k ≤ s.pendingId)
  idKey : ∀ k b, s.batches.find? k = some b → b.id = k
  pend : ∀ b, s.batches.find? s.pendingId = some b →
    b.status = .pending ∧ b.nextAction.isSome ∧ b.expected = none ∧ b.received = none
  older : ∀ k b, s.batches.find? k = some b → k < s.pendingId →
    (b.status = .submitted ∧ b.expected.isSome ∧ b.nextAction.isSome ∧ b.received = none ∧ 0 < b.total)
    ∨ (b.status = .received ∧ b.expected.isSome ∧ b.received.isSome ∧ b.nextAction = none ∧ 0 < b.total)
  rkeys : KeysNodup s.reqs
  rpos : ∀ r ∈ s.reqs, 0 < r.amount ∧ 1 ≤ r.batch ∧ r.batch ≤ s.pendingId
  sums : ∀ k b, s.batches.find? k = some b →
    sumReqs s.reqs k ≤ b.total ∧ (b.status ≠ .received → sumReqs s.reqs k = b.total)
  sortedB : s.batches.Sorted
  sortedI : s.inflight.Sorted
  sortedW : s.waiting.Sorted
  seqKey : ∀ k p, s.inflight.find? k = some p → p.seq = k

/-- `CInv` only looks at these five components -/
theorem CInv.of_core {s s' : CState} (h : CInv s) (hb : s'.batches = s.batches) (hp : s'.pendingId = s.pendingId)
    (hr : s'.reqs = s.reqs) (hi : s'.inflight = s.inflight) (hw : s'.waiting.Sorted) : CInv s' := by
  constructor
  · rw [hp]; exact h.pid
  · rw [hb, hp]; exact h.keys
  · rw [hb]; exact h.idKey
  · rw [hb, hp]; exact h.pend
  · rw [hb, hp]; exact h.older
  · rw [hr]; exact h.rkeys
  · rw [hr, hp]; exact h.rpos
  · rw [hb, hr]; exact h.sums
  · rw [hb]; exact h.sortedB
  · rw [hi]; exact h.sortedI
  · exact hw
  · rw [hi]; exact h.seqKey

theorem sumReqs_eq_zero {reqs : List Req} {k : Nat} (h : ∀ r ∈ reqs, r.batch ≠ k) : sumReqs reqs k = 0 := by
  induction reqs with
  | nil => rfl
  | cons x rest ih =>
    rw [sumReqs_cons]
    have := h x (by simp)
    simp only [this, ↓reduceIte, Nat.zero_add]
    exact ih (fun r hr => h r (List.mem_cons_of_mem _ hr))

/-- the pending batch exists -/
theorem CInv.pending_exists {s : CState} (h : CInv s) : ∃ b, s.batches.find? s.pendingId = some b := by
  have := (h.keys s.pendingId).mpr ⟨h.pid, Nat.le_refl _⟩
  exact Option.isSome_iff_exists.mp this

theorem cinv_instantiate {env : Env} {info : Info} {msg : InstantiateMsg} {s : CState} {out : List SubMsg}
    (h : instantiate env info msg = .ok (s, out)) : CInv s := by
  unfold instantiate at h
  simp only [bind_ok, pure_ok] at h
  obtain ⟨_, _, _, _, _, _, _, _, _, _, _, _, due, _, h⟩ := h
  cases h
  constructor
  · exact Nat.le_refl 1
  · intro k
    simp only [AMap.find?]
    constructor
    · intro hk; split at hk
      · rename_i h1; omega
      · simp [AMap.find?] at hk
    · intro hk
      have : 1 = k := by omega
      simp [this]
  · intro k b hb
    simp only [AMap.find?] at hb
    split at hb
    · rename_i h1; cases hb; simp [Batch.new, h1]
    · simp [AMap.find?] at hb
  · intro b hb
    simp only [AMap.find?, ↓reduceIte] at hb
    cases hb; simp [Batch.new]
  · intro k b hb hk
    simp only [AMap.find?] at hb
    dsimp only at hk
    split at hb
    · rename_i h1; omega
    · simp [AMap.find?] at hb
  · simp [KeysNodup]
  · intro r hr; simp at hr
  · intro k b hb
    simp only [AMap.find?] at hb
    split at hb
    · cases hb; simp [sumReqs, Batch.new]
    · simp [AMap.find?] at hb
  · simp [AMap.Sorted]
  · exact AMap.sorted_nil
  · exact AMap.sorted_nil
  · intro k p hp; simp at hp

theorem cinv_reply {s s' : CState} {id : Nat} {res : ReplyResult} {out : List SubMsg} (h : CInv s)
    (hr : reply s id res = .ok (s', out)) : CInv s' := by
  obtain ⟨_, w, seq, _, _, hs'⟩ := reply_eff hr
  subst hs'
  constructor
  · exact h.pid
  · exact h.keys
  · exact h.idKey
  · exact h.pend
  · exact h.older
  · exact h.rkeys
  · exact h.rpos
  · exact h.sums
  · exact h.sortedB
  · exact AMap.sorted_insert h.sortedI _ _
  · exact AMap.sorted_erase h.sortedW _
  · intro k p hp
    simp only [AMap.find?_insert] at hp
    split at hp
    · rename_i hk; cases hp; exact hk.symm
    · exact h.seqKey k p hp

theorem cinv_sudo {s s' : CState} {m : SudoMsg} {out : List SubMsg} (h : CInv s)
    (hr : sudo s m = .ok (s', out)) : CInv s' := by
  have key : ∀ infl : AMap Packet, infl.Sorted → (∀ k p, infl.find? k = some p → p.seq = k) →
      CInv { s with inflight := infl } := by
    intro infl hs hk
    exact { pid := h.pid, keys := h.keys, idKey := h.idKey, pend := h.pend, older := h.older, rkeys := h.rkeys,
            rpos := h.rpos, sums := h.sums, sortedB := h.sortedB, sortedI := hs, sortedW := h.sortedW, seqKey := hk }
  have upd : ∀ seq (p : Packet) st, s.inflight.find? seq = some p →
      CInv { s with inflight := s.inflight.insert seq { p with status := st } } := by
    intro seq p st hp
    apply key _ (AMap.sorted_insert h.sortedI _ _)
    intro k q hq
    simp only [AMap.find?_insert] at hq
    split at hq
    · rename_i hk; cases hq; simp only; rw [hk]; exact h.seqKey seq p hp
    · exact h.seqKey k q hq
  have del : ∀ seq, CInv { s with inflight := s.inflight.erase seq } := by
    intro seq
    apply key _ (AMap.sorted_erase h.sortedI _)
    intro k q hq
    simp only [AMap.find?_erase] at hq
    split at hq
    · cases hq
    · exact h.seqKey k q hq
  unfold sudo at hr
  split at hr
  · split at hr
    · cases hr; exact h
    · split at hr
      · cases hr; exact h
      · rename_i p hp
        split at hr
        · cases hr; exact del _
        · cases hr; exact upd _ p _ hp
  · split at hr
    · cases hr; exact h
    · split at hr
      · cases hr; exact h
      · rename_i p hp; cases hr; exact upd _ p _ hp

theorem sorted_erasePackets {m : AMap Packet} (h : m.Sorted) (ps : List Packet) : (erasePackets m ps).Sorted := by
  unfold erasePackets
  induction ps generalizing m with
  | nil => exact h
  | cons p rest ih => simp only [List.foldl_cons]; exact ih (AMap.sorted_erase h _)

theorem find?_erasePackets {m : AMap Packet} (ps : List Packet) (k : Nat) (q : Packet)
    (h : (erasePackets m ps).find? k = some q) : m.find? k = some q := by
  unfold erasePackets at h
  induction ps generalizing m with
  | nil => exact h
  | cons p rest ih =>
    simp only [List.foldl_cons] at h
    have := ih h
    simp only [AMap.find?_erase] at this
    split at this
    · cases this
    · exact this

/-- every successful `execute` preserves the invariant -/
theorem cinv_execute {s s' : CState} {env : Env} {info : Info} {m : ExecMsg} {out : List SubMsg} (h : CInv s)
    (hx : execute s env info m = .ok (s', out)) : CInv s' := by
  cases m <;> simp only [execute] at hx
  case liquidStake mt tn ex =>
    simp only [bind_ok] at hx
    obtain ⟨pay, _, hx⟩ := hx
    obtain ⟨st, mm, id1, orc, _, _, _, _, _, _, _, hcase⟩ := liquidStake_eff hx
    rcases hcase with ⟨_, hs', _⟩ | ⟨_, _, hs', _⟩ <;> subst hs'
    · exact h.of_core rfl rfl rfl rfl (AMap.sorted_insert h.sortedW _ _)
    · exact h.of_core rfl rfl rfl rfl (AMap.sorted_insert (AMap.sorted_insert h.sortedW _ _) _ _)
  case liquidUnstake =>
    simp only [bind_ok] at hx
    obtain ⟨a, hpay, hx⟩ := hx
    have ha : a ≠ 0 := (mustPay_ok hpay).2
    obtain ⟨_, _, b, hb, hs'⟩ := liquidUnstake_eff hx
    subst hs'
    obtain ⟨hst, hna, hex, hrc⟩ := h.pend b hb
    have hsum := h.sums _ b hb
    have hsumeq : sumReqs s.reqs s.pendingId = b.total := hsum.2 (by rw [hst]; simp)
    constructor
    · exact h.pid
    · intro k; simp only [AMap.find?_insert]
      split
      · rename_i hk; subst hk; simp [h.pid]
      · exact h.keys k
    · intro k b' hb'; simp only [AMap.find?_insert] at hb'
      split at hb'
      · rename_i hk; cases hb'; simp only [grown]; rw [hk]; exact h.idKey _ b hb
      · exact h.idKey k b' hb'
    · intro b' hb'; simp only [AMap.find?_insert, ↓reduceIte] at hb'
      cases hb'; simp only [grown]; exact ⟨hst, hna, hex, hrc⟩
    · intro k b' hb' hk
      simp only [AMap.find?_insert] at hb'
      dsimp only at hk
      split at hb'
      · omega
      · exact h.older k b' hb' hk
    · -- keys stay unique
      simp only [reqsAfterUnstake]
      split
      · unfold KeysNodup; rw [keys_setReqAmount]; exact h.rkeys
      · rename_i hn; exact keysNodup_append_new h.rkeys _ _ _ hn
    · intro r hr
      simp only [reqsAfterUnstake] at hr
      dsimp only
      split at hr
      · rename_i r0 hr0
        obtain ⟨r1, hr1, hb1, _, hcase⟩ := mem_setReqAmount hr
        have := h.rpos r1 hr1
        rcases hcase with hc | hc
        · subst hc; exact this
        · refine ⟨?_, by omega, by omega⟩
          have := (h.rpos r0 (findReq_some_mem hr0).1).1
          omega
      · simp only [List.mem_append, List.mem_singleton] at hr
        rcases hr with hr | hr
        · exact h.rpos r hr
        · subst hr; exact ⟨by dsimp only; omega, h.pid, Nat.le_refl _⟩
    · intro k b' hb'
      simp only [AMap.find?_insert] at hb'
      have hs : sumReqs (reqsAfterUnstake s.reqs s.pendingId info.sender a) k
          = sumReqs s.reqs k + (if s.pendingId = k then a else 0) := by
        simp only [reqsAfterUnstake]
        split
        · rename_i r0 hr0
          have := sumReqs_setReqAmount h.rkeys hr0 (r0.amount + a) k
          split at this <;> split <;> simp_all <;> omega
        · rw [sumReqs_append, sumReqs_cons, sumReqs_nil]
          simp
      split at hb'
      · rename_i hk; cases hb'; subst hk
        rw [hs]; simp only [↓reduceIte, grown]
        exact ⟨by omega, fun _ => by omega⟩
      · rename_i hk
        rw [hs]
        have : ¬ s.pendingId = k := fun h' => hk h'.symm
        simp only [this, ↓reduceIte, Nat.add_zero]
        exact h.sums k b' hb'
    · exact AMap.sorted_insert h.sortedB _ _
    · exact h.sortedI
    · exact h.sortedW
    · exact h.seqKey
  case submitBatch =>
    obtain ⟨batch, unbond, orc, _, hb, _, hany, _, _, _, hs', _⟩ := submitBatch_eff hx
    subst hs'
    have hid : batch.id = s.pendingId := h.idKey _ batch hb
    obtain ⟨hst, hna, hex, hrc⟩ := h.pend batch hb
    have hsum := h.sums _ batch hb
    have hsumeq : sumReqs s.reqs s.pendingId = batch.total := hsum.2 (by rw [hst]; simp)
    have hpos : 0 < batch.total := by
      rw [← hsumeq]; exact any_batch_of_sum_pos hany (fun r hr => (h.rpos r hr).1)
    simp only [hid]
    constructor
    · simp only; omega
    · intro k; simp only [AMap.find?_insert]
      split
      · rename_i hk; subst hk; simp [h.pid]
      · split
        · rename_i hk; subst hk; simp
        · rename_i h1 h2
          rw [h.keys k]; constructor <;> intro hh <;> omega
    · intro k b' hb'; simp only [AMap.find?_insert] at hb'
      split at hb'
      · rename_i hk; cases hb'; simp [Batch.updateStatus, hid, hk]
      · split at hb'
        · rename_i hk; cases hb'; simp [Batch.new, hk]
        · exact h.idKey k b' hb'
    · intro b' hb'
      simp only [AMap.find?_insert] at hb'
      split at hb'
      · omega
      · simp only [↓reduceIte] at hb'; cases hb'; simp [Batch.new]
    · intro k b' hb' hk
      simp only [AMap.find?_insert] at hb'
      dsimp only at hk
      split at hb'
      · cases hb'; left
        simp [Batch.updateStatus, hrc, hpos]
      · split at hb'
        · omega
        · rename_i h1 h2
          exact h.older k b' hb' (by omega)
    · exact h.rkeys
    · intro r hr; have := h.rpos r hr; simp only; omega
    · intro k b' hb'
      simp only [AMap.find?_insert] at hb'
      split at hb'
      · rename_i hk; cases hb'; subst hk
        simp only [Batch.updateStatus]
        exact ⟨by omega, fun _ => hsumeq⟩
      · split at hb'
        · rename_i hk; cases hb'; subst hk
          have : sumReqs s.reqs (s.pendingId + 1) = 0 :=
            sumReqs_eq_zero (fun r hr => by have := (h.rpos r hr).2.2; omega)
          simp [Batch.new, this]
        · exact h.sums k b' hb'
    · exact AMap.sorted_insert (AMap.sorted_insert h.sortedB _ _) _ _
    · exact h.sortedI
    · exact h.sortedW
    · exact h.seqKey
  case withdraw b =>
    obtain ⟨batch, recv, req, orc, _, hb, hst, _, hr, _, _, hs', _⟩ := withdraw_eff hx
    subst hs'
    have hid : batch.id = b := h.idKey _ batch hb
    rw [hid] at hr
    simp only [hid]
    constructor
    · exact h.pid
    · exact h.keys
    · exact h.idKey
    · exact h.pend
    · exact h.older
    · exact keysNodup_removeReq h.rkeys _ _
    · intro r hr'; exact h.rpos r (mem_removeReq hr')
    · intro k b' hb'
      have := sumReqs_removeReq h.rkeys hr k
      have hold := h.sums k b' hb'
      by_cases hk : b = k
      · subst hk
        simp only [↓reduceIte] at this
        have : b' = batch := by rw [hb] at hb'; cases hb'; rfl
        subst this
        dsimp only
        exact ⟨by omega, fun hne => absurd hst hne⟩
      · simp only [hk, ↓reduceIte, Nat.add_zero] at this
        dsimp only
        rw [this]; exact hold
    · exact h.sortedB
    · exact h.sortedI
    · exact h.sortedW
    · exact h.seqKey
  case addValidator v =>
    obtain ⟨_, _, _, _, hs'⟩ := addValidator_eff hx; subst hs'
    exact h.of_core rfl rfl rfl rfl h.sortedW
  case removeValidator v =>
    obtain ⟨_, _, _, hs'⟩ := removeValidator_eff hx; subst hs'
    exact h.of_core rfl rfl rfl rfl h.sortedW
  case transferOwnership n =>
    obtain ⟨_, o, _, hs'⟩ := transferOwnership_eff hx; subst hs'
    exact h.of_core rfl rfl rfl rfl h.sortedW
  case acceptOwnership =>
    obtain ⟨_, o, _, hs'⟩ := acceptOwnership_eff hx; subst hs'
    exact h.of_core rfl rfl rfl rfl h.sortedW
  case revokeOwnershipTransfer =>
    obtain ⟨_, o, _, hs'⟩ := revokeOwnership_eff hx; subst hs'
    exact h.of_core rfl rfl rfl rfl h.sortedW
  case updateConfig n p f mo bp =>
    obtain ⟨_, _, _, _, _, _, _, _, _, _, _, _, hs'⟩ := updateConfig_eff hx; subst hs'
    exact h.of_core rfl rfl rfl rfl h.sortedW
  case receiveRewards =>
    obtain ⟨_, _, _, _, _, _, _, _, _, _, _, _, hs', _⟩ := receiveRewards_eff hx; subst hs'
    exact h.of_core rfl rfl rfl rfl (AMap.sorted_insert h.sortedW _ _)
  case receiveUnstakedTokens b =>
    obtain ⟨coin, batch, t, _, _, _, _, hb, hst, hna, _, hs'⟩ := receiveUnstaked_eff hx
    subst hs'
    have hid : batch.id = b := h.idKey _ batch hb
    have hkb := (h.keys b).mp (by rw [hb]; rfl)
    have hlt : b < s.pendingId := by
      rcases Nat.lt_or_ge b s.pendingId with hlt | hge
      · exact hlt
      · have : b = s.pendingId := by omega
        subst this
        have := (h.pend batch hb).1
        rw [hst] at this; cases this
    have hold := h.older b batch hb hlt
    rcases hold with ⟨_, hexp, _, _, hpos⟩ | ⟨hr, _⟩
    · simp only [hid]
      constructor
      · exact h.pid
      · intro k; simp only [AMap.find?_insert]
        split
        · rename_i hk; subst hk; simp; omega
        · exact h.keys k
      · intro k b' hb'; simp only [AMap.find?_insert] at hb'
        split at hb'
        · rename_i hk; cases hb'; simp [hid, hk]
        · exact h.idKey k b' hb'
      · intro b' hb'; simp only [AMap.find?_insert] at hb'
        split at hb'
        · omega
        · exact h.pend b' hb'
      · intro k b' hb' hk; simp only [AMap.find?_insert] at hb'
        split at hb'
        · cases hb'; right; simp [hexp, hpos]
        · exact h.older k b' hb' hk
      · exact h.rkeys
      · exact h.rpos
      · intro k b' hb'; simp only [AMap.find?_insert] at hb'
        split at hb'
        · rename_i hk; cases hb'; subst hk
          exact ⟨(h.sums _ batch hb).1, fun hne => by simp at hne⟩
        · exact h.sums k b' hb'
      · exact AMap.sorted_insert h.sortedB _ _
      · exact h.sortedI
      · exact h.sortedW
      · exact h.seqKey
    · rw [hst] at hr; cases hr
  case circuitBreaker =>
    unfold circuitBreaker at hx
    simp only [bind_ok, pure_ok] at hx
    obtain ⟨_, _, hx⟩ := hx; cases hx
    exact h.of_core rfl rfl rfl rfl h.sortedW
  case resumeContract n l r =>
    unfold resumeContract at hx
    simp only [bind_ok, pure_ok] at hx
    obtain ⟨_, _, _, _, hx⟩ := hx; cases hx
    exact h.of_core rfl rfl rfl rfl h.sortedW
  case recover pg sel rc =>
    obtain ⟨recv, packets, denom, maxId, total, _, _, _, _, _, _, _, _, _, hs', _⟩ := recover_eff hx
    subst hs'
    exact { pid := h.pid, keys := h.keys, idKey := h.idKey, pend := h.pend, older := h.older, rkeys := h.rkeys,
            rpos := h.rpos, sums := h.sums, sortedB := h.sortedB,
            sortedI := sorted_erasePackets h.sortedI _,
            sortedW := AMap.sorted_insert h.sortedW _ _,
            seqKey := fun k p hp => h.seqKey k p (find?_erasePackets _ k p hp) }
  case feeWithdraw a =>
    unfold feeWithdraw at hx
    simp only [bind_ok, pure_ok] at hx
    obtain ⟨_, _, _, _, _, _, hx⟩ := hx; cases hx
    exact h.of_core rfl rfl rfl rfl h.sortedW

end MW.Staking
