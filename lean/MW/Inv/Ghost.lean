import MW.Inv.Reach
/-!
# History counters (ghost state) over contract-level histories and the accounting invariants

The counters are computed from the *messages the handlers returned* (what the chain will
execute), never from the state deltas they are compared with:

* `fwd`   — staked asset forwarded toward the staker for the first time (stake and reward transfers)
* `setAside` — sum of the expected amounts recorded at submissions
* `swept` — ownerless stake moved to the fee balance
* `minted`, `burned` — token-factory mint / burn amounts of the LST
* `rebaseN`, `rebaseL` — re-basing terms set by `ResumeContract` (which overwrites the totals)
* `wd b`, `paid b` — LST of the requests withdrawn from batch `b`, staked asset paid out for them
-/
namespace MW.Staking
open MW

structure Ghost where
  fwd : Nat := 0
  setAside : Nat := 0
  swept : Nat := 0
  minted : Nat := 0
  burned : Nat := 0
  rebaseN : Int := 0
  rebaseL : Int := 0
  wd : Nat → Nat := fun _ => 0
  paid : Nat → Nat := fun _ => 0

/-- amount of `denom` carried by IBC transfers in a response -/
def transferSum (denom : String) : List SubMsg → Nat
  | [] => 0
  | m :: rest =>
    (match m.msg with
     | .transfer _ _ _ _ coin _ _ => if coin.denom = denom then coin.amount else 0
     | _ => 0) + transferSum denom rest

def mintSum (denom : String) : List SubMsg → Nat
  | [] => 0
  | m :: rest =>
    (match m.msg with
     | .mint _ d a _ => if d = denom then a else 0
     | _ => 0) + mintSum denom rest

def burnSum (denom : String) : List SubMsg → Nat
  | [] => 0
  | m :: rest =>
    (match m.msg with
     | .burn _ d a _ => if d = denom then a else 0
     | _ => 0) + burnSum denom rest

/-- staked asset paid out by bank sends in a response -/
def sendSum (denom : String) : List SubMsg → Nat
  | [] => 0
  | m :: rest =>
    (match m.msg with
     | .msgSend _ _ coins => (coins.filter (·.denom = denom)).foldl (fun a c => a + c.amount) 0
     | _ => 0) + sendSum denom rest

theorem transferSum_append (d : String) (a b : List SubMsg) : transferSum d (a ++ b) = transferSum d a + transferSum d b := by
  induction a with
  | nil => simp [transferSum]
  | cons x r ih => simp [transferSum, ih]; omega

theorem mintSum_append (d : String) (a b : List SubMsg) : mintSum d (a ++ b) = mintSum d a + mintSum d b := by
  induction a with
  | nil => simp [mintSum]
  | cons x r ih => simp [mintSum, ih]; omega

theorem burnSum_append (d : String) (a b : List SubMsg) : burnSum d (a ++ b) = burnSum d a + burnSum d b := by
  induction a with
  | nil => simp [burnSum]
  | cons x r ih => simp [burnSum, ih]; omega

theorem sendSum_append (d : String) (a b : List SubMsg) : sendSum d (a ++ b) = sendSum d a + sendSum d b := by
  induction a with
  | nil => simp [sendSum]
  | cons x r ih => simp [sendSum, ih]; omega

theorem sums_oracle (env : Env) (d : String) (orc : List SubMsg)
    (h : ∀ x ∈ orc, ∃ o p, x = plain (.wasmExec env.contract o p)) :
    transferSum d orc = 0 ∧ mintSum d orc = 0 ∧ burnSum d orc = 0 ∧ sendSum d orc = 0 := by
  induction orc with
  | nil => simp [transferSum, mintSum, burnSum, sendSum]
  | cons x r ih =>
    obtain ⟨o, p, hx⟩ := h x (by simp)
    obtain ⟨h1, h2, h3, h4⟩ := ih (fun y hy => h y (List.mem_cons_of_mem _ hy))
    subst hx
    simp [transferSum, mintSum, burnSum, sendSum, plain, h1, h2, h3, h4]

/-- the counters after a successful `execute` that returned `out` -/
def ghostAfter (s : CState) (g : Ghost) (msg : ExecMsg) (s' : CState) (out : List SubMsg) : Ghost :=
  let D := s.config.proto.ibcDenom
  let X := s.config.lstDenom
  match msg with
  | .liquidStake .. =>
    { g with fwd := g.fwd + transferSum D out, minted := g.minted + mintSum X out,
             swept := g.swept + (if s.st.totalLst = 0 ∧ s.st.totalNative ≠ 0 then s.st.totalNative else 0) }
  | .receiveRewards => { g with fwd := g.fwd + transferSum D out }
  | .submitBatch =>
    { g with burned := g.burned + burnSum X out,
             setAside := g.setAside + ((s'.batches.find? s.pendingId).bind (·.expected)).getD 0 }
  | .withdraw b =>
    { g with paid := fun k => if k = b then g.paid k + sendSum D out else g.paid k,
             wd := fun k => if k = b then g.wd k + (sumReqs s.reqs b - sumReqs s'.reqs b) else g.wd k }
  | .resumeContract n l _ =>
    { g with rebaseN := (n : Int) + g.setAside + g.swept - g.fwd,
             rebaseL := (l : Int) - ((g.minted : Int) - g.burned) }
  | _ => g

structure GC where
  s : CState
  g : Ghost

def gcstep (x : GC) : CEv → GC
  | .exec env info msg =>
    match execute x.s env info msg with
    | .ok (s', out) => { s := s', g := ghostAfter x.s x.g msg s' out }
    | .error _ => x
  | .reply id res => { x with s := cstep x.s (.reply id res) }
  | .sudo m => { x with s := cstep x.s (.sudo m) }

theorem gcstep_s (x : GC) (e : CEv) : (gcstep x e).s = cstep x.s e := by
  cases e with
  | exec env info msg => cases h : execute x.s env info msg <;> simp [gcstep, cstep, h]
  | reply id res => rfl
  | sudo m => rfl

/-- configuration facts the accounting needs: the staked-asset denom and the LST denom differ -/
def DenomsDistinct (s : CState) : Prop := s.config.proto.ibcDenom ≠ s.config.lstDenom

/-- N1 and L1 (token-factory form) -/
structure GInv (x : GC) : Prop where
  n1 : (x.s.st.totalNative : Int) + x.g.setAside + x.g.swept = x.g.fwd + x.g.rebaseN
  l1 : ((x.g.minted : Int) - x.g.burned) + x.g.rebaseL = x.s.st.totalLst

theorem ginv_exec {x : GC} (hg : GInv x) (hi : CInv x.s) (hd : DenomsDistinct x.s) {env : Env} {info : Info}
    {m : ExecMsg} {s' : CState} {out : List SubMsg} (hx : execute x.s env info m = .ok (s', out)) :
    GInv { s := s', g := ghostAfter x.s x.g m s' out } := by
  obtain ⟨s, g⟩ := x
  simp only at hg hi hd hx ⊢
  have n1 := hg.n1
  have l1 := hg.l1
  simp only at n1 l1
  cases m <;> simp only [execute] at hx
  case liquidStake mt tn ex =>
    simp only [bind_ok] at hx
    obtain ⟨a, hpay, hx⟩ := hx
    obtain ⟨st, m, id1, orc, _, hsw, hm, _, _, _, horc, hcase⟩ := liquidStake_eff hx
    obtain ⟨ho1, ho2, _, _⟩ := sums_oracle env s.config.proto.ibcDenom orc horc
    obtain ⟨_, ho2', _, _⟩ := sums_oracle env s.config.lstDenom orc horc
    have hne : ¬ s.config.lstDenom = s.config.proto.ibcDenom := fun h => hd h.symm
    have hsweep := sweep_eff hsw
    rcases hcase with ⟨_, hs', hout⟩ | ⟨_, _, hs', hout⟩
    all_goals
      subst hs' hout
      constructor
      · simp only [ghostAfter, transferSum_append, ho1, transferSum, transferSub, plain, hne, hd, ↓reduceIte]
        rcases hsweep with ⟨h1, h2, h3⟩ | ⟨h1, h3⟩
        · subst h3
          rw [if_pos (⟨h1, h2⟩ : s.st.totalLst = 0 ∧ s.st.totalNative ≠ 0)]
          simp only [Nat.add_zero, Nat.zero_add] at *
          omega
        · subst h3
          rw [if_neg h1]
          simp only [Nat.add_zero, Nat.zero_add] at *
          omega
      · simp only [ghostAfter, mintSum_append, ho2', mintSum, transferSub, plain, ↓reduceIte]
        rcases hsweep with ⟨_, _, h3⟩ | ⟨_, h3⟩ <;> subst h3 <;> simp <;> omega
  case liquidUnstake =>
    simp only [bind_ok] at hx
    obtain ⟨a, _, hx⟩ := hx
    obtain ⟨_, _, b, _, hs'⟩ := liquidUnstake_eff hx
    subst hs'; exact ⟨n1, l1⟩
  case submitBatch =>
    obtain ⟨batch, unbond, orc, _, hb, _, _, hL, hu, horc, hs', hout⟩ := submitBatch_eff hx
    obtain ⟨_, _, ho3, _⟩ := sums_oracle env s.config.lstDenom orc horc
    have hid := hi.idKey _ batch hb
    have hule : unbond ≤ s.st.totalNative := by
      unfold computeUnbond at hu
      split at hu
      · cases hu; omega
      · simp only [mulRatio_ok] at hu
        obtain ⟨_, _, hu⟩ := hu; subst hu
        apply Nat.div_le_of_le_mul
        rw [Nat.mul_comm s.st.totalLst]
        exact Nat.mul_le_mul_left _ hL
    subst hs' hout
    constructor
    · simp only [ghostAfter, AMap.find?_insert, hid, ↓reduceIte, Option.bind_some, Batch.updateStatus, Option.getD_some,
        checkedSub]
      simp only [hule, ↓reduceIte, Option.getD_some]
      omega
    · simp only [ghostAfter, burnSum_append, ho3, burnSum, plain, ↓reduceIte, checkedSub, hL, Option.getD_some]
      omega
  case withdraw b =>
    obtain ⟨_, _, _, _, _, _, _, _, _, _, _, hs', _⟩ := withdraw_eff hx
    subst hs'; exact ⟨n1, l1⟩
  case addValidator v => obtain ⟨_, _, _, _, hs'⟩ := addValidator_eff hx; subst hs'; exact ⟨n1, l1⟩
  case removeValidator v => obtain ⟨_, _, _, hs'⟩ := removeValidator_eff hx; subst hs'; exact ⟨n1, l1⟩
  case transferOwnership n => obtain ⟨_, o, _, hs'⟩ := transferOwnership_eff hx; subst hs'; exact ⟨n1, l1⟩
  case acceptOwnership => obtain ⟨_, o, _, hs'⟩ := acceptOwnership_eff hx; subst hs'; exact ⟨n1, l1⟩
  case revokeOwnershipTransfer => obtain ⟨_, o, _, hs'⟩ := revokeOwnership_eff hx; subst hs'; exact ⟨n1, l1⟩
  case updateConfig n p f mo bp =>
    obtain ⟨_, _, _, _, _, _, _, _, _, _, _, _, hs'⟩ := updateConfig_eff hx; subst hs'; exact ⟨n1, l1⟩
  case receiveRewards =>
    obtain ⟨reward, fee, id, orc, _, _, _, _, _, hle, _, horc, hs', hout⟩ := receiveRewards_eff hx
    obtain ⟨ho1, _, _, _⟩ := sums_oracle env s.config.proto.ibcDenom orc horc
    subst hs' hout
    constructor
    · simp only [ghostAfter, transferSum_append, ho1, transferSum, transferSub, ↓reduceIte]
      have : transferSum s.config.proto.ibcDenom (treasuryMsgs s.config fee) = 0 := by
        unfold treasuryMsgs; split <;> simp [transferSum, plain]
      rw [this]; simp; omega
    · exact l1
  case receiveUnstakedTokens b =>
    obtain ⟨_, _, _, _, _, _, _, _, _, _, _, hs'⟩ := receiveUnstaked_eff hx; subst hs'; exact ⟨n1, l1⟩
  case circuitBreaker =>
    unfold circuitBreaker at hx
    simp only [bind_ok, pure_ok] at hx
    obtain ⟨_, _, hx⟩ := hx; cases hx; exact ⟨n1, l1⟩
  case resumeContract n l r =>
    unfold resumeContract at hx
    simp only [bind_ok, pure_ok] at hx
    obtain ⟨_, _, _, _, hx⟩ := hx; cases hx
    constructor
    · simp only [ghostAfter]; omega
    · simp only [ghostAfter]; omega
  case recover pg sel rc =>
    obtain ⟨_, _, _, _, _, _, _, _, _, _, _, _, _, _, hs', _⟩ := recover_eff hx
    subst hs'; exact ⟨n1, l1⟩
  case feeWithdraw a =>
    unfold feeWithdraw at hx
    simp only [bind_ok, pure_ok] at hx
    obtain ⟨_, _, _, _, _, _, hx⟩ := hx; cases hx; exact ⟨n1, l1⟩

end MW.Staking
