import MW.Inv.GReach
import MW.Staking.Query
/-!
# Panic-freedom helper lemmas (C16): when each primitive and each sub-function can fail with a
# panic, and why it cannot inside the envelope
-/
namespace MW.Staking
open MW

theorem loadSome_err {α} {o : Option α} {e e' : Err} (h : loadSome o e = .error e') : o = none ∧ e' = e := by
  unfold loadSome at h; split at h <;> simp_all

theorem add128_err {site : String} {a b : Nat} {e : Err} (h : add128 site a b = .error e) : U128.max < a + b := by
  unfold add128 at h; split at h <;> simp_all

theorem add64_err {site : String} {a b : Nat} {e : Err} (h : add64 site a b = .error e) : U64.max < a + b := by
  unfold add64 at h; split at h <;> simp_all

theorem mul64_err {site : String} {a b : Nat} {e : Err} (h : mul64 site a b = .error e) : U64.max < a * b := by
  unfold mul64 at h; split at h <;> simp_all

theorem subUsize_err {site : String} {a b : Nat} {e : Err} (h : subUsize site a b = .error e) : a < b := by
  unfold subUsize at h; split at h <;> simp_all

theorem mulRatio_err {site : String} {a n d : Nat} {e : Err} (h : mulRatio site a n d = .error e) :
    d = 0 ∨ U128.max < a * n / d := by
  unfold mulRatio at h
  split at h
  · left; assumption
  · split at h
    · cases h
    · right; omega

/-- the panics that come from computing the oracle / query rates: they fire exactly when the
rate of the state being reported is outside the representable range (N = 0 < L, or a ratio of
more than 2^128 / 10^18 ≈ 3.4·10^20) — far outside the envelope's [10^-3, 10^3] -/
def isRatePanic : Err → Bool
  | .panic site => site = "A38a:div0" || site = "A38a:overflow" || site = "A38b:div0" || site = "A38b:overflow"
  | _ => false

theorem getRates_err {s : CState} {e : Err} (h : getRates s = .error e) : isRatePanic e = true := by
  unfold getRates at h
  split at h
  · cases h
  · simp only [bind_err, decimalFromRatio] at h
    rcases h with h | ⟨_, _, h | ⟨_, _, h⟩⟩
    · unfold mulRatio at h; (repeat' split at h) <;> cases h <;> rfl
    · unfold mulRatio at h; (repeat' split at h) <;> cases h <;> rfl
    · cases h

/-- inside the envelope the rates never panic -/
theorem getRates_ok_of_envelope (s : CState) (hN : s.st.totalNative ≤ 10 ^ 30) (hL : s.st.totalLst ≤ 10 ^ 30)
    (hr : s.st.totalLst = 0 ∨ (s.st.totalNative ≤ 1000 * s.st.totalLst ∧ s.st.totalLst ≤ 1000 * s.st.totalNative)) :
    ∃ r, getRates s = .ok r := by
  unfold getRates
  split
  · exact ⟨_, rfl⟩
  · rename_i hz
    rcases hr with hr | ⟨h1, h2⟩
    · exact absurd hr hz
    · have hN0 : s.st.totalNative ≠ 0 := by omega
      have b1 : s.st.totalNative * 10 ^ 18 / s.st.totalLst ≤ U128.max := by
        calc s.st.totalNative * 10 ^ 18 / s.st.totalLst ≤ (1000 * s.st.totalLst) * 10 ^ 18 / s.st.totalLst :=
              Nat.div_le_div_right (Nat.mul_le_mul_right _ h1)
          _ = 1000 * 10 ^ 18 := by
              rw [Nat.mul_assoc, Nat.mul_comm s.st.totalLst, ← Nat.mul_assoc]
              exact Nat.mul_div_cancel _ (Nat.pos_of_ne_zero hz)
          _ ≤ U128.max := by decide
      have b2 : s.st.totalLst * 10 ^ 18 / s.st.totalNative ≤ U128.max := by
        calc s.st.totalLst * 10 ^ 18 / s.st.totalNative ≤ (1000 * s.st.totalNative) * 10 ^ 18 / s.st.totalNative :=
              Nat.div_le_div_right (Nat.mul_le_mul_right _ h2)
          _ = 1000 * 10 ^ 18 := by
              rw [Nat.mul_assoc, Nat.mul_comm s.st.totalNative, ← Nat.mul_assoc]
              exact Nat.mul_div_cancel _ (Nat.pos_of_ne_zero hN0)
          _ ≤ U128.max := by decide
      simp [decimalFromRatio, mulRatio, hz, hN0, b1, b2, bind, Except.bind, pure, Except.pure]

theorem oracle_err {s : CState} {env : Env} {cfg : Config} {e : Err} (h : updateOracleMsgs s env cfg = .error e) :
    isRatePanic e = true := by
  unfold updateOracleMsgs at h
  split at h
  · cases h
  · simp only [bind_err] at h
    rcases h with h | ⟨_, _, h⟩
    · exact getRates_err h
    · cases h

/-- time bounds of the envelope -/
structure TimeOK (env : Env) : Prop where
  timeout : env.timeNs + IBC_TIMEOUT_NS ≤ U64.max
  txi : ∀ i, env.txIndex = some i → i + env.timeNs + 1 ≤ U64.max
  plain : env.timeNs + 1 ≤ U64.max
  week : (env.seconds + 604800) * 1000000000 ≤ U64.max
  period : env.seconds + MAX_PERIOD_SECONDS ≤ U64.max

theorem ibcSub_err {s : CState} {env : Env} {recv : String} {coin : Coin} {sub : Option Nat} {e : Err}
    (ht : TimeOK env) (h : ibcTransferSubMsg s env recv coin sub = .error e) : e.isPanic = false := by
  unfold ibcTransferSubMsg at h
  simp only [bind_err] at h
  rcases h with h | ⟨_, _, h⟩
  · unfold ibcTransferMsg at h
    simp only [bind_err, ensure_err] at h
    rcases h with h | ⟨_, _, h | ⟨_, _, h⟩⟩
    · rw [h.2]; rfl
    · have := add64_err h; have := ht.timeout; omega
    · cases h
  rcases h with h | ⟨_, _, h⟩
  · unfold defaultSubId at h
    split at h
    · rename_i i hi; have := add64_err h; have := ht.txi i hi; omega
    · cases h
  rcases h with h | ⟨_, _, h⟩
  · unfold saveWaiting at h; split at h <;> cases h; rfl
  · cases h

theorem validateAddress_err {a p : String} {e : Err} (h : validateAddress a p = .error e) : e.isPanic = false := by
  unfold validateAddress at h; (repeat' split at h) <;> cases h <;> rfl

theorem validatePrefix_err {p : String} {e : Err} (h : validatePrefix p = .error e) : e.isPanic = false := by
  unfold validatePrefix at h; simp only at h; (repeat' split at h) <;> cases h <;> rfl

theorem validateDenom_err {p : String} {e : Err} (h : validateDenom p = .error e) : e.isPanic = false := by
  unfold validateDenom at h; (repeat' split at h) <;> cases h <;> rfl

theorem validateIbcDenom_err {p : String} {e : Err} (h : validateIbcDenom p = .error e) : e.isPanic = false := by
  unfold validateIbcDenom at h; (repeat' split at h) <;> cases h <;> rfl

theorem validatePeriod_err {p : Nat} {e : Err} (h : validatePeriod p = .error e) : e.isPanic = false := by
  unfold validatePeriod at h; (repeat' split at h) <;> cases h <;> rfl

theorem addrValidate_err {c a : String} {e : Err} (h : addrValidate c a = .error e) : e.isPanic = false := by
  unfold addrValidate at h; (repeat' split at h) <;> cases h <;> rfl

theorem validateAddressesAux_err {p : String} {as seen : List String} {e : Err}
    (h : validateAddressesAux p as seen = .error e) : e.isPanic = false := by
  induction as generalizing seen with
  | nil => cases h
  | cons a r ih =>
    simp only [validateAddressesAux] at h
    split at h
    · rename_i e' he; cases h; exact validateAddress_err he
    · split at h
      · cases h; rfl
      · split at h
        · rename_i e' he; cases h; exact ih he
        · cases h

theorem validateAddresses_err {as : List String} {p : String} {e : Err} (h : validateAddresses as p = .error e) :
    e.isPanic = false := validateAddressesAux_err h

theorem optAddress_err {o : Option String} {p : String} {e : Err} (h : optAddress o p = .error e) : e.isPanic = false := by
  unfold optAddress at h
  split at h
  · cases h
  · split at h
    · cases h
    · rename_i e' he; cases h; exact validateAddress_err he

theorem native_validate_err {c : UnsafeNative} {e : Err} (h : c.validate = .error e) : e.isPanic = false := by
  unfold UnsafeNative.validate at h
  simp only [bind_err] at h
  rcases h with h | ⟨_, _, h | ⟨_, _, h | ⟨_, _, h | ⟨_, _, h | ⟨_, _, h | ⟨_, _, h | ⟨_, _, h⟩⟩⟩⟩⟩⟩⟩
  · exact validatePrefix_err h
  · exact validatePrefix_err h
  · exact validateDenom_err h
  · exact validateAddresses_err h
  · exact validatePeriod_err h
  · exact validateAddress_err h
  · exact validateAddress_err h
  · cases h

theorem proto_validate_err {c : UnsafeProto} {e : Err} (h : c.validate = .error e) : e.isPanic = false := by
  unfold UnsafeProto.validate at h
  simp only [bind_err, ensure_err] at h
  rcases h with h | ⟨_, _, h | ⟨_, _, h | ⟨_, _, h | ⟨_, _, h⟩⟩⟩⟩
  · rw [h.2]; rfl
  · exact validatePrefix_err h
  · exact validateIbcDenom_err h
  · exact optAddress_err h
  · cases h

theorem fee_validate_err {c : UnsafeFee} {p : ProtoCfg} {e : Err} (h : c.validate p = .error e) : e.isPanic = false := by
  unfold UnsafeFee.validate at h
  simp only [bind_err] at h
  rcases h with h | ⟨_, _, h⟩
  · exact optAddress_err h
  · cases h

theorem own_err {o : Own} {e : Err} :
    (∀ now sender v, (∀ e', v = .error e' → e'.isPanic = false) → (now + 604800) * 1000000000 ≤ U64.max →
        o.nominate now sender v = .error e → e.isPanic = false)
    ∧ (∀ sender, o.revoke sender = .error e → e.isPanic = false)
    ∧ (∀ now sender, o.accept now sender = .error e → e.isPanic = false) := by
  refine ⟨?_, ?_, ?_⟩
  · intro now sender v hv hw h
    unfold Own.nominate at h
    simp only [bind_err, ensure_err] at h
    rcases h with h | ⟨_, _, h | ⟨_, _, h | ⟨t, ht, h | ⟨_, _, h⟩⟩⟩⟩
    · rw [h.2]; rfl
    · exact hv _ h
    · have := add64_err h; simp only [Own.SEVEN_DAYS] at this
      have : (now + 604800) * 1000000000 ≥ now + 604800 := Nat.le_mul_of_pos_right _ (by decide)
      omega
    · have := mul64_err h
      simp only [add64_ok, Own.SEVEN_DAYS] at ht
      rw [ht.2] at this; omega
    · cases h
  · intro sender h
    unfold Own.revoke at h
    simp only [bind_err, ensure_err] at h
    rcases h with h | ⟨_, _, h⟩
    · rw [h.2]; rfl
    · cases h
  · intro now sender h
    unfold Own.accept at h
    simp only [bind_err, ensure_err] at h
    rcases h with h | ⟨_, _, h | ⟨_, _, h⟩⟩
    · rw [h.2]; rfl
    · rw [h.2]; rfl
    · cases h

end MW.Staking
