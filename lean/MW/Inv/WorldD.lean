import MW.Inv.WorldLst
/-!
# Ledger invariants over the chain model: the staked asset (solvency N2, location F1)

`ExecFactsD`: after a successful `execute` the amount of staked asset the contract owes
(received-and-unclaimed batches + accrued fees + refundable packets) changed by exactly the balance
change its messages will cause plus what the caller paid in (and the two history terms: native
total swept into fees, payouts), and what is earmarked for the staker changed only by a recovery
re-sending it.
-/
namespace MW.Chain
open MW MW.Staking

def recvAmt (b : Batch) : Nat := if b.status = .received then b.received.getD 0 else 0

/-- staked asset that came back for received batches -/
def recvSum (c : CState) : Nat := AMap.sumBy recvAmt c.batches

/-- staked asset the contract has to hold: what came back for received batches (minus payouts, a
history term), accrued fees, refunded outbound transfers awaiting re-send -/
def owedD (c : CState) : Nat := recvSum c + c.st.totalFees + refundableSum c c.config.proto.ibcDenom

/-- refunded staked asset earmarked for re-send to `S` -/
def locC (S D : String) (c : CState) : Nat := AMap.sumBy (refW (fun d r => d == D && r == S)) c.inflight

/-- staked asset of the attached funds that the handler books -/
def consumedD (D : String) (funds : List Coin) : ExecMsg → Nat
  | .liquidStake .. => coinSum D funds
  | .receiveRewards => ((findCoin funds D).map (·.amount)).getD 0
  | .receiveUnstakedTokens _ => ((findCoin funds D).map (·.amount)).getD 0
  | _ => 0

/-- native total moved into the fee counter by the first stake after the LST total hit zero -/
def sweptDelta (s : CState) : ExecMsg → Nat
  | .liquidStake .. => if s.st.totalLst = 0 ∧ s.st.totalNative ≠ 0 then s.st.totalNative else 0
  | _ => 0

def paidDelta (me D : String) (out : List SubMsg) : ExecMsg → Int
  | .withdraw _ => -(balSum me D out)
  | _ => 0

/-- what a recovery re-sends toward `S` (leaves the refundable pool) -/
def recDelta (S D : String) (out : List SubMsg) : ExecMsg → Nat
  | .recover .. => trSum S D out
  | _ => 0

/-- staked asset newly forwarded toward the staker by a response (a recovery re-sends, it does not add) -/
def fwdDelta (S D : String) (out : List SubMsg) : ExecMsg → Nat
  | .recover .. => 0
  | _ => trSum S D out

/-- expected unbonding amount set aside by a batch submission -/
def setAsideDelta (s s' : CState) : ExecMsg → Nat
  | .submitBatch => ((s'.batches.find? s.pendingId).bind (·.expected)).getD 0
  | _ => 0

/-- N1 bookkeeping of one handler: the staked total moves only together with a forward toward the
staker, a set-aside at submission or the sweep; ResumeContract overwrites it -/
def NatSpec (s s' : CState) (out : List SubMsg) : ExecMsg → Prop
  | .resumeContract n _ _ => s'.st.totalNative = n ∧ trSum s.config.native.staker s.config.proto.ibcDenom out = 0
  | m => (s'.st.totalNative : Int) + setAsideDelta s s' m + sweptDelta s m
          = s.st.totalNative + fwdDelta s.config.native.staker s.config.proto.ibcDenom out m

structure ExecFactsD (s s' : CState) (me : String) (funds : List Coin) (msg : ExecMsg) (out : List SubMsg) : Prop where
  dn : s'.config.proto.ibcDenom = s.config.proto.ibcDenom
  staker : s'.config.native.staker = s.config.native.staker
  owed : (owedD s' : Int) = owedD s + balSum me s.config.proto.ibcDenom out + consumedD s.config.proto.ibcDenom funds msg
            + sweptDelta s msg + paidDelta me s.config.proto.ibcDenom out msg
  loc : locC s.config.native.staker s.config.proto.ibcDenom s'
          + recDelta s.config.native.staker s.config.proto.ibcDenom out msg
        = locC s.config.native.staker s.config.proto.ibcDenom s
  nat : NatSpec s s' out msg

theorem trSum_oracle (S D contract : String) (orc : List SubMsg)
    (h : ∀ x ∈ orc, ∃ o p, x = plain (.wasmExec contract o p)) : trSum S D orc = 0 := by
  induction orc with
  | nil => rfl
  | cons m r ih =>
    obtain ⟨o, p, hm⟩ := h m (by simp)
    have := ih (fun x hx => h x (List.mem_cons_of_mem _ hx))
    subst hm
    simp [trSum, trEff, plain, this]

theorem owedD_congr {s s' : CState} (hb : s'.batches = s.batches) (hf : s'.st.totalFees = s.st.totalFees)
    (hi : s'.inflight = s.inflight) (hd : s'.config.proto.ibcDenom = s.config.proto.ibcDenom) : owedD s' = owedD s := by
  unfold owedD recvSum refundableSum; rw [hb, hf, hi, hd]

theorem locC_congr {s s' : CState} (hi : s'.inflight = s.inflight) (S D : String) : locC S D s' = locC S D s := by
  unfold locC; rw [hi]

/-- the frame for the staked asset -/
theorem execFactsD_frame {s s' : CState} {me : String} {funds : List Coin} {msg : ExecMsg} {out : List SubMsg}
    (hb : s'.batches = s.batches) (hf : s'.st.totalFees = s.st.totalFees) (hi : s'.inflight = s.inflight)
    (hd : s'.config.proto.ibcDenom = s.config.proto.ibcDenom) (hs : s'.config.native.staker = s.config.native.staker)
    (hbal : balSum me s.config.proto.ibcDenom out = 0) (hc : consumedD s.config.proto.ibcDenom funds msg = 0)
    (hsw : sweptDelta s msg = 0) (hp : paidDelta me s.config.proto.ibcDenom out msg = 0)
    (hr : recDelta s.config.native.staker s.config.proto.ibcDenom out msg = 0) (hn : NatSpec s s' out msg) :
    ExecFactsD s s' me funds msg out := by
  refine ⟨hd, hs, ?_, ?_, hn⟩
  · rw [owedD_congr hb hf hi hd, hbal, hc, hsw, hp]; omega
  · rw [locC_congr hi, hr]; omega

/-- LiquidStake -/
theorem factsD_stake {s s' : CState} {env : Env} {info : Info} {mt : Option String} {tn : Option Bool} {ex : Option Nat}
    {out : List SubMsg} {self : String} (hc : CfgInv s) (henv : env.contract = self)
    (hx : execute s env info (.liquidStake mt tn ex) = .ok (s', out)) :
    ExecFactsD s s' self info.funds (.liquidStake mt tn ex) out := by
  have hD : s.config.proto.ibcDenom ≠ s.config.lstDenom := hc.distinct
  have hD' : ¬ s.config.lstDenom = s.config.proto.ibcDenom := fun e => hD e.symm
  simp only [execute, bind_ok] at hx
  obtain ⟨pay, hpay, hx⟩ := hx
  obtain ⟨hfunds, _⟩ := mustPay_ok hpay
  obtain ⟨st, m, id1, orc, _, hsw, _, _, _, hw1, horc, hcase⟩ := liquidStake_eff hx
  obtain ⟨ho1, _⟩ := sums_oracle_w self s.config.proto.ibcDenom env.contract orc horc
  have hfees : (st.totalFees : Int) = s.st.totalFees + sweptDelta s (.liquidStake mt tn ex) := by
    simp only [sweptDelta]
    rcases sweep_eff hsw with ⟨h1, h2, h⟩ | ⟨hn, h⟩
    · subst h; simp [h1, h2]
    · subst h; simp [hn]
  have hto := trSum_oracle s.config.native.staker s.config.proto.ibcDenom env.contract orc horc
  have hnat : (st.totalNative : Int) + sweptDelta s (.liquidStake mt tn ex) = s.st.totalNative := by
    simp only [sweptDelta]
    rcases sweep_eff hsw with ⟨h1, h2, h⟩ | ⟨hn, h⟩
    · subst h; simp [h1, h2]
    · subst h; simp [hn]
  rcases hcase with ⟨_, hs', hout⟩ | ⟨_, hw2, hs', hout⟩
  · subst hs' hout
    refine ⟨rfl, rfl, ?_, ?_, ?_⟩
    rotate_left 2
    · simp only [NatSpec, setAsideDelta, fwdDelta, trSum_append, trSum, trEff, plain, transferSub, hto, and_self, ↓reduceIte]
      omega
    · have hb : balSum self s.config.proto.ibcDenom ([plain (.mint env.contract s.config.lstDenom m env.contract)] ++ orc
          ++ [transferSub s env id1 s.config.native.staker ⟨s.config.proto.ibcDenom, pay⟩]
          ++ [plain (.msgSend env.contract (mt.getD info.sender) [⟨s.config.lstDenom, m⟩])]) = -(pay : Int) := by
        simp only [balSum_append, balSum, balEff, plain, transferSub, ho1, hD', henv, coinSum, and_false, ↓reduceIte]
        split <;> omega
      simp only [owedD, recvSum, refundableSum, hb, consumedD, hfunds, coinSum, paidDelta, ↓reduceIte]
      omega
    · simp [locC, recDelta]
  · subst hs' hout
    refine ⟨rfl, rfl, ?_, ?_, ?_⟩
    rotate_left 2
    · simp only [NatSpec, setAsideDelta, fwdDelta, trSum_append, trSum, trEff, plain, transferSub, hto, hD', false_and,
        and_self, ↓reduceIte]
      omega
    · have hb : balSum self s.config.proto.ibcDenom ([plain (.mint env.contract s.config.lstDenom m env.contract)] ++ orc
          ++ [transferSub s env id1 s.config.native.staker ⟨s.config.proto.ibcDenom, pay⟩]
          ++ [transferSub s env (id1 + 1) (mt.getD info.sender) ⟨s.config.lstDenom, m⟩]) = -(pay : Int) := by
        simp only [balSum_append, balSum, balEff, plain, transferSub, ho1, hD', henv, and_false, ↓reduceIte]
        omega
      simp only [owedD, recvSum, refundableSum, hb, consumedD, hfunds, coinSum, paidDelta, ↓reduceIte]
      omega
    · simp [locC, recDelta]

/-- LiquidUnstake -/
theorem factsD_unstake {s s' : CState} {env : Env} {info : Info} {out : List SubMsg} {self : String}
    (hi : CInv s) (hx : execute s env info .liquidUnstake = .ok (s', out)) :
    ExecFactsD s s' self info.funds .liquidUnstake out := by
  simp only [execute, bind_ok] at hx
  obtain ⟨a, _, hx⟩ := hx
  obtain ⟨ho, _, b, hb, hs'⟩ := liquidUnstake_eff hx
  subst hs' ho
  have hst := (hi.pend b hb).1
  have hsum := AMap.sumBy_insert_old recvAmt hi.sortedB (grown b a (findReq s.reqs s.pendingId info.sender).isNone) b hb
  have h0 : recvAmt b = 0 := by simp [recvAmt, hst]
  have h1 : recvAmt (grown b a (findReq s.reqs s.pendingId info.sender).isNone) = 0 := by simp [recvAmt, grown, hst]
  refine ⟨rfl, rfl, ?_, ?_, by simp [NatSpec, setAsideDelta, sweptDelta, fwdDelta, trSum]⟩
  · simp only [owedD, recvSum, refundableSum, balSum, consumedD, sweptDelta, paidDelta]
    omega
  · simp [locC, recDelta]

/-- SubmitBatch -/
theorem factsD_submit {s s' : CState} {env : Env} {info : Info} {out : List SubMsg} {self : String}
    (hi : CInv s) (hc : CfgInv s) (hx : execute s env info .submitBatch = .ok (s', out)) :
    ExecFactsD s s' self info.funds .submitBatch out := by
  have hD' : ¬ s.config.lstDenom = s.config.proto.ibcDenom := fun e => hc.distinct e.symm
  simp only [execute] at hx
  obtain ⟨batch, unbond, orc, _, hb, _, _, hL, hu, horc, hs', hout⟩ := submitBatch_eff hx
  obtain ⟨ho1, _⟩ := sums_oracle_w self s.config.proto.ibcDenom env.contract orc horc
  have hto := trSum_oracle s.config.native.staker s.config.proto.ibcDenom env.contract orc horc
  have hule : unbond ≤ s.st.totalNative := by
    unfold computeUnbond at hu
    split at hu
    · cases hu; omega
    · simp only [mulRatio_ok] at hu
      obtain ⟨_, _, hu⟩ := hu; subst hu
      apply Nat.div_le_of_le_mul
      rw [Nat.mul_comm s.st.totalLst]
      exact Nat.mul_le_mul_left _ hL
  have hid : batch.id = s.pendingId := hi.idKey _ _ hb
  have hst := (hi.pend batch hb).1
  subst hs' hout
  have hnone : s.batches.find? (batch.id + 1) = none := by
    cases hf : s.batches.find? (batch.id + 1) with
    | none => rfl
    | some x =>
      have := (hi.keys (batch.id + 1)).mp (by simp [hf])
      omega
  have h1 := AMap.sumBy_insert_new recvAmt (Batch.new (batch.id + 1) 0 (env.seconds + s.config.batchPeriod)) hnone
  have hb' : (s.batches.insert (batch.id + 1) (Batch.new (batch.id + 1) 0 (env.seconds + s.config.batchPeriod))).find? batch.id
      = some batch := by
    have hne : batch.id ≠ batch.id + 1 := by omega
    rw [AMap.find?_insert_other _ _ _ _ hne, hid]; exact hb
  have h2 := AMap.sumBy_insert_old recvAmt (AMap.sorted_insert hi.sortedB _ _)
    (({ batch with expected := some unbond }).updateStatus .submitted (some (env.seconds + s.config.native.unbondingPeriod)))
    batch hb'
  have e0 : recvAmt batch = 0 := by simp [recvAmt, hst]
  have e1 : recvAmt (Batch.new (batch.id + 1) 0 (env.seconds + s.config.batchPeriod)) = 0 := by simp [recvAmt, Batch.new]
  have e2 : recvAmt (({ batch with expected := some unbond }).updateStatus .submitted
      (some (env.seconds + s.config.native.unbondingPeriod))) = 0 := by simp [recvAmt, Batch.updateStatus]
  refine ⟨rfl, rfl, ?_, ?_, ?_⟩
  rotate_left 2
  · simp only [NatSpec, setAsideDelta, sweptDelta, fwdDelta, trSum_append, trSum, trEff, plain, hto, ← hid,
      AMap.find?_insert_self, Option.bind_some, Batch.updateStatus, Option.getD_some, checkedSub, hule, ↓reduceIte]
    omega
  · have hbal : balSum self s.config.proto.ibcDenom
        ([plain (.burn env.contract s.config.lstDenom batch.total env.contract)] ++ orc) = 0 := by
      simp only [balSum_append, balSum, balEff, plain, ho1, hD', and_false, ↓reduceIte]; omega
    simp only [owedD, recvSum, refundableSum, hbal, consumedD, sweptDelta, paidDelta]
    omega
  · simp [locC, recDelta]

/-- Withdraw -/
theorem factsD_withdraw {s s' : CState} {env : Env} {info : Info} {b : Nat} {out : List SubMsg} {self : String}
    (hx : execute s env info (.withdraw b) = .ok (s', out)) :
    ExecFactsD s s' self info.funds (.withdraw b) out := by
  simp only [execute] at hx
  obtain ⟨batch, recv, req, orc, _, _, _, _, _, _, horc, hs', hout⟩ := withdraw_eff hx
  have hto := trSum_oracle s.config.native.staker s.config.proto.ibcDenom env.contract orc horc
  subst hs' hout
  refine ⟨rfl, rfl, ?_, ?_, by simp [NatSpec, setAsideDelta, sweptDelta, fwdDelta, trSum_append, trSum, trEff, plain, hto]⟩
  · simp only [owedD, recvSum, refundableSum, consumedD, sweptDelta, paidDelta]
    omega
  · simp [locC, recDelta]

/-- ReceiveRewards -/
theorem factsD_rewards {s s' : CState} {env : Env} {info : Info} {out : List SubMsg} {self : String}
    (hok : s.config.feeCfg.treasury ≠ some self) (hx : execute s env info .receiveRewards = .ok (s', out)) :
    ExecFactsD s s' self info.funds .receiveRewards out := by
  simp only [execute] at hx
  obtain ⟨reward, fee, id, orc, _, _, _, hcoin, _, hle, _, horc, hs', hout⟩ := receiveRewards_eff hx
  obtain ⟨ho1, _⟩ := sums_oracle_w self s.config.proto.ibcDenom env.contract orc horc
  have hto := trSum_oracle s.config.native.staker s.config.proto.ibcDenom env.contract orc horc
  have htt : trSum s.config.native.staker s.config.proto.ibcDenom (treasuryMsgs s.config fee) = 0 := by
    unfold treasuryMsgs; split <;> simp [trSum, trEff, plain]
  subst hs' hout
  refine ⟨rfl, rfl, ?_, ?_, ?_⟩
  rotate_left 2
  · simp only [NatSpec, setAsideDelta, sweptDelta, fwdDelta, trSum_append, trSum, trEff, transferSub, hto, htt, and_self,
      ↓reduceIte]
    omega
  · have hb : balSum self s.config.proto.ibcDenom (orc ++ [transferSub s env id s.config.native.staker
          ⟨s.config.proto.ibcDenom, reward.amount - fee⟩] ++ treasuryMsgs s.config fee)
        = -((reward.amount - fee : Nat) : Int) - (if s.config.feeCfg.treasury.isNone then 0 else (fee : Int)) := by
      simp only [balSum_append, balSum, balEff, transferSub, ho1, ↓reduceIte]
      unfold treasuryMsgs
      cases ht : s.config.feeCfg.treasury with
      | none => simp [balSum]
      | some t =>
        have : ¬ t = self := fun e => hok (by rw [ht, e])
        simp only [balSum, balEff, plain, coinSum, this, ↓reduceIte, Option.isNone_some, Bool.false_eq_true]
        omega
    simp only [owedD, recvSum, refundableSum, hb, consumedD, hcoin, Option.map_some, Option.getD_some, sweptDelta, paidDelta]
    split <;> omega
  · simp [locC, recDelta]

/-- ReceiveUnstakedTokens -/
theorem factsD_receive {s s' : CState} {env : Env} {info : Info} {b : Nat} {out : List SubMsg} {self : String}
    (hi : CInv s) (hx : execute s env info (.receiveUnstakedTokens b) = .ok (s', out)) :
    ExecFactsD s s' self info.funds (.receiveUnstakedTokens b) out := by
  simp only [execute] at hx
  obtain ⟨coin, batch, t, ho, _, _, hcoin, hb, hst, _, _, hs'⟩ := receiveUnstaked_eff hx
  subst hs' ho
  have hk : batch.id = b := hi.idKey _ _ hb
  rw [← hk] at hb
  have hsum := AMap.sumBy_insert_old recvAmt hi.sortedB
    ({ batch with received := some coin.amount, status := .received, nextAction := none }) batch hb
  have e0 : recvAmt batch = 0 := by simp [recvAmt, hst]
  have e1 : recvAmt ({ batch with received := some coin.amount, status := .received, nextAction := none }) = coin.amount := by
    simp [recvAmt]
  refine ⟨rfl, rfl, ?_, ?_, by simp [NatSpec, setAsideDelta, sweptDelta, fwdDelta, trSum]⟩
  · simp only [owedD, recvSum, refundableSum, balSum, consumedD, hcoin, Option.map_some, Option.getD_some, sweptDelta, paidDelta]
    omega
  · simp [locC, recDelta]

/-- RecoverPendingIbcTransfers (unforced) -/
theorem factsD_recover {s s' : CState} {env : Env} {info : Info} {pg : Option Bool} {rc : Option String}
    {out : List SubMsg} {self : String} (hi : CInv s)
    (hx : execute s env info (.recover pg none rc) = .ok (s', out)) :
    ExecFactsD s s' self info.funds (.recover pg none rc) out := by
  obtain ⟨recv, denom, total, id, hout, hcfg, hst, hb, hpid, _, _, _, hsum⟩ := recover_core hi hx
  have h1 := hsum (fun d _ => decide (d = s.config.proto.ibcDenom))
  rw [← refundedAmt_eq_refW] at h1
  have h2 := hsum (fun d r => d == s.config.proto.ibcDenom && r == s.config.native.staker)
  subst hout
  refine ⟨by rw [hcfg], by rw [hcfg], ?_, ?_, by simp [NatSpec, setAsideDelta, sweptDelta, fwdDelta, hst]⟩
  · have hbal : balSum self s.config.proto.ibcDenom [transferSub s env id recv ⟨denom, total⟩]
        = if denom = s.config.proto.ibcDenom then -(total : Int) else 0 := by
      simp [balSum, balEff, transferSub]
    simp only [owedD, recvSum, refundableSum, hbal, consumedD, sweptDelta, paidDelta, hb, hst, hcfg]
    simp only [decide_eq_true_eq] at h1
    split
    · rename_i hd; simp only [hd, ↓reduceIte] at h1; omega
    · rename_i hd; simp only [hd, ↓reduceIte] at h1; omega
  · simp only [locC, recDelta, trSum, trEff, transferSub, Nat.add_zero]
    simp only [Bool.and_eq_true, beq_iff_eq] at h2
    split
    · rename_i hc; simp only [hc, and_self, ↓reduceIte] at h2; omega
    · rename_i hc; simp only [hc, ↓reduceIte] at h2; omega

theorem validateAddress_eq {a p v : String} (h : validateAddress a p = .ok v) : v = a := by
  unfold validateAddress at h; (repeat' split at h) <;> simp_all

/-- every successful `execute` under the honest-environment conditions: the staked-asset bookkeeping -/
theorem execute_factsD {s s' : CState} {env : Env} {info : Info} {m : ExecMsg} {out : List SubMsg} {self : String}
    (hi : CInv s) (hc : CfgInv s) (henv : env.contract = self) (hok : MsgOKc s self info.sender m)
    (hx : execute s env info m = .ok (s', out)) : ExecFactsD s s' self info.funds m out := by
  cases m
  case liquidStake mt tn ex => exact factsD_stake hc henv hx
  case liquidUnstake => exact factsD_unstake hi hx
  case submitBatch => exact factsD_submit hi hc hx
  case withdraw b => exact factsD_withdraw hx
  case receiveRewards => exact factsD_rewards hok hx
  case receiveUnstakedTokens b => exact factsD_receive hi hx
  case recover pg sel rc =>
    have : sel = none := hok
    subst this
    exact factsD_recover hi hx
  case addValidator v =>
    simp only [execute] at hx
    obtain ⟨ho, _, _, _, hs'⟩ := addValidator_eff hx; subst hs' ho
    exact execFactsD_frame rfl rfl rfl rfl rfl rfl rfl rfl rfl rfl (by simp [NatSpec, setAsideDelta, sweptDelta, fwdDelta, trSum, setOwn])
  case removeValidator v =>
    simp only [execute] at hx
    obtain ⟨ho, _, _, hs'⟩ := removeValidator_eff hx; subst hs' ho
    exact execFactsD_frame rfl rfl rfl rfl rfl rfl rfl rfl rfl rfl (by simp [NatSpec, setAsideDelta, sweptDelta, fwdDelta, trSum, setOwn])
  case transferOwnership n =>
    simp only [execute] at hx
    obtain ⟨ho, o, _, hs'⟩ := transferOwnership_eff hx; subst hs' ho
    exact execFactsD_frame rfl rfl rfl rfl rfl rfl rfl rfl rfl rfl (by simp [NatSpec, setAsideDelta, sweptDelta, fwdDelta, trSum, setOwn])
  case acceptOwnership =>
    simp only [execute] at hx
    obtain ⟨ho, o, _, hs'⟩ := acceptOwnership_eff hx; subst hs' ho
    exact execFactsD_frame rfl rfl rfl rfl rfl rfl rfl rfl rfl rfl (by simp [NatSpec, setAsideDelta, sweptDelta, fwdDelta, trSum, setOwn])
  case revokeOwnershipTransfer =>
    simp only [execute] at hx
    obtain ⟨ho, o, _, hs'⟩ := revokeOwnership_eff hx; subst hs' ho
    exact execFactsD_frame rfl rfl rfl rfl rfl rfl rfl rfl rfl rfl (by simp [NatSpec, setAsideDelta, sweptDelta, fwdDelta, trSum, setOwn])
  case updateConfig n p f mo bp =>
    simp only [execute] at hx
    obtain ⟨ho, _, nat', proto', fee', mons', bp', hn, hp, _, _, _, hs'⟩ := updateConfig_eff hx
    subst hs' ho
    have hden : proto'.ibcDenom = s.config.proto.ibcDenom := by
      rcases optValidate_eff hp with ⟨_, hp'⟩ | ⟨c, hc', hp'⟩
      · subst hp'; rfl
      · unfold UnsafeProto.validate at hp'
        simp only [bind_ok, pure_ok, ensure_ok] at hp'
        obtain ⟨_, _, _, _, den, hden, _, _, hp'⟩ := hp'
        subst hp'
        have : den = c.ibcDenom := by
          unfold validateIbcDenom at hden; split at hden <;> simp_all
        simp only [this]
        exact (hok.1 c hc').2
    have hstk : nat'.staker = s.config.native.staker := by
      rcases optValidate_eff hn with ⟨_, hn'⟩ | ⟨c, hc', hn'⟩
      · subst hn'; rfl
      · unfold UnsafeNative.validate at hn'
        simp only [bind_ok, pure_ok] at hn'
        obtain ⟨_, _, _, _, _, _, _, _, _, _, stk, hstk, _, _, hn'⟩ := hn'
        subst hn'
        simp only [validateAddress_eq hstk]
        exact hok.2 c hc'
    exact execFactsD_frame rfl rfl rfl hden hstk rfl rfl rfl rfl rfl (by simp [NatSpec, setAsideDelta, sweptDelta, fwdDelta, trSum])
  case circuitBreaker =>
    simp only [execute] at hx
    unfold circuitBreaker at hx
    simp only [bind_ok, pure_ok] at hx
    obtain ⟨_, _, hx⟩ := hx; cases hx
    exact execFactsD_frame rfl rfl rfl rfl rfl rfl rfl rfl rfl rfl (by simp [NatSpec, setAsideDelta, sweptDelta, fwdDelta, trSum, setOwn])
  case resumeContract n l r =>
    simp only [execute] at hx
    unfold resumeContract at hx
    simp only [bind_ok, pure_ok] at hx
    obtain ⟨_, _, orc, ho, hx⟩ := hx; cases hx
    obtain ⟨ho1, _⟩ := sums_oracle_w self s.config.proto.ibcDenom env.contract out (oracle_msgs_shape ho)
    exact execFactsD_frame rfl rfl rfl rfl rfl ho1 rfl rfl rfl rfl
      ⟨rfl, trSum_oracle _ _ env.contract out (oracle_msgs_shape ho)⟩
  case feeWithdraw a =>
    have hok' : s.config.feeCfg.treasury ≠ some self := hok
    simp only [execute] at hx
    unfold feeWithdraw at hx
    simp only [bind_ok, pure_ok, ensure_ok, loadSome_ok] at hx
    obtain ⟨_, _, _, hle, t, ht, hx⟩ := hx; cases hx
    have hts : ¬ t = self := fun e => hok' (by rw [ht, e])
    refine ⟨rfl, rfl, ?_, by simp [locC, recDelta], by simp [NatSpec, setAsideDelta, sweptDelta, fwdDelta, trSum, trEff, plain]⟩
    have hle' : a ≤ s.st.totalFees := by simpa using hle
    simp only [owedD, recvSum, refundableSum, balSum, balEff, plain, coinSum, hts, ↓reduceIte, consumedD, sweptDelta, paidDelta]
    omega

end MW.Chain
