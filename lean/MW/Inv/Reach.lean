import MW.Inv.Contract
/-!
# Reachable contract states and the shape of every change to the batch table
-/
namespace MW.Staking
open MW

/-- an entry-point call made by the chain (any account, any message, any time) -/
inductive CEv where
  | exec (env : Env) (info : Info) (msg : ExecMsg)
  | reply (id : Nat) (res : ReplyResult)
  | sudo (msg : SudoMsg)
deriving Repr

/-- a failing call leaves the store as it was (runtime atomicity) -/
def cstep (s : CState) : CEv → CState
  | .exec env info msg => match execute s env info msg with | .ok r => r.1 | .error _ => s
  | .reply id res => match reply s id res with | .ok r => r.1 | .error _ => s
  | .sudo m => match sudo s m with | .ok r => r.1 | .error _ => s

/-- states reachable from any accepted instantiation by any sequence of calls -/
def CReach (s : CState) : Prop :=
  ∃ env info msg s0 out evs, instantiate env info msg = .ok (s0, out) ∧ s = List.foldl cstep s0 evs

theorem cinv_cstep {s : CState} (h : CInv s) (e : CEv) : CInv (cstep s e) := by
  cases e with
  | exec env info msg =>
    simp only [cstep]; split
    · rename_i r hr; obtain ⟨s', out⟩ := r; exact cinv_execute h hr
    · exact h
  | reply id res =>
    simp only [cstep]; split
    · rename_i r hr; obtain ⟨s', out⟩ := r; exact cinv_reply h hr
    · exact h
  | sudo m =>
    simp only [cstep]; split
    · rename_i r hr; obtain ⟨s', out⟩ := r; exact cinv_sudo h hr
    · exact h

theorem cinv_foldl {s : CState} (h : CInv s) (evs : List CEv) : CInv (List.foldl cstep s evs) := by
  induction evs generalizing s with
  | nil => exact h
  | cons e es ih => exact ih (cinv_cstep h e)

/-- the invariant holds in every reachable state -/
theorem cinv_reach {s : CState} (h : CReach s) : CInv s := by
  obtain ⟨env, info, msg, s0, out, evs, hi, hs⟩ := h
  subst hs
  exact cinv_foldl (cinv_instantiate hi) evs

theorem creach_step {s : CState} (h : CReach s) (e : CEv) : CReach (cstep s e) := by
  obtain ⟨env, info, msg, s0, out, evs, hi, hs⟩ := h
  exact ⟨env, info, msg, s0, out, evs ++ [e], hi, by rw [List.foldl_append, ← hs]; rfl⟩

/-- how one successful `execute` can change the batch table: not at all, or in one of exactly
three ways -/
inductive BatchChange (s s' : CState) (env : Env) (info : Info) : ExecMsg → Prop where
  | none (m : ExecMsg) : s'.batches = s.batches → s'.pendingId = s.pendingId → BatchChange s s' env info m
  | unstake (b : Batch) (a : Nat) (isNew : Bool) :
      s.batches.find? s.pendingId = some b → s'.pendingId = s.pendingId →
      s'.batches = s.batches.insert s.pendingId (grown b a isNew) → BatchChange s s' env info .liquidUnstake
  | submit (batch : Batch) (unbond : Nat) :
      s.config.stopped = false → s.batches.find? s.pendingId = some batch → batchDue batch env.seconds = true →
      s.reqs.any (fun r => r.batch = s.pendingId) = true → batch.total ≤ s.st.totalLst →
      computeUnbond s.st.totalNative s.st.totalLst batch.total = .ok unbond →
      s'.pendingId = batch.id + 1 →
      s'.batches = (s.batches.insert (batch.id + 1) (Batch.new (batch.id + 1) 0 (env.seconds + s.config.batchPeriod))).insert
          batch.id (({ batch with expected := some unbond }).updateStatus .submitted
                      (some (env.seconds + s.config.native.unbondingPeriod))) →
      BatchChange s s' env info .submitBatch
  | receive (bid : Nat) (coin : Coin) (batch : Batch) (t : Nat) :
      s.config.stopped = false →
      deriveIntermediateSender s.config.proto.channel s.config.native.staker s.config.proto.accountPrefix = some info.sender →
      findCoin info.funds s.config.proto.ibcDenom = some coin →
      s.batches.find? bid = some batch → batch.status = .submitted → batch.nextAction = some t → t ≤ env.seconds →
      s'.pendingId = s.pendingId →
      s'.batches = s.batches.insert batch.id ({ batch with received := some coin.amount, status := .received, nextAction := none }) →
      BatchChange s s' env info (.receiveUnstakedTokens bid)

theorem execute_batchChange {s s' : CState} {env : Env} {info : Info} {m : ExecMsg} {out : List SubMsg}
    (hx : execute s env info m = .ok (s', out)) : BatchChange s s' env info m := by
  cases m <;> simp only [execute] at hx
  case liquidStake mt tn ex =>
    simp only [bind_ok] at hx
    obtain ⟨pay, _, hx⟩ := hx
    obtain ⟨_, _, _, _, _, _, _, _, _, _, _, hcase⟩ := liquidStake_eff hx
    rcases hcase with ⟨_, hs', _⟩ | ⟨_, _, hs', _⟩ <;> subst hs' <;> exact .none _ rfl rfl
  case liquidUnstake =>
    simp only [bind_ok] at hx
    obtain ⟨a, _, hx⟩ := hx
    obtain ⟨_, _, b, hb, hs'⟩ := liquidUnstake_eff hx
    subst hs'; exact .unstake b a _ hb rfl rfl
  case submitBatch =>
    obtain ⟨batch, unbond, orc, h1, h2, h3, h4, h5, h6, _, hs', _⟩ := submitBatch_eff hx
    subst hs'; exact .submit batch unbond h1 h2 h3 h4 h5 h6 rfl rfl
  case withdraw b =>
    obtain ⟨_, _, _, _, _, _, _, _, _, _, _, hs', _⟩ := withdraw_eff hx
    subst hs'; exact .none _ rfl rfl
  case addValidator v =>
    obtain ⟨_, _, _, _, hs'⟩ := addValidator_eff hx; subst hs'; exact .none _ rfl rfl
  case removeValidator v =>
    obtain ⟨_, _, _, hs'⟩ := removeValidator_eff hx; subst hs'; exact .none _ rfl rfl
  case transferOwnership n =>
    obtain ⟨_, o, _, hs'⟩ := transferOwnership_eff hx; subst hs'; exact .none _ rfl rfl
  case acceptOwnership =>
    obtain ⟨_, o, _, hs'⟩ := acceptOwnership_eff hx; subst hs'; exact .none _ rfl rfl
  case revokeOwnershipTransfer =>
    obtain ⟨_, o, _, hs'⟩ := revokeOwnership_eff hx; subst hs'; exact .none _ rfl rfl
  case updateConfig n p f mo bp =>
    obtain ⟨_, _, _, _, _, _, _, _, _, _, _, _, hs'⟩ := updateConfig_eff hx; subst hs'; exact .none _ rfl rfl
  case receiveRewards =>
    obtain ⟨_, _, _, _, _, _, _, _, _, _, _, _, hs', _⟩ := receiveRewards_eff hx; subst hs'; exact .none _ rfl rfl
  case receiveUnstakedTokens b =>
    obtain ⟨coin, batch, t, _, h1, h2, h3, h4, h5, h6, h7, hs'⟩ := receiveUnstaked_eff hx
    subst hs'; exact .receive b coin batch t h1 h2 h3 h4 h5 h6 h7 rfl rfl
  case circuitBreaker =>
    unfold circuitBreaker at hx
    simp only [bind_ok, pure_ok] at hx
    obtain ⟨_, _, hx⟩ := hx; cases hx; exact .none _ rfl rfl
  case resumeContract n l r =>
    unfold resumeContract at hx
    simp only [bind_ok, pure_ok] at hx
    obtain ⟨_, _, _, _, hx⟩ := hx; cases hx; exact .none _ rfl rfl
  case recover pg sel rc =>
    obtain ⟨_, _, _, _, _, _, _, _, _, _, _, _, _, _, hs', _⟩ := recover_eff hx
    subst hs'; exact .none _ rfl rfl
  case feeWithdraw a =>
    unfold feeWithdraw at hx
    simp only [bind_ok, pure_ok] at hx
    obtain ⟨_, _, _, _, _, _, hx⟩ := hx; cases hx; exact .none _ rfl rfl

theorem reply_batches {s s' : CState} {id : Nat} {res : ReplyResult} {out : List SubMsg}
    (h : reply s id res = .ok (s', out)) : s'.batches = s.batches ∧ s'.pendingId = s.pendingId ∧ s'.reqs = s.reqs := by
  obtain ⟨_, _, _, _, _, hs'⟩ := reply_eff h; subst hs'; exact ⟨rfl, rfl, rfl⟩

theorem sudo_batches {s s' : CState} {m : SudoMsg} {out : List SubMsg}
    (h : sudo s m = .ok (s', out)) : s'.batches = s.batches ∧ s'.pendingId = s.pendingId ∧ s'.reqs = s.reqs := by
  obtain ⟨_, _, hs'⟩ := sudo_eff h; subst hs'; exact ⟨rfl, rfl, rfl⟩

end MW.Staking
