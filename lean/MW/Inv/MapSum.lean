import MW.Inv.Contract
/-!
# Sums over a sorted map, and how `insert` / `erase` / `erasePackets` change them

Used by the ledger invariants over the chain model (what the contract owes is a sum over its
packet table).
-/
namespace MW.AMap
variable {α : Type}

/-- Σ f v over the entries -/
def sumBy (f : α → Nat) : AMap α → Nat
  | [] => 0
  | (_, v) :: rest => f v + sumBy f rest

@[simp] theorem sumBy_nil (f : α → Nat) : sumBy f ([] : AMap α) = 0 := rfl

theorem find?_none_of_lt {m : AMap α} {k : Nat} (h : ∀ x ∈ m, k < x.1) : m.find? k = none := by
  induction m with
  | nil => rfl
  | cons kv rest ih =>
    obtain ⟨k', v'⟩ := kv
    have h1 : k < k' := h (k', v') (by simp)
    have : ¬ k' = k := by omega
    simp only [find?, this, ↓reduceIte]
    exact ih (fun x hx => h x (List.mem_cons_of_mem _ hx))

theorem erase_of_find?_none {m : AMap α} {k : Nat} (h : m.find? k = none) : m.erase k = m := by
  unfold erase
  induction m with
  | nil => rfl
  | cons kv rest ih =>
    obtain ⟨k', v'⟩ := kv
    simp only [find?] at h
    split at h
    · cases h
    · rename_i hne
      simp only [List.filter_cons, hne, decide_false, Bool.not_false, ↓reduceIte]
      rw [ih h]

theorem sumBy_insert_new (f : α → Nat) {m : AMap α} {k : Nat} (v : α) (h : m.find? k = none) :
    sumBy f (m.insert k v) = sumBy f m + f v := by
  induction m with
  | nil => simp [insert, sumBy]
  | cons kv rest ih =>
    obtain ⟨k', v'⟩ := kv
    simp only [find?] at h
    split at h
    · cases h
    · rename_i hne
      simp only [insert]
      split
      · simp only [sumBy]; omega
      · split
        · rename_i _ heq; exact absurd heq.symm hne
        · simp only [sumBy, ih h]; omega

theorem sumBy_insert_old (f : α → Nat) {m : AMap α} (hs : Sorted m) {k : Nat} (v v0 : α) (h : m.find? k = some v0) :
    sumBy f (m.insert k v) + f v0 = sumBy f m + f v := by
  induction m with
  | nil => simp [find?] at h
  | cons kv rest ih =>
    obtain ⟨k', v'⟩ := kv
    obtain ⟨h1, h2⟩ := sorted_cons.mp hs
    simp only [insert]
    split
    · rename_i hlt
      -- k < k' ≤ every key: not found
      have : find? ((k', v') :: rest) k = none := by
        apply find?_none_of_lt
        intro x hx
        simp only [List.mem_cons] at hx
        rcases hx with hx | hx
        · rw [hx]; exact hlt
        · exact Nat.lt_trans hlt (h1 x hx)
      rw [this] at h; cases h
    · split
      · rename_i _ heq
        subst heq
        simp only [find?, ↓reduceIte, Option.some.injEq] at h
        subst h
        simp only [sumBy]; omega
      · rename_i _ hne
        have hne' : ¬ k' = k := fun e => hne e.symm
        simp only [find?, hne', ↓reduceIte] at h
        have := ih h2 h
        simp only [sumBy]; omega

theorem sumBy_erase_old (f : α → Nat) {m : AMap α} (hs : Sorted m) {k : Nat} (v0 : α) (h : m.find? k = some v0) :
    sumBy f (m.erase k) + f v0 = sumBy f m := by
  induction m with
  | nil => simp [find?] at h
  | cons kv rest ih =>
    obtain ⟨k', v'⟩ := kv
    obtain ⟨h1, h2⟩ := sorted_cons.mp hs
    by_cases hk : k' = k
    · subst hk
      simp only [find?, ↓reduceIte, Option.some.injEq] at h
      subst h
      have hr : erase rest k' = rest := erase_of_find?_none (find?_none_of_lt h1)
      have : erase ((k', v') :: rest) k' = erase rest k' := by
        simp [erase]
      rw [this, hr]
      simp only [sumBy]; omega
    · simp only [find?, hk, ↓reduceIte] at h
      have := ih h2 h
      have he : erase ((k', v') :: rest) k = (k', v') :: erase rest k := by
        simp [erase, hk]
      rw [he]
      simp only [sumBy]; omega

end MW.AMap

namespace MW.Staking
open MW

/-- erasing a duplicate-free list of packets that are all present removes exactly their contributions -/
theorem sumBy_erasePackets (f : Packet → Nat) {m : AMap Packet} (hs : m.Sorted) (ps : List Packet)
    (hnd : (ps.map (·.seq)).Nodup) (hf : ∀ p ∈ ps, m.find? p.seq = some p) :
    AMap.sumBy f (erasePackets m ps) + (ps.map f).sum = AMap.sumBy f m := by
  induction ps generalizing m with
  | nil => simp [erasePackets]
  | cons p rest ih =>
    have hp := hf p (by simp)
    simp only [List.map_cons, List.nodup_cons] at hnd
    have hrest : ∀ q ∈ rest, (m.erase p.seq).find? q.seq = some q := by
      intro q hq
      have hne : q.seq ≠ p.seq := by
        intro e
        exact hnd.1 (by rw [← e]; exact List.mem_map.mpr ⟨q, hq, rfl⟩)
      rw [AMap.find?_erase_other _ _ _ hne]
      exact hf q (List.mem_cons_of_mem _ hq)
    have h1 := ih (AMap.sorted_erase hs p.seq) hnd.2 hrest
    have h2 := AMap.sumBy_erase_old f hs p hp
    have he : erasePackets m (p :: rest) = erasePackets (m.erase p.seq) rest := by
      simp [erasePackets]
    rw [he]
    simp only [List.map_cons, List.sum_cons]
    omega

/-- an entry not among the erased ones survives `erasePackets` -/
theorem find?_erasePackets_other {m : AMap Packet} (ps : List Packet) (k : Nat)
    (h : ∀ p ∈ ps, p.seq ≠ k) : (erasePackets m ps).find? k = m.find? k := by
  induction ps generalizing m with
  | nil => rfl
  | cons p rest ih =>
    have he : erasePackets m (p :: rest) = erasePackets (m.erase p.seq) rest := by
      simp [erasePackets]
    rw [he, ih (fun q hq => h q (List.mem_cons_of_mem _ hq))]
    exact AMap.find?_erase_other _ _ _ (fun e => h p (by simp) e.symm)

end MW.Staking
