import MW.Inv.Reach
/-!
# Requests and received batches along histories (helper lemmas for C05)

* `execute_reqs`: the only ways one successful call changes the request table;
* `received_batch_stable`: a batch that is Received is never changed again by any call;
* `req_step`: the request of `(k, u)` in a non-pending batch is untouched by every call except a
  successful `Withdraw {k}` by `u` itself, which deletes it;
* `payoutsOf` / `payouts_fixed`: along *every* sequence of calls after a batch became Received, what
  a requester is paid from it is: nothing yet (the request is still there, unchanged), or exactly one
  payment of `floor(received × own / total)` (and the request is gone for good).
-/
namespace MW.Staking
open MW

theorem findReq_removeReq_self (reqs : List Req) (b : Nat) (u : String) : findReq (removeReq reqs b u) b u = none := by
  unfold findReq removeReq
  rw [List.find?_eq_none]
  intro r hr
  simp only [List.mem_filter] at hr
  have h2 := hr.2
  simp only [Bool.not_eq_true'] at h2
  simp [h2]

theorem findReq_removeReq_ne (reqs : List Req) (b b' : Nat) (u u' : String) (h : ¬ (b' = b ∧ u' = u)) :
    findReq (removeReq reqs b u) b' u' = findReq reqs b' u' := by
  unfold findReq removeReq
  induction reqs with
  | nil => rfl
  | cons r rest ih =>
    simp only [List.filter_cons]
    by_cases hk : (r.batch = b ∧ r.user = u)
    · have : (!(decide (r.batch = b) && decide (r.user = u))) = false := by simp [hk.1, hk.2]
      rw [this]; simp only [Bool.false_eq_true, ↓reduceIte]
      rw [ih, List.find?_cons]
      have : (decide (r.batch = b') && decide (r.user = u')) = false := by
        simp only [Bool.and_eq_false_iff, decide_eq_false_iff_not]
        by_cases h1 : r.batch = b'
        · right; intro h2; exact h ⟨by rw [← h1, hk.1], by rw [← h2, hk.2]⟩
        · left; exact h1
      rw [this]
    · have : (!(decide (r.batch = b) && decide (r.user = u))) = true := by
        simp only [Bool.not_eq_true', Bool.and_eq_false_iff, decide_eq_false_iff_not]
        by_cases h1 : r.batch = b
        · right; intro h2; exact hk ⟨h1, h2⟩
        · left; exact h1
      rw [this]; simp only [↓reduceIte, List.find?_cons]
      rw [ih]

theorem findReq_setReqAmount_otherBatch (reqs : List Req) (p k : Nat) (u u' : String) (a : Nat) (h : k ≠ p) :
    findReq (setReqAmount reqs p u a) k u' = findReq reqs k u' := by
  unfold findReq setReqAmount
  induction reqs with
  | nil => rfl
  | cons r rest ih =>
    simp only [List.map_cons, List.find?_cons]
    by_cases hr : (decide (r.batch = p) && decide (r.user = u)) = true
    · simp only [hr, ↓reduceIte]
      simp only [Bool.and_eq_true, decide_eq_true_eq] at hr
      have h1 : (decide (r.batch = k) && decide (r.user = u')) = false := by
        simp only [Bool.and_eq_false_iff, decide_eq_false_iff_not]; left; rw [hr.1]; exact fun hc => h hc.symm
      simp only [h1]
      exact ih
    · have hr' : (decide (r.batch = p) && decide (r.user = u)) = false := by simpa using hr
      simp only [hr', Bool.false_eq_true, ↓reduceIte]
      split
      · rfl
      · exact ih

theorem findReq_reqsAfterUnstake_otherBatch (reqs : List Req) (p k : Nat) (u u' : String) (a : Nat) (h : k ≠ p) :
    findReq (reqsAfterUnstake reqs p u a) k u' = findReq reqs k u' := by
  unfold reqsAfterUnstake
  split
  · exact findReq_setReqAmount_otherBatch _ _ _ _ _ _ h
  · unfold findReq
    rw [List.find?_append]
    have : List.find? (fun r => decide (r.batch = k) && decide (r.user = u')) [({ batch := p, user := u, amount := a } : Req)] = none := by
      simp only [List.find?_cons, List.find?_nil]
      have : (decide (p = k) && decide (u = u')) = false := by
        simp only [Bool.and_eq_false_iff, decide_eq_false_iff_not]; left; exact fun hc => h hc.symm
      simp [this]
    rw [this]; simp

/-- the only ways one successful `execute` changes the request table -/
theorem execute_reqs {s s' : CState} {env : Env} {info : Info} {m : ExecMsg} {out : List SubMsg}
    (hx : execute s env info m = .ok (s', out)) :
    s'.reqs = s.reqs
    ∨ (∃ a, m = .liquidUnstake ∧ s'.reqs = reqsAfterUnstake s.reqs s.pendingId info.sender a)
    ∨ (∃ b batch recv req, m = .withdraw b ∧ s.batches.find? b = some batch ∧ batch.status = .received
        ∧ batch.received = some recv ∧ findReq s.reqs batch.id info.sender = some req ∧ batch.total ≠ 0
        ∧ s'.reqs = removeReq s.reqs batch.id info.sender
        ∧ ∃ orc, out = [plain (.msgSend env.contract info.sender [⟨s.config.proto.ibcDenom, recv * req.amount / batch.total⟩])] ++ orc
            ∧ ∀ x ∈ orc, ∃ o p, x = plain (.wasmExec env.contract o p)) := by
  cases m <;> simp only [execute] at hx
  case liquidStake mt tn ex =>
    simp only [bind_ok] at hx
    obtain ⟨pay, _, hx⟩ := hx
    obtain ⟨_, _, _, _, _, _, _, _, _, _, _, hcase⟩ := liquidStake_eff hx
    rcases hcase with ⟨_, hs', _⟩ | ⟨_, _, hs', _⟩ <;> subst hs' <;> exact .inl rfl
  case liquidUnstake =>
    simp only [bind_ok] at hx
    obtain ⟨a, _, hx⟩ := hx
    obtain ⟨_, _, b, hb, hs'⟩ := liquidUnstake_eff hx
    subst hs'; exact .inr (.inl ⟨a, rfl, rfl⟩)
  case submitBatch =>
    obtain ⟨batch, unbond, orc, h1, h2, h3, h4, h5, h6, _, hs', _⟩ := submitBatch_eff hx
    subst hs'; exact .inl rfl
  case withdraw b =>
    obtain ⟨batch, recv, req, orc, _, hb, hst, hrecv, hreq, hT, horc, hs', hout⟩ := withdraw_eff hx
    subst hs'
    exact .inr (.inr ⟨b, batch, recv, req, rfl, hb, hst, hrecv, hreq, hT, rfl, orc, hout, horc⟩)
  case addValidator v =>
    obtain ⟨_, _, _, _, hs'⟩ := addValidator_eff hx; subst hs'; exact .inl rfl
  case removeValidator v =>
    obtain ⟨_, _, _, hs'⟩ := removeValidator_eff hx; subst hs'; exact .inl rfl
  case transferOwnership n =>
    obtain ⟨_, o, _, hs'⟩ := transferOwnership_eff hx; subst hs'; exact .inl rfl
  case acceptOwnership =>
    obtain ⟨_, o, _, hs'⟩ := acceptOwnership_eff hx; subst hs'; exact .inl rfl
  case revokeOwnershipTransfer =>
    obtain ⟨_, o, _, hs'⟩ := revokeOwnership_eff hx; subst hs'; exact .inl rfl
  case updateConfig n p f mo bp =>
    obtain ⟨_, _, _, _, _, _, _, _, _, _, _, _, hs'⟩ := updateConfig_eff hx; subst hs'; exact .inl rfl
  case receiveRewards =>
    obtain ⟨_, _, _, _, _, _, _, _, _, _, _, _, hs', _⟩ := receiveRewards_eff hx; subst hs'; exact .inl rfl
  case receiveUnstakedTokens b =>
    obtain ⟨coin, batch, t, _, h1, h2, h3, h4, h5, h6, h7, hs'⟩ := receiveUnstaked_eff hx
    subst hs'; exact .inl rfl
  case circuitBreaker =>
    unfold circuitBreaker at hx
    simp only [bind_ok, pure_ok] at hx
    obtain ⟨_, _, hx⟩ := hx; cases hx; exact .inl rfl
  case resumeContract n l r =>
    unfold resumeContract at hx
    simp only [bind_ok, pure_ok] at hx
    obtain ⟨_, _, _, _, hx⟩ := hx; cases hx; exact .inl rfl
  case recover pg sel rc =>
    obtain ⟨_, _, _, _, _, _, _, _, _, _, _, _, _, _, hs', _⟩ := recover_eff hx
    subst hs'; exact .inl rfl
  case feeWithdraw a =>
    unfold feeWithdraw at hx
    simp only [bind_ok, pure_ok] at hx
    obtain ⟨_, _, _, _, _, _, hx⟩ := hx; cases hx; exact .inl rfl

/-- a Received batch is not the pending one -/
theorem received_not_pending {s : CState} (hi : CInv s) {k : Nat} {b : Batch}
    (hb : s.batches.find? k = some b) (hst : b.status = .received) : k ≠ s.pendingId := by
  intro hk; subst hk
  have := (hi.pend b hb).1
  rw [hst] at this; cases this

/-- a batch that is Received is never changed again, by any call of any account -/
theorem received_batch_stable {s : CState} (hi : CInv s) (e : CEv) {k : Nat} {b : Batch}
    (hb : s.batches.find? k = some b) (hst : b.status = .received) :
    (cstep s e).batches.find? k = some b := by
  have hkp := received_not_pending hi hb hst
  cases e with
  | exec env info m =>
    simp only [cstep]; split
    · rename_i r hr; obtain ⟨s', out⟩ := r
      have hc := execute_batchChange hr
      cases hc with
      | none m hbb _ => simp only; rw [hbb]; exact hb
      | unstake b0 a isNew _ _ hbb =>
        simp only; rw [hbb, AMap.find?_insert_other _ _ _ _ hkp]; exact hb
      | submit batch unbond _ hpb _ _ _ _ _ hbb =>
        simp only; rw [hbb]
        have hid := hi.idKey _ _ hpb
        have hle := ((hi.keys k).mp (by rw [hb]; rfl)).2
        rw [AMap.find?_insert_other _ _ _ _ (by rw [hid]; exact hkp), AMap.find?_insert_other _ _ _ _ (by rw [hid]; omega)]
        exact hb
      | receive bid coin batch t _ _ _ hfb hstb _ _ _ hbb =>
        simp only; rw [hbb]
        have hid := hi.idKey _ _ hfb
        have hne : k ≠ batch.id := by
          intro hc; rw [hid] at hc; subst hc
          rw [hb] at hfb; cases hfb; rw [hst] at hstb; cases hstb
        rw [AMap.find?_insert_other _ _ _ _ hne]; exact hb
    · exact hb
  | reply id res =>
    simp only [cstep]; split
    · rename_i r hr; obtain ⟨s', out⟩ := r
      simp only; rw [(reply_batches hr).1]; exact hb
    · exact hb
  | sudo m =>
    simp only [cstep]; split
    · rename_i r hr; obtain ⟨s', out⟩ := r
      simp only; rw [(sudo_batches hr).1]; exact hb
    · exact hb

theorem received_batch_history {s : CState} (hi : CInv s) (evs : List CEv) {k : Nat} {b : Batch}
    (hb : s.batches.find? k = some b) (hst : b.status = .received) :
    (List.foldl cstep s evs).batches.find? k = some b := by
  induction evs generalizing s with
  | nil => exact hb
  | cons e rest ih => exact ih (cinv_cstep hi e) (received_batch_stable hi e hb hst)

/-- what a call pays `u` out of batch `k`: the amount of the bank message of a successful
`Withdraw {k}` signed by `u`; every other call pays nothing from that batch -/
def paidBy (s : CState) (k : Nat) (u : String) : CEv → List Nat
  | .exec env info (.withdraw b) =>
    if b = k ∧ info.sender = u then
      match execute s env info (.withdraw b) with
      | .ok (_, { msg := .msgSend _ _ [c], .. } :: _) => [c.amount]
      | _ => []
    else []
  | _ => []

/-- the payments to `u` out of batch `k` along a sequence of calls -/
def payoutsOf (k : Nat) (u : String) : CState → List CEv → List Nat
  | _, [] => []
  | s, e :: rest => paidBy s k u e ++ payoutsOf k u (cstep s e) rest

/-- one call, seen from the request `(k, u)` of a non-pending batch: either it is untouched and
nothing is paid, or the call is `u`'s own successful withdrawal, which pays
`floor(received × own / total)` and deletes the request -/
theorem req_step {s : CState} (hi : CInv s) (e : CEv) {k : Nat} {u : String} {b : Batch} {recv : Nat} {r : Req}
    (hb : s.batches.find? k = some b) (hst : b.status = .received) (hrecv : b.received = some recv)
    (hreq : findReq s.reqs k u = some r) :
    (findReq (cstep s e).reqs k u = some r ∧ paidBy s k u e = [])
    ∨ (findReq (cstep s e).reqs k u = none ∧ paidBy s k u e = [recv * r.amount / b.total]) := by
  have hkp := received_not_pending hi hb hst
  cases e with
  | exec env info m =>
    cases hx : execute s env info m with
    | error err =>
      left
      refine ⟨by simp only [cstep, hx]; exact hreq, ?_⟩
      cases m <;> simp only [paidBy]
      case withdraw bb => split <;> simp [hx]
    | ok res =>
      obtain ⟨s', out⟩ := res
      have hs' : cstep s (.exec env info m) = s' := by simp only [cstep, hx]
      rw [hs']
      rcases execute_reqs hx with h | ⟨a, hm, h⟩ | ⟨bb, batch, recv', req, hm, hfb, _, hrecv', hfr, _, h, orc, hout, _⟩
      · left
        refine ⟨by rw [h]; exact hreq, ?_⟩
        cases m <;> simp only [paidBy]
        case withdraw bb =>
          -- a successful withdrawal always changes the table; `h` says it did not
          exfalso
          obtain ⟨batch, _, req, _, _, hfb, _, _, hfr, _, _, hs2, _⟩ := withdraw_eff (by simpa [execute] using hx)
          rw [hs2] at h; simp only at h
          have := findReq_removeReq_self s.reqs batch.id info.sender
          rw [h, hfr] at this; cases this
      · subst hm
        left
        exact ⟨by rw [h, findReq_reqsAfterUnstake_otherBatch _ _ _ _ _ _ hkp]; exact hreq, rfl⟩
      · subst hm
        have hid := hi.idKey _ _ hfb
        by_cases hsame : bb = k ∧ info.sender = u
        · obtain ⟨hk, hu⟩ := hsame
          subst hk hu
          rw [hb] at hfb; cases hfb
          rw [hrecv] at hrecv'; cases hrecv'
          rw [hid] at hfr h
          rw [hreq] at hfr; cases hfr
          right
          refine ⟨by rw [h]; exact findReq_removeReq_self _ _ _, ?_⟩
          simp only [paidBy, and_self, ↓reduceIte, hx, hout, plain, List.cons_append, List.nil_append]
        · left
          refine ⟨?_, by simp only [paidBy, hsame, ↓reduceIte]⟩
          rw [h, hid, findReq_removeReq_ne _ _ _ _ _ (by intro hc; exact hsame ⟨hc.1.symm, hc.2.symm⟩)]
          exact hreq
  | reply id res =>
    left
    refine ⟨?_, rfl⟩
    simp only [cstep]; split
    · rename_i r' hr; obtain ⟨s', out⟩ := r'
      simp only; rw [(reply_batches hr).2.2]; exact hreq
    · exact hreq
  | sudo m =>
    left
    refine ⟨?_, rfl⟩
    simp only [cstep]; split
    · rename_i r' hr; obtain ⟨s', out⟩ := r'
      simp only; rw [(sudo_batches hr).2.2]; exact hreq
    · exact hreq

/-- once the request is gone it stays gone and nothing more is paid: no call re-creates a request in
a non-pending batch, and a withdrawal without a request fails -/
theorem gone_step {s : CState} (hi : CInv s) (e : CEv) {k : Nat} {u : String} {b : Batch}
    (hb : s.batches.find? k = some b) (hst : b.status = .received) (hreq : findReq s.reqs k u = none) :
    findReq (cstep s e).reqs k u = none ∧ paidBy s k u e = [] := by
  have hkp := received_not_pending hi hb hst
  cases e with
  | exec env info m =>
    cases hx : execute s env info m with
    | error err =>
      refine ⟨by simp only [cstep, hx]; exact hreq, ?_⟩
      cases m <;> simp only [paidBy]
      case withdraw bb => split <;> simp [hx]
    | ok res =>
      obtain ⟨s', out⟩ := res
      have hs' : cstep s (.exec env info m) = s' := by simp only [cstep, hx]
      rw [hs']
      rcases execute_reqs hx with h | ⟨a, hm, h⟩ | ⟨bb, batch, recv', req, hm, hfb, _, hrecv', hfr, _, h, orc, hout, _⟩
      · refine ⟨by rw [h]; exact hreq, ?_⟩
        cases m <;> simp only [paidBy]
        case withdraw bb =>
          exfalso
          obtain ⟨batch, _, req, _, _, hfb, _, _, hfr, _, _, hs2, _⟩ := withdraw_eff (by simpa [execute] using hx)
          rw [hs2] at h; simp only at h
          have := findReq_removeReq_self s.reqs batch.id info.sender
          rw [h, hfr] at this; cases this
      · subst hm
        exact ⟨by rw [h, findReq_reqsAfterUnstake_otherBatch _ _ _ _ _ _ hkp]; exact hreq, rfl⟩
      · subst hm
        have hid := hi.idKey _ _ hfb
        by_cases hsame : bb = k ∧ info.sender = u
        · obtain ⟨hk, hu⟩ := hsame
          subst hk hu
          rw [hid, hreq] at hfr; cases hfr
        · refine ⟨?_, by simp only [paidBy, hsame, ↓reduceIte]⟩
          rw [h, hid, findReq_removeReq_ne _ _ _ _ _ (by intro hc; exact hsame ⟨hc.1.symm, hc.2.symm⟩)]
          exact hreq
  | reply id res =>
    refine ⟨?_, rfl⟩
    simp only [cstep]; split
    · rename_i r' hr; obtain ⟨s', out⟩ := r'
      simp only; rw [(reply_batches hr).2.2]; exact hreq
    · exact hreq
  | sudo m =>
    refine ⟨?_, rfl⟩
    simp only [cstep]; split
    · rename_i r' hr; obtain ⟨s', out⟩ := r'
      simp only; rw [(sudo_batches hr).2.2]; exact hreq
    · exact hreq

theorem gone_history {s : CState} (hi : CInv s) (evs : List CEv) {k : Nat} {u : String} {b : Batch}
    (hb : s.batches.find? k = some b) (hst : b.status = .received) (hreq : findReq s.reqs k u = none) :
    findReq (List.foldl cstep s evs).reqs k u = none ∧ payoutsOf k u s evs = [] := by
  induction evs generalizing s with
  | nil => exact ⟨hreq, rfl⟩
  | cons e rest ih =>
    obtain ⟨h1, h2⟩ := gone_step hi e hb hst hreq
    obtain ⟨h3, h4⟩ := ih (cinv_cstep hi e) (received_batch_stable hi e hb hst) h1
    exact ⟨h3, by simp only [payoutsOf, h2, h4, List.append_nil]⟩

/-- **every history after receipt.**  Whatever calls follow, in whatever order and at whatever
times: the batch stays as it was, and the requester has either not been paid yet (the request is
still there, unchanged) or has been paid exactly once, exactly `floor(received × own / total)`, and
the request is gone. -/
theorem payouts_fixed {s : CState} (hi : CInv s) (evs : List CEv) {k : Nat} {u : String} {b : Batch} {recv : Nat} {r : Req}
    (hb : s.batches.find? k = some b) (hst : b.status = .received) (hrecv : b.received = some recv)
    (hreq : findReq s.reqs k u = some r) :
    (List.foldl cstep s evs).batches.find? k = some b
    ∧ ((findReq (List.foldl cstep s evs).reqs k u = some r ∧ payoutsOf k u s evs = [])
       ∨ (findReq (List.foldl cstep s evs).reqs k u = none ∧ payoutsOf k u s evs = [recv * r.amount / b.total])) := by
  induction evs generalizing s with
  | nil => exact ⟨hb, .inl ⟨hreq, rfl⟩⟩
  | cons e rest ih =>
    have hb' := received_batch_stable hi e hb hst
    have hi' := cinv_cstep hi e
    rcases req_step hi e hb hst hrecv hreq with ⟨h1, h2⟩ | ⟨h1, h2⟩
    · obtain ⟨h3, h4⟩ := ih hi' hb' h1
      refine ⟨h3, ?_⟩
      simp only [payoutsOf, h2, List.nil_append]
      exact h4
    · obtain ⟨h3, h4⟩ := gone_history hi' rest hb' hst h1
      have hbb := received_batch_history hi' rest hb' hst
      exact ⟨hbb, .inr ⟨h3, by simp only [payoutsOf, h2, h4, List.append_nil]⟩⟩

end MW.Staking
