import MW.Staking.Facts
import MW.Staking.Effects
/-!
# The oracle is optional (helper lemmas for C15)

`setOracle s o` is `s` with the oracle address of the configuration replaced.  For each of the five
handlers that post rates, success with an oracle configured implies success without one, with the
same store (up to the oracle field itself) and the same messages minus the `PostRates` message.
-/
namespace MW.Staking
open MW MW.Staking

def setOracle (s : CState) (o : Option String) : CState :=
  { s with config := { s.config with proto := { s.config.proto with oracle := o } } }

def nonOracle (m : SubMsg) : Bool := match m.msg with | .wasmExec .. => false | _ => true

theorem updateOracle_none' (s : CState) (env : Env) (cfg : Config) (h : cfg.proto.oracle = none) :
    updateOracleMsgs s env cfg = .ok [] := by unfold updateOracleMsgs; rw [h]

theorem filter_orc {s : CState} {env : Env} {cfg : Config} {orc : List SubMsg}
    (h : updateOracleMsgs s env cfg = .ok orc) : orc.filter nonOracle = [] := by
  unfold updateOracleMsgs at h
  split at h
  · cases h; rfl
  · simp only [bind_ok, pure_ok] at h
    obtain ⟨_, _, h⟩ := h; subst h; rfl

theorem filter_keep (m : SubMsg) (rest : List SubMsg) (h : nonOracle m = true) :
    List.filter nonOracle (m :: rest) = m :: List.filter nonOracle rest := by
  simp [List.filter_cons, h]

theorem getRates_setOracle (s : CState) (o : Option String) : getRates (setOracle s o) = getRates s := rfl

theorem submit_oracle_optional (s s' : CState) (env : Env) (info : Info) (out : List SubMsg) (o : String)
    (h : submitBatch (setOracle s (some o)) env info = .ok (s', out)) :
    submitBatch (setOracle s none) env info = .ok (setOracle s' none, out.filter nonOracle) := by
  unfold submitBatch at h ⊢
  simp only [bind_ok, ensure_ok, pure_ok, loadSome_ok, checkStopped_ok] at h ⊢
  obtain ⟨_, h1, b, h2, _, h3, _, h4, _, h5, nid, h6, due, h7, u, h8, due2, h9, orc, horc, h⟩ := h
  cases h
  have hf := filter_orc horc
  refine ⟨(), h1, b, h2, (), h3, (), h4, (), h5, nid, h6, due, h7, u, h8, due2, h9, [], updateOracle_none' _ _ _ rfl, ?_⟩
  simp only [setOracle, plain, List.singleton_append, List.append_nil]
  rw [filter_keep _ _ rfl, hf]
end MW.Staking

namespace MW.Staking
open MW MW.Staking
theorem ibcTransferSubMsg_setOracle (s : CState) (o : Option String) (env : Env) (recv : String) (coin : Coin) (sub : Option Nat) :
    ibcTransferSubMsg (setOracle s o) env recv coin sub
      = (ibcTransferSubMsg s env recv coin sub).map (fun r => (setOracle r.1 o, r.2)) := by
  unfold ibcTransferSubMsg ibcTransferMsg saveWaiting
  simp only [setOracle]
  cases h1 : ensure (!s.config.proto.channel.isEmpty) Err.ibcChannelNotFound with
  | error e => simp [bind, Except.bind, Except.map]
  | ok u1 =>
    cases h2 : add64 "A01" env.timeNs IBC_TIMEOUT_NS with
    | error e => simp [bind, Except.bind, Except.map]
    | ok t =>
      cases h3 : defaultSubId env with
      | error e => simp [bind, Except.bind, Except.map, pure, Except.pure]
      | ok d =>
        cases h4 : s.waiting.find? (sub.getD d) <;> simp [bind, Except.bind, Except.map, pure, Except.pure, h4]

theorem transfer_nonOracle {s : CState} {env : Env} {recv : String} {coin : Coin} {sub : Option Nat} {r : CState × SubMsg}
    (h : ∃ id timeout, r.1 = { s with waiting := s.waiting.insert id { coin := coin, receiver := recv } }
      ∧ s.waiting.find? id = none
      ∧ r.2 = { id := id, replyAlways := true,
                msg := .transfer s.config.proto.channel "transfer" env.contract recv coin timeout (memoFor env.contract) }
      ∧ timeout = env.timeNs + IBC_TIMEOUT_NS
      ∧ (∀ i, sub = some i → id = i)) : nonOracle r.2 = true := by
  obtain ⟨_, _, _, _, h, _⟩ := h; rw [h]; rfl

theorem ibc_none_of_some {s : CState} {o : String} {env : Env} {recv : String} {coin : Coin} {sub : Option Nat}
    {r : CState × SubMsg} (h : ibcTransferSubMsg (setOracle s (some o)) env recv coin sub = .ok r) :
    ibcTransferSubMsg (setOracle s none) env recv coin sub = .ok (setOracle r.1 none, r.2) := by
  rw [ibcTransferSubMsg_setOracle] at h ⊢
  cases hx : ibcTransferSubMsg s env recv coin sub with
  | error e => simp [Except.map, hx] at h
  | ok r0 =>
    simp only [Except.map, hx, Except.ok.injEq] at h ⊢
    subst h
    rfl

theorem ibc_split {s : CState} {o : Option String} {env : Env} {recv : String} {coin : Coin} {sub : Option Nat}
    {r : CState × SubMsg} (h : ibcTransferSubMsg (setOracle s o) env recv coin sub = .ok r) :
    ∃ r0, ibcTransferSubMsg s env recv coin sub = .ok r0 ∧ r = (setOracle r0.1 o, r0.2) := by
  rw [ibcTransferSubMsg_setOracle] at h
  cases hx : ibcTransferSubMsg s env recv coin sub with
  | error e => simp [Except.map, hx] at h
  | ok r0 =>
    simp only [Except.map, hx, Except.ok.injEq] at h
    exact ⟨r0, rfl, h.symm⟩

theorem stake_oracle_optional (s s' : CState) (env : Env) (info : Info) (a : Nat) (mt : Option String)
    (tn : Option Bool) (ex : Option Nat) (out : List SubMsg) (o : String)
    (h : liquidStake (setOracle s (some o)) env info a mt tn ex = .ok (s', out)) :
    liquidStake (setOracle s none) env info a mt tn ex = .ok (setOracle s' none, out.filter nonOracle) := by
  unfold liquidStake at h ⊢
  simp only [bind_ok, ensure_ok, pure_ok, loadSome_ok, checkStopped_ok] at h ⊢
  obtain ⟨u1, h1, u2, h2, u3, h3, u4, h4, st, h5, m, h6, u5, h7, u6, h8, r1, h9, n', h10, l', h11, orc, h12, h13⟩ := h
  have hf := filter_orc h12
  have h9' := ibc_none_of_some h9
  have hk1 := transfer_nonOracle (ibcTransferSubMsg_ok h9)
  obtain ⟨r0, _, hr1⟩ := ibc_split h9
  subst hr1
  refine ⟨u1, h1, u2, h2, u3, h3, u4, h4, st, h5, m, h6, u5, h7, u6, h8, _, h9', n', h10, l', h11, [], updateOracle_none' _ _ _ rfl, ?_⟩
  have hd : deliverOnProtocol (setOracle s none).config (mt.getD info.sender) tn
      = deliverOnProtocol (setOracle s (some o)).config (mt.getD info.sender) tn := rfl
  rw [hd]
  split at h13
  · rename_i hc
    rw [if_pos hc]
    simp only [pure_ok, Prod.mk.injEq] at h13
    obtain ⟨hs', hout⟩ := h13
    subst hs' hout
    simp only [pure, Except.pure, Except.ok.injEq, Prod.mk.injEq]
    refine ⟨rfl, ?_⟩
    simp only [setOracle, plain, List.append_nil, List.singleton_append, List.cons_append, List.nil_append, List.append_assoc]
    rw [filter_keep _ _ rfl, List.filter_append, hf, List.nil_append, filter_keep _ _ hk1,
        filter_keep _ _ rfl]
    rfl
  · rename_i hc
    rw [if_neg hc]
    simp only [bind_ok, pure_ok] at h13 ⊢
    obtain ⟨id2, hid, r3, hr3, h13⟩ := h13
    simp only [Prod.mk.injEq] at h13
    obtain ⟨hs', hout⟩ := h13
    subst hs' hout
    have hr3' := ibc_none_of_some (s := { r0.1 with st := { st with totalNative := n', totalLst := l' } }) (o := o) hr3
    refine ⟨id2, hid, _, hr3', ?_⟩
    refine Prod.ext rfl ?_
    symm
    simp only [setOracle, plain, List.append_nil, List.singleton_append, List.cons_append, List.nil_append, List.append_assoc]
    rw [filter_keep _ _ rfl, List.filter_append, hf, List.nil_append, filter_keep _ _ hk1,
        filter_keep _ _ (transfer_nonOracle (ibcTransferSubMsg_ok hr3))]
    rfl

theorem withdraw_oracle_optional (s s' : CState) (env : Env) (info : Info) (b : Nat) (out : List SubMsg) (o : String)
    (h : withdraw (setOracle s (some o)) env info b = .ok (s', out)) :
    withdraw (setOracle s none) env info b = .ok (setOracle s' none, out.filter nonOracle) := by
  unfold withdraw at h ⊢
  simp only [bind_ok, ensure_ok, pure_ok, loadSome_ok, checkStopped_ok] at h ⊢
  obtain ⟨u1, h1, bt, h2, u2, h3, rc, h4, rq, h5, amt, h6, orc, horc, h⟩ := h
  cases h
  have hf := filter_orc horc
  refine ⟨u1, h1, bt, h2, u2, h3, rc, h4, rq, h5, amt, h6, [], updateOracle_none' _ _ _ rfl, ?_⟩
  simp only [setOracle, plain, List.singleton_append, List.append_nil]
  rw [filter_keep _ _ rfl, hf]

theorem resume_oracle_optional (s s' : CState) (env : Env) (info : Info) (n l r : Nat) (out : List SubMsg) (o : String)
    (h : resumeContract (setOracle s (some o)) env info n l r = .ok (s', out)) :
    resumeContract (setOracle s none) env info n l r = .ok (setOracle s' none, out.filter nonOracle) := by
  unfold resumeContract at h ⊢
  simp only [bind_ok, pure_ok] at h ⊢
  obtain ⟨u1, h1, orc, horc, h⟩ := h
  cases h
  have hf := filter_orc horc
  refine ⟨u1, h1, [], updateOracle_none' _ _ _ rfl, ?_⟩
  simp only [setOracle, hf]

theorem rewards_oracle_optional (s s' : CState) (env : Env) (info : Info) (out : List SubMsg) (o : String)
    (h : receiveRewards (setOracle s (some o)) env info = .ok (s', out)) :
    receiveRewards (setOracle s none) env info = .ok (setOracle s' none, out.filter nonOracle) := by
  unfold receiveRewards at h ⊢
  simp only [bind_ok, ensure_ok, pure_ok, loadSome_ok, checkStopped_ok] at h ⊢
  obtain ⟨u1, h1, u2, h2, u3, h3, c, h4, fee, h5, af, h6, n', h7, r', h8, f', h9, r2, h10, orc, horc, h⟩ := h
  cases h
  have hf := filter_orc horc
  have hk := transfer_nonOracle (ibcTransferSubMsg_ok h10)
  obtain ⟨r0, _, hr2⟩ := ibc_split (s := { s with st := { s.st with totalNative := n', totalReward := r', totalFees := f' } }) h10
  have h10' := ibc_none_of_some (s := { s with st := { s.st with totalNative := n', totalReward := r', totalFees := f' } }) h10
  subst hr2
  refine ⟨u1, h1, u2, h2, u3, h3, c, h4, fee, h5, af, h6, n', h7, r', h8, f', h9, _, h10', [], updateOracle_none' _ _ _ rfl, ?_⟩
  refine Prod.ext rfl ?_
  simp only [List.nil_append, List.filter_append, hf]
  rw [filter_keep _ _ hk]
  congr 1
  simp only [treasuryMsgs, setOracle]
  split <;> rfl
end MW.Staking
