import MW.Inv.WorldPayable
/-!
# The halted flag is a function of the history of committed CircuitBreaker / ResumeContract calls

`execute_stopped`: whatever message succeeds, the flag afterwards is `true` for CircuitBreaker, `false` for
ResumeContract and unchanged for everything else (in particular for UpdateConfig, whatever sections it carries);
`reply` and `sudo` never touch the configuration.  Lifted to the chain model: `step_flag` for every event and
`world_history_flag` for every history — the flag after a history is the value the history itself defines
(`histFlag`: halted at instantiation, set by each committed CircuitBreaker, cleared by each committed
ResumeContract, nothing else).
-/
namespace MW.Chain
open MW MW.Staking

/-- what a successful message does to the flag -/
def flagOf (old : Bool) : ExecMsg → Bool
  | .circuitBreaker => true
  | .resumeContract .. => false
  | _ => old

theorem execute_stopped {s s' : CState} {env : Env} {info : Info} {m : ExecMsg} {out : List SubMsg}
    (hx : execute s env info m = .ok (s', out)) : s'.config.stopped = flagOf s.config.stopped m := by
  cases m <;> simp only [execute] at hx
  case liquidStake mt tn ex =>
    simp only [bind_ok] at hx
    obtain ⟨pay, _, hx⟩ := hx
    obtain ⟨_, _, _, _, _, _, _, _, _, _, _, hcase⟩ := liquidStake_eff hx
    rcases hcase with ⟨_, hs', _⟩ | ⟨_, _, hs', _⟩ <;> subst hs' <;> rfl
  case liquidUnstake =>
    simp only [bind_ok] at hx
    obtain ⟨a, _, hx⟩ := hx
    obtain ⟨_, _, b, _, hs'⟩ := liquidUnstake_eff hx
    subst hs'; rfl
  case submitBatch =>
    obtain ⟨_, _, _, _, _, _, _, _, _, _, hs', _⟩ := submitBatch_eff hx
    subst hs'; rfl
  case withdraw b =>
    obtain ⟨_, _, _, _, _, _, _, _, _, _, _, hs', _⟩ := withdraw_eff hx
    subst hs'; rfl
  case addValidator v => obtain ⟨_, _, _, _, hs'⟩ := addValidator_eff hx; subst hs'; rfl
  case removeValidator v => obtain ⟨_, _, _, hs'⟩ := removeValidator_eff hx; subst hs'; rfl
  case transferOwnership n => obtain ⟨_, o, _, hs'⟩ := transferOwnership_eff hx; subst hs'; rfl
  case acceptOwnership => obtain ⟨_, o, _, hs'⟩ := acceptOwnership_eff hx; subst hs'; rfl
  case revokeOwnershipTransfer => obtain ⟨_, o, _, hs'⟩ := revokeOwnership_eff hx; subst hs'; rfl
  case updateConfig n p f mo bp =>
    obtain ⟨_, _, nat', proto', fee', mons', bp', _, _, _, _, _, hs'⟩ := updateConfig_eff hx
    subst hs'; rfl
  case receiveRewards =>
    obtain ⟨_, _, _, _, _, _, _, _, _, _, _, _, hs', _⟩ := receiveRewards_eff hx
    subst hs'; rfl
  case receiveUnstakedTokens b =>
    obtain ⟨_, _, _, _, _, _, _, _, _, _, _, hs'⟩ := receiveUnstaked_eff hx; subst hs'; rfl
  case circuitBreaker =>
    unfold circuitBreaker at hx
    simp only [bind_ok, pure_ok] at hx
    obtain ⟨_, _, hx⟩ := hx; cases hx; rfl
  case resumeContract n l r =>
    unfold resumeContract at hx
    simp only [bind_ok, pure_ok] at hx
    obtain ⟨_, _, _, _, hx⟩ := hx; cases hx; rfl
  case recover pg sel rc =>
    obtain ⟨_, _, _, _, _, _, _, _, _, _, _, _, _, _, hs', _⟩ := recover_eff hx
    subst hs'; rfl
  case feeWithdraw a =>
    unfold feeWithdraw at hx
    simp only [bind_ok, pure_ok] at hx
    obtain ⟨_, _, _, _, _, _, hx⟩ := hx; cases hx; rfl

theorem reply_config {s s' : CState} {id : Nat} {res : ReplyResult} {out : List SubMsg}
    (h : reply s id res = .ok (s', out)) : s'.config = s.config := by
  obtain ⟨_, _, _, _, _, hs'⟩ := reply_eff h; subst hs'; rfl

theorem sudo_config {s s' : CState} {m : SudoMsg} {out : List SubMsg}
    (h : sudo s m = .ok (s', out)) : s'.config = s.config := by
  obtain ⟨_, _, hs'⟩ := sudo_eff h; subst hs'; rfl

/-- dispatching messages changes the contract store only through `reply`, which leaves the configuration alone -/
theorem dispatch_config (f : Faults) (d : Disp) (m : SubMsg) : (dispatch f d m).1.w.c.config = d.w.c.config := by
  unfold dispatch
  cases hm : m.msg <;> simp only
  case mint => split <;> rfl
  case burn => split <;> rfl
  case bankSend => split; rfl; split <;> rfl
  case msgSend => split; rfl; split <;> rfl
  case transfer ch port sender recv coin t memo =>
    split
    · split
      · split
        · rename_i c' o hr; exact reply_config hr
        · rfl
      · rfl
    · split
      · split
        · rename_i c' o hr; exact reply_config hr
        · rfl
      · rfl

theorem dispatchAll_config (f : Faults) (d : Disp) (ms : List SubMsg) :
    (dispatchAll f d ms).1.w.c.config = d.w.c.config := by
  induction ms generalizing d with
  | nil => rfl
  | cons m rest ih =>
    simp only [dispatchAll]
    have hd := dispatch_config f d m
    split
    · rename_i d' heq
      rw [heq] at hd
      exact (ih d').trans hd
    · rename_i d' heq
      rw [heq] at hd
      exact hd

theorem sudoCall_config (w : World) (m : SudoMsg) : (sudoCall w m).1.c.config = w.c.config := by
  simp only [sudoCall]
  split
  · rename_i c' o hs; exact sudo_config hs
  · rfl

/-- one transaction: committed → the flag the message defines; rolled back → unchanged -/
theorem runExec_flag (w : World) (sender : String) (funds : List Coin) (msg : ExecMsg) (f : Faults) (txi : Option Nat) :
    (runExec w sender funds msg f txi).w.c.config.stopped
      = if (runExec w sender funds msg f txi).committed then flagOf w.c.config.stopped msg else w.c.config.stopped := by
  unfold runExec
  cases hcore : runExecCore w sender funds msg f txi with
  | mk o calls =>
    cases o with
    | none => simp
    | some w' =>
      simp only [↓reduceIte]
      obtain ⟨bal1, c', msgs, d, _, hx, hd, hw'⟩ := runExecCore_some hcore
      subst hw'
      have hc := dispatchAll_config f { w := { w with bal := bal1, c := c' },
                                        calls := [Call.execute { sender, funds } msg (.ok msgs)] } msgs
      rw [hd] at hc
      rw [hc]
      exact execute_stopped hx

/-- the flag after an event, as the event itself defines it -/
def flagAfter (w : World) (e : Event) : Bool :=
  if (step w e).committed then
    match e with
    | .exec _ _ msg _ _ => flagOf w.c.config.stopped msg
    | .hook _ _ _ msg _ => flagOf w.c.config.stopped msg
    | _ => w.c.config.stopped
  else w.c.config.stopped

/-- events other than transactions leave the configuration alone -/
theorem step_config_other (w : World) (e : Event) (he : ∀ s fu m f t, e ≠ .exec s fu m f t)
    (hh : ∀ c n co m f, e ≠ .hook c n co m f) : (step w e).w.c.config = w.c.config := by
  have key : ∀ (w1 : World) (m : SudoMsg), w1.c = w.c → (sudoCall w1 m).1.c.config = w.c.config := by
    intro w1 m hc
    have := sudoCall_config w1 m
    rw [hc] at this; exact this
  cases e with
  | advance dt dh => rfl
  | exec sender funds msg f txi => exact absurd rfl (he _ _ _ _ _)
  | hook channel ns coin msg f => exact absurd rfl (hh _ _ _ _ _)
  | ack seq success =>
    simp only [step]
    split
    · rfl
    · split <;> (dsimp only; apply key; rfl)
  | timeout seq =>
    simp only [step]
    split
    · rfl
    · dsimp only; apply key; rfl
  | strayAck channel seq success => simp only [step]; exact key w _ rfl
  | strayTimeout channel seq => simp only [step]; exact key w _ rfl
  | donate sender coin =>
    simp only [step]
    split <;> rfl
  | faucet to coin => rfl
  | reseq n => rfl

/-- **every event**: transactions by anybody with any message, ibc-hooks deliveries, acknowledgements, timeouts,
stray callbacks, donations, clock advances -/
theorem step_flag (w : World) (e : Event) : (step w e).w.c.config.stopped = flagAfter w e := by
  by_cases hx : ∃ s fu m f t, e = .exec s fu m f t
  · obtain ⟨sender, funds, msg, f, txi, rfl⟩ := hx
    simp only [flagAfter, step]
    exact runExec_flag w sender funds msg f txi
  by_cases hk : ∃ c n co m f, e = .hook c n co m f
  · obtain ⟨channel, ns, coin, msg, f, rfl⟩ := hk
    simp only [flagAfter, step]
    split
    · simp
    · rename_i acct hacct
      split
      · simp
      · have h1 := runExec_flag { w with bal := w.bal.add acct coin.denom coin.amount } acct [coin] msg f (some 0)
        split
        · rename_i hc
          simp only [hc, ↓reduceIte] at h1 ⊢
          exact h1
        · simp
  · have he : ∀ s fu m f t, e ≠ .exec s fu m f t := fun s fu m f t h => hx ⟨s, fu, m, f, t, h⟩
    have hh : ∀ c n co m f, e ≠ .hook c n co m f := fun c n co m f h => hk ⟨c, n, co, m, f, h⟩
    rw [step_config_other w e he hh]
    unfold flagAfter
    cases e with
    | exec sender funds msg f txi => exact absurd rfl (he _ _ _ _ _)
    | hook channel ns coin msg f => exact absurd rfl (hh _ _ _ _ _)
    | _ => simp

/-- the flag a history defines: the start value, then for each committed transaction or ibc-hooks delivery what its
message says (`flagOf`: CircuitBreaker sets, ResumeContract clears, anything else keeps) — threaded as a value
computed from the *history*, never read back from the store -/
def histFlagV (b : Bool) (w : World) : List Event → Bool
  | [] => b
  | e :: es =>
    let b' := if (step w e).committed then
        match e with
        | .exec _ _ msg _ _ => flagOf b msg
        | .hook _ _ _ msg _ => flagOf b msg
        | _ => b
      else b
    histFlagV b' (step w e).w es

theorem runW_flag (w : World) (g : WGhost) (evs : List Event) :
    (runW w g evs).1.c.config.stopped = histFlagV w.c.config.stopped w evs := by
  induction evs generalizing w g with
  | nil => rfl
  | cons e rest ih =>
    simp only [runW, histFlagV]
    rw [ih]
    congr 1
    have := step_flag w e
    unfold flagAfter at this
    exact this

/-- **every history**: after any list of events from an accepted instantiation the contract is halted exactly when
the history says so — halted at the start, halted by every committed CircuitBreaker, running after every committed
ResumeContract, and no other transaction, callback or delivery changes it -/
theorem world_history_flag {env : Env} {info : Info} {msg : InstantiateMsg} {c0 : CState} {out : List SubMsg}
    (hi : instantiate env info msg = .ok (c0, out)) (self pfx : String) (t hgt : Nat) (evs : List Event) :
    (runW (bootWorld c0 self pfx t hgt) {} evs).1.c.config.stopped = histFlagV true (bootWorld c0 self pfx t hgt) evs := by
  have hb : (bootWorld c0 self pfx t hgt).c.config.stopped = true := by
    unfold instantiate at hi
    simp only [bind_ok, pure_ok] at hi
    obtain ⟨_, _, _, _, _, _, _, _, _, _, _, _, _, _, hi⟩ := hi
    cases hi; rfl
  rw [runW_flag, hb]

end MW.Chain
