import MW.Inv.WorldReach
import MW.Inv.MapSum
import MW.Inv.GReach
import MW.Chain.Dispatch
/-!
# Ledger invariants over the chain model: part 1, the generic dispatch step

`WPkt` couples the chain's packet list with the contract's packet table (P2); `dispatch_mid` says
what one successfully dispatched message — of any kind — does to the contract's own balance of a
denom, to the token-factory supply, to the packet coupling and to the contract store.  It is
generic in the message list: the per-handler work is only to evaluate the sums `balSum` / `supSum`
on the messages the handler returned.
-/
namespace MW.Chain
open MW MW.Staking

/-- LST (or any denom) the contract would get back for packets that failed or timed out -/
def refundedAmt (d : String) (p : Packet) : Nat :=
  if p.coin.denom = d ∧ (p.status = .ackFailure ∨ p.status = .timedOut) then p.coin.amount else 0

def refundableSum (c : CState) (d : String) : Nat := AMap.sumBy (refundedAmt d) c.inflight

/-- weight of a refundable packet selected by a predicate on (denom, receiver) -/
def refW (P : String → String → Bool) (p : Packet) : Nat :=
  if P p.coin.denom p.receiver && (p.status == .ackFailure || p.status == .timedOut) then p.coin.amount else 0

/-- what a chain packet still carries toward receiver `S` in denom `D`: in flight or delivered -/
def locPkt (S D : String) (p : ChainPkt) : Nat :=
  if p.coin.denom = D ∧ p.receiver = S ∧ (p.state = .pending ∨ p.state = .delivered) then p.coin.amount else 0

def locW (S D : String) (pkts : List ChainPkt) : Nat := (pkts.map (locPkt S D)).sum

/-- amount a message sends toward `S` in denom `D` by IBC transfer -/
def trEff (S D : String) (m : SubMsg) : Nat :=
  match m.msg with
  | .transfer _ _ _ recv coin _ _ => if coin.denom = D ∧ recv = S then coin.amount else 0
  | _ => 0

def trSum (S D : String) : List SubMsg → Nat
  | [] => 0
  | m :: rest => trEff S D m + trSum S D rest

theorem trSum_append (S D : String) (a b : List SubMsg) : trSum S D (a ++ b) = trSum S D a + trSum S D b := by
  induction a with
  | nil => simp [trSum]
  | cons m r ih => simp only [List.cons_append, trSum, ih]; omega

def pendTotal (c : CState) : Nat := ((c.batches.find? c.pendingId).map (·.total)).getD 0

/-- the packet coupling between chain and contract (all denoms) -/
structure WPkt (w : World) : Prop where
  sender : ∀ p ∈ w.pkts, p.sender = w.self
  seqLt : ∀ p ∈ w.pkts, p.seq < w.nextSeq
  nodup : (w.pkts.map (·.seq)).Nodup
  keyLt : ∀ k e, w.c.inflight.find? k = some e → k < w.nextSeq
  p2 : ∀ p ∈ w.pkts, p.state = .pending → p.channel = w.c.config.proto.channel ∧
        w.c.inflight.find? p.seq = some { seq := p.seq, coin := p.coin, receiver := p.receiver, status := .sent }

/-- a transfer message is tracked: reply-always, on the configured channel, and its waiting entry
(if any) carries the same coin and receiver -/
def Tracked (c : CState) (m : SubMsg) : Prop :=
  ∀ ch port sndr recv coin t memo, m.msg = .transfer ch port sndr recv coin t memo →
    m.replyAlways = true ∧ ch = c.config.proto.channel ∧
    ∀ wt, c.waiting.find? m.id = some wt → wt.coin = coin ∧ wt.receiver = recv

/-- change of the contract's own balance of `X` caused by one dispatched message -/
def balEff (self X : String) (m : SubMsg) : Int :=
  match m.msg with
  | .mint _ d a to => if to = self ∧ d = X then (a : Int) else 0
  | .burn _ d a from_ => if from_ = self ∧ d = X then -(a : Int) else 0
  | .bankSend to coins => if to = self then 0 else -(coinSum X coins : Int)
  | .msgSend _ to coins => if to = self then 0 else -(coinSum X coins : Int)
  | .transfer _ _ _ _ coin _ _ => if coin.denom = X then -(coin.amount : Int) else 0
  | _ => 0

/-- change of the supply of `X` -/
def supEff (X : String) (m : SubMsg) : Int :=
  match m.msg with
  | .mint _ d a _ => if d = X then (a : Int) else 0
  | .burn _ d a _ => if d = X then -(a : Int) else 0
  | _ => 0

def balSum (self X : String) : List SubMsg → Int
  | [] => 0
  | m :: rest => balEff self X m + balSum self X rest

def supSum (X : String) : List SubMsg → Int
  | [] => 0
  | m :: rest => supEff X m + supSum X rest

theorem balSum_append (self X : String) (a b : List SubMsg) : balSum self X (a ++ b) = balSum self X a + balSum self X b := by
  induction a with
  | nil => simp [balSum]
  | cons m r ih => simp only [List.cons_append, balSum, ih]; omega

theorem supSum_append (X : String) (a b : List SubMsg) : supSum X (a ++ b) = supSum X a + supSum X b := by
  induction a with
  | nil => simp [supSum]
  | cons m r ih => simp only [List.cons_append, supSum, ih]; omega

theorem sums_oracle_w (self X contract : String) (orc : List SubMsg)
    (h : ∀ x ∈ orc, ∃ o p, x = plain (.wasmExec contract o p)) : balSum self X orc = 0 ∧ supSum X orc = 0 := by
  induction orc with
  | nil => simp [balSum, supSum]
  | cons m r ih =>
    obtain ⟨o, p, hm⟩ := h m (by simp)
    obtain ⟨h1, h2⟩ := ih (fun x hx => h x (List.mem_cons_of_mem _ hx))
    subst hm
    simp [balSum, supSum, balEff, supEff, plain, h1, h2]

theorem bankMove_self {bal b : Bal} {a : String} {coins : List Coin} (h : bankMove bal a a coins = some b) :
    ∀ x d, b x d = bal x d := by
  induction coins generalizing bal with
  | nil => simp only [bankMove, Option.some.injEq] at h; subst h; intro x d; rfl
  | cons c rest ih =>
    simp only [bankMove] at h
    split at h
    · cases h
    · split at h
      · cases h
      · rename_i _ hlt
        intro x d
        rw [ih h x d]
        simp only [Bal.add_apply, Bal.sub_apply]
        split
        · rename_i hc
          obtain ⟨hx, hd⟩ := hc
          subst hx hd
          omega
        · rfl

theorem refundableSum_insert_sent {c : CState} {X : String} {k : Nat} {p : Packet} (hk : c.inflight.find? k = none)
    (hp : p.status = .sent) : AMap.sumBy (refundedAmt X) (c.inflight.insert k p) = refundableSum c X := by
  unfold refundableSum
  rw [AMap.sumBy_insert_new _ _ hk]
  simp [refundedAmt, hp]

/-- one successfully dispatched message -/
theorem dispatch_mid {f : Faults} {d d' : Disp} {m : SubMsg} (X : String) (hp : WPkt d.w) (ht : Tracked d.w.c m)
    (h : dispatch f d m = (d', true)) :
    WPkt d'.w ∧ d'.w.self = d.w.self
    ∧ (d'.w.bal d.w.self X : Int) = d.w.bal d.w.self X + balEff d.w.self X m
    ∧ (d'.w.supply X : Int) = d.w.supply X + supEff X m
    ∧ d'.w.c.batches = d.w.c.batches ∧ d'.w.c.pendingId = d.w.c.pendingId ∧ d'.w.c.st = d.w.c.st
    ∧ d'.w.c.config = d.w.c.config
    ∧ refundableSum d'.w.c X = refundableSum d.w.c X
    ∧ (∀ id wt, d'.w.c.waiting.find? id = some wt → d.w.c.waiting.find? id = some wt)
    ∧ (∀ P, AMap.sumBy (refW P) d'.w.c.inflight = AMap.sumBy (refW P) d.w.c.inflight)
    ∧ (∀ S D, locW S D d'.w.pkts = locW S D d.w.pkts + trEff S D m) := by
  unfold dispatch at h
  cases hm : m.msg with
  | createDenom sender sub =>
    simp only [hm, Prod.mk.injEq] at h
    obtain ⟨rfl, _⟩ := h
    exact ⟨hp, rfl, by simp [balEff, hm], by simp [supEff, hm], rfl, rfl, rfl, rfl, rfl, fun _ _ h => h, fun _ => rfl, fun _ _ => by simp [trEff, hm]⟩
  | mint sender denom amount to =>
    simp only [hm] at h
    split at h
    · cases h
    · simp only [Prod.mk.injEq, and_true] at h
      subst h
      refine ⟨⟨hp.sender, hp.seqLt, hp.nodup, hp.keyLt, hp.p2⟩, rfl, ?_, ?_, rfl, rfl, rfl, rfl, rfl, fun _ _ h => h, fun _ => rfl, fun _ _ => by simp [trEff, hm]⟩
      · simp only [balEff, hm, Bal.add_apply]
        by_cases hc : to = d.w.self ∧ denom = X
        · obtain ⟨h1, h2⟩ := hc; subst h1 h2; simp
        · have : ¬ (d.w.self = to ∧ X = denom) := fun ⟨a, b⟩ => hc ⟨a.symm, b.symm⟩
          simp [hc, this]
      · simp only [supEff, hm]
        by_cases hc : denom = X
        · subst hc; simp
        · have : ¬ X = denom := fun e => hc e.symm
          simp [hc, this]
  | burn sender denom amount from_ =>
    simp only [hm] at h
    split at h
    · cases h
    · rename_i hc
      simp only [Bool.or_eq_true, decide_eq_true_eq, not_or, Nat.not_lt] at hc
      simp only [Prod.mk.injEq, and_true] at h
      subst h
      refine ⟨⟨hp.sender, hp.seqLt, hp.nodup, hp.keyLt, hp.p2⟩, rfl, ?_, ?_, rfl, rfl, rfl, rfl, rfl, fun _ _ h => h, fun _ => rfl, fun _ _ => by simp [trEff, hm]⟩
      · simp only [balEff, hm, Bal.sub_apply]
        split
        · rename_i hh
          obtain ⟨h1, h2⟩ := hh
          have : from_ = d.w.self ∧ denom = X := ⟨h1.symm, h2.symm⟩
          simp only [this, and_self, ↓reduceIte]
          have := hc.1.2
          rw [← h1, ← h2] at this
          omega
        · rename_i hh
          have : ¬ (from_ = d.w.self ∧ denom = X) := fun ⟨a, b⟩ => hh ⟨a.symm, b.symm⟩
          simp [this]
      · simp only [supEff, hm]
        split
        · rename_i hh; subst hh
          simp only [↓reduceIte]
          have := hc.2
          omega
        · rename_i hh
          have : ¬ denom = X := fun e => hh e.symm
          simp [this]
  | bankSend to coins =>
    simp only [hm] at h
    split at h
    · cases h
    · split at h
      · rename_i b hb
        simp only [Prod.mk.injEq, and_true] at h
        subst h
        refine ⟨⟨hp.sender, hp.seqLt, hp.nodup, hp.keyLt, hp.p2⟩, rfl, ?_, by simp [supEff, hm], rfl, rfl, rfl, rfl, rfl, fun _ _ h => h, fun _ => rfl, fun _ _ => by simp [trEff, hm]⟩
        simp only [balEff, hm]
        by_cases hto : to = d.w.self
        · subst hto
          simp [bankMove_self hb]
        · have hne : d.w.self ≠ to := fun e => hto e.symm
          obtain ⟨_, h2, h3, _⟩ := bankMove_ok hne hb X
          simp only [hto, ↓reduceIte, h3]
          omega
      · cases h
  | msgSend sender to coins =>
    simp only [hm] at h
    split at h
    · cases h
    · split at h
      · rename_i b hb
        simp only [Prod.mk.injEq, and_true] at h
        subst h
        refine ⟨⟨hp.sender, hp.seqLt, hp.nodup, hp.keyLt, hp.p2⟩, rfl, ?_, by simp [supEff, hm], rfl, rfl, rfl, rfl, rfl, fun _ _ h => h, fun _ => rfl, fun _ _ => by simp [trEff, hm]⟩
        simp only [balEff, hm]
        by_cases hto : to = d.w.self
        · subst hto
          simp [bankMove_self hb]
        · have hne : d.w.self ≠ to := fun e => hto e.symm
          obtain ⟨_, h2, h3, _⟩ := bankMove_ok hne hb X
          simp only [hto, ↓reduceIte, h3]
          omega
      · cases h
  | wasmExec sender c p =>
    simp only [hm, Prod.mk.injEq] at h
    obtain ⟨rfl, _⟩ := h
    exact ⟨hp, rfl, by simp [balEff, hm], by simp [supEff, hm], rfl, rfl, rfl, rfl, rfl, fun _ _ h => h, fun _ => rfl, fun _ _ => by simp [trEff, hm]⟩
  | swapIn a b c e =>
    simp only [hm, Prod.mk.injEq] at h
    obtain ⟨rfl, _⟩ := h
    exact ⟨hp, rfl, by simp [balEff, hm], by simp [supEff, hm], rfl, rfl, rfl, rfl, rfl, fun _ _ h => h, fun _ => rfl, fun _ _ => by simp [trEff, hm]⟩
  | swapOut a b c e =>
    simp only [hm, Prod.mk.injEq] at h
    obtain ⟨rfl, _⟩ := h
    exact ⟨hp, rfl, by simp [balEff, hm], by simp [supEff, hm], rfl, rfl, rfl, rfl, rfl, fun _ _ h => h, fun _ => rfl, fun _ _ => by simp [trEff, hm]⟩
  | transfer ch port sndr recv coin t memo =>
    obtain ⟨hra, hch, hwt⟩ := ht ch port sndr recv coin t memo hm
    simp only [hm, hra, ↓reduceIte] at h
    split at h
    · rename_i hok
      simp only [Bool.and_eq_true, decide_eq_true_eq, Bool.not_eq_true'] at hok
      split at h
      · rename_i c' o hr
        obtain ⟨_, wt, seq, hseq, hw, hc'⟩ := reply_eff hr
        cases hseq
        simp only [Prod.mk.injEq, and_true] at h
        subst h
        obtain ⟨hcoin, hrecv⟩ := hwt wt hw
        have hfresh : d.w.c.inflight.find? d.w.nextSeq = none := by
          cases hf : d.w.c.inflight.find? d.w.nextSeq with
          | none => rfl
          | some e => exact absurd (hp.keyLt _ _ hf) (Nat.lt_irrefl _)
        subst hc'
        refine ⟨⟨?_, ?_, ?_, ?_, ?_⟩, rfl, ?_, by simp [supEff, hm], rfl, rfl, rfl, rfl, ?_, ?_, ?_, ?_⟩
        · intro p hpm
          simp only [List.mem_append, List.mem_singleton] at hpm
          rcases hpm with hpm | hpm
          · exact hp.sender p hpm
          · subst hpm; exact hok.1.1.1
        · intro p hpm
          simp only [List.mem_append, List.mem_singleton] at hpm
          rcases hpm with hpm | hpm
          · exact Nat.lt_succ_of_lt (hp.seqLt p hpm)
          · subst hpm; exact Nat.lt_succ_self _
        · simp only [List.map_append, List.map_cons, List.map_nil]
          rw [List.nodup_append]
          refine ⟨hp.nodup, by simp, ?_⟩
          intro a ha b hb
          simp only [List.mem_singleton] at hb
          subst hb
          obtain ⟨q, hq, hqs⟩ := List.mem_map.mp ha
          have := hp.seqLt q hq
          omega
        · intro k e hk
          simp only [AMap.find?_insert] at hk
          split at hk
          · rename_i hkk; subst hkk; exact Nat.lt_succ_self _
          · exact Nat.lt_succ_of_lt (hp.keyLt k e hk)
        · intro p hpm hpend
          simp only [List.mem_append, List.mem_singleton] at hpm
          rcases hpm with hpm | hpm
          · obtain ⟨h1, h2⟩ := hp.p2 p hpm hpend
            refine ⟨h1, ?_⟩
            have hne : p.seq ≠ d.w.nextSeq := by have := hp.seqLt p hpm; omega
            simp only [AMap.find?_insert, hne, ↓reduceIte]
            exact h2
          · subst hpm
            refine ⟨hch, ?_⟩
            simp only [AMap.find?_insert, ↓reduceIte, hcoin, hrecv]
        · simp only [balEff, hm, Bal.sub_apply, true_and]
          split
          · rename_i hd
            have hd' : coin.denom = X := hd.symm
            simp only [hd', ↓reduceIte]
            have := hok.1.2
            rw [hd'] at this
            omega
          · rename_i hd
            have : ¬ coin.denom = X := fun e => hd e.symm
            simp [this]
        · exact refundableSum_insert_sent hfresh rfl
        · intro id wt' hf
          simp only [AMap.find?_erase] at hf
          split at hf
          · cases hf
          · exact hf
        · intro P
          rw [AMap.sumBy_insert_new _ _ hfresh]
          simp [refW]
        · intro S D
          simp only [locW, List.map_append, List.map_cons, List.map_nil, List.sum_append, List.sum_cons, List.sum_nil,
            trEff, hm, locPkt, true_or, and_true, Nat.add_zero]
      · cases h
    · split at h
      · rename_i c' o hr
        obtain ⟨_, wt, seq, hseq, _⟩ := reply_eff hr
        cases hseq
      · cases h

/-- a whole response: every message tracked against the store at the start of the dispatch -/
theorem dispatchAll_mid {f : Faults} {d dF : Disp} {ms : List SubMsg} (X : String) (hp : WPkt d.w)
    (ht : ∀ m ∈ ms, Tracked d.w.c m) (h : dispatchAll f d ms = (dF, true)) :
    WPkt dF.w ∧ dF.w.self = d.w.self
    ∧ (dF.w.bal d.w.self X : Int) = d.w.bal d.w.self X + balSum d.w.self X ms
    ∧ (dF.w.supply X : Int) = d.w.supply X + supSum X ms
    ∧ dF.w.c.batches = d.w.c.batches ∧ dF.w.c.pendingId = d.w.c.pendingId ∧ dF.w.c.st = d.w.c.st
    ∧ dF.w.c.config = d.w.c.config
    ∧ refundableSum dF.w.c X = refundableSum d.w.c X
    ∧ (∀ P, AMap.sumBy (refW P) dF.w.c.inflight = AMap.sumBy (refW P) d.w.c.inflight)
    ∧ (∀ S D, locW S D dF.w.pkts = locW S D d.w.pkts + trSum S D ms) := by
  induction ms generalizing d with
  | nil =>
    have := dispatchAll_nil_ok h
    subst this
    exact ⟨hp, rfl, by simp [balSum], by simp [supSum], rfl, rfl, rfl, rfl, rfl, fun _ => rfl, fun _ _ => by simp [trSum]⟩
  | cons m rest ih =>
    obtain ⟨d1, h1, h2⟩ := dispatchAll_cons_ok h
    obtain ⟨a1, a2, a3, a4, a5, a6, a7, a8, a9, a10, a11, a12⟩ := dispatch_mid X hp (ht m (by simp)) h1
    have ht' : ∀ m' ∈ rest, Tracked d1.w.c m' := by
      intro m' hm' ch port sndr recv coin t memo hmsg
      obtain ⟨b1, b2, b3⟩ := ht m' (List.mem_cons_of_mem _ hm') ch port sndr recv coin t memo hmsg
      refine ⟨b1, by rw [a8]; exact b2, ?_⟩
      intro wt hwt
      exact b3 wt (a10 _ _ hwt)
    obtain ⟨c1, c2, c3, c4, c5, c6, c7, c8, c9, c10, c11⟩ := ih a1 ht' h2
    refine ⟨c1, by rw [c2, a2], ?_, ?_, by rw [c5, a5], by rw [c6, a6], by rw [c7, a7], by rw [c8, a8], by rw [c9, a9],
      fun P => by rw [c10, a11], fun S D => by rw [c11, a12]; simp only [trSum]; omega⟩
    · rw [a2] at c3
      simp only [balSum]
      omega
    · simp only [supSum]
      omega

end MW.Chain
