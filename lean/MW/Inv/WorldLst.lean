import MW.Inv.WorldLedger
import MW.Staking.PageLemmas
/-!
# Ledger invariants over the chain model: part 2, what each handler owes and emits (LST)

`ExecFacts` is the per-handler bookkeeping: after a successful `execute` the amount of LST the
contract owes (pending batch total + refundable LST packets) changed by exactly the LST balance
change its messages will cause (plus the funds of an unstake), the LST total changed by exactly
the supply change its messages will cause, every transfer it returned is tracked, and the packet
table lost no in-flight entry and gained none.
-/
namespace MW.Chain
open MW MW.Staking

/-- honest-environment conditions on a message (DESIGN.md §12): nobody stakes on behalf of the
contract's own address; the operator does not re-route the channel, re-denominate the staked
asset or move the staker address while the contract runs; the treasury is not the contract itself;
and forced recovery (admin override of the packet selection) is not used -/
def MsgOKc (s : CState) (self sender : String) : ExecMsg → Prop
  | .liquidStake mt _ _ => mt.getD sender ≠ self
  | .updateConfig n p _ _ _ =>
    (∀ pr, p = some pr → pr.channel = s.config.proto.channel ∧ pr.ibcDenom = s.config.proto.ibcDenom)
    ∧ (∀ nr, n = some nr → nr.staker = s.config.native.staker)
  | .recover _ sel _ => sel = none
  | .receiveRewards => s.config.feeCfg.treasury ≠ some self
  | .feeWithdraw _ => s.config.feeCfg.treasury ≠ some self
  | _ => True

/-- LST handed in by the caller that the handler books (only `LiquidUnstake` does) -/
def unstakeFunds (X : String) (funds : List Coin) : ExecMsg → Int
  | .liquidUnstake => (coinSum X funds : Int)
  | _ => 0

/-- how the handler's LST total relates to the supply change of its messages -/
def SupSpec (s s' : CState) (out : List SubMsg) : ExecMsg → Prop
  | .resumeContract _ l _ => s'.st.totalLst = l ∧ supSum s.config.lstDenom out = 0
  | _ => (s'.st.totalLst : Int) = s.st.totalLst + supSum s.config.lstDenom out

structure ExecFacts (s s' : CState) (me : String) (funds : List Coin) (msg : ExecMsg) (out : List SubMsg) : Prop where
  lst : s'.config.lstDenom = s.config.lstDenom
  chan : s'.config.proto.channel = s.config.proto.channel
  tracked : ∀ m ∈ out, Tracked s' m
  noNew : ∀ k e, s'.inflight.find? k = some e → s.inflight.find? k = some e
  keepSent : ∀ k e, s.inflight.find? k = some e → e.status = .sent → s'.inflight.find? k = some e
  owed : (pendTotal s' : Int) + refundableSum s' s.config.lstDenom
           = pendTotal s + refundableSum s s.config.lstDenom + balSum me s.config.lstDenom out
             + unstakeFunds s.config.lstDenom funds msg
  sup : SupSpec s s' out msg

theorem tracked_of_not_transfer {c : CState} {m : SubMsg}
    (h : ∀ ch port sndr recv coin t memo, m.msg ≠ .transfer ch port sndr recv coin t memo) : Tracked c m := by
  intro ch port sndr recv coin t memo hm
  exact absurd hm (h ch port sndr recv coin t memo)

theorem tracked_plain {c : CState} {x : Msg} (h : ∀ ch port sndr recv coin t memo, x ≠ .transfer ch port sndr recv coin t memo) :
    Tracked c (plain x) := tracked_of_not_transfer h

theorem tracked_oracle {c : CState} {contract : String} {orc : List SubMsg}
    (ho : ∀ x ∈ orc, ∃ o p, x = plain (.wasmExec contract o p)) : ∀ m ∈ orc, Tracked c m := by
  intro m hm
  obtain ⟨o, p, rfl⟩ := ho m hm
  exact tracked_plain (by intros; simp)

theorem tracked_transferSub {c s : CState} {env : Env} {id : Nat} {recv : String} {coin : Coin}
    (hch : s.config.proto.channel = c.config.proto.channel)
    (hw : ∀ wt, c.waiting.find? id = some wt → wt.coin = coin ∧ wt.receiver = recv) :
    Tracked c (transferSub s env id recv coin) := by
  intro ch port sndr recv' coin' t memo hm
  simp only [transferSub, Msg.transfer.injEq] at hm
  obtain ⟨h1, _, _, h4, h5, _, _⟩ := hm
  subst h1 h4 h5
  exact ⟨rfl, hch, hw⟩

/-- the frame: a handler that leaves batches, the pending id, the packet table, the LST denom, the
channel and the LST total alone and returns only messages that move no LST -/
theorem execFacts_frame {s s' : CState} {self : String} {funds : List Coin} {msg : ExecMsg} {out : List SubMsg}
    (hb : s'.batches = s.batches) (hp : s'.pendingId = s.pendingId) (hi : s'.inflight = s.inflight)
    (hl : s'.config.lstDenom = s.config.lstDenom) (hc : s'.config.proto.channel = s.config.proto.channel)
    (ht : ∀ m ∈ out, Tracked s' m) (hbal : balSum self s.config.lstDenom out = 0)
    (hmsg : unstakeFunds s.config.lstDenom funds msg = 0) (hsup : SupSpec s s' out msg) :
    ExecFacts s s' self funds msg out := by
  refine ⟨hl, hc, ht, ?_, ?_, ?_, hsup⟩
  · intro k e h; rw [hi] at h; exact h
  · intro k e h _; rw [hi]; exact h
  · have h1 : pendTotal s' = pendTotal s := by unfold pendTotal; rw [hb, hp]
    have h2 : refundableSum s' s.config.lstDenom = refundableSum s s.config.lstDenom := by
      unfold refundableSum; rw [hi]
    rw [h1, h2, hbal, hmsg]; omega

theorem coinSum_single (X d : String) (a : Nat) : coinSum X [⟨d, a⟩] = if d = X then a else 0 := by
  simp [coinSum]

theorem pendTotal_congr {s s' : CState} (hb : s'.batches = s.batches) (hp : s'.pendingId = s.pendingId) :
    pendTotal s' = pendTotal s := by unfold pendTotal; rw [hb, hp]

theorem refundableSum_congr {s s' : CState} (hi : s'.inflight = s.inflight) (X : String) :
    refundableSum s' X = refundableSum s X := by unfold refundableSum; rw [hi]

/-- LiquidStake -/
theorem facts_stake {s s' : CState} {env : Env} {info : Info} {mt : Option String} {tn : Option Bool} {ex : Option Nat}
    {out : List SubMsg} {self : String} (hc : CfgInv s) (henv : env.contract = self)
    (hok : mt.getD info.sender ≠ self) (hx : execute s env info (.liquidStake mt tn ex) = .ok (s', out)) :
    ExecFacts s s' self info.funds (.liquidStake mt tn ex) out := by
  have hD : s.config.proto.ibcDenom ≠ s.config.lstDenom := hc.distinct
  simp only [execute, bind_ok] at hx
  obtain ⟨pay, _, hx⟩ := hx
  obtain ⟨st, m, id1, orc, _, hsw, _, _, _, hw1, horc, hcase⟩ := liquidStake_eff hx
  have hstL : st.totalLst = s.st.totalLst := by
    rcases sweep_eff hsw with ⟨_, _, h⟩ | ⟨_, h⟩ <;> subst h <;> rfl
  obtain ⟨ho1, ho2⟩ := sums_oracle_w self s.config.lstDenom env.contract orc horc
  rcases hcase with ⟨_, hs', hout⟩ | ⟨_, hw2, hs', hout⟩
  · subst hs' hout
    refine ⟨rfl, rfl, ?_, fun _ _ h => h, fun _ _ h _ => h, ?_, ?_⟩
    · intro x hx
      simp only [List.mem_append, List.mem_singleton] at hx
      rcases hx with ((rfl | hx) | rfl) | rfl
      · exact tracked_plain (by intros; simp)
      · exact tracked_oracle horc x hx
      · refine tracked_transferSub rfl ?_
        intro wt h
        simp only [AMap.find?_insert, ↓reduceIte, Option.some.injEq] at h
        subst h; exact ⟨rfl, rfl⟩
      · exact tracked_plain (by intros; simp)
    · have hb : balSum self s.config.lstDenom ([plain (.mint env.contract s.config.lstDenom m env.contract)] ++ orc
          ++ [transferSub s env id1 s.config.native.staker ⟨s.config.proto.ibcDenom, pay⟩]
          ++ [plain (.msgSend env.contract (mt.getD info.sender) [⟨s.config.lstDenom, m⟩])]) = 0 := by
        simp only [balSum_append, balSum, balEff, plain, transferSub, ho1, hD, henv, hok, coinSum, and_self, ↓reduceIte]
        omega
      simp only [pendTotal, refundableSum, hb, unstakeFunds]; omega
    · simp only [SupSpec]
      simp [supSum_append, supSum, supEff, plain, transferSub, ho2, hstL]
  · subst hs' hout
    refine ⟨rfl, rfl, ?_, fun _ _ h => h, fun _ _ h _ => h, ?_, ?_⟩
    · intro x hx
      simp only [List.mem_append, List.mem_singleton] at hx
      rcases hx with ((rfl | hx) | rfl) | rfl
      · exact tracked_plain (by intros; simp)
      · exact tracked_oracle horc x hx
      · refine tracked_transferSub rfl ?_
        intro wt h
        have hne : id1 ≠ id1 + 1 := by omega
        simp only [AMap.find?_insert, hne, ↓reduceIte, Option.some.injEq] at h
        subst h; exact ⟨rfl, rfl⟩
      · refine tracked_transferSub rfl ?_
        intro wt h
        simp only [AMap.find?_insert, ↓reduceIte, Option.some.injEq] at h
        subst h; exact ⟨rfl, rfl⟩
    · have hb : balSum self s.config.lstDenom ([plain (.mint env.contract s.config.lstDenom m env.contract)] ++ orc
          ++ [transferSub s env id1 s.config.native.staker ⟨s.config.proto.ibcDenom, pay⟩]
          ++ [transferSub s env (id1 + 1) (mt.getD info.sender) ⟨s.config.lstDenom, m⟩]) = 0 := by
        simp only [balSum_append, balSum, balEff, plain, transferSub, ho1, hD, henv, and_self, ↓reduceIte]
        omega
      simp only [pendTotal, refundableSum, hb, unstakeFunds]; omega
    · simp only [SupSpec]
      simp [supSum_append, supSum, supEff, plain, transferSub, ho2, hstL]

/-- LiquidUnstake -/
theorem facts_unstake {s s' : CState} {env : Env} {info : Info} {out : List SubMsg} {self : String}
    (hx : execute s env info .liquidUnstake = .ok (s', out)) :
    ExecFacts s s' self info.funds .liquidUnstake out := by
  simp only [execute, bind_ok] at hx
  obtain ⟨a, hpay, hx⟩ := hx
  obtain ⟨ho, _, b, hb, hs'⟩ := liquidUnstake_eff hx
  obtain ⟨hf, _⟩ := mustPay_ok hpay
  subst hs' ho
  refine ⟨rfl, rfl, by simp, fun _ _ h => h, fun _ _ h _ => h, ?_, ?_⟩
  · simp only [pendTotal, refundableSum, AMap.find?_insert_self, hb, Option.map_some, Option.getD_some, grown,
      balSum, unstakeFunds, hf, coinSum, ↓reduceIte]
    omega
  · simp [SupSpec, supSum]

/-- SubmitBatch -/
theorem facts_submit {s s' : CState} {env : Env} {info : Info} {out : List SubMsg} {self : String}
    (hi : CInv s) (henv : env.contract = self) (hx : execute s env info .submitBatch = .ok (s', out)) :
    ExecFacts s s' self info.funds .submitBatch out := by
  simp only [execute] at hx
  obtain ⟨batch, unbond, orc, _, hb, _, _, hL, _, horc, hs', hout⟩ := submitBatch_eff hx
  obtain ⟨ho1, ho2⟩ := sums_oracle_w self s.config.lstDenom env.contract orc horc
  have hid : batch.id = s.pendingId := hi.idKey _ _ hb
  subst hs' hout
  refine ⟨rfl, rfl, ?_, fun _ _ h => h, fun _ _ h _ => h, ?_, ?_⟩
  · intro x hx
    simp only [List.mem_append, List.mem_singleton] at hx
    rcases hx with rfl | hx
    · exact tracked_plain (by intros; simp)
    · exact tracked_oracle horc x hx
  · have hb1 : balSum self s.config.lstDenom ([plain (.burn env.contract s.config.lstDenom batch.total env.contract)] ++ orc)
        = -(batch.total : Int) := by
      simp only [balSum_append, balSum, balEff, plain, ho1, henv, and_self, ↓reduceIte]
      omega
    have hne : batch.id ≠ batch.id + 1 := by omega
    simp only [pendTotal, refundableSum, hb1, unstakeFunds, AMap.find?_insert, hne.symm, ↓reduceIte, Batch.new,
      Option.map_some, Option.getD_some, hb]
    omega
  · simp only [SupSpec, supSum_append, supSum, supEff, plain, ho2, ↓reduceIte]
    have : checkedSub s.st.totalLst batch.total = some (s.st.totalLst - batch.total) := by
      simp [checkedSub, hL]
    simp only [this, Option.getD_some]
    omega

/-- Withdraw -/
theorem facts_withdraw {s s' : CState} {env : Env} {info : Info} {b : Nat} {out : List SubMsg} {self : String}
    (hc : CfgInv s) (hx : execute s env info (.withdraw b) = .ok (s', out)) :
    ExecFacts s s' self info.funds (.withdraw b) out := by
  have hD : s.config.proto.ibcDenom ≠ s.config.lstDenom := hc.distinct
  simp only [execute] at hx
  obtain ⟨batch, recv, req, orc, _, _, _, _, _, _, horc, hs', hout⟩ := withdraw_eff hx
  obtain ⟨ho1, ho2⟩ := sums_oracle_w self s.config.lstDenom env.contract orc horc
  subst hs' hout
  refine execFacts_frame rfl rfl rfl rfl rfl ?_ ?_ rfl ?_
  · intro x hx
    simp only [List.mem_append, List.mem_singleton] at hx
    rcases hx with rfl | hx
    · exact tracked_plain (by intros; simp)
    · exact tracked_oracle horc x hx
  · simp only [balSum_append, balSum, balEff, plain, ho1, coinSum, hD, ↓reduceIte]
    split <;> simp
  · simp [SupSpec, supSum_append, supSum, supEff, plain, ho2]

/-- ReceiveRewards -/
theorem facts_rewards {s s' : CState} {env : Env} {info : Info} {out : List SubMsg} {self : String}
    (hc : CfgInv s) (hx : execute s env info .receiveRewards = .ok (s', out)) :
    ExecFacts s s' self info.funds .receiveRewards out := by
  have hD : s.config.proto.ibcDenom ≠ s.config.lstDenom := hc.distinct
  simp only [execute] at hx
  obtain ⟨reward, fee, id, orc, _, _, _, _, _, _, _, horc, hs', hout⟩ := receiveRewards_eff hx
  obtain ⟨ho1, ho2⟩ := sums_oracle_w self s.config.lstDenom env.contract orc horc
  subst hs' hout
  have ht : balSum self s.config.lstDenom (treasuryMsgs s.config fee) = 0 ∧ supSum s.config.lstDenom (treasuryMsgs s.config fee) = 0
      ∧ ∀ m ∈ treasuryMsgs s.config fee, ∀ c, Tracked c m := by
    unfold treasuryMsgs
    split
    · refine ⟨?_, by simp [supSum, supEff, plain], ?_⟩
      · simp only [balSum, balEff, plain, coinSum, hD, ↓reduceIte]
        split <;> simp
      · intro m hm c
        simp only [List.mem_singleton] at hm; subst hm
        exact tracked_plain (by intros; simp)
    · simp [balSum, supSum]
  refine execFacts_frame rfl rfl rfl rfl rfl ?_ ?_ rfl ?_
  · intro x hx
    simp only [List.mem_append, List.mem_singleton] at hx
    rcases hx with (hx | rfl) | hx
    · exact tracked_oracle horc x hx
    · refine tracked_transferSub rfl ?_
      intro wt h
      simp only [AMap.find?_insert, ↓reduceIte, Option.some.injEq] at h
      subst h; exact ⟨rfl, rfl⟩
    · exact ht.2.2 x hx _
  · simp only [balSum_append, balSum, balEff, transferSub, ho1, ht.1, hD, ↓reduceIte]
    omega
  · simp only [SupSpec, supSum_append, supSum, supEff, transferSub, ho2, ht.2.1]
    omega

/-- ReceiveUnstakedTokens -/
theorem facts_receive {s s' : CState} {env : Env} {info : Info} {b : Nat} {out : List SubMsg} {self : String}
    (hi : CInv s) (hx : execute s env info (.receiveUnstakedTokens b) = .ok (s', out)) :
    ExecFacts s s' self info.funds (.receiveUnstakedTokens b) out := by
  simp only [execute] at hx
  obtain ⟨coin, batch, t, ho, _, _, _, hb, hst, _, _, hs'⟩ := receiveUnstaked_eff hx
  subst hs' ho
  have hk : batch.id = b := hi.idKey _ _ hb
  have hne : b ≠ s.pendingId := by
    intro e
    subst e
    have := (hi.pend batch hb).1
    rw [hst] at this; cases this
  refine ⟨rfl, rfl, by simp, fun _ _ h => h, fun _ _ h _ => h, ?_, by simp [SupSpec, supSum]⟩
  have hne' : ¬ s.pendingId = batch.id := by rw [hk]; exact fun e => hne e.symm
  simp only [pendTotal, refundableSum, AMap.find?_insert, hne', ↓reduceIte, balSum, unstakeFunds]
  omega

theorem refundedAmt_eq_refW (X : String) : refundedAmt X = refW (fun d _ => decide (d = X)) := by
  funext p
  simp only [refundedAmt, refW]
  by_cases h1 : p.coin.denom = X <;> cases hs : p.status <;> simp [h1]

theorem refW_sum (P : String → String → Bool) (denom recv : String) (ps : List Packet)
    (h : ∀ p ∈ ps, p.coin.denom = denom ∧ p.receiver = recv ∧ (p.status = .ackFailure ∨ p.status = .timedOut)) :
    (ps.map (refW P)).sum = if P denom recv then (ps.map (·.coin.amount)).sum else 0 := by
  induction ps with
  | nil => simp
  | cons p rest ih =>
    obtain ⟨h1, h2, h3⟩ := h p (by simp)
    have := ih (fun q hq => h q (List.mem_cons_of_mem _ hq))
    simp only [List.map_cons, List.sum_cons, this, refW, h1, h2]
    rcases h3 with h3 | h3 <;> simp only [h3] <;> split <;> simp_all

/-- RecoverPendingIbcTransfers without the admin's packet selection: one tracked transfer of the sum
of the selected packets, which are refundable packets of one receiver and one denom, each present
under its own key and selected once -/
theorem recover_core {s s' : CState} {env : Env} {info : Info} {pg : Option Bool} {rc : Option String}
    {out : List SubMsg} (hi : CInv s) (hx : execute s env info (.recover pg none rc) = .ok (s', out)) :
    ∃ recv denom total id,
      out = [transferSub s env id recv ⟨denom, total⟩]
      ∧ s'.config = s.config ∧ s'.st = s.st ∧ s'.batches = s.batches ∧ s'.pendingId = s.pendingId
      ∧ (∀ m ∈ out, Tracked s' m)
      ∧ (∀ k e, s'.inflight.find? k = some e → s.inflight.find? k = some e)
      ∧ (∀ k e, s.inflight.find? k = some e → e.status = .sent → s'.inflight.find? k = some e)
      ∧ ∀ P : String → String → Bool,
          AMap.sumBy (refW P) s'.inflight + (if P denom recv then total else 0) = AMap.sumBy (refW P) s.inflight := by
  simp only [execute] at hx
  obtain ⟨recv, packets, denom, maxId, total, _, _, hp, _, hall, _, htot, _, _, hs', hout⟩ := recover_eff hx
  simp only [selectPackets, Except.ok.injEq] at hp
  -- the selected packets: present under their own key, refundable, pairwise distinct
  have hmem : ∀ p ∈ packets, refundable recv p = true ∧ s.inflight.find? p.seq = some p := by
    intro p hpm
    rw [← hp] at hpm
    obtain ⟨hf, k, hk⟩ := mem_paginate _ _ _ _ p hpm
    have h1 := AMap.find?_of_mem_sorted hi.sortedI hk
    have h2 := hi.seqKey _ _ h1
    rw [h2]; exact ⟨hf, h1⟩
  have hnd : (packets.map (·.seq)).Nodup := by
    rw [← hp, paginate_is_page, List.map_map]
    have hsub : List.Sublist (page s.inflight none ((if pg.getD false = true then some 10 else none).getD U32.max)
        (refundable recv)) s.inflight := by
      unfold page AMap.after
      exact (List.take_sublist _ _).trans List.filter_sublist
    have hpw : List.Pairwise (fun a b : Nat × Packet => a.2.seq ≠ b.2.seq) s.inflight := by
      have hs : List.Pairwise (fun a b : Nat × Packet => a.1 < b.1) s.inflight := hi.sortedI
      refine List.Pairwise.imp_of_mem ?_ hs
      intro a b ha hb hlt
      have h1 := hi.seqKey _ _ (AMap.find?_of_mem_sorted hi.sortedI (show (a.1, a.2) ∈ s.inflight from ha))
      have h2 := hi.seqKey _ _ (AMap.find?_of_mem_sorted hi.sortedI (show (b.1, b.2) ∈ s.inflight from hb))
      omega
    unfold List.Nodup
    rw [List.pairwise_map]
    exact hpw.sublist hsub
  have hall' : ∀ p ∈ packets, p.coin.denom = denom ∧ p.receiver = recv ∧ (p.status = .ackFailure ∨ p.status = .timedOut) := by
    intro p hpm
    have h1 := List.all_eq_true.mp hall p hpm
    have h2 := (hmem p hpm).1
    simp only [refundable, Bool.and_eq_true, decide_eq_true_eq, Bool.or_eq_true] at h2
    exact ⟨by simpa using h1, h2.1, h2.2⟩
  have htotal := sumAmounts_eq _ _ _ _ htot
  subst hs' hout
  refine ⟨recv, denom, total, maxId + 1, rfl, rfl, rfl, rfl, rfl, ?_, ?_, ?_, ?_⟩
  · intro x hx
    simp only [List.mem_singleton] at hx; subst hx
    refine tracked_transferSub rfl ?_
    intro wt h
    simp only [AMap.find?_insert, ↓reduceIte, Option.some.injEq] at h
    subst h; exact ⟨rfl, rfl⟩
  · intro k e h; exact find?_erasePackets packets k e h
  · intro k e h hsent
    show (erasePackets s.inflight packets).find? k = some e
    rw [find?_erasePackets_other packets k]
    · exact h
    · intro p hpm hk
      obtain ⟨hr, hf⟩ := hmem p hpm
      rw [hk, h] at hf
      cases hf
      simp [refundable, hsent] at hr
  · intro P
    have herase := sumBy_erasePackets (refW P) hi.sortedI packets hnd (fun p hpm => (hmem p hpm).2)
    rw [refW_sum P denom recv packets hall'] at herase
    show AMap.sumBy (refW P) (erasePackets s.inflight packets) + _ = _
    split
    · rename_i hP
      simp only [hP, ↓reduceIte] at herase
      omega
    · rename_i hP
      have hP' : P denom recv = false := by simpa using hP
      simp only [hP', Bool.false_eq_true, ↓reduceIte] at herase
      omega

theorem facts_recover {s s' : CState} {env : Env} {info : Info} {pg : Option Bool} {rc : Option String}
    {out : List SubMsg} {self : String} (hi : CInv s)
    (hx : execute s env info (.recover pg none rc) = .ok (s', out)) :
    ExecFacts s s' self info.funds (.recover pg none rc) out := by
  obtain ⟨recv, denom, total, id, hout, hcfg, hst, hb, hpid, htr, hnn, hks, hsum⟩ := recover_core hi hx
  have h1 := hsum (fun d _ => decide (d = s.config.lstDenom))
  rw [← refundedAmt_eq_refW] at h1
  refine ⟨by rw [hcfg], by rw [hcfg], htr, hnn, hks, ?_, ?_⟩
  · have hbal : balSum self s.config.lstDenom out = if denom = s.config.lstDenom then -(total : Int) else 0 := by
      subst hout; simp [balSum, balEff, transferSub]
    rw [pendTotal_congr hb hpid, hbal]
    simp only [refundableSum, unstakeFunds]
    simp only [decide_eq_true_eq] at h1
    split
    · rename_i hd; simp only [hd, ↓reduceIte] at h1; omega
    · rename_i hd; simp only [hd, ↓reduceIte] at h1; omega
  · subst hout
    simp [SupSpec, supSum, supEff, transferSub, hst]

/-- every successful `execute` under the honest-environment conditions -/
theorem execute_facts {s s' : CState} {env : Env} {info : Info} {m : ExecMsg} {out : List SubMsg} {self : String}
    (hi : CInv s) (hc : CfgInv s) (henv : env.contract = self) (hok : MsgOKc s self info.sender m)
    (hx : execute s env info m = .ok (s', out)) : ExecFacts s s' self info.funds m out := by
  have hD : s.config.proto.ibcDenom ≠ s.config.lstDenom := hc.distinct
  cases m
  case liquidStake mt tn ex => exact facts_stake hc henv hok hx
  case liquidUnstake => exact facts_unstake hx
  case submitBatch => exact facts_submit hi henv hx
  case withdraw b => exact facts_withdraw hc hx
  case receiveRewards => exact facts_rewards hc hx
  case receiveUnstakedTokens b => exact facts_receive hi hx
  case recover pg sel rc =>
    have : sel = none := hok
    subst this
    exact facts_recover hi hx
  case addValidator v =>
    simp only [execute] at hx
    obtain ⟨ho, _, _, _, hs'⟩ := addValidator_eff hx; subst hs' ho
    exact execFacts_frame rfl rfl rfl rfl rfl (by simp) rfl rfl (by simp [SupSpec, supSum])
  case removeValidator v =>
    simp only [execute] at hx
    obtain ⟨ho, _, _, hs'⟩ := removeValidator_eff hx; subst hs' ho
    exact execFacts_frame rfl rfl rfl rfl rfl (by simp) rfl rfl (by simp [SupSpec, supSum])
  case transferOwnership n =>
    simp only [execute] at hx
    obtain ⟨ho, o, _, hs'⟩ := transferOwnership_eff hx; subst hs' ho
    exact execFacts_frame rfl rfl rfl rfl rfl (by simp) rfl rfl (by simp [SupSpec, supSum, setOwn])
  case acceptOwnership =>
    simp only [execute] at hx
    obtain ⟨ho, o, _, hs'⟩ := acceptOwnership_eff hx; subst hs' ho
    exact execFacts_frame rfl rfl rfl rfl rfl (by simp) rfl rfl (by simp [SupSpec, supSum, setOwn])
  case revokeOwnershipTransfer =>
    simp only [execute] at hx
    obtain ⟨ho, o, _, hs'⟩ := revokeOwnership_eff hx; subst hs' ho
    exact execFacts_frame rfl rfl rfl rfl rfl (by simp) rfl rfl (by simp [SupSpec, supSum, setOwn])
  case updateConfig n p f mo bp =>
    simp only [execute] at hx
    obtain ⟨ho, _, nat', proto', fee', mons', bp', _, hp, _, _, _, hs'⟩ := updateConfig_eff hx
    subst hs' ho
    have hch : proto'.channel = s.config.proto.channel := by
      rcases optValidate_eff hp with ⟨_, hp'⟩ | ⟨c, hc', hp'⟩
      · subst hp'; rfl
      · unfold UnsafeProto.validate at hp'
        simp only [bind_ok, pure_ok, ensure_ok] at hp'
        obtain ⟨_, _, _, _, _, _, _, _, hp'⟩ := hp'
        subst hp'
        exact (hok.1 c hc').1
    exact execFacts_frame rfl rfl rfl rfl hch (by simp) rfl rfl (by simp [SupSpec, supSum])
  case circuitBreaker =>
    simp only [execute] at hx
    unfold circuitBreaker at hx
    simp only [bind_ok, pure_ok] at hx
    obtain ⟨_, _, hx⟩ := hx; cases hx
    exact execFacts_frame rfl rfl rfl rfl rfl (by simp) rfl rfl (by simp [SupSpec, supSum])
  case resumeContract n l r =>
    simp only [execute] at hx
    unfold resumeContract at hx
    simp only [bind_ok, pure_ok] at hx
    obtain ⟨_, _, orc, ho, hx⟩ := hx; cases hx
    have horc := oracle_msgs_shape ho
    obtain ⟨ho1, ho2⟩ := sums_oracle_w self s.config.lstDenom env.contract out horc
    exact execFacts_frame rfl rfl rfl rfl rfl (tracked_oracle horc) ho1 rfl ⟨rfl, ho2⟩
  case feeWithdraw a =>
    simp only [execute] at hx
    unfold feeWithdraw at hx
    simp only [bind_ok, pure_ok, ensure_ok, loadSome_ok] at hx
    obtain ⟨_, _, _, _, t, _, hx⟩ := hx; cases hx
    refine execFacts_frame rfl rfl rfl rfl rfl ?_ ?_ rfl (by simp [SupSpec, supSum, supEff, plain])
    · intro x hx
      simp only [List.mem_singleton] at hx; subst hx
      exact tracked_plain (by intros; simp)
    · simp only [balSum, balEff, plain, coinSum, hD, ↓reduceIte]
      split <;> simp

end MW.Chain
