import MW.Inv.Reach
import MW.Chain.World
/-!
# Bridge: along every history of the chain model, the contract store is a reachable contract state

So every invariant proved for `CReach` (batch lifecycle, request sums, packet keys, …) holds at
every point of every execution of the world model: any interleaving of transactions (with their
sub-message replies and whole-transaction rollbacks), ibc-hooks deliveries, acknowledgements,
timeouts, stray callbacks, donations and clock advances.
-/
namespace MW.Chain
open MW MW.Staking

theorem creach_of_reply {c c' : CState} {id : Nat} {res : ReplyResult} {out : List SubMsg}
    (h : CReach c) (hr : reply c id res = .ok (c', out)) : CReach c' := by
  have := creach_step h (.reply id res)
  simp only [cstep, hr] at this
  exact this

theorem creach_of_execute {c c' : CState} {env : Env} {info : Info} {m : ExecMsg} {out : List SubMsg}
    (h : CReach c) (hx : execute c env info m = .ok (c', out)) : CReach c' := by
  have := creach_step h (.exec env info m)
  simp only [cstep, hx] at this
  exact this

theorem creach_of_sudo {c : CState} (h : CReach c) (m : SudoMsg) : CReach (sudoCall { (default : World) with c := c } m).1.c := by
  have := creach_step h (.sudo m)
  simp only [cstep] at this
  simp only [sudoCall]
  split <;> simp_all

theorem dispatch_creach (f : Faults) (d : Disp) (m : SubMsg) (h : CReach d.w.c) : CReach (dispatch f d m).1.w.c := by
  unfold dispatch
  cases hm : m.msg <;> simp only
  case createDenom => exact h
  case mint => split <;> exact h
  case burn => split <;> exact h
  case bankSend => split; exact h; split <;> exact h
  case msgSend => split; exact h; split <;> exact h
  case wasmExec => exact h
  case swapIn => exact h
  case swapOut => exact h
  case transfer ch port sender recv coin t memo =>
    split
    · split
      · split
        · rename_i c' o hr
          exact creach_of_reply h hr
        · exact h
      · exact h
    · split
      · split
        · rename_i c' o hr
          exact creach_of_reply h hr
        · exact h
      · exact h

theorem dispatchAll_creach (f : Faults) (d : Disp) (ms : List SubMsg) (h : CReach d.w.c) :
    CReach (dispatchAll f d ms).1.w.c := by
  induction ms generalizing d with
  | nil => exact h
  | cons m rest ih =>
    simp only [dispatchAll]
    have hd := dispatch_creach f d m h
    split
    · rename_i d' heq
      rw [heq] at hd
      exact ih d' hd
    · rename_i d' heq
      rw [heq] at hd
      exact hd

theorem dispatchAll_creach2 {f : Faults} {d0 d : Disp} {ms : List SubMsg} {b : Bool}
    (hd : dispatchAll f d0 ms = (d, b)) (h : CReach d0.w.c) : CReach d.w.c := by
  have := dispatchAll_creach f d0 ms h
  rw [hd] at this
  exact this

theorem runExec_creach (w : World) (sender : String) (funds : List Coin) (msg : ExecMsg) (f : Faults) (txi : Option Nat)
    (h : CReach w.c) : CReach (runExec w sender funds msg f txi).w.c := by
  unfold runExec runExecCore
  simp only
  split
  · rename_i w' calls heq
    split at heq
    · cases heq
    · split at heq
      · cases heq
      · rename_i c' msgs hx
        split at heq
        · rename_i d hd
          cases heq
          have h1 : CReach c' := creach_of_execute h hx
          exact dispatchAll_creach2 hd h1
        · cases heq
  · exact h

/-- every event keeps the contract store inside the reachable contract states -/
theorem step_creach (w : World) (e : Event) (h : CReach w.c) : CReach (step w e).w.c := by
  cases e with
  | advance dt dh => exact h
  | exec sender funds msg f txi => exact runExec_creach w sender funds msg f txi h
  | hook channel ns coin msg f =>
    simp only [step]
    split
    · exact h
    · split
      · exact h
      · split
        · exact runExec_creach _ _ _ _ _ _ h
        · exact h
  | ack seq success =>
    simp only [step]
    split
    · exact h
    · rename_i p hp
      have key : ∀ (w1 : World) (m : SudoMsg), w1.c = w.c → CReach (sudoCall w1 m).1.c := by
        intro w1 m hc
        have := creach_step (hc ▸ h) (.sudo m)
        simp only [cstep] at this
        simp only [sudoCall]
        split <;> simp_all
      split <;> (dsimp only; apply key; rfl)
  | timeout seq =>
    simp only [step]
    split
    · exact h
    · rename_i p hp
      have := creach_step h (.sudo (.timeout p.channel seq))
      simp only [cstep] at this
      simp only [sudoCall]
      split <;> simp_all
  | strayAck channel seq success =>
    have := creach_step h (.sudo (.ack channel seq success))
    simp only [cstep] at this
    simp only [step, sudoCall]
    split <;> simp_all
  | strayTimeout channel seq =>
    have := creach_step h (.sudo (.timeout channel seq))
    simp only [cstep] at this
    simp only [step, sudoCall]
    split <;> simp_all
  | donate sender coin =>
    simp only [step]
    split <;> exact h
  | faucet to coin => exact h
  | reseq n => exact h

/-- a world booted from an accepted instantiation -/
def bootWorld (c : CState) (self chainPrefix : String) (timeNs height : Nat) : World :=
  { c, self, chainPrefix, timeNs, height, bal := fun _ _ => 0, supply := fun _ => 0, remote := fun _ _ => 0,
    pkts := [], nextSeq := 1 }

/-- along every history of the chain model the contract store is a reachable contract state, hence
satisfies the invariant `CInv` (unbounded history length) -/
theorem world_history_cinv (env : Env) (info : Info) (msg : InstantiateMsg) (c0 : CState) (out : List SubMsg)
    (hi : instantiate env info msg = .ok (c0, out)) (self pfx : String) (t hgt : Nat) (evs : List Event) :
    CInv (evs.foldl (fun w e => (step w e).w) (bootWorld c0 self pfx t hgt)).c := by
  have h0 : CReach (bootWorld c0 self pfx t hgt).c := ⟨env, info, msg, c0, out, [], hi, rfl⟩
  have : ∀ (w : World), CReach w.c → CReach (evs.foldl (fun w e => (step w e).w) w).c := by
    induction evs with
    | nil => intro w h; exact h
    | cons e es ih => intro w h; exact ih _ (step_creach w e h)
  exact cinv_reach (this _ h0)

end MW.Chain
