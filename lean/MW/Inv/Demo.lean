import MW.Inv.WorldInv
/-!
# A concrete history of the chain model that satisfies the honest-environment conditions

Used by the property files as the non-vacuity witness of the world-level theorems (evaluated with
`#guard`, i.e. tests of the hypotheses, not proofs): boot → resume → stake (protocol recipient) →
stake (native recipient: LST leaves by IBC) → error acknowledgement of the LST packet →
permissionless recovery → unstake → timeout of the re-sent packet → donation → batch submission →
unbonded tokens arrive → withdrawal → rewards.
-/
namespace MW.Chain.Demo
open MW MW.Staking MW.Chain

def demoSelf : String := "osmo1ejpjr43ht3y56pplm5pxpusmcrk9rkkvna4tklusnnwdxpqm0zlsjhwfeq"
def demoAdmin : String := "osmo1335hded4gyzpt00fpz75mms4m7ck02wgj3xjgx"
def demoUser : String := "osmo187fpqa68lnxvtrdc8qfzc9q5nvwxuk5p4k9l2m"
def demoNativeUser : String := "celestia1ejn6ljfpemz9huuur4gm8evqfuu6usrgpfltla"
def demoStaker : String := "celestia1639jjhzpm4pu7pqa3pccxgp40lf5d6xvmaflzd"
def demoCollector : String := "celestia1qum06kmuc74hml5zr5ap07flyc6yjamsdk2m5n"
def demoD : String := "ibc/C3E53D20BC7A4CC993B17C7971F8ECD06A433C10B6A96F4C4C3714F0624C56DA"
def demoX : String := "factory/" ++ demoSelf ++ "/stTIA"

def demoMsg : InstantiateMsg :=
  { native := { accountPrefix := "celestia", validatorPrefix := "celestiavaloper", tokenDenom := "utia",
                validators := ["celestiavaloper173ehxg25xha8j7w7hcjx0gk2wau7njcacmukjv"], unbondingPeriod := 1814400,
                staker := demoStaker, rewardCollector := demoCollector },
    proto := { accountPrefix := "osmo", ibcDenom := demoD, channel := "channel-7", minStake := 100, oracle := none },
    feeCfg := { fee := 10000, treasury := none }, lstSubdenom := "stTIA", batchPeriod := 86400, monitors := [] }

def demoEnv : Env :=
  { timeNs := 1700000000000000000, height := 10, txIndex := some 0, contract := demoSelf, chainPrefix := "osmo" }

def demoBoot : Option World :=
  match instantiate demoEnv { sender := demoAdmin, funds := [] } demoMsg with
  | .ok (c, _) => some (bootWorld c demoSelf "osmo" 1700000000000000000 10)
  | .error _ => none

def demoEvents1 : List Event :=
  [ .exec demoAdmin [] (.resumeContract 0 0 0) {} (some 0),
    .faucet demoUser ⟨demoD, 5000⟩,
    .exec demoUser [⟨demoD, 2000⟩] (.liquidStake none none none) {} (some 0),
    .exec demoUser [⟨demoD, 1000⟩] (.liquidStake (some demoNativeUser) none none) {} (some 1),
    .ack 3 false,
    .exec demoUser [] (.recover none none (some demoNativeUser)) {} (some 0),
    .exec demoUser [⟨demoX, 500⟩] .liquidUnstake {} (some 0),
    .timeout 4,
    .donate demoUser ⟨demoX, 7⟩ ]

def demoEvents2 : List Event :=
  [ .advance (86400 * 1000000000) 100,
    .exec demoUser [] .submitBatch {} (some 0),
    .advance (1814400 * 1000000000) 100,
    .hook "channel-7" demoStaker ⟨demoD, 480⟩ (.receiveUnstakedTokens 1) {},
    .exec demoUser [] (.withdraw 1) {} (some 0),
    .hook "channel-7" demoCollector ⟨demoD, 1000⟩ .receiveRewards {} ]

def demoEvents : List Event := demoEvents1 ++ demoEvents2

/-- the summary the guards compare: contract LST balance, LST supply, LST total, pending batch total,
refundable LST, donated LST, number of packets; contract staked-asset balance, owed staked asset,
paid out, forwarded, located on the chain, located in the refundable pool -/
def summary (w : World) (g : WGhost) : List Int :=
  let S := w.c.config.native.staker
  [w.bal demoSelf demoX, w.supply demoX, w.c.st.totalLst, pendTotal w.c, refundableSum w.c demoX, g.donL, w.pkts.length,
   w.bal demoSelf demoD, owedD w.c, g.paid, g.fwd, locW S demoD w.pkts, locC S demoD w.c]

end MW.Chain.Demo
