import MW.Inv.WorldPayable
/-!
# What was set aside is what the batches record, along every world history

`SInv w g` : the history counter `g.setAside` (the sum of the expected amounts recorded by every committed
`SubmitBatch`) equals the sum of `expected_native_unstaked` over the stored batches.  It holds after every
history of the chain model with no condition on the environment, because the expected amount of a batch is
written once (at submission) and no other handler, callback or rollback touches it.

Together with N1 and F1 (`WInv`) this gives the corollary of property C01 about the staker's own holdings:
what has been delivered to the staker equals the reported total plus everything set aside for submitted batches
(plus the swept and re-basing terms) minus what is still on its way — so an operator who returns, for each
batch, what that batch expects keeps exactly the reported total plus the outstanding expectations.
-/
namespace MW.Chain
open MW MW.Staking

def expAmt (b : Batch) : Nat := b.expected.getD 0

/-- Σ over all stored batches of the expected amount recorded at submission (0 for the pending batch) -/
def expSum (c : CState) : Nat := AMap.sumBy expAmt c.batches

/-- the part of it that is still outstanding: batches submitted and not yet received -/
def outAmt (b : Batch) : Nat := if b.status = .submitted then b.expected.getD 0 else 0
def outSum (c : CState) : Nat := AMap.sumBy outAmt c.batches

/-- expected amounts of the batches already received -/
def doneAmt (b : Batch) : Nat := if b.status = .received then b.expected.getD 0 else 0
def doneSum (c : CState) : Nat := AMap.sumBy doneAmt c.batches

theorem sumBy_add {α : Type} (f g h : α → Nat) (m : AMap α) (hf : ∀ x ∈ m, f x.2 = g x.2 + h x.2) :
    AMap.sumBy f m = AMap.sumBy g m + AMap.sumBy h m := by
  induction m with
  | nil => rfl
  | cons kv rest ih =>
    obtain ⟨k, v⟩ := kv
    have h1 := hf (k, v) (by simp)
    have h2 := ih (fun x hx => hf x (List.mem_cons_of_mem _ hx))
    simp only [AMap.sumBy] at *
    omega

theorem mem_find {α : Type} {m : AMap α} (hs : m.Sorted) {k : Nat} {v : α} (h : (k, v) ∈ m) : m.find? k = some v := by
  induction m with
  | nil => simp at h
  | cons kv rest ih =>
    obtain ⟨k', v'⟩ := kv
    obtain ⟨h1, h2⟩ := AMap.sorted_cons.mp hs
    simp only [List.mem_cons, Prod.mk.injEq] at h
    rcases h with ⟨hk, hv⟩ | h
    · subst hk hv; simp [AMap.find?]
    · have hlt := h1 (k, v) h
      have hne : ¬ k' = k := by simp only at hlt; omega
      simp only [AMap.find?, hne, ↓reduceIte]
      exact ih h2 h

/-- in a reachable state the recorded expectations split into outstanding and already-received batches
(the pending batch records none) -/
theorem expSum_split {c : CState} (hi : CInv c) : expSum c = outSum c + doneSum c := by
  unfold expSum outSum doneSum
  apply sumBy_add
  intro x hx
  obtain ⟨k, b⟩ := x
  have hf := mem_find hi.sortedB hx
  have hk := (hi.keys k).mp (by simp [hf])
  by_cases hp : k = c.pendingId
  · subst hp
    obtain ⟨hst, _, he, _⟩ := hi.pend b hf
    simp [expAmt, outAmt, doneAmt, hst, he]
  · have hlt : k < c.pendingId := by omega
    rcases hi.older k b hf hlt with ⟨hst, _⟩ | ⟨hst, _⟩ <;> simp [expAmt, outAmt, doneAmt, hst]

/-- one successful call adds to the recorded expectations exactly what a submission sets aside -/
theorem execute_exp {s s' : CState} {env : Env} {info : Info} {m : ExecMsg} {out : List SubMsg}
    (hi : CInv s) (hx : execute s env info m = .ok (s', out)) :
    expSum s' = expSum s + setAsideDelta s s' m := by
  cases execute_batchChange hx with
  | none m hb hp =>
    have e : setAsideDelta s s' m = 0 := by
      cases m <;> simp only [setAsideDelta]
      case submitBatch =>
        rw [hb]
        obtain ⟨b, hb0⟩ := hi.pending_exists
        have := (hi.pend b hb0).2.2.1
        simp [hb0, this]
    unfold expSum; rw [hb, e]; rfl
  | unstake b a isNew hb0 _ hbb =>
    have hsum := AMap.sumBy_insert_old expAmt hi.sortedB (grown b a isNew) b hb0
    have e : expAmt (grown b a isNew) = expAmt b := by simp [expAmt, grown]
    unfold expSum; rw [hbb]; simp only [setAsideDelta]; omega
  | submit batch unbond _ hb _ _ _ _ _ hbb =>
    have hid : batch.id = s.pendingId := hi.idKey _ _ hb
    have hex := (hi.pend batch hb).2.2.1
    have hnone : s.batches.find? (batch.id + 1) = none := by
      cases hf : s.batches.find? (batch.id + 1) with
      | none => rfl
      | some x =>
        have := (hi.keys (batch.id + 1)).mp (by simp [hf])
        omega
    have h1 := AMap.sumBy_insert_new expAmt (Batch.new (batch.id + 1) 0 (env.seconds + s.config.batchPeriod)) hnone
    have hb' : (s.batches.insert (batch.id + 1) (Batch.new (batch.id + 1) 0 (env.seconds + s.config.batchPeriod))).find? batch.id
        = some batch := by
      have hne : batch.id ≠ batch.id + 1 := by omega
      rw [AMap.find?_insert_other _ _ _ _ hne, hid]; exact hb
    have h2 := AMap.sumBy_insert_old expAmt (AMap.sorted_insert hi.sortedB _ _)
      (({ batch with expected := some unbond }).updateStatus .submitted (some (env.seconds + s.config.native.unbondingPeriod)))
      batch hb'
    have e0 : expAmt batch = 0 := by simp [expAmt, hex]
    have e1 : expAmt (Batch.new (batch.id + 1) 0 (env.seconds + s.config.batchPeriod)) = 0 := by simp [expAmt, Batch.new]
    have e2 : expAmt (({ batch with expected := some unbond }).updateStatus .submitted
        (some (env.seconds + s.config.native.unbondingPeriod))) = unbond := by simp [expAmt, Batch.updateStatus]
    have e3 : setAsideDelta s s' .submitBatch = unbond := by
      simp only [setAsideDelta, hbb, ← hid, AMap.find?_insert_self, Option.bind_some, Batch.updateStatus, Option.getD_some]
    unfold expSum; rw [hbb, e3]; omega
  | receive bid coin batch t _ _ _ hb _ _ _ _ hbb =>
    have hk : batch.id = bid := hi.idKey _ _ hb
    rw [← hk] at hb
    have hsum := AMap.sumBy_insert_old expAmt hi.sortedB
      ({ batch with received := some coin.amount, status := .received, nextAction := none }) batch hb
    have e : expAmt ({ batch with received := some coin.amount, status := .received, nextAction := none }) = expAmt batch := by
      simp [expAmt]
    unfold expSum; rw [hbb]; simp only [setAsideDelta]; omega

/-- the invariant -/
def SInv (w : World) (g : WGhost) : Prop := g.setAside = expSum w.c

theorem expSum_congr {c c' : CState} (hb : c'.batches = c.batches) : expSum c' = expSum c := by
  unfold expSum; rw [hb]

/-- one transaction -/
theorem runExec_sinv {w : World} {g : WGhost} (sender : String) (funds : List Coin) (msg : ExecMsg) (f : Faults)
    (txi : Option Nat) (hr : CReach w.c) (hj : SInv w g) :
    SInv (runExec w sender funds msg f txi).w
      (if (runExec w sender funds msg f txi).committed then ghostExec w g funds msg (execRes w sender funds msg txi) else g) := by
  unfold runExec
  cases hcore : runExecCore w sender funds msg f txi with
  | mk o calls =>
    cases o with
    | none => simpa using hj
    | some w' =>
      simp only [↓reduceIte]
      obtain ⟨bal1, c', msgs, d, _, hx, hd, hw'⟩ := runExecCore_some hcore
      subst hw'
      have hrb := dispatchAll_rb f { w := { w with bal := bal1, c := c' },
                                     calls := [Call.execute { sender, funds } msg (.ok msgs)] } msgs
      rw [hd] at hrb
      have e2 := expSum_congr (c := c') (c' := d.w.c) hrb.2
      have hres : execRes w sender funds msg txi = (c', msgs) := by simp only [execRes, hx]
      have hown := execute_exp (cinv_reach hr) hx
      unfold SInv at hj ⊢
      simp only [ghostExec, hres]
      rw [e2, hj, hown]

theorem wgstep_setAside_other (w : World) (g : WGhost) (e : Event) (he : ∀ s fu m f t, e ≠ .exec s fu m f t)
    (hh : ∀ c n co m f, e ≠ .hook c n co m f) : (wgstep w g e).setAside = g.setAside := by
  unfold wgstep
  split
  · cases e with
    | exec sender funds msg f txi => exact absurd rfl (he _ _ _ _ _)
    | hook channel ns coin msg f => exact absurd rfl (hh _ _ _ _ _)
    | faucet to coin => simp only; split <;> rfl
    | _ => rfl
  · rfl

/-- every event of the world preserves `SInv` (no condition on the environment is needed) -/
theorem step_sinv {w : World} {g : WGhost} (e : Event) (hr : CReach w.c) (hj : SInv w g) :
    SInv (step w e).w (wgstep w g e) := by
  by_cases hx : ∃ s fu m f t, e = .exec s fu m f t
  · obtain ⟨sender, funds, msg, f, txi, rfl⟩ := hx
    simp only [step, wgstep]
    exact runExec_sinv sender funds msg f txi hr hj
  by_cases hk : ∃ c n co m f, e = .hook c n co m f
  · obtain ⟨channel, ns, coin, msg, f, rfl⟩ := hk
    simp only [step, wgstep]
    split
    · simpa using hj
    · rename_i acct hacct
      split
      · simpa using hj
      · have h1 := runExec_sinv (w := { w with bal := w.bal.add acct coin.denom coin.amount }) (g := g) acct [coin] msg f (some 0) hr hj
        split
        · rename_i hc
          simp only [hc, ↓reduceIte, hacct] at h1 ⊢
          exact h1
        · simpa using hj
  · have he : ∀ s fu m f t, e ≠ .exec s fu m f t := fun s fu m f t h => hx ⟨s, fu, m, f, t, h⟩
    have hh : ∀ c n co m f, e ≠ .hook c n co m f := fun c n co m f h => hk ⟨c, n, co, m, f, h⟩
    obtain ⟨_, h2⟩ := step_rb_other w e he hh
    unfold SInv at hj ⊢
    rw [wgstep_setAside_other w g e he hh, expSum_congr h2]; exact hj

theorem runW_sinv {w : World} {g : WGhost} (evs : List Event) (hr : CReach w.c) (hj : SInv w g) :
    SInv (runW w g evs).1 (runW w g evs).2 := by
  induction evs generalizing w g with
  | nil => exact hj
  | cons e rest ih =>
    simp only [runW]
    exact ih (step_creach w e hr) (step_sinv e hr hj)

theorem sinv_boot {env : Env} {info : Info} {msg : InstantiateMsg} {c0 : CState} {out : List SubMsg}
    (hi : instantiate env info msg = .ok (c0, out)) (self pfx : String) (t h : Nat) :
    SInv (bootWorld c0 self pfx t h) {} := by
  unfold instantiate at hi
  simp only [bind_ok, pure_ok] at hi
  obtain ⟨_, _, _, _, _, _, _, _, _, _, _, _, _, _, hi⟩ := hi
  cases hi
  simp [SInv, bootWorld, expSum, AMap.sumBy, expAmt, Batch.new]

/-- **every history, no environment condition**: the set-aside counter is the sum of the expected amounts the
stored batches record -/
theorem world_history_sinv {env : Env} {info : Info} {msg : InstantiateMsg} {c0 : CState} {out : List SubMsg}
    (hi : instantiate env info msg = .ok (c0, out)) (self pfx : String) (t hgt : Nat) (evs : List Event) :
    SInv (runW (bootWorld c0 self pfx t hgt) {} evs).1 (runW (bootWorld c0 self pfx t hgt) {} evs).2 :=
  runW_sinv evs ⟨env, info, msg, c0, out, [], hi, rfl⟩ (sinv_boot hi self pfx t hgt)

/-- the contract state after a world history is reachable (hence satisfies `CInv`) -/
theorem world_history_creach {env : Env} {info : Info} {msg : InstantiateMsg} {c0 : CState} {out : List SubMsg}
    (hi : instantiate env info msg = .ok (c0, out)) (self pfx : String) (t hgt : Nat) (evs : List Event) :
    CReach (runW (bootWorld c0 self pfx t hgt) {} evs).1.c := by
  have key : ∀ (w : World) (g : WGhost), CReach w.c → CReach (runW w g evs).1.c := by
    induction evs with
    | nil => intro w g h; exact h
    | cons e rest ih => intro w g h; simp only [runW]; exact ih _ _ (step_creach w e h)
  exact key _ _ ⟨env, info, msg, c0, out, [], hi, rfl⟩

/-! ## where the forwarded tokens are: in flight, or delivered -/

def pendPkt (S D : String) (p : ChainPkt) : Nat :=
  if p.coin.denom = D ∧ p.receiver = S ∧ p.state = .pending then p.coin.amount else 0
def delPkt (S D : String) (p : ChainPkt) : Nat :=
  if p.coin.denom = D ∧ p.receiver = S ∧ p.state = .delivered then p.coin.amount else 0

/-- staked asset in flight toward `S` -/
def pendW (S D : String) (pkts : List ChainPkt) : Nat := (pkts.map (pendPkt S D)).sum
/-- staked asset delivered to `S` on the native chain -/
def delW (S D : String) (pkts : List ChainPkt) : Nat := (pkts.map (delPkt S D)).sum

theorem locW_split (S D : String) (pkts : List ChainPkt) : locW S D pkts = pendW S D pkts + delW S D pkts := by
  induction pkts with
  | nil => rfl
  | cons p rest ih =>
    simp only [locW, pendW, delW, List.map_cons, List.sum_cons] at ih ⊢
    have : locPkt S D p = pendPkt S D p + delPkt S D p := by
      unfold locPkt pendPkt delPkt
      cases hs : p.state <;> by_cases h1 : p.coin.denom = D <;> by_cases h2 : p.receiver = S <;> simp [h1, h2]
    omega

end MW.Chain
