import MW.Inv.WorldFlag
/-!
# The staking contract's three ownership values are a function of the history of committed ownership calls

`execute_own`: whatever message succeeds, the triple (admin, nominee, earliest acceptance time) afterwards is the
result of the shared ownership machine (`MW.Own`) for the three ownership messages and unchanged for every other
message (ResumeContract, UpdateConfig, … included); `reply` and `sudo` never touch it.  Lifted to the chain model:
`step_own` for every event, so that every statement proved about histories of the abstract machine holds for the
staking contract along every world history (`MW.Props.C12`).
-/
namespace MW.Chain
open MW MW.Staking

/-- what a successful message does to the ownership triple -/
def ownAfterMsg (o : Own) (env : Env) (info : Info) : ExecMsg → Own
  | .transferOwnership n =>
    match o.nominate env.seconds info.sender (addrValidate env.chainPrefix n) with
    | .ok o' => o'
    | .error _ => o
  | .revokeOwnershipTransfer =>
    match o.revoke info.sender with
    | .ok o' => o'
    | .error _ => o
  | .acceptOwnership =>
    match o.accept env.seconds info.sender with
    | .ok o' => o'
    | .error _ => o
  | _ => o

theorem ownOf_setOwn (s : CState) (o : Own) : ownOf (setOwn s o) = o := by
  cases o; rfl

theorem execute_own {s s' : CState} {env : Env} {info : Info} {m : ExecMsg} {out : List SubMsg}
    (hx : execute s env info m = .ok (s', out)) : ownOf s' = ownAfterMsg (ownOf s) env info m := by
  cases m <;> simp only [execute] at hx
  case liquidStake mt tn ex =>
    simp only [bind_ok] at hx
    obtain ⟨pay, _, hx⟩ := hx
    obtain ⟨st, _, _, _, _, hsw, _, _, _, _, _, hcase⟩ := liquidStake_eff hx
    have hst : st.pendingOwner = s.st.pendingOwner ∧ st.ownerMinTime = s.st.ownerMinTime := by
      rcases sweep_eff hsw with ⟨_, _, h3⟩ | ⟨_, h3⟩ <;> subst h3 <;> exact ⟨rfl, rfl⟩
    rcases hcase with ⟨_, hs', _⟩ | ⟨_, _, hs', _⟩ <;> subst hs' <;> simp [ownOf, ownAfterMsg, hst.1, hst.2]
  case liquidUnstake =>
    simp only [bind_ok] at hx
    obtain ⟨a, _, hx⟩ := hx
    obtain ⟨_, _, b, _, hs'⟩ := liquidUnstake_eff hx
    subst hs'; rfl
  case submitBatch =>
    obtain ⟨_, _, _, _, _, _, _, _, _, _, hs', _⟩ := submitBatch_eff hx
    subst hs'; rfl
  case withdraw b =>
    obtain ⟨_, _, _, _, _, _, _, _, _, _, _, hs', _⟩ := withdraw_eff hx
    subst hs'; rfl
  case addValidator v => obtain ⟨_, _, _, _, hs'⟩ := addValidator_eff hx; subst hs'; rfl
  case removeValidator v => obtain ⟨_, _, _, hs'⟩ := removeValidator_eff hx; subst hs'; rfl
  case transferOwnership n =>
    obtain ⟨_, o, ho, hs'⟩ := transferOwnership_eff hx
    subst hs'; simp only [ownAfterMsg, ho, ownOf_setOwn]
  case acceptOwnership =>
    obtain ⟨_, o, ho, hs'⟩ := acceptOwnership_eff hx
    subst hs'; simp only [ownAfterMsg, ho, ownOf_setOwn]
  case revokeOwnershipTransfer =>
    obtain ⟨_, o, ho, hs'⟩ := revokeOwnership_eff hx
    subst hs'; simp only [ownAfterMsg, ho, ownOf_setOwn]
  case updateConfig n p f mo bp =>
    obtain ⟨_, _, nat', proto', fee', mons', bp', _, _, _, _, _, hs'⟩ := updateConfig_eff hx
    subst hs'; rfl
  case receiveRewards =>
    obtain ⟨_, _, _, _, _, _, _, _, _, _, _, _, hs', _⟩ := receiveRewards_eff hx
    subst hs'; rfl
  case receiveUnstakedTokens b =>
    obtain ⟨_, _, _, _, _, _, _, _, _, _, _, hs'⟩ := receiveUnstaked_eff hx; subst hs'; rfl
  case circuitBreaker =>
    unfold circuitBreaker at hx
    simp only [bind_ok, pure_ok] at hx
    obtain ⟨_, _, hx⟩ := hx; cases hx; rfl
  case resumeContract n l r =>
    unfold resumeContract at hx
    simp only [bind_ok, pure_ok] at hx
    obtain ⟨_, _, _, _, hx⟩ := hx; cases hx; rfl
  case recover pg sel rc =>
    obtain ⟨_, _, _, _, _, _, _, _, _, _, _, _, _, _, hs', _⟩ := recover_eff hx
    subst hs'; rfl
  case feeWithdraw a =>
    unfold feeWithdraw at hx
    simp only [bind_ok, pure_ok] at hx
    obtain ⟨_, _, _, _, _, _, hx⟩ := hx; cases hx; rfl

theorem reply_own {s s' : CState} {id : Nat} {res : ReplyResult} {out : List SubMsg}
    (h : reply s id res = .ok (s', out)) : ownOf s' = ownOf s := by
  obtain ⟨_, _, _, _, _, hs'⟩ := reply_eff h; subst hs'; rfl

theorem sudo_own {s s' : CState} {m : SudoMsg} {out : List SubMsg}
    (h : sudo s m = .ok (s', out)) : ownOf s' = ownOf s := by
  obtain ⟨_, _, hs'⟩ := sudo_eff h; subst hs'; rfl

theorem dispatch_own (f : Faults) (d : Disp) (m : SubMsg) : ownOf (dispatch f d m).1.w.c = ownOf d.w.c := by
  unfold dispatch
  cases hm : m.msg <;> simp only
  case mint => split <;> rfl
  case burn => split <;> rfl
  case bankSend => split; rfl; split <;> rfl
  case msgSend => split; rfl; split <;> rfl
  case transfer ch port sender recv coin t memo =>
    split
    · split
      · split
        · rename_i c' o hr; exact reply_own hr
        · rfl
      · rfl
    · split
      · split
        · rename_i c' o hr; exact reply_own hr
        · rfl
      · rfl

theorem dispatchAll_own (f : Faults) (d : Disp) (ms : List SubMsg) : ownOf (dispatchAll f d ms).1.w.c = ownOf d.w.c := by
  induction ms generalizing d with
  | nil => rfl
  | cons m rest ih =>
    simp only [dispatchAll]
    have hd := dispatch_own f d m
    split
    · rename_i d' heq
      rw [heq] at hd
      exact (ih d').trans hd
    · rename_i d' heq
      rw [heq] at hd
      exact hd

theorem sudoCall_own (w : World) (m : SudoMsg) : ownOf (sudoCall w m).1.c = ownOf w.c := by
  simp only [sudoCall]
  split
  · rename_i c' o hs; exact sudo_own hs
  · rfl

/-- one transaction: committed → the machine's result for that message; rolled back → unchanged -/
theorem runExec_own (w : World) (sender : String) (funds : List Coin) (msg : ExecMsg) (f : Faults) (txi : Option Nat) :
    ownOf (runExec w sender funds msg f txi).w.c
      = if (runExec w sender funds msg f txi).committed
        then ownAfterMsg (ownOf w.c) (w.env txi) { sender := sender, funds := funds } msg else ownOf w.c := by
  unfold runExec
  cases hcore : runExecCore w sender funds msg f txi with
  | mk o calls =>
    cases o with
    | none => simp
    | some w' =>
      simp only [↓reduceIte]
      obtain ⟨bal1, c', msgs, d, _, hx, hd, hw'⟩ := runExecCore_some hcore
      subst hw'
      have hc := dispatchAll_own f { w := { w with bal := bal1, c := c' },
                                     calls := [Call.execute { sender, funds } msg (.ok msgs)] } msgs
      rw [hd] at hc
      rw [hc]
      exact execute_own hx

/-- the ownership triple after an event, as the event itself defines it -/
def ownAfter (w : World) (e : Event) : Own :=
  if (step w e).committed then
    match e with
    | .exec sender funds msg _ txi => ownAfterMsg (ownOf w.c) (w.env txi) { sender := sender, funds := funds } msg
    | .hook channel ns coin msg _ =>
      match deriveIntermediateSender channel ns w.chainPrefix with
      | some acct => ownAfterMsg (ownOf w.c) (w.env (some 0)) { sender := acct, funds := [coin] } msg
      | none => ownOf w.c
    | _ => ownOf w.c
  else ownOf w.c

theorem step_own_other (w : World) (e : Event) (he : ∀ s fu m f t, e ≠ .exec s fu m f t)
    (hh : ∀ c n co m f, e ≠ .hook c n co m f) : ownOf (step w e).w.c = ownOf w.c := by
  have key : ∀ (w1 : World) (m : SudoMsg), w1.c = w.c → ownOf (sudoCall w1 m).1.c = ownOf w.c := by
    intro w1 m hc
    have := sudoCall_own w1 m
    rw [hc] at this; exact this
  cases e with
  | advance dt dh => rfl
  | exec sender funds msg f txi => exact absurd rfl (he _ _ _ _ _)
  | hook channel ns coin msg f => exact absurd rfl (hh _ _ _ _ _)
  | ack seq success =>
    simp only [step]
    split
    · rfl
    · split <;> (dsimp only; apply key; rfl)
  | timeout seq =>
    simp only [step]
    split
    · rfl
    · dsimp only; apply key; rfl
  | strayAck channel seq success => simp only [step]; exact key w _ rfl
  | strayTimeout channel seq => simp only [step]; exact key w _ rfl
  | donate sender coin =>
    simp only [step]
    split <;> rfl
  | faucet to coin => rfl
  | reseq n => rfl

/-- **every event of the chain model** -/
theorem step_own (w : World) (e : Event) : ownOf (step w e).w.c = ownAfter w e := by
  by_cases hx : ∃ s fu m f t, e = .exec s fu m f t
  · obtain ⟨sender, funds, msg, f, txi, rfl⟩ := hx
    simp only [ownAfter, step]
    exact runExec_own w sender funds msg f txi
  by_cases hk : ∃ c n co m f, e = .hook c n co m f
  · obtain ⟨channel, ns, coin, msg, f, rfl⟩ := hk
    simp only [ownAfter, step]
    split
    · simp
    · rename_i acct hacct
      split
      · simp
      · have h1 := runExec_own { w with bal := w.bal.add acct coin.denom coin.amount } acct [coin] msg f (some 0)
        have henv : ({ w with bal := w.bal.add acct coin.denom coin.amount } : World).env (some 0) = w.env (some 0) := rfl
        rw [henv] at h1
        split
        · rename_i hc
          simp only [hc, ↓reduceIte, hacct] at h1 ⊢
          exact h1
        · simp
  · have he : ∀ s fu m f t, e ≠ .exec s fu m f t := fun s fu m f t h => hx ⟨s, fu, m, f, t, h⟩
    have hh : ∀ c n co m f, e ≠ .hook c n co m f := fun c n co m f h => hk ⟨c, n, co, m, f, h⟩
    rw [step_own_other w e he hh]
    unfold ownAfter
    cases e with
    | exec sender funds msg f txi => exact absurd rfl (he _ _ _ _ _)
    | hook channel ns coin msg f => exact absurd rfl (hh _ _ _ _ _)
    | _ => simp

end MW.Chain
