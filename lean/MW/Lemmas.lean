import MW.Prim
/-!
# Rewriting lemmas for `Except`-valued handlers

`h : (do let a ← x; f a) = .ok b` becomes `∃ a, x = .ok a ∧ f a = .ok b`, and each primitive
(`ensure`, `loadSome`, checked arithmetic) becomes the fact it established.
-/
namespace MW

theorem bind_ok {α β} {x : R α} {f : α → R β} {b : β} :
    (x >>= f) = Except.ok b ↔ ∃ a, x = Except.ok a ∧ f a = Except.ok b := by
  cases x <;> simp [bind, Except.bind]

theorem bind_err {α β} {x : R α} {f : α → R β} {e : Err} :
    (x >>= f) = Except.error e ↔ x = Except.error e ∨ ∃ a, x = Except.ok a ∧ f a = Except.error e := by
  cases x <;> simp [bind, Except.bind]

theorem pure_ok {α} {a b : α} : (pure a : R α) = Except.ok b ↔ a = b := by
  simp [pure, Except.pure]

theorem ensure_ok {c : Bool} {e : Err} {u : Unit} : ensure c e = Except.ok u ↔ c = true := by
  unfold ensure; split <;> simp_all

theorem ensure_err {c : Bool} {e e' : Err} : ensure c e = Except.error e' ↔ c = false ∧ e' = e := by
  unfold ensure; split <;> simp_all [eq_comm]

theorem ensure_false {e : Err} : ensure false e = Except.error e := rfl
theorem ensure_true {e : Err} : ensure true e = Except.ok () := rfl

theorem loadSome_ok {α} {o : Option α} {e : Err} {a : α} : loadSome o e = Except.ok a ↔ o = some a := by
  unfold loadSome; split <;> simp_all

theorem add128_ok {site : String} {a b c : Nat} :
    add128 site a b = Except.ok c ↔ a + b ≤ U128.max ∧ c = a + b := by
  unfold add128; split <;> simp_all [eq_comm] <;> omega

theorem add64_ok {site : String} {a b c : Nat} :
    add64 site a b = Except.ok c ↔ a + b ≤ U64.max ∧ c = a + b := by
  unfold add64; split <;> simp_all [eq_comm] <;> omega

theorem mul64_ok {site : String} {a b c : Nat} :
    mul64 site a b = Except.ok c ↔ a * b ≤ U64.max ∧ c = a * b := by
  unfold mul64; split <;> simp_all [eq_comm] <;> omega

theorem subUsize_ok {site : String} {a b c : Nat} :
    subUsize site a b = Except.ok c ↔ b ≤ a ∧ c = a - b := by
  unfold subUsize; split <;> simp_all [eq_comm] <;> omega

theorem mulRatio_ok {site : String} {a n d c : Nat} :
    mulRatio site a n d = Except.ok c ↔ d ≠ 0 ∧ a * n / d ≤ U128.max ∧ c = a * n / d := by
  unfold mulRatio; split
  · simp_all
  · split <;> simp_all [eq_comm] <;> omega

theorem checkedSub_some {a b c : Nat} : checkedSub a b = some c ↔ b ≤ a ∧ c = a - b := by
  unfold checkedSub; split <;> simp_all [eq_comm] <;> omega

/-- an `Except` value is a panic -/
def isPanic {α} : R α → Bool
  | .error (.panic _) => true
  | _ => false

end MW
