import MW.Staking.Exec
import MW.Lemmas
/-!
# Small facts about the handlers shared by several property files (helper lemmas only;
# the property statements themselves live in MW/Props)
-/
namespace MW.Staking
open MW

theorem mustPay_err_not_panic {info : Info} {d : String} {e : Err}
    (h : mustPay info d = .error e) : e.isPanic = false := by
  unfold mustPay at h
  (repeat' split at h) <;> (try cases h) <;> rfl

theorem mustPay_ok {info : Info} {d : String} {a : Nat} (h : mustPay info d = .ok a) :
    info.funds = [⟨d, a⟩] ∧ a ≠ 0 := by
  unfold mustPay at h
  split at h
  · cases h
  · rename_i c heq
    split at h
    · cases h
    · split at h
      · cases h
      · cases h
        rename_i h1 h2
        simp at h2
        refine ⟨?_, h1⟩
        rw [heq]; cases c; simp_all
  · cases h

theorem assertAdmin_ok {s : CState} {sender : String} {u : Unit} :
    assertAdmin s sender = .ok u ↔ s.admin = some sender := by
  unfold assertAdmin
  simp only [ensure_ok]
  simp

theorem assertAdmin_isOk {s : CState} {sender : String} :
    isOk (assertAdmin s sender) = true ↔ s.admin = some sender := by
  cases h : assertAdmin s sender with
  | ok u => simp [isOk]; exact assertAdmin_ok.mp h
  | error e =>
    simp [isOk]
    intro hc
    have := (assertAdmin_ok (u := ())).mpr hc
    rw [h] at this; cases this

theorem checkStopped_ok {cfg : Config} {u : Unit} : checkStopped cfg = .ok u ↔ cfg.stopped = false := by
  unfold checkStopped; simp only [ensure_ok]; simp

/-- `saveWaiting` only touches the reply table -/
theorem saveWaiting_ok {s s' : CState} {id : Nat} {w : Waiting} (h : saveWaiting s id w = .ok s') :
    s.waiting.find? id = none ∧ s' = { s with waiting := s.waiting.insert id w } := by
  unfold saveWaiting at h
  split at h
  · cases h
  · cases h; exact ⟨by assumption, rfl⟩

/-- what `ibcTransferSubMsg` does on success -/
theorem ibcTransferSubMsg_ok {s : CState} {env : Env} {recv : String} {coin : Coin} {sub : Option Nat}
    {r : CState × SubMsg} (h : ibcTransferSubMsg s env recv coin sub = .ok r) :
    ∃ id timeout, r.1 = { s with waiting := s.waiting.insert id { coin := coin, receiver := recv } }
      ∧ s.waiting.find? id = none
      ∧ r.2 = { id := id, replyAlways := true,
                msg := .transfer s.config.proto.channel "transfer" env.contract recv coin timeout (memoFor env.contract) }
      ∧ timeout = env.timeNs + IBC_TIMEOUT_NS
      ∧ (∀ i, sub = some i → id = i) := by
  unfold ibcTransferSubMsg at h
  simp only [bind_ok, pure_ok] at h
  obtain ⟨m, hm, dflt, _, s', hs', h⟩ := h
  unfold ibcTransferMsg at hm
  simp only [bind_ok, pure_ok, ensure_ok, add64_ok] at hm
  obtain ⟨_, _, t, ht, hm⟩ := hm
  obtain ⟨hw, hs'⟩ := saveWaiting_ok hs'
  subst h hm hs'
  refine ⟨_, t, rfl, hw, rfl, ht.2, ?_⟩
  intro i hi; subst hi; rfl

end MW.Staking
