import MW.Staking.Exec
/-!
# Queries of the staking contract (contracts/staking/src/query.rs)
-/
namespace MW.Staking
open MW

structure BatchResp where
  id : Nat
  total : Nat
  expected : Nat
  received : Nat
  reqCount : Nat
  nextActionNs : Nat
  status : String
deriving DecidableEq, Repr

/-- `batch_to_response`; `Timestamp::from_seconds` multiplies by 10^9 in `u64` -/
def batchToResponse (b : Batch) : R BatchResp := do
  let t ← mul64 "A41" (b.nextAction.getD 0) 1000000000
  pure { id := b.id, total := b.total, expected := b.expected.getD 0, received := b.received.getD 0,
         reqCount := b.reqCount.getD 0, nextActionNs := t, status := b.status.asStr }

def mapR {α β} (f : α → R β) : List α → R (List β)
  | [] => .ok []
  | a :: rest =>
    match f a with
    | .error e => .error e
    | .ok b => match mapR f rest with
      | .error e => .error e
      | .ok bs => .ok (b :: bs)

/-- `query_batch` -/
def queryBatch (s : CState) (id : Nat) : R BatchResp :=
  match s.batches.find? id with
  | none => .error (.std "NotFound")
  | some b => batchToResponse b

/-- the optional status filter of `query_batches` -/
def statusFilter (status : Option BatchStatus) (b : Batch) : Bool :=
  match status with
  | none => true
  | some st => b.status = st

/-- the batches `query_batches` selects, before conversion -/
def selectBatches (s : CState) (startAfter : Option Nat) (limit : Option Nat)
    (status : Option BatchStatus) : List Batch :=
  paginate s.batches startAfter limit (statusFilter status)

/-- `query_batches` -/
def queryBatches (s : CState) (startAfter : Option Nat) (limit : Option Nat)
    (status : Option BatchStatus) : R (List BatchResp) :=
  mapR batchToResponse (selectBatches s startAfter limit status)

/-- `query_batches_by_ids` -/
def queryBatchesByIds (s : CState) (ids : List Nat) : R (List BatchResp) :=
  mapR batchToResponse (ids.filterMap (s.batches.find? ·))

/-- `query_pending_batch` -/
def queryPendingBatch (s : CState) : R BatchResp := queryBatch s s.pendingId

/-- `query_ibc_queue` -/
def queryIbcQueue (s : CState) (startAfter : Option Nat) (limit : Option Nat) : List Packet :=
  paginate s.inflight startAfter limit (fun _ => true)

/-- `query_reply_queue` -/
def queryReplyQueue (s : CState) (startAfter : Option Nat) (limit : Option Nat) : List Waiting :=
  paginate s.waiting startAfter limit (fun _ => true)

/-- `query_unstake_requests`: the user's open requests (ascending batch id) -/
def queryUnstakeRequests (s : CState) (user : String) : List Req :=
  s.reqs.filter (fun r => r.user = user)

/-- order of the `unstake_requests_by_user` unique index, whose raw key is the length-prefixed
user string followed by the big-endian batch id: by length of the user string (bytes), then the
string, then the batch id -/
def reqKeyLe (a b : Req) : Bool :=
  if a.user.utf8ByteSize != b.user.utf8ByteSize then decide (a.user.utf8ByteSize < b.user.utf8ByteSize)
  else if a.user != b.user then decide (a.user < b.user)
  else decide (a.batch ≤ b.batch)

/-- `query_all_unstake_requests` / `_v2` (deprecated): the index in its own order, cut after `limit`
entries.  The cursor is the bound `("", start_after)`, which sorts before every stored key (no user
is the empty string), so it never excludes anything. -/
def queryAllRequests (s : CState) (_startAfter : Option Nat) (limit : Option Nat) : List Req :=
  (s.reqs.mergeSort reqKeyLe).take (limit.getD U32.max)

structure StateResp where
  totalNative : Nat
  totalLst : Nat
  rate : Nat          -- `Decimal` atomics of the purchase rate
  pendingOwner : String
  totalReward : Nat
  totalFees : Nat
deriving DecidableEq, Repr

/-- `query_state` -/
def queryState (s : CState) : R StateResp := do
  let (_, pur) ← getRates s
  pure { totalNative := s.st.totalNative, totalLst := s.st.totalLst, rate := pur,
         pendingOwner := s.st.pendingOwner.getD "", totalReward := s.st.totalReward,
         totalFees := s.st.totalFees }

end MW.Staking
