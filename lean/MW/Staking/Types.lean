import MW.Prim
import MW.Store
/-!
# Data of the staking contract (contracts/staking/src/state.rs, msg.rs, packages/milky_way)
-/
namespace MW.Staking

inductive BatchStatus | pending | submitted | received
deriving DecidableEq, Repr, Inhabited

def BatchStatus.asStr : BatchStatus → String
  | .pending => "pending" | .submitted => "submitted" | .received => "received"

/-- `milky_way::staking::Batch` (the deprecated `liquid_unstake_requests` map is always `None`
for batches created by this code and is carried only by migrations) -/
structure Batch where
  id : Nat
  total : Nat                       -- batch_total_liquid_stake
  expected : Option Nat             -- expected_native_unstaked
  received : Option Nat             -- received_native_unstaked
  reqCount : Option Nat             -- unstake_requests_count
  nextAction : Option Nat           -- next_batch_action_time (seconds)
  status : BatchStatus
deriving DecidableEq, Repr, Inhabited

def Batch.new (id total nextAction : Nat) : Batch :=
  { id, total, expected := none, received := none, reqCount := some 0,
    nextAction := some nextAction, status := .pending }

/-- `Batch::update_status` -/
def Batch.updateStatus (b : Batch) (st : BatchStatus) (next : Option Nat) : Batch :=
  match st with
  | .pending => { b with status := st, nextAction := next }
  | .submitted => { b with status := st, nextAction := next }
  | .received => { b with status := st, nextAction := none }

structure Req where
  batch : Nat
  user : String
  amount : Nat
deriving DecidableEq, Repr, Inhabited

inductive PktStatus | sent | ackSuccess | ackFailure | timedOut
deriving DecidableEq, Repr, Inhabited

def PktStatus.asStr : PktStatus → String
  | .sent => "sent" | .ackSuccess => "ack_success" | .ackFailure => "ack_failure" | .timedOut => "timed_out"

/-- `state::ibc::IBCTransfer` -/
structure Packet where
  seq : Nat
  coin : Coin
  receiver : String
  status : PktStatus
deriving DecidableEq, Repr, Inhabited

/-- `IbcWaitingForReply` -/
structure Waiting where
  coin : Coin
  receiver : String
deriving DecidableEq, Repr, Inhabited

structure NativeCfg where
  accountPrefix : String
  validatorPrefix : String
  tokenDenom : String
  validators : List String
  unbondingPeriod : Nat
  staker : String
  rewardCollector : String
deriving DecidableEq, Repr, Inhabited

structure ProtoCfg where
  accountPrefix : String
  channel : String
  ibcDenom : String
  minStake : Nat
  oracle : Option String
deriving DecidableEq, Repr, Inhabited

structure FeeCfg where
  fee : Nat
  treasury : Option String
deriving DecidableEq, Repr, Inhabited

structure Config where
  native : NativeCfg
  proto : ProtoCfg
  feeCfg : FeeCfg
  lstDenom : String
  monitors : List String
  batchPeriod : Nat
  stopped : Bool
deriving DecidableEq, Repr, Inhabited

/-- `state::State`; `ownerMinTime` is a `Timestamp` in nanoseconds -/
structure St where
  totalNative : Nat
  totalLst : Nat
  pendingOwner : Option String
  ownerMinTime : Option Nat
  totalReward : Nat
  rate : Nat
  totalFees : Nat
  ibcIdCounter : Nat
deriving DecidableEq, Repr, Inhabited

/-- the whole contract store -/
structure CState where
  config : Config
  st : St
  admin : Option String
  batches : AMap Batch
  pendingId : Nat
  reqs : List Req                    -- primary `unstake_requests` map; key (batch, user)
  inflight : AMap Packet
  waiting : AMap Waiting
  version : String × String          -- cw2 (contract, version)
deriving Repr, Inhabited

structure Env where
  timeNs : Nat
  height : Nat
  txIndex : Option Nat
  contract : String
  chainPrefix : String               -- the bech32 prefix `Api::addr_validate` enforces
deriving Repr, Inhabited

def Env.seconds (e : Env) : Nat := e.timeNs / 1000000000

structure Info where
  sender : String
  funds : List Coin
deriving Repr, Inhabited

/-- which token-factory backend the crate was compiled with -/
inductive Build | osmosis | miniwasm
deriving DecidableEq, Repr, Inhabited

structure SwapHop where
  poolId : Nat
  denom : String
deriving DecidableEq, Repr, Inhabited

/-- messages a handler can emit (both contracts) -/
inductive Msg where
  | createDenom (sender sub : String)
  | mint (sender denom : String) (amount : Nat) (mintTo : String)
  | burn (sender denom : String) (amount : Nat) (burnFrom : String)
  | bankSend (to : String) (coins : List Coin)                 -- `BankMsg::Send`
  | msgSend (sender to : String) (coins : List Coin)           -- `cosmos.bank.v1beta1.MsgSend`
  | wasmExec (sender contract payload : String)                -- `cosmwasm.wasm.v1.MsgExecuteContract`
  | transfer (channel port sender receiver : String) (coin : Coin) (timeoutNs : Nat) (memo : String)
  | swapIn (sender : String) (routes : List SwapHop) (tokenIn : Coin) (minOut : Nat)
  | swapOut (sender : String) (routes : List SwapHop) (tokenOut : Coin) (maxIn : Nat)
deriving DecidableEq, Repr, Inhabited

/-- `SubMsg`: `replyAlways = false` is a plain message (`ReplyOn::Never`, id 0) -/
structure SubMsg where
  id : Nat
  msg : Msg
  replyAlways : Bool
deriving DecidableEq, Repr, Inhabited

def plain (m : Msg) : SubMsg := { id := 0, msg := m, replyAlways := false }

structure UnsafeNative where
  accountPrefix : String
  validatorPrefix : String
  tokenDenom : String
  validators : List String
  unbondingPeriod : Nat
  staker : String
  rewardCollector : String
deriving Repr, Inhabited

structure UnsafeProto where
  accountPrefix : String
  ibcDenom : String
  channel : String
  minStake : Nat
  oracle : Option String
deriving Repr, Inhabited

structure UnsafeFee where
  fee : Nat
  treasury : Option String
deriving Repr, Inhabited

structure InstantiateMsg where
  native : UnsafeNative
  proto : UnsafeProto
  feeCfg : UnsafeFee
  lstSubdenom : String
  batchPeriod : Nat
  monitors : List String
deriving Repr, Inhabited

inductive ExecMsg where
  | liquidStake (mintTo : Option String) (toNative : Option Bool) (expected : Option Nat)
  | liquidUnstake
  | submitBatch
  | withdraw (batchId : Nat)
  | addValidator (v : String)
  | removeValidator (v : String)
  | transferOwnership (newOwner : String)
  | acceptOwnership
  | revokeOwnershipTransfer
  | updateConfig (native : Option UnsafeNative) (proto : Option UnsafeProto) (fee : Option UnsafeFee)
      (monitors : Option (List String)) (batchPeriod : Option Nat)
  | receiveRewards
  | receiveUnstakedTokens (batchId : Nat)
  | circuitBreaker
  | resumeContract (totalNative totalLst totalReward : Nat)
  | recover (paginated : Option Bool) (selected : Option (List Nat)) (receiver : Option String)
  | feeWithdraw (amount : Nat)
deriving Repr, Inhabited

inductive SudoMsg where
  | ack (channel : String) (seq : Nat) (success : Bool)
  | timeout (channel : String) (seq : Nat)
deriving Repr, Inhabited

/-- what the chain hands to `reply` -/
inductive ReplyResult where
  | ok (seq : Nat)            -- data = protobuf MsgTransferResponse{sequence}
  | okNoData
  | okBadData
  | err
deriving Repr, Inhabited

def IBC_TIMEOUT_NS : Nat := 1000000000000
def CONTRACT_NAME : String := "staking"
def CONTRACT_VERSION : String := "1.1.0"
def SENDER_PREFIX : String := "ibc-wasm-hook-intermediary"

end MW.Staking
