import MW.Staking.Exec
/-!
# Migrations of the staking contract (contract.rs `migrate`, migrations/*.rs) and the version gate
# shared with the treasury

Only what a migration reads or writes is in the model store (`MStore`): the cw2 record, the
configuration in the layout of the path, and the two packet tables in the 1.0.0 layout.  Every
other storage key is untouched by the code; that frame is checked on the raw storage of the real
contract by the correspondence run.
-/
namespace MW.Staking
open MW

/-- `semver::Version` without build metadata (never generated; see DESIGN.md C18) -/
structure SemVer where
  major : Nat
  minor : Nat
  patch : Nat
  pre : List String          -- dot-separated pre-release identifiers; `[]` = a release
deriving DecidableEq, Repr

def numericId (s : String) : Bool := !s.isEmpty && s.toList.all Char.isDigit

/-- a numeric component: digits only, no leading zero (except "0"), fits u64 -/
def parseNum (s : String) : Option Nat :=
  if !numericId s then none
  else if s.length > 1 && s.toList.head? == some '0' then none
  else
    let v := s.toList.foldl (fun a c => a * 10 + (c.toNat - 48)) 0
    if v ≤ U64.max then some v else none

def validPreId (s : String) : Bool :=
  !s.isEmpty && s.toList.all (fun c => c.isAlphanum || c == '-')
    && (!(numericId s) || s.length == 1 || s.toList.head? != some '0')

def parseSemver (s : String) : Option SemVer :=
  let (core, pre) : String × Option String :=
    match s.splitOn "-" with
    | [c] => (c, none)
    | c :: rest => (c, some ("-".intercalate rest))
    | [] => ("", none)
  if s.toList.any (fun c => c == '+' || c == ' ') then none else
  match core.splitOn "." with
  | [a, b, c] =>
    match parseNum a, parseNum b, parseNum c with
    | some x, some y, some z =>
      match pre with
      | none => some ⟨x, y, z, []⟩
      | some p =>
        let ids := p.splitOn "."
        if ids.all validPreId then some ⟨x, y, z, ids⟩ else none
    | _, _, _ => none
  | _ => none

def cmpStr (a b : String) : Ordering := compare a b

def cmpPreId (a b : String) : Ordering :=
  match numericId a, numericId b with
  | true, true => (compare a.length b.length).then (cmpStr a b)
  | true, false => .lt
  | false, true => .gt
  | false, false => cmpStr a b

def cmpPreIds : List String → List String → Ordering
  | [], [] => .eq
  | [], _ :: _ => .lt
  | _ :: _, [] => .gt
  | a :: as, b :: bs => (cmpPreId a b).then (cmpPreIds as bs)

def cmpPre (a b : List String) : Ordering :=
  match a, b with
  | [], [] => .eq
  | [], _ => .gt          -- a release is greater than any pre-release
  | _, [] => .lt
  | _, _ => cmpPreIds a b

def SemVer.cmp (a b : SemVer) : Ordering :=
  (compare a.major b.major).then ((compare a.minor b.minor).then ((compare a.patch b.patch).then (cmpPre a.pre b.pre)))

/-- the name / downgrade / same-version gate of `migrate` (both contracts) -/
def migrateGate (contractName contractVersion : String) (stored : Option (String × String)) : R (String × String) := do
  let cur ← loadSome stored (.std "NotFound")
  ensure (contractName == cur.1) (.std "Cannot upgrade to a different contract")
  let v ← loadSome (parseSemver cur.2) (.std "Invalid contract version")
  let nv ← loadSome (parseSemver contractVersion) (.std "Invalid contract version")
  ensure (v.cmp nv != .gt) (.std "Cannot upgrade to a previous contract version")
  ensure (v.cmp nv != .eq) (.std "Cannot migrate to the same version.")
  pure cur

/-- `cw2::assert_contract_version` -/
def assertContractVersion (stored : Option (String × String)) (name version : String) : R Unit := do
  let cur ← loadSome stored (.version "NotFound")
  ensure (cur.1 == name) (.version "WrongContract")
  ensure (cur.2 == version) (.version "WrongVersion")

/-! ## 1.0.0 → 1.1.0 -/

structure LegacyPkt where
  seq : Nat
  amount : Nat
  status : PktStatus
deriving DecidableEq, Repr

/-- `migrations::v1_1_0::migrate` on the two packet tables -/
def migratePackets (cfg : Config) (l : AMap LegacyPkt) : AMap Packet :=
  l.map fun (k, p) => (k, { seq := p.seq, coin := ⟨cfg.proto.ibcDenom, p.amount⟩,
                            receiver := cfg.native.staker, status := p.status })

def migrateWaiting (cfg : Config) (l : AMap Nat) : AMap Waiting :=
  l.map fun (k, a) => (k, { coin := ⟨cfg.proto.ibcDenom, a⟩, receiver := cfg.native.staker })

/-! ## 0.4.18 → 0.4.20 → 1.0.0 (configuration layouts) -/

structure Cfg0418 where
  nativeTokenDenom : String
  lstDenom : String
  treasury : String
  operators : Option (List String)
  monitors : Option (List String)
  validators : List String
  batchPeriod : Nat
  unbondingPeriod : Nat
  fee : Nat
  staker : String
  rewardCollector : String
  minStake : Nat
  channel : String
  stopped : Bool
  oracleContract : Option String
  oracleContractV2 : Option String
  oracle : Option String
deriving DecidableEq, Repr

structure Cfg0420 where
  nativeTokenDenom : String
  lstDenom : String
  treasury : String
  monitors : Option (List String)
  validators : List String
  batchPeriod : Nat
  unbondingPeriod : Nat
  fee : Nat
  staker : String
  rewardCollector : String
  minStake : Nat
  channel : String
  stopped : Bool
  oracle : Option String
  sendFeesToTreasury : Bool
deriving DecidableEq, Repr

/-- `migrations::v0_4_20::migrate` -/
def migrateCfg0418 (c : Cfg0418) (sendFees : Bool) : Cfg0420 :=
  { nativeTokenDenom := c.nativeTokenDenom, lstDenom := c.lstDenom, treasury := c.treasury, monitors := c.monitors,
    validators := c.validators, batchPeriod := c.batchPeriod, unbondingPeriod := c.unbondingPeriod, fee := c.fee,
    staker := c.staker, rewardCollector := c.rewardCollector, minStake := c.minStake, channel := c.channel,
    stopped := c.stopped, oracle := c.oracle, sendFeesToTreasury := sendFees }

def validateAll (pref : String) : List String → R Unit
  | [] => .ok ()
  | a :: rest => match validateAddress a pref with
    | .error e => .error e
    | .ok _ => validateAll pref rest

def validateOpt (o : Option String) (pref : String) : R Unit :=
  match o with
  | some a => match validateAddress a pref with
    | .error e => .error e
    | .ok _ => .ok ()
  | none => .ok ()

/-- `migrations::v1_0_0::migrate` -/
def migrateCfg0420 (c : Cfg0420) (nap nvp ntd pap : String) : R Config := do
  let nap' ← validatePrefix nap
  let nvp' ← validatePrefix nvp
  let pap' ← validatePrefix pap
  let _ ← validateDenom ntd
  let _ ← validateAddress c.staker nap'
  let _ ← validateAddress c.rewardCollector nap'
  validateAll nvp' c.validators
  validateOpt c.oracle pap'
  validateOpt (if c.sendFeesToTreasury then some c.treasury else none) pap'
  pure { native := { accountPrefix := nap', validatorPrefix := nvp', tokenDenom := ntd, validators := c.validators,
                     unbondingPeriod := c.unbondingPeriod, staker := c.staker, rewardCollector := c.rewardCollector },
         proto := { accountPrefix := pap', channel := c.channel, ibcDenom := c.nativeTokenDenom, minStake := c.minStake,
                    oracle := c.oracle },
         feeCfg := { fee := c.fee, treasury := if c.sendFeesToTreasury then some c.treasury else none },
         lstDenom := c.lstDenom, monitors := c.monitors.getD [], batchPeriod := c.batchPeriod, stopped := c.stopped }

/-! ## `migrate` -/

inductive MigrateMsg where
  | v0418 (sendFees : Bool)
  | v0420 (nap nvp ntd pap : String)
  | v100
deriving Repr

inductive CfgLayout where
  | c0418 (c : Cfg0418)
  | c0420 (c : Cfg0420)
  | cur (c : Config)
deriving Repr

/-- what a migration can read or write -/
structure MStore where
  version : Option (String × String)
  cfg : Option CfgLayout
  linflight : AMap LegacyPkt := []
  lwaiting : AMap Nat := []
  inflight : AMap Packet := []      -- written by the 1.1.0 path (same storage keys as the legacy tables)
  waiting : AMap Waiting := []
deriving Repr

def MigrateMsg.from : MigrateMsg → String
  | .v0418 _ => "0.4.18" | .v0420 .. => "0.4.20" | .v100 => "1.0.0"

/-- the path-specific part of `migrate` -/
def migratePath (st : MStore) (msg : MigrateMsg) : R MStore :=
  match msg with
  | .v0418 sendFees =>
    match st.cfg with
    | some (.c0418 c) => .ok { st with cfg := some (.c0420 (migrateCfg0418 c sendFees)) }
    | _ => .error (.std "ParseErr")
  | .v0420 nap nvp ntd pap =>
    -- the prefixes and the denom are validated before the stored config is loaded
    match validatePrefix nap, validatePrefix nvp, validatePrefix pap, validateDenom ntd with
    | .ok _, .ok _, .ok _, .ok _ =>
      match st.cfg with
      | some (.c0420 c) =>
        match migrateCfg0420 c nap nvp ntd pap with
        | .ok n => .ok { st with cfg := some (.cur n) }
        | .error e => .error e
      | _ => .error (.std "ParseErr")
    | .error e, _, _, _ => .error e
    | _, .error e, _, _ => .error e
    | _, _, .error e, _ => .error e
    | _, _, _, .error e => .error e
  | .v100 =>
    match st.cfg with
    | some (.cur c) =>
      .ok { st with inflight := migratePackets c st.linflight, waiting := migrateWaiting c st.lwaiting,
                    linflight := [], lwaiting := [] }
    | _ => .error (.std "ParseErr")

/-- `contract::migrate` of the staking contract -/
def migrate (st : MStore) (msg : MigrateMsg) : R MStore := do
  let _ ← migrateGate CONTRACT_NAME CONTRACT_VERSION st.version
  assertContractVersion st.version CONTRACT_NAME msg.from
  let st' ← migratePath st msg
  pure { st' with version := some (CONTRACT_NAME, CONTRACT_VERSION) }

/-- the treasury's `migrate`: the gate only -/
def treasuryMigrate (stored : Option (String × String)) : R (Option (String × String)) := do
  let _ ← migrateGate "treasury" "0.4.20" stored
  pure stored

end MW.Staking
