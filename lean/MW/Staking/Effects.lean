import MW.Staking.Facts
/-!
# Effect lemmas: what each successful handler did to the store and which messages it returned

One lemma per handler, in the form `handler .. = .ok (s', out) → s' = { s with .. } ∧ out = ..`
with the guards that held.  They are helper lemmas (the backbone of the invariant proofs);
property statements live in `MW/Props`.
-/
namespace MW.Staking
open MW

/-- repeatedly split `h : ∃ a, P ∧ Q`, keeping the tail in `h` -/
macro "peel " h:ident : tactic =>
  `(tactic| repeat (obtain ⟨_, _, $h:ident⟩ := $h:ident))

/-- the sub-message `ibc_transfer_sub_msg` builds -/
def transferSub (s : CState) (env : Env) (id : Nat) (recv : String) (coin : Coin) : SubMsg :=
  { id := id, replyAlways := true,
    msg := .transfer s.config.proto.channel "transfer" env.contract recv coin (env.timeNs + IBC_TIMEOUT_NS)
             (memoFor env.contract) }

theorem ibcTransferSubMsg_eff {s : CState} {env : Env} {recv : String} {coin : Coin} {sub : Option Nat}
    {r : CState × SubMsg} (h : ibcTransferSubMsg s env recv coin sub = .ok r) :
    ∃ id, r.1 = { s with waiting := s.waiting.insert id { coin := coin, receiver := recv } }
      ∧ s.waiting.find? id = none ∧ r.2 = transferSub s env id recv coin
      ∧ (∀ i, sub = some i → id = i) ∧ (sub = none → defaultSubId env = .ok id) := by
  unfold ibcTransferSubMsg at h
  simp only [bind_ok, pure_ok] at h
  obtain ⟨m, hm, dflt, hd, s', hs', h⟩ := h
  unfold ibcTransferMsg at hm
  simp only [bind_ok, pure_ok, ensure_ok, add64_ok] at hm
  obtain ⟨_, _, t, ht, hm⟩ := hm
  obtain ⟨hw, hs'⟩ := saveWaiting_ok hs'
  subst h hm hs'
  refine ⟨_, rfl, hw, ?_, ?_, ?_⟩
  · simp [transferSub, ht.2]
  · intro i hi; subst hi; rfl
  · intro hn; subst hn; simpa using hd

theorem oracle_msgs_shape {s : CState} {env : Env} {cfg : Config} {orc : List SubMsg}
    (h : updateOracleMsgs s env cfg = .ok orc) : ∀ m ∈ orc, ∃ o p, m = plain (.wasmExec env.contract o p) := by
  unfold updateOracleMsgs at h
  split at h
  · cases h; simp
  · simp only [bind_ok, pure_ok] at h
    obtain ⟨_, _, h⟩ := h; subst h
    intro m hm; simp at hm; exact ⟨_, _, hm⟩

theorem sweep_eff {st st' : St} (h : sweep st = .ok st') :
    (st.totalLst = 0 ∧ st.totalNative ≠ 0 ∧ st' = { st with totalFees := st.totalFees + st.totalNative, totalNative := 0 })
    ∨ (¬ (st.totalLst = 0 ∧ st.totalNative ≠ 0) ∧ st' = st) := by
  unfold sweep at h
  split at h
  · rename_i hc
    simp only [bind_ok, pure_ok, add128_ok] at h
    obtain ⟨f, ⟨_, hf⟩, h⟩ := h
    subst hf h
    exact .inl ⟨hc.1, hc.2, rfl⟩
  · rename_i hc
    simp only [pure_ok] at h
    exact .inr ⟨hc, h.symm⟩

/-- LiquidStake -/
theorem liquidStake_eff {s s' : CState} {env : Env} {info : Info} {a : Nat} {mt : Option String}
    {tn : Option Bool} {ex : Option Nat} {out : List SubMsg}
    (h : liquidStake s env info a mt tn ex = .ok (s', out)) :
    ∃ st m id1 orc,
      s.config.stopped = false ∧ sweep s.st = .ok st ∧ computeMint st.totalNative st.totalLst a = .ok m
      ∧ m ≠ 0 ∧ s.config.proto.minStake ≤ a ∧ s.waiting.find? id1 = none
      ∧ (∀ x ∈ orc, ∃ o p, x = plain (.wasmExec env.contract o p))
      ∧ (let st' := { st with totalNative := st.totalNative + a, totalLst := st.totalLst + m }
         let w1 := s.waiting.insert id1 { coin := ⟨s.config.proto.ibcDenom, a⟩, receiver := s.config.native.staker }
         let base := [plain (.mint env.contract s.config.lstDenom m env.contract)] ++ orc
                      ++ [transferSub s env id1 s.config.native.staker ⟨s.config.proto.ibcDenom, a⟩]
         (deliverOnProtocol s.config (mt.getD info.sender) tn = true ∧
            s' = { s with st := st', waiting := w1 } ∧
            out = base ++ [plain (.msgSend env.contract (mt.getD info.sender) [⟨s.config.lstDenom, m⟩])])
         ∨ (deliverOnProtocol s.config (mt.getD info.sender) tn = false ∧ w1.find? (id1 + 1) = none ∧
            s' = { s with st := st', waiting := w1.insert (id1 + 1) { coin := ⟨s.config.lstDenom, m⟩, receiver := mt.getD info.sender } } ∧
            out = base ++ [transferSub s env (id1 + 1) (mt.getD info.sender) ⟨s.config.lstDenom, m⟩])) := by
  unfold liquidStake at h
  simp only [bind_ok, ensure_ok] at h
  obtain ⟨_, hstop, _, _, _, _, _, hmin, st, hsw, m, hm, _, hm0, _, _, r1, h1, n', hn, l', hl, orc, ho, h⟩ := h
  obtain ⟨id1, hr11, hw1, hr12, _, _⟩ := ibcTransferSubMsg_eff h1
  simp only [add128_ok] at hn hl
  refine ⟨st, m, id1, orc, checkStopped_ok.mp hstop, hsw, hm, by simpa using hm0, by simpa using hmin, hw1,
    oracle_msgs_shape ho, ?_⟩
  split at h
  · rename_i hp
    simp only [pure_ok] at h; cases h
    left
    refine ⟨hp, ?_, ?_⟩
    · rw [hr11, hn.2, hl.2]
    · rw [hr12]
  · rename_i hp
    simp only [bind_ok, pure_ok, add64_ok] at h
    obtain ⟨id2, ⟨_, hid2⟩, r3, h3, h⟩ := h
    obtain ⟨id3, hr31, hw3, hr32, hsub, _⟩ := ibcTransferSubMsg_eff h3
    have : id3 = id2 := hsub id2 rfl
    subst this
    cases h
    right
    have hid : r1.2.id = id1 := by rw [hr12]; rfl
    rw [hid] at hid2; subst hid2
    refine ⟨by simpa using hp, ?_, ?_, ?_⟩
    · simpa [hr11] using hw3
    · rw [hr31, hr11, hn.2, hl.2]
    · rw [hr32, hr12]; simp [transferSub, hr11]

/-- the pending batch after an unstake of `a`: total + a, requester count + 1 for a new requester -/
def grown (b : Batch) (a : Nat) (isNew : Bool) : Batch :=
  { b with total := b.total + a, reqCount := if isNew then some (b.reqCount.getD 0 + 1) else b.reqCount }

/-- the request list after an unstake of `a` by `u` in batch `p` -/
def reqsAfterUnstake (reqs : List Req) (p : Nat) (u : String) (a : Nat) : List Req :=
  match findReq reqs p u with
  | some r => setReqAmount reqs p u (r.amount + a)
  | none => reqs ++ [{ batch := p, user := u, amount := a }]

/-- LiquidUnstake -/
theorem liquidUnstake_eff {s s' : CState} {env : Env} {info : Info} {a : Nat} {out : List SubMsg}
    (h : liquidUnstake s env info a = .ok (s', out)) :
    out = [] ∧ s.config.stopped = false ∧ ∃ b, s.batches.find? s.pendingId = some b
      ∧ s' = { s with reqs := reqsAfterUnstake s.reqs s.pendingId info.sender a,
                      batches := s.batches.insert s.pendingId (grown b a (findReq s.reqs s.pendingId info.sender).isNone) } := by
  unfold liquidUnstake at h
  simp only [bind_ok, loadSome_ok, pure_ok, add128_ok] at h
  obtain ⟨_, hstop, up, hup, b, hb, tot, ⟨_, htot⟩, cnt, hcnt, h⟩ := h
  cases h
  refine ⟨rfl, checkStopped_ok.mp hstop, b, hb, ?_⟩
  unfold upsertReq at hup
  unfold reqsAfterUnstake
  cases hf : findReq s.reqs s.pendingId info.sender with
  | none =>
    rw [hf] at hup; simp only [pure_ok] at hup; cases hup
    simp only [bumpCount, ↓reduceIte, bind_ok, pure_ok, add64_ok] at hcnt
    obtain ⟨c, ⟨_, hc⟩, hcnt⟩ := hcnt
    subst hcnt hc htot; simp [grown]
  | some r =>
    rw [hf] at hup; simp only [bind_ok, pure_ok, add128_ok] at hup
    obtain ⟨x, ⟨_, hx⟩, hup⟩ := hup; cases hup
    simp only [bumpCount, Bool.false_eq_true, ↓reduceIte, pure_ok] at hcnt
    subst hcnt htot hx; simp [grown]

/-- SubmitBatch -/
theorem submitBatch_eff {s s' : CState} {env : Env} {info : Info} {out : List SubMsg}
    (h : submitBatch s env info = .ok (s', out)) :
    ∃ batch unbond orc,
      s.config.stopped = false ∧ s.batches.find? s.pendingId = some batch ∧ batchDue batch env.seconds = true
      ∧ s.reqs.any (fun r => r.batch = s.pendingId) = true ∧ batch.total ≤ s.st.totalLst
      ∧ computeUnbond s.st.totalNative s.st.totalLst batch.total = .ok unbond
      ∧ (∀ x ∈ orc, ∃ o p, x = plain (.wasmExec env.contract o p))
      ∧ s' = { s with
          st := { s.st with totalNative := (checkedSub s.st.totalNative unbond).getD 0,
                            totalLst := (checkedSub s.st.totalLst batch.total).getD 0 },
          pendingId := batch.id + 1,
          batches := ((s.batches.insert (batch.id + 1) (Batch.new (batch.id + 1) 0 (env.seconds + s.config.batchPeriod))).insert
                      batch.id (({ batch with expected := some unbond }).updateStatus .submitted
                                  (some (env.seconds + s.config.native.unbondingPeriod)))) }
      ∧ out = [plain (.burn env.contract s.config.lstDenom batch.total env.contract)] ++ orc := by
  unfold submitBatch at h
  simp only [bind_ok, ensure_ok, loadSome_ok, pure_ok, add64_ok] at h
  obtain ⟨_, hstop, batch, hb, _, hdue, _, hne, _, hL, nid, ⟨_, hnid⟩, due, ⟨_, hdue1⟩, u, hu, due2, ⟨_, hdue2⟩, orc, ho, h⟩ := h
  cases h
  subst hnid hdue1 hdue2
  exact ⟨batch, u, orc, checkStopped_ok.mp hstop, hb, hdue, hne, by simpa using hL, hu, oracle_msgs_shape ho, rfl, rfl⟩

/-- Withdraw -/
theorem withdraw_eff {s s' : CState} {env : Env} {info : Info} {b : Nat} {out : List SubMsg}
    (h : withdraw s env info b = .ok (s', out)) :
    ∃ batch recv req orc, s.config.stopped = false ∧ s.batches.find? b = some batch ∧ batch.status = .received
      ∧ batch.received = some recv ∧ findReq s.reqs batch.id info.sender = some req ∧ batch.total ≠ 0
      ∧ (∀ x ∈ orc, ∃ o p, x = plain (.wasmExec env.contract o p))
      ∧ s' = { s with reqs := removeReq s.reqs batch.id info.sender }
      ∧ out = [plain (.msgSend env.contract info.sender [⟨s.config.proto.ibcDenom, recv * req.amount / batch.total⟩])] ++ orc := by
  unfold withdraw at h
  simp only [bind_ok, ensure_ok, loadSome_ok, pure_ok, mulRatio_ok] at h
  obtain ⟨_, hstop, batch, hb, _, hst, recv, hrecv, req, hr, amt, ⟨hT, _, hamt⟩, orc, ho, h⟩ := h
  cases h
  subst hamt
  exact ⟨batch, recv, req, orc, checkStopped_ok.mp hstop, hb, by simpa using hst, hrecv, hr, hT, oracle_msgs_shape ho, rfl, rfl⟩

/-- handlers that only replace the configuration -/
theorem addValidator_eff {s s' : CState} {info : Info} {v : String} {out : List SubMsg}
    (h : addValidator s info v = .ok (s', out)) :
    out = [] ∧ s.admin = some info.sender ∧ validateAddress v s.config.native.validatorPrefix = .ok v
      ∧ v ∉ s.config.native.validators
      ∧ s' = { s with config := { s.config with native := { s.config.native with validators := s.config.native.validators ++ [v] } } } := by
  unfold addValidator at h
  simp only [bind_ok, ensure_ok, pure_ok] at h
  obtain ⟨_, ha, addr, hv, _, hn, h⟩ := h
  cases h
  have : addr = v := by unfold validateAddress at hv; (repeat' split at hv) <;> simp_all
  subst this
  exact ⟨rfl, assertAdmin_ok.mp ha, hv, by simpa using hn, rfl⟩

theorem removeValidator_eff {s s' : CState} {info : Info} {v : String} {out : List SubMsg}
    (h : removeValidator s info v = .ok (s', out)) :
    out = [] ∧ s.admin = some info.sender ∧ v ∈ s.config.native.validators
      ∧ s' = { s with config := { s.config with native := { s.config.native with validators := s.config.native.validators.erase v } } } := by
  unfold removeValidator at h
  simp only [bind_ok, ensure_ok, pure_ok] at h
  obtain ⟨_, ha, addr, hv, _, hn, h⟩ := h
  cases h
  have : addr = v := by unfold validateAddress at hv; (repeat' split at hv) <;> simp_all
  subst this
  exact ⟨rfl, assertAdmin_ok.mp ha, by simpa using hn, rfl⟩

theorem optValidate_eff {α β} {o : Option α} {f : α → R β} {d b : β} (h : optValidate o f d = .ok b) :
    (o = none ∧ b = d) ∨ (∃ a, o = some a ∧ f a = .ok b) := by
  unfold optValidate at h
  split at h
  · exact .inr ⟨_, rfl, h⟩
  · cases h; exact .inl ⟨rfl, rfl⟩

theorem updateConfig_eff {s s' : CState} {info : Info} {n : Option UnsafeNative} {p : Option UnsafeProto}
    {f : Option UnsafeFee} {m : Option (List String)} {b : Option Nat} {out : List SubMsg}
    (h : updateConfig s info n p f m b = .ok (s', out)) :
    out = [] ∧ s.admin = some info.sender ∧ ∃ nat' proto' fee' mons' bp',
      optValidate n (·.validate) s.config.native = .ok nat'
      ∧ optValidate p (·.validate) s.config.proto = .ok proto'
      ∧ optValidate f (·.validate proto') s.config.feeCfg = .ok fee'
      ∧ optValidate m (validateAddresses · proto'.accountPrefix) s.config.monitors = .ok mons'
      ∧ optValidate b validatePeriod s.config.batchPeriod = .ok bp'
      ∧ s' = { s with config := { s.config with native := nat', proto := proto', feeCfg := fee', monitors := mons',
                                                batchPeriod := bp' } } := by
  unfold updateConfig at h
  simp only [bind_ok, pure_ok] at h
  obtain ⟨_, ha, nat', hn, proto', hp, fee', hf, mons', hm, bp', hb, h⟩ := h
  cases h
  exact ⟨rfl, assertAdmin_ok.mp ha, nat', proto', fee', mons', bp', hn, hp, hf, hm, hb, rfl⟩

/-- ownership handlers are the shared machine on `ownOf` -/
theorem transferOwnership_eff {s s' : CState} {env : Env} {info : Info} {n : String} {out : List SubMsg}
    (h : transferOwnership s env info n = .ok (s', out)) :
    out = [] ∧ ∃ o, (ownOf s).nominate env.seconds info.sender (addrValidate env.chainPrefix n) = .ok o ∧ s' = setOwn s o := by
  simp only [transferOwnership, bind_ok, pure_ok] at h
  obtain ⟨o, ho, h⟩ := h; cases h; exact ⟨rfl, o, ho, rfl⟩

theorem revokeOwnership_eff {s s' : CState} {info : Info} {out : List SubMsg}
    (h : revokeOwnership s info = .ok (s', out)) :
    out = [] ∧ ∃ o, (ownOf s).revoke info.sender = .ok o ∧ s' = setOwn s o := by
  simp only [revokeOwnership, bind_ok, pure_ok] at h
  obtain ⟨o, ho, h⟩ := h; cases h; exact ⟨rfl, o, ho, rfl⟩

theorem acceptOwnership_eff {s s' : CState} {env : Env} {info : Info} {out : List SubMsg}
    (h : acceptOwnership s env info = .ok (s', out)) :
    out = [] ∧ ∃ o, (ownOf s).accept env.seconds info.sender = .ok o ∧ s' = setOwn s o := by
  simp only [acceptOwnership, bind_ok, pure_ok] at h
  obtain ⟨o, ho, h⟩ := h; cases h; exact ⟨rfl, o, ho, rfl⟩

/-- RecoverPendingIbcTransfers -/
theorem recover_eff {s s' : CState} {env : Env} {info : Info} {sel : Option (List Nat)} {rc : Option String}
    {page : Bool} {out : List SubMsg} (h : recover s env info sel rc page = .ok (s', out)) :
    ∃ recv packets denom maxId total,
      (sel.isSome → s.admin = some info.sender)
      ∧ recoverReceiver s.config rc = .ok recv ∧ selectPackets s recv sel page = .ok packets
      ∧ firstDenom packets = .ok denom ∧ packets.all (fun p => p.coin.denom = denom) = true
      ∧ s.inflight.maxKey? = some maxId ∧ sumAmounts "A27" packets 0 = .ok total
      ∧ (erasePackets s.inflight packets |> fun _ => True)
      ∧ s.waiting.find? (maxId + 1) = none
      ∧ s' = { s with inflight := erasePackets s.inflight packets,
                      waiting := s.waiting.insert (maxId + 1) { coin := ⟨denom, total⟩, receiver := recv } }
      ∧ out = [transferSub s env (maxId + 1) recv ⟨denom, total⟩] := by
  unfold recover at h
  simp only [bind_ok, ensure_ok, loadSome_ok, pure_ok, add64_ok] at h
  obtain ⟨_, ha, recv, hrecv, packets, hp, denom, hd, _, hall, maxId, hmax, total, htot, id, ⟨_, hid⟩, r, hr, h⟩ := h
  cases h
  obtain ⟨id', hr1, hw, hr2, hsub, _⟩ := ibcTransferSubMsg_eff hr
  have : id' = id := hsub id rfl
  subst this hid
  refine ⟨recv, packets, denom, maxId, total, ?_, hrecv, hp, hd, hall, hmax, htot, trivial, by simpa using hw, ?_, ?_⟩
  · intro hs
    simp only [Bool.or_eq_true] at ha
    rcases ha with ha | ha
    · cases sel <;> simp_all
    · exact assertAdmin_isOk.mp ha
  · rw [hr1]
  · rw [hr2]; simp [transferSub]

/-- ReceiveRewards -/
theorem receiveRewards_eff {s s' : CState} {env : Env} {info : Info} {out : List SubMsg}
    (h : receiveRewards s env info = .ok (s', out)) :
    ∃ reward fee id orc,
      s.config.stopped = false ∧ s.st.totalLst ≠ 0
      ∧ deriveIntermediateSender s.config.proto.channel s.config.native.rewardCollector s.config.proto.accountPrefix = some info.sender
      ∧ findCoin info.funds s.config.proto.ibcDenom = some reward
      ∧ fee = s.config.feeCfg.fee * reward.amount / 100000 ∧ fee ≤ reward.amount
      ∧ s.waiting.find? id = none
      ∧ (∀ x ∈ orc, ∃ o p, x = plain (.wasmExec env.contract o p))
      ∧ s' = { s with
          st := { s.st with totalNative := s.st.totalNative + (reward.amount - fee),
                            totalReward := s.st.totalReward + reward.amount,
                            totalFees := if s.config.feeCfg.treasury.isNone then s.st.totalFees + fee else s.st.totalFees },
          waiting := (s.waiting.insert id { coin := ⟨s.config.proto.ibcDenom, reward.amount - fee⟩, receiver := s.config.native.staker }) }
      ∧ out = orc ++ [transferSub s env id s.config.native.staker ⟨s.config.proto.ibcDenom, reward.amount - fee⟩]
                ++ treasuryMsgs s.config fee := by
  unfold receiveRewards at h
  simp only [bind_ok, ensure_ok, loadSome_ok, pure_ok, add128_ok, checkedSub_some] at h
  obtain ⟨_, hstop, _, hL, _, hs, reward, hc, fee, hfee, after, ⟨hle, hafter⟩, n', ⟨_, hn⟩, r', ⟨_, hr⟩, f', hf,
    r2, h2, orc, ho, h⟩ := h
  obtain ⟨id, hr21, hw, hr22, _, _⟩ := ibcTransferSubMsg_eff h2
  cases h
  have hfee' : fee = s.config.feeCfg.fee * reward.amount / 100000 := by
    unfold checkedMulRatio at hfee
    (repeat' split at hfee) <;> simp_all
  refine ⟨reward, fee, id, orc, checkStopped_ok.mp hstop, by simpa using hL, ?_, hc, hfee', hle, by simpa using hw,
    oracle_msgs_shape ho, ?_, ?_⟩
  · unfold checkHookSender at hs; simp only [ensure_ok] at hs; simpa using hs
  · rw [hr21]
    subst hn hr hafter
    unfold accrueFee at hf
    split at hf
    · rename_i ht; simp only [add128_ok] at hf; simp [ht, hf.2]
    · rename_i ht; cases hf; simp [ht]
  · rw [hr22, hafter]; simp [transferSub]

/-- ReceiveUnstakedTokens -/
theorem receiveUnstaked_eff {s s' : CState} {env : Env} {info : Info} {b : Nat} {out : List SubMsg}
    (h : receiveUnstaked s env info b = .ok (s', out)) :
    ∃ coin batch t, out = [] ∧ s.config.stopped = false
      ∧ deriveIntermediateSender s.config.proto.channel s.config.native.staker s.config.proto.accountPrefix = some info.sender
      ∧ findCoin info.funds s.config.proto.ibcDenom = some coin
      ∧ s.batches.find? b = some batch ∧ batch.status = .submitted ∧ batch.nextAction = some t ∧ t ≤ env.seconds
      ∧ s' = { s with batches := (s.batches.insert batch.id
                ({ batch with received := some coin.amount, status := .received, nextAction := none })) } := by
  unfold receiveUnstaked at h
  simp only [bind_ok, ensure_ok, loadSome_ok, pure_ok] at h
  obtain ⟨_, hstop, _, hs, coin, hc, batch, hb, _, hst, _, hu, h⟩ := h
  cases h
  unfold unbondingDone at hu
  split at hu
  · cases hu
  · rename_i t ht
    simp only [ensure_ok, decide_eq_true_eq] at hu
    refine ⟨coin, batch, t, rfl, checkStopped_ok.mp hstop, ?_, hc, hb, by simpa using hst, ht, hu, ?_⟩
    · unfold checkHookSender at hs; simp only [ensure_ok] at hs; simpa using hs
    · simp [Batch.updateStatus]

/-- `reply` -/
theorem reply_eff {s s' : CState} {id : Nat} {res : ReplyResult} {out : List SubMsg}
    (h : reply s id res = .ok (s', out)) :
    out = [] ∧ ∃ w seq, res = .ok seq ∧ s.waiting.find? id = some w
      ∧ s' = { s with waiting := s.waiting.erase id,
                      inflight := s.inflight.insert seq { seq := seq, coin := w.coin, receiver := w.receiver, status := .sent } } := by
  unfold reply at h
  split at h
  · cases h
  · rename_i w hw
    split at h
    · rename_i seq; cases h; exact ⟨rfl, w, seq, rfl, hw, rfl⟩
    · cases h

/-- `sudo`: never fails, emits nothing, touches only the packet table -/
theorem sudo_eff {s s' : CState} {m : SudoMsg} {out : List SubMsg} (h : sudo s m = .ok (s', out)) :
    out = [] ∧ ∃ infl, s' = { s with inflight := infl } := by
  unfold sudo at h
  (repeat' split at h) <;> cases h <;> exact ⟨rfl, _, rfl⟩

theorem sudo_total (s : CState) (m : SudoMsg) : ∃ r, sudo s m = .ok r := by
  unfold sudo
  (repeat' split) <;> exact ⟨_, rfl⟩

end MW.Staking
