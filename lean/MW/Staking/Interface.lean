import MW.Treasury.Model
import MW.Staking.Migrate
import MW.Generated.Interface
/-!
# The message interface the model covers

`model*` is the interface this model was written against (entry points, message variants with their serde names,
fields and Rust types, embedded configuration structs) — hand-pinned here, next to `ExecMsg.tag` / `TExec.tag` /
`SudoMsg.tag` / `MigrateMsg.tag`, which name the source variant every constructor of the model's message types
stands for.  `MW.Generated.Interface` is regenerated from /repo's sources by `translator/interface.py` on every run;
the theorems below say the two coincide, and that the model's message types have exactly one constructor per source
variant.  A variant, field or entry point added to, removed from or re-typed in the source breaks them — the one kind
of change no generated history can exercise.
-/
namespace MW.Interface
open MW MW.Staking MW.Generated.Interface

def model_staking_UnsafeNativeChainConfig : Fields := [("account_address_prefix", "String"), ("reward_collector_address", "String"), ("staker_address", "String"), ("token_denom", "String"), ("unbonding_period", "u64"), ("validator_address_prefix", "String"), ("validators", "Vec<String>")]

def model_staking_UnsafeProtocolChainConfig : Fields := [("account_address_prefix", "String"), ("ibc_channel_id", "String"), ("ibc_token_denom", "String"), ("minimum_liquid_stake_amount", "Uint128"), ("oracle_address", "Option<String>")]

def model_staking_UnsafeProtocolFeeConfig : Fields := [("dao_treasury_fee", "Uint128"), ("treasury_address", "Option<String>")]

def model_staking_attrs : Fields := [("Batch", ""), ("BatchStatus", ""), ("Config", "#[cw_serde]"), ("ExecuteMsg", "#[cw_serde]"), ("IBCLifecycleComplete", "#[cw_serde]"), ("IBCTransfer", "#[cw_serde]"), ("IbcWaitingForReply", "#[cw_serde]"), ("InstantiateMsg", "#[cw_serde]"), ("MigrateMsg", "#[cw_serde]"), ("NativeChainConfig", "#[cw_serde]"), ("PacketLifecycleStatus", "#[cw_serde]"), ("ProtocolChainConfig", "#[cw_serde]"), ("ProtocolFeeConfig", "#[cw_serde]"), ("QueryMsg", "#[cw_serde]"), ("State", "#[cw_serde]"), ("SudoMsg", "#[cw_serde]"), ("UnsafeNativeChainConfig", "#[cw_serde]"), ("UnsafeProtocolChainConfig", "#[cw_serde]"), ("UnsafeProtocolFeeConfig", "#[cw_serde]"), ("UnstakeRequest", "#[cw_serde]")]

def model_staking_entry_points : List String := ["execute", "instantiate", "migrate", "query", "reply", "sudo"]

def model_staking_execute : Variants := [
  ("accept_ownership", []),
  ("add_validator", [("new_validator", "String")]),
  ("circuit_breaker", []),
  ("fee_withdraw", [("amount", "Uint128")]),
  ("liquid_stake", [("expected_mint_amount", "Option<Uint128>"), ("mint_to", "Option<String>"), ("transfer_to_native_chain", "Option<bool>")]),
  ("liquid_unstake", []),
  ("receive_rewards", []),
  ("receive_unstaked_tokens", [("batch_id", "u64")]),
  ("recover_pending_ibc_transfers", [("paginated", "Option<bool>"), ("receiver", "Option<String>"), ("selected_packets", "Option<Vec<u64>>")]),
  ("remove_validator", [("validator", "String")]),
  ("resume_contract", [("total_liquid_stake_token", "Uint128"), ("total_native_token", "Uint128"), ("total_reward_amount", "Uint128")]),
  ("revoke_ownership_transfer", []),
  ("submit_batch", []),
  ("transfer_ownership", [("new_owner", "String")]),
  ("update_config", [("batch_period", "Option<u64>"), ("monitors", "Option<Vec<String>>"), ("native_chain_config", "Option<UnsafeNativeChainConfig>"), ("protocol_chain_config", "Option<UnsafeProtocolChainConfig>"), ("protocol_fee_config", "Option<UnsafeProtocolFeeConfig>")]),
  ("withdraw", [("batch_id", "u64")])]

def model_staking_instantiate : Fields := [("batch_period", "u64"), ("liquid_stake_token_denom", "String"), ("monitors", "Vec<String>"), ("native_chain_config", "UnsafeNativeChainConfig"), ("protocol_chain_config", "UnsafeProtocolChainConfig"), ("protocol_fee_config", "UnsafeProtocolFeeConfig")]

def model_staking_lifecycle : Variants := [
  ("ibc_ack", [("ack", "String"), ("channel", "String"), ("sequence", "u64"), ("success", "bool")]),
  ("ibc_timeout", [("channel", "String"), ("sequence", "u64")])]

def model_staking_migrate : Variants := [
  ("v0_4_18_to_v0_4_20", [("send_fees_to_treasury", "bool")]),
  ("v0_4_20_to_v1_0_0", [("native_account_address_prefix", "String"), ("native_token_denom", "String"), ("native_validator_address_prefix", "String"), ("protocol_account_address_prefix", "String")]),
  ("v1_0_0_to_v1_1_0", [])]

def model_staking_query : Variants := [
  ("all_unstake_requests", [("limit", "Option<u32>"), ("start_after", "Option<u64>")]),
  ("all_unstake_requests_v2", [("limit", "Option<u32>"), ("start_after", "Option<u64>")]),
  ("batch", [("id", "u64")]),
  ("batches", [("limit", "Option<u32>"), ("start_after", "Option<u64>"), ("status", "Option<BatchStatus>")]),
  ("batches_by_ids", [("ids", "Vec<u64>")]),
  ("config", []),
  ("ibc_queue", [("limit", "Option<u32>"), ("start_after", "Option<u64>")]),
  ("ibc_reply_queue", [("limit", "Option<u32>"), ("start_after", "Option<u64>")]),
  ("pending_batch", []),
  ("state", []),
  ("unstake_requests", [("user", "Addr")])]

def model_staking_storage_keys : Fields := [("item", "Admin:admin"), ("item", "Index:unstake_requests_by_user"), ("item", "IndexedMap:unstake_requests"), ("item", "Item:config"), ("item", "Item:pending_batch_id"), ("item", "Item:state"), ("item", "Map:batches"), ("item", "Map:ibc_waiting_for_reply"), ("item", "Map:inflight")]

def model_staking_stored_Batch : Fields := [("batch_total_liquid_stake", "Uint128"), ("expected_native_unstaked", "Option<Uint128>"), ("id", "u64"), ("liquid_unstake_requests", "Option<Map<String,LiquidUnstakeRequest>>"), ("next_batch_action_time", "Option<u64>"), ("received_native_unstaked", "Option<Uint128>"), ("status", "BatchStatus"), ("unstake_requests_count", "Option<u64>")]

def model_staking_stored_BatchStatus : Variants := [
  ("Pending", []),
  ("Received", []),
  ("Submitted", [])]

def model_staking_stored_Config : Fields := [("batch_period", "u64"), ("liquid_stake_token_denom", "String"), ("monitors", "Vec<Addr>"), ("native_chain_config", "NativeChainConfig"), ("protocol_chain_config", "ProtocolChainConfig"), ("protocol_fee_config", "ProtocolFeeConfig"), ("stopped", "bool")]

def model_staking_stored_IBCTransfer : Fields := [("amount", "Coin"), ("receiver", "String"), ("sequence", "u64"), ("status", "PacketLifecycleStatus")]

def model_staking_stored_IbcWaitingForReply : Fields := [("amount", "Coin"), ("receiver", "String")]

def model_staking_stored_NativeChainConfig : Fields := [("account_address_prefix", "String"), ("reward_collector_address", "Addr"), ("staker_address", "Addr"), ("token_denom", "String"), ("unbonding_period", "u64"), ("validator_address_prefix", "String"), ("validators", "Vec<Addr>")]

def model_staking_stored_PacketLifecycleStatus : Variants := [
  ("ack_failure", []),
  ("ack_success", []),
  ("sent", []),
  ("timed_out", [])]

def model_staking_stored_ProtocolChainConfig : Fields := [("account_address_prefix", "String"), ("ibc_channel_id", "String"), ("ibc_token_denom", "String"), ("minimum_liquid_stake_amount", "Uint128"), ("oracle_address", "Option<Addr>")]

def model_staking_stored_ProtocolFeeConfig : Fields := [("dao_treasury_fee", "Uint128"), ("treasury_address", "Option<Addr>")]

def model_staking_stored_State : Fields := [("ibc_id_counter", "u64"), ("owner_transfer_min_time", "Option<Timestamp>"), ("pending_owner", "Option<Addr>"), ("rate", "Uint128"), ("total_fees", "Uint128"), ("total_liquid_stake_token", "Uint128"), ("total_native_token", "Uint128"), ("total_reward_amount", "Uint128")]

def model_staking_stored_UnstakeRequest : Fields := [("amount", "Uint128"), ("batch_id", "u64"), ("user", "String")]

def model_staking_sudo : Variants := [
  ("ibc_lifecycle_complete", [("0", "IBCLifecycleComplete")])]

def model_treasury_SwapRoute : Fields := [("pool_id", "u64"), ("token_in_denom", "String"), ("token_out_denom", "String")]

def model_treasury_attrs : Fields := [("Config", "#[cw_serde]"), ("ExecuteMsg", "#[cw_serde]"), ("InstantiateMsg", "#[cw_serde]"), ("MigrateMsg", "#[cw_serde]"), ("QueryMsg", "#[cw_serde]"), ("State", "#[cw_serde]"), ("SwapRoute", "#[cw_serde]")]

def model_treasury_entry_points : List String := ["execute", "instantiate", "migrate", "query"]

def model_treasury_execute : Variants := [
  ("accept_ownership", []),
  ("revoke_ownership_transfer", []),
  ("spend_funds", [("amount", "Coin"), ("channel_id", "Option<String>"), ("receiver", "String")]),
  ("swap_exact_amount_in", [("routes", "Vec<SwapRoute>"), ("token_in", "Coin"), ("token_out_min_amount", "u128")]),
  ("swap_exact_amount_out", [("routes", "Vec<SwapRoute>"), ("token_in_max_amount", "u128"), ("token_out", "Coin")]),
  ("transfer_ownership", [("new_owner", "String")]),
  ("update_config", [("allowed_swap_routes", "Option<Vec<Vec<SwapRoute>>>"), ("trader", "Option<String>")])]

def model_treasury_instantiate : Fields := [("admin", "Option<String>"), ("allowed_swap_routes", "Vec<Vec<SwapRoute>>"), ("trader", "Option<String>")]

def model_treasury_migrate : Fields := []

def model_treasury_query : Variants := [
  ("config", [])]

def model_treasury_storage_keys : Fields := [("item", "Admin:admin"), ("item", "Item:config"), ("item", "Item:state")]

def model_treasury_stored_Config : Fields := [("allowed_swap_routes", "Vec<Vec<SwapRoute>>"), ("trader", "Addr")]

def model_treasury_stored_State : Fields := [("owner_transfer_min_time", "Option<Timestamp>"), ("pending_owner", "Option<Addr>")]

/-- the source variant (serde name) each constructor of the model's `ExecMsg` stands for -/
def execTag : ExecMsg → String
  | .liquidStake .. => "liquid_stake"
  | .liquidUnstake => "liquid_unstake"
  | .submitBatch => "submit_batch"
  | .withdraw _ => "withdraw"
  | .addValidator _ => "add_validator"
  | .removeValidator _ => "remove_validator"
  | .transferOwnership _ => "transfer_ownership"
  | .acceptOwnership => "accept_ownership"
  | .revokeOwnershipTransfer => "revoke_ownership_transfer"
  | .updateConfig .. => "update_config"
  | .receiveRewards => "receive_rewards"
  | .receiveUnstakedTokens _ => "receive_unstaked_tokens"
  | .circuitBreaker => "circuit_breaker"
  | .resumeContract .. => "resume_contract"
  | .recover .. => "recover_pending_ibc_transfers"
  | .feeWithdraw _ => "fee_withdraw"

/-- one message per constructor, in the (alphabetical) order of the tables -/
def execSamples : List ExecMsg :=
  [.acceptOwnership, .addValidator "", .circuitBreaker, .feeWithdraw 0, .liquidStake none none none, .liquidUnstake,
   .receiveRewards, .receiveUnstakedTokens 0, .recover none none none, .removeValidator "", .resumeContract 0 0 0,
   .revokeOwnershipTransfer, .submitBatch, .transferOwnership "", .updateConfig none none none none none, .withdraw 0]

def sudoTag : SudoMsg → String
  | .ack .. => "ibc_ack"
  | .timeout .. => "ibc_timeout"

def migrateTag : MigrateMsg → String
  | .v0418 _ => "v0_4_18_to_v0_4_20"
  | .v0420 .. => "v0_4_20_to_v1_0_0"
  | .v100 => "v1_0_0_to_v1_1_0"

open MW.Treasury in
def texecTag : TExec → String
  | .transferOwnership _ => "transfer_ownership"
  | .acceptOwnership => "accept_ownership"
  | .revokeOwnershipTransfer => "revoke_ownership_transfer"
  | .spendFunds .. => "spend_funds"
  | .swapIn .. => "swap_exact_amount_in"
  | .swapOut .. => "swap_exact_amount_out"
  | .updateConfig .. => "update_config"

open MW.Treasury in
def texecSamples : List TExec :=
  [.acceptOwnership, .revokeOwnershipTransfer, .spendFunds ⟨"", 0⟩ "" none, .swapIn [] ⟨"", 0⟩ 0, .swapOut [] ⟨"", 0⟩ 0,
   .transferOwnership "", .updateConfig none none]

def names (v : Variants) : List String := v.map (·.1)

/-! ## the model's message types have exactly one constructor per pinned variant -/

theorem exec_tag_pinned (m : ExecMsg) : execTag m ∈ names model_staking_execute := by
  cases m <;> (simp only [execTag]; decide +kernel)

theorem exec_tags_onto : execSamples.map execTag = names model_staking_execute := by decide +kernel

theorem sudo_tag_pinned (m : SudoMsg) : sudoTag m ∈ names model_staking_lifecycle := by
  cases m <;> (simp only [sudoTag]; decide +kernel)

theorem migrate_tag_pinned (m : MigrateMsg) : migrateTag m ∈ names model_staking_migrate := by
  cases m <;> (simp only [migrateTag]; decide +kernel)

theorem migrate_tags_onto : [MigrateMsg.v0418 false, .v0420 "" "" "" "", .v100].map migrateTag = names model_staking_migrate := by
  decide +kernel

theorem texec_tag_pinned (m : MW.Treasury.TExec) : texecTag m ∈ names model_treasury_execute := by
  cases m <;> (simp only [texecTag]; decide +kernel)

theorem texec_tags_onto : texecSamples.map texecTag = names model_treasury_execute := by decide +kernel

/-! ## the source declares exactly the pinned interface (tables regenerated from /repo on every run) -/

theorem staking_entry_points_eq : staking_entry_points = model_staking_entry_points := by decide +kernel
theorem staking_execute_eq : staking_execute = model_staking_execute := by decide +kernel
theorem staking_query_eq : staking_query = model_staking_query := by decide +kernel
theorem staking_sudo_eq : staking_sudo = model_staking_sudo ∧ staking_lifecycle = model_staking_lifecycle := by decide +kernel
theorem staking_migrate_eq : staking_migrate = model_staking_migrate := by decide +kernel
theorem staking_instantiate_eq : staking_instantiate = model_staking_instantiate
    ∧ staking_UnsafeNativeChainConfig = model_staking_UnsafeNativeChainConfig
    ∧ staking_UnsafeProtocolChainConfig = model_staking_UnsafeProtocolChainConfig
    ∧ staking_UnsafeProtocolFeeConfig = model_staking_UnsafeProtocolFeeConfig := by decide +kernel
theorem treasury_entry_points_eq : treasury_entry_points = model_treasury_entry_points := by decide +kernel
theorem treasury_execute_eq : treasury_execute = model_treasury_execute := by decide +kernel
theorem treasury_rest_eq : treasury_query = model_treasury_query ∧ treasury_instantiate = model_treasury_instantiate
    ∧ treasury_migrate = model_treasury_migrate ∧ treasury_SwapRoute = model_treasury_SwapRoute := by decide +kernel

/-- every message the source's `execute` entry point of the staking contract can deserialize is a constructor of the
model's `ExecMsg`, and conversely -/
theorem staking_execute_covered :
    names staking_execute = execSamples.map execTag ∧ ∀ m : ExecMsg, execTag m ∈ names staking_execute := by
  rw [staking_execute_eq]
  exact ⟨exec_tags_onto.symm, exec_tag_pinned⟩

theorem treasury_execute_covered :
    names treasury_execute = texecSamples.map texecTag ∧ ∀ m : MW.Treasury.TExec, texecTag m ∈ names treasury_execute := by
  rw [treasury_execute_eq]
  exact ⟨texec_tags_onto.symm, texec_tag_pinned⟩


/-! ## stored layouts, storage keys and serde attributes -/

theorem staking_storage_eq : staking_storage_keys = model_staking_storage_keys := by decide +kernel
theorem treasury_storage_eq : treasury_storage_keys = model_treasury_storage_keys := by decide +kernel
theorem staking_layout_eq :
    staking_stored_Config = model_staking_stored_Config ∧ staking_stored_NativeChainConfig = model_staking_stored_NativeChainConfig
    ∧ staking_stored_ProtocolChainConfig = model_staking_stored_ProtocolChainConfig
    ∧ staking_stored_ProtocolFeeConfig = model_staking_stored_ProtocolFeeConfig
    ∧ staking_stored_State = model_staking_stored_State ∧ staking_stored_UnstakeRequest = model_staking_stored_UnstakeRequest
    ∧ staking_stored_IbcWaitingForReply = model_staking_stored_IbcWaitingForReply
    ∧ staking_stored_IBCTransfer = model_staking_stored_IBCTransfer
    ∧ staking_stored_PacketLifecycleStatus = model_staking_stored_PacketLifecycleStatus
    ∧ staking_stored_Batch = model_staking_stored_Batch ∧ staking_stored_BatchStatus = model_staking_stored_BatchStatus := by
  decide +kernel
theorem treasury_layout_eq :
    treasury_stored_State = model_treasury_stored_State ∧ treasury_stored_Config = model_treasury_stored_Config := by decide +kernel
theorem serde_attrs_eq : staking_attrs = model_staking_attrs ∧ treasury_attrs = model_treasury_attrs := by decide +kernel

end MW.Interface
