import MW.Staking.Validate
/-!
# Handlers of the staking contract (contracts/staking/src/execute.rs, ibc.rs, contract.rs)

Fidelity rules (DESIGN.md §4.1): every handler follows the Rust statements in order, reads
of the store are reads of the threaded `CState` (not of locals), every panic site is an
`Err.panic`.  A handler returns the new store and the emitted messages, or an error and
*no* store (the runtime discards a failed call's writes).
-/
namespace MW.Staking
open MW

abbrev Out := CState × List SubMsg

/-! ## helpers.rs -/

/-- `compute_mint_amount` -/
def computeMint (totalNative totalLst amount : Nat) : R Nat :=
  if totalNative = 0 then .ok amount
  else mulRatio "A08" totalLst amount totalNative

/-- `compute_unbond_amount` -/
def computeUnbond (totalNative totalLst batchLst : Nat) : R Nat :=
  if batchLst = 0 then .ok 0
  else mulRatio "A16" totalNative batchLst totalLst

/-- `get_rates`: (redemption, purchase) as `Decimal` atomics, read from the *stored* state -/
def getRates (s : CState) : R (Nat × Nat) :=
  if s.st.totalLst = 0 then .ok (0, 0)
  else do
    let red ← decimalFromRatio "A38a" s.st.totalNative s.st.totalLst
    let pur ← decimalFromRatio "A38b" s.st.totalLst s.st.totalNative
    pure (red, pur)

/-! ## execute.rs: IBC plumbing -/

def memoFor (contract : String) : String := "{\"ibc_callback\":\"" ++ contract ++ "\"}"

/-- `ibc_transfer_msg` -/
def ibcTransferMsg (s : CState) (env : Env) (receiver : String) (coin : Coin) : R Msg := do
  if s.config.proto.channel.isEmpty then throw .ibcChannelNotFound
  let timeout ← add64 "A01" env.timeNs IBC_TIMEOUT_NS
  pure (.transfer s.config.proto.channel "transfer" env.contract receiver coin timeout (memoFor env.contract))

/-- `save_ibc_waiting_for_reply` -/
def saveWaiting (s : CState) (id : Nat) (w : Waiting) : R CState :=
  match s.waiting.find? id with
  | some _ => .error .contractLocked
  | none => .ok { s with waiting := s.waiting.insert id w }

/-- `ibc_transfer_sub_msg`; note that the default id is computed eagerly (`unwrap_or(expr)`) -/
def ibcTransferSubMsg (s : CState) (env : Env) (receiver : String) (coin : Coin)
    (subId : Option Nat) : R (CState × SubMsg) := do
  let m ← ibcTransferMsg s env receiver coin
  let dflt ← match env.txIndex with
    | some i => add64 "A03" i env.timeNs
    | none => pure env.timeNs
  let id := subId.getD dflt
  let s' ← saveWaiting s id { coin := coin, receiver := receiver }
  pure (s', { id := id, msg := m, replyAlways := true })

def oraclePayload (denom purchase redemption : String) : String :=
  "{\"post_rates\":{\"denom\":\"" ++ denom ++ "\",\"purchase_rate\":\"" ++ purchase
    ++ "\",\"redemption_rate\":\"" ++ redemption ++ "\"}}"

/-- `update_oracle_msgs`: rates are read from the store `s`, the oracle address is unwrapped -/
def updateOracleMsgs (s : CState) (env : Env) (cfg : Config) : R (List SubMsg) := do
  let (red, pur) ← getRates s
  let payload := oraclePayload cfg.lstDenom (decimalToString pur) (decimalToString red)
  match cfg.proto.oracle with
  | none => throw (.panic "A05")
  | some o => pure [plain (.wasmExec env.contract o payload)]

def checkStopped (cfg : Config) : R Unit :=
  if cfg.stopped then .error .halted else .ok ()

def isOk {α} : R α → Bool
  | .ok _ => true
  | .error _ => false

/-- `ADMIN.assert_admin` -/
def assertAdmin (s : CState) (sender : String) : R Unit :=
  match s.admin with
  | some a => if sender = a then .ok () else .error .admin
  | none => .error .admin

/-! ## execute.rs: handlers -/

/-- `execute_liquid_stake` -/
def liquidStake (s : CState) (env : Env) (info : Info) (amount : Nat)
    (mintTo : Option String) (toNative : Option Bool) (expected : Option Nat) : R Out := do
  let cfg := s.config
  checkStopped cfg
  if mintTo.isNone then
    let d ← subUsize "A06" info.sender.utf8ByteSize cfg.proto.accountPrefix.utf8ByteSize
    if d ≠ 39 then throw .missingMintAddress
  let mintToAddr := mintTo.getD info.sender
  let isNative0 := isOk (validateAddress mintToAddr cfg.native.accountPrefix)
  let isProto0 := isOk (validateAddress mintToAddr cfg.proto.accountPrefix)
  if !isProto0 && !isNative0 then throw .invalidAddress
  let isProto := if isNative0 && isProto0 then !(toNative.getD false) else isProto0
  let st := s.st
  if amount < cfg.proto.minStake then throw .minimumLiquidStake
  -- ownerless stake is swept to the fees
  let st ← if st.totalLst = 0 && st.totalNative ≠ 0 then do
      let f ← add128 "A07" st.totalFees st.totalNative
      pure { st with totalFees := f, totalNative := 0 }
    else pure st
  let mintAmount ← computeMint st.totalNative st.totalLst amount
  if mintAmount = 0 then throw .mintError
  match expected with
  | some e => if mintAmount < e then throw .mintAmountMismatch
  | none => pure ()
  let mintMsg := plain (.mint env.contract cfg.lstDenom mintAmount env.contract)
  let (s1, stakeSub) ← ibcTransferSubMsg s env cfg.native.staker ⟨cfg.proto.ibcDenom, amount⟩ none
  -- computed from the store *before* the state is saved (execute.rs:240 vs :245)
  let oracle ← updateOracleMsgs s1 env cfg
  let n' ← add128 "A09a" st.totalNative amount
  let l' ← add128 "A09b" st.totalLst mintAmount
  let s2 := { s1 with st := { st with totalNative := n', totalLst := l' } }
  let base := [mintMsg] ++ oracle ++ [stakeSub]
  if isProto then
    pure (s2, base ++ [plain (.msgSend env.contract mintToAddr [⟨cfg.lstDenom, mintAmount⟩])])
  else do
    let id2 ← add64 "A10" stakeSub.id 1
    -- execute.rs:273 passes `amount`, not `mint_amount`
    let (s3, lstSub) ← ibcTransferSubMsg s2 env mintToAddr ⟨cfg.lstDenom, amount⟩ (some id2)
    pure (s3, base ++ [lstSub])

def findReq (reqs : List Req) (batch : Nat) (user : String) : Option Req :=
  reqs.find? (fun r => r.batch = batch && r.user = user)

def addToReq (reqs : List Req) (batch : Nat) (user : String) (amount : Nat) : List Req :=
  reqs.map fun r => if r.batch = batch && r.user = user then { r with amount := amount } else r

def removeReq (reqs : List Req) (batch : Nat) (user : String) : List Req :=
  reqs.filter fun r => !(r.batch = batch && r.user = user)

/-- `execute_liquid_unstake` -/
def liquidUnstake (s : CState) (_env : Env) (info : Info) (amount : Nat) : R Out := do
  let cfg := s.config
  checkStopped cfg
  let p := s.pendingId
  let (reqs, isNew) ← match findReq s.reqs p info.sender with
    | some r => do
      let a ← add128 "A11a" r.amount amount
      pure (addToReq s.reqs p info.sender a, false)
    | none => pure (s.reqs ++ [{ batch := p, user := info.sender, amount := amount }], true)
  match s.batches.find? p with
  | none => throw (.panic "A12")
  | some b =>
    let tot ← add128 "A11b" b.total amount
    let cnt ← if isNew then do
        let c ← add64 "A13" (b.reqCount.getD 0) 1
        pure (some c)
      else pure b.reqCount
    let b' := { b with total := tot, reqCount := cnt }
    pure ({ s with reqs := reqs, batches := s.batches.insert p b' }, [])

/-- `execute_submit_batch` -/
def submitBatch (s : CState) (env : Env) (_info : Info) : R Out := do
  let cfg := s.config
  checkStopped cfg
  let p := s.pendingId
  match s.batches.find? p with
  | none => throw (.std "NotFound")
  | some batch =>
    match batch.nextAction with
    | some t => if env.seconds < t then throw .batchNotReady
    | none => throw .batchNotReady
    if !(s.reqs.any (fun r => r.batch = p)) then throw .batchEmpty
    let st := s.st
    if st.totalLst < batch.total then throw .invalidUnstakeAmount
    let newId ← add64 "A14" batch.id 1
    let due ← add64 "A15" env.seconds cfg.batchPeriod
    let newBatch := Batch.new newId 0 due
    let batches1 := s.batches.insert newId newBatch
    let burnMsg := plain (.burn env.contract cfg.lstDenom batch.total env.contract)
    let unbond ← computeUnbond st.totalNative st.totalLst batch.total
    let n' := (checkedSub st.totalNative unbond).getD 0
    let l' := (checkedSub st.totalLst batch.total).getD 0
    let st' := { st with totalNative := n', totalLst := l' }
    let due2 ← add64 "A17" env.seconds cfg.native.unbondingPeriod
    let batch' := ({ batch with expected := some unbond }).updateStatus .submitted (some due2)
    let s' := { s with st := st', pendingId := newId, batches := batches1.insert batch.id batch' }
    let oracle ← updateOracleMsgs s' env cfg
    pure (s', [burnMsg] ++ oracle)

/-- `execute_withdraw` -/
def withdraw (s : CState) (env : Env) (info : Info) (batchId : Nat) : R Out := do
  let cfg := s.config
  checkStopped cfg
  match s.batches.find? batchId with
  | none => throw .batchEmpty
  | some batch =>
    if batch.status ≠ .received then throw .tokensAlreadyClaimed
    match batch.received with
    | none => throw (.panic "A19")
    | some recv =>
      match findReq s.reqs batch.id info.sender with
      | none => throw .noRequestInBatch
      | some r =>
        let amount ← mulRatio "A20" recv r.amount batch.total
        let s' := { s with reqs := removeReq s.reqs batch.id info.sender }
        let send := plain (.msgSend env.contract info.sender [⟨cfg.proto.ibcDenom, amount⟩])
        let oracle ← updateOracleMsgs s' env cfg
        pure (s', [send] ++ oracle)

/-- `execute_add_validator` -/
def addValidator (s : CState) (info : Info) (v : String) : R Out := do
  assertAdmin s info.sender
  let cfg := s.config
  let addr ← validateAddress v cfg.native.validatorPrefix
  if cfg.native.validators.contains addr then throw .duplicateValidator
  let cfg' := { cfg with native := { cfg.native with validators := cfg.native.validators ++ [addr] } }
  pure ({ s with config := cfg' }, [])

/-- `execute_remove_validator`: removes the first occurrence -/
def removeValidator (s : CState) (info : Info) (v : String) : R Out := do
  assertAdmin s info.sender
  let cfg := s.config
  let addr ← validateAddress v cfg.native.validatorPrefix
  if !(cfg.native.validators.contains addr) then throw .validatorNotFound
  let cfg' := { cfg with native := { cfg.native with validators := cfg.native.validators.erase addr } }
  pure ({ s with config := cfg' }, [])

def SEVEN_DAYS : Nat := 60 * 60 * 24 * 7

/-- `execute_transfer_ownership` -/
def transferOwnership (s : CState) (env : Env) (info : Info) (newOwner : String) : R Out := do
  assertAdmin s info.sender
  let o ← addrValidate env.chainPrefix newOwner
  let t ← add64 "A22a" env.seconds SEVEN_DAYS
  let tn ← mul64 "A22b" t 1000000000
  pure ({ s with st := { s.st with pendingOwner := some o, ownerMinTime := some tn } }, [])

/-- `execute_revoke_ownership_transfer` -/
def revokeOwnership (s : CState) (info : Info) : R Out := do
  assertAdmin s info.sender
  pure ({ s with st := { s.st with pendingOwner := none, ownerMinTime := none } }, [])

/-- `execute_accept_ownership` -/
def acceptOwnership (s : CState) (env : Env) (info : Info) : R Out := do
  match s.st.ownerMinTime with
  | some t => if t / 1000000000 > env.seconds then throw .ownershipNotReady
  | none => pure ()
  match s.st.pendingOwner with
  | some p =>
    if p = info.sender then
      pure ({ s with st := { s.st with pendingOwner := none }, admin := some p }, [])
    else throw .noPendingOwner
  | none => throw .noPendingOwner

/-- `paginate_map` over an `AMap` (ascending): exclusive cursor, the limit counts matches only -/
def paginate {α} (m : AMap α) (startAfter : Option Nat) (limit : Option Nat) (f : α → Bool) : List α :=
  (((m.after startAfter).map (·.2)).filter f).take (limit.getD U32.max)

def sumCoins (ps : List Packet) : Nat := (ps.map (·.coin.amount)).sum

def loadPackets (s : CState) (receiver : String) : List Nat → R (List Packet)
  | [] => .ok []
  | id :: rest =>
    match s.inflight.find? id with
    | none => .error (.std "NotFound")
    | some p =>
      if p.receiver ≠ receiver then .error .invalidReceiver
      else match loadPackets s receiver rest with
        | .error e => .error e
        | .ok ps => .ok (p :: ps)

def sumAmounts (site : String) : List Packet → Nat → R Nat
  | [], acc => .ok acc
  | p :: rest, acc =>
    match add128 site acc p.coin.amount with
    | .error e => .error e
    | .ok a => sumAmounts site rest a

/-- `recover` -/
def recover (s : CState) (env : Env) (info : Info) (selected : Option (List Nat))
    (receiver : Option String) (page : Bool) : R Out := do
  if selected.isSome then assertAdmin s info.sender
  let cfg := s.config
  let recv ← match receiver with
    | some r => validateAddress r cfg.native.accountPrefix
    | none => pure cfg.native.staker
  let packets ← match selected with
    | some ids => loadPackets s recv ids
    | none => pure (paginate s.inflight none (if page then some 10 else none)
        (fun p => p.receiver = recv && (p.status = .ackFailure || p.status = .timedOut)))
  match packets with
  | [] => throw .noInflightPackets
  | p0 :: rest =>
    if rest.any (fun p => p.coin.denom ≠ p0.coin.denom) then throw .inconsistentDenom
    match s.inflight.maxKey? with
    | none => throw (.panic "A26")
    | some maxId =>
      let inflight' := packets.foldl (fun m p => m.erase p.seq) s.inflight
      let total ← sumAmounts "A27" packets 0
      let id ← add64 "A28" maxId 1
      let (s', sub) ← ibcTransferSubMsg { s with inflight := inflight' } env recv ⟨p0.coin.denom, total⟩ (some id)
      pure (s', [sub])

/-- `update_config` -/
def updateConfig (s : CState) (info : Info) (native : Option UnsafeNative) (proto : Option UnsafeProto)
    (fee : Option UnsafeFee) (monitors : Option (List String)) (batchPeriod : Option Nat) : R Out := do
  assertAdmin s info.sender
  let cfg := s.config
  let cfg ← match native with
    | some n => do let v ← n.validate; pure { cfg with native := v }
    | none => pure cfg
  let cfg ← match proto with
    | some p => do let v ← p.validate; pure { cfg with proto := v }
    | none => pure cfg
  let cfg ← match fee with
    | some f => do let v ← f.validate cfg.proto; pure { cfg with feeCfg := v }
    | none => pure cfg
  let cfg ← match monitors with
    | some ms => do let v ← validateAddresses ms cfg.proto.accountPrefix; pure { cfg with monitors := v }
    | none => pure cfg
  let cfg := match batchPeriod with
    | some b => { cfg with batchPeriod := b }
    | none => cfg
  pure ({ s with config := cfg }, [])

def findCoin (funds : List Coin) (denom : String) : Option Coin :=
  funds.find? (fun c => c.denom = denom)

/-- the ibc-hooks sender test shared by the two `Receive*` handlers -/
def checkHookSender (cfg : Config) (nativeSender sender : String) : R Unit :=
  match deriveIntermediateSender cfg.proto.channel nativeSender cfg.proto.accountPrefix with
  | none => .error .unauthorized
  | some e => if sender ≠ e then .error .unauthorized else .ok ()

/-- `receive_rewards` -/
def receiveRewards (s : CState) (env : Env) (info : Info) : R Out := do
  let cfg := s.config
  let st := s.st
  checkStopped cfg
  if st.totalLst = 0 then throw .noLiquidStake
  checkHookSender cfg cfg.native.rewardCollector info.sender
  match findCoin info.funds cfg.proto.ibcDenom with
  | none => throw (.payment "NoFunds")
  | some coin =>
    let amount := coin.amount
    let fee ← mulRatio "A31" cfg.feeCfg.fee amount 100000
    match checkedSub amount fee with
    | none => throw .receiveRewardsTooSmall
    | some afterFees =>
      let n' ← add128 "A33a" st.totalNative afterFees
      let r' ← add128 "A33b" st.totalReward amount
      let f' ← if cfg.feeCfg.treasury.isNone then add128 "A33c" st.totalFees fee else pure st.totalFees
      let s1 := { s with st := { st with totalNative := n', totalReward := r', totalFees := f' } }
      let (s2, sub) ← ibcTransferSubMsg s1 env cfg.native.staker ⟨cfg.proto.ibcDenom, afterFees⟩ none
      let oracle ← updateOracleMsgs s2 env cfg
      let base := oracle ++ [sub]
      match cfg.feeCfg.treasury with
      | some t => pure (s2, base ++ [plain (.bankSend t [⟨cfg.proto.ibcDenom, fee⟩])])
      | none => pure (s2, base)

/-- `receive_unstaked_tokens` -/
def receiveUnstaked (s : CState) (env : Env) (info : Info) (batchId : Nat) : R Out := do
  let cfg := s.config
  checkStopped cfg
  checkHookSender cfg cfg.native.staker info.sender
  match findCoin info.funds cfg.proto.ibcDenom with
  | none => throw (.payment "NoFunds")
  | some coin =>
    match s.batches.find? batchId with
    | none => throw (.std "NotFound")
    | some batch =>
      if batch.status ≠ .submitted then throw .batchNotClaimable
      match batch.nextAction with
      | none => throw .batchNotClaimable
      | some t =>
        if t > env.seconds then throw .batchNotReady
        let batch' := ({ batch with received := some coin.amount }).updateStatus .received none
        pure ({ s with batches := s.batches.insert batch.id batch' }, [])

/-- `circuit_breaker` -/
def circuitBreaker (s : CState) (info : Info) : R Out := do
  if !(isOk (assertAdmin s info.sender)) && !(s.config.monitors.contains info.sender) then
    throw .unauthorized
  pure ({ s with config := { s.config with stopped := true } }, [])

/-- `resume_contract` -/
def resumeContract (s : CState) (env : Env) (info : Info) (n l r : Nat) : R Out := do
  assertAdmin s info.sender
  let cfg := { s.config with stopped := false }
  let s' := { s with config := cfg, st := { s.st with totalNative := n, totalLst := l, totalReward := r } }
  let oracle ← updateOracleMsgs s' env cfg
  pure (s', oracle)

/-- `fee_withdraw` -/
def feeWithdraw (s : CState) (env : Env) (info : Info) (amount : Nat) : R Out := do
  assertAdmin s info.sender
  let cfg := s.config
  let st := s.st
  if st.totalFees < amount then throw .insufficientFunds
  match cfg.feeCfg.treasury with
  | none => throw .treasuryNotConfigured
  | some t =>
    let s' := { s with st := { st with totalFees := st.totalFees - amount } }
    pure (s', [plain (.msgSend env.contract t [⟨cfg.proto.ibcDenom, amount⟩])])

/-- `cw_utils::must_pay` -/
def mustPay (info : Info) (denom : String) : R Nat :=
  match info.funds with
  | [] => .error (.payment "NoFunds")
  | [c] =>
    if c.amount = 0 then .error (.payment "NoFunds")
    else if c.denom ≠ denom then .error (.payment "MissingDenom")
    else .ok c.amount
  | _ => .error (.payment "MultipleDenoms")

/-- `contract::execute` -/
def execute (s : CState) (env : Env) (info : Info) (msg : ExecMsg) : R Out :=
  match msg with
  | .liquidStake mintTo toNative expected => do
    let pay ← mustPay info s.config.proto.ibcDenom
    liquidStake s env info pay mintTo toNative expected
  | .liquidUnstake => do
    let pay ← mustPay info s.config.lstDenom
    liquidUnstake s env info pay
  | .submitBatch => submitBatch s env info
  | .withdraw b => withdraw s env info b
  | .addValidator v => addValidator s info v
  | .removeValidator v => removeValidator s info v
  | .transferOwnership o => transferOwnership s env info o
  | .acceptOwnership => acceptOwnership s env info
  | .revokeOwnershipTransfer => revokeOwnership s info
  | .updateConfig n p f m b => updateConfig s info n p f m b
  | .receiveRewards => receiveRewards s env info
  | .receiveUnstakedTokens b => receiveUnstaked s env info b
  | .circuitBreaker => circuitBreaker s info
  | .resumeContract n l r => resumeContract s env info n l r
  | .recover paginated selected receiver => recover s env info selected receiver (paginated.getD false)
  | .feeWithdraw a => feeWithdraw s env info a

/-! ## contract.rs: instantiate, reply, sudo -/

/-- `contract::instantiate`; `boot` of the reachable-state definitions -/
def instantiate (env : Env) (info : Info) (msg : InstantiateMsg) : R Out := do
  let native ← msg.native.validate
  let proto ← msg.proto.validate
  let feeCfg ← msg.feeCfg.validate proto
  let sub ← validateDenom msg.lstSubdenom
  let monitors ← validateAddresses msg.monitors msg.proto.accountPrefix
  let cfg : Config := { native, proto, feeCfg, lstDenom := "factory/" ++ env.contract ++ "/" ++ sub,
                        monitors, batchPeriod := msg.batchPeriod, stopped := true }
  let st : St := { totalNative := 0, totalLst := 0, pendingOwner := none, ownerMinTime := none,
                   totalReward := 0, rate := 1, totalFees := 0, ibcIdCounter := 0 }
  let due ← add64 "A15i" env.seconds cfg.batchPeriod
  let s : CState := { config := cfg, st, admin := some info.sender, batches := [(1, Batch.new 1 0 due)],
                      pendingId := 1, reqs := [], inflight := [], waiting := [],
                      version := (CONTRACT_NAME, CONTRACT_VERSION) }
  pure (s, [plain (.createDenom env.contract msg.lstSubdenom)])

/-- `contract::reply` + `handle_ibc_reply` -/
def reply (s : CState) (id : Nat) (res : ReplyResult) : R Out :=
  match s.waiting.find? id with
  | none => .error .invalidReplyId
  | some w =>
    match res with
    | .ok seq =>
      let pkt : Packet := { seq := seq, coin := w.coin, receiver := w.receiver, status := .sent }
      .ok ({ s with waiting := s.waiting.erase id, inflight := s.inflight.insert seq pkt }, [])
    | _ => .error .failedIbcTransfer

/-- `receive_ack` / `receive_timeout` -/
def sudo (s : CState) (msg : SudoMsg) : R Out :=
  match msg with
  | .ack channel seq success =>
    if channel ≠ s.config.proto.channel then .ok (s, [])
    else match s.inflight.find? seq with
      | none => .ok (s, [])
      | some p =>
        if success then .ok ({ s with inflight := s.inflight.erase seq }, [])
        else .ok ({ s with inflight := s.inflight.insert seq { p with status := .ackFailure } }, [])
  | .timeout channel seq =>
    if channel ≠ s.config.proto.channel then .ok (s, [])
    else match s.inflight.find? seq with
      | none => .ok (s, [])
      | some p => .ok ({ s with inflight := s.inflight.insert seq { p with status := .timedOut } }, [])

end MW.Staking
