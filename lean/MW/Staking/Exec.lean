import MW.Staking.Validate
import MW.Ownership
/-!
# Handlers of the staking contract (contracts/staking/src/execute.rs, ibc.rs, contract.rs)

Fidelity rules (DESIGN.md §4.1): every handler follows the Rust statements in order, reads
of the store are reads of the threaded `CState` (not of locals), every panic site is an
`Err.panic`.  A handler returns the new store and the emitted messages, or an error and
*no* store (the runtime discards a failed call's writes).
-/
namespace MW.Staking
open MW

abbrev Out := CState × List SubMsg

/-! ## helpers.rs -/

/-- `compute_mint_amount` -/
def computeMint (totalNative totalLst amount : Nat) : R Nat :=
  if totalNative = 0 then .ok amount
  else mulRatio "A08" totalLst amount totalNative

/-- `compute_unbond_amount` -/
def computeUnbond (totalNative totalLst batchLst : Nat) : R Nat :=
  if batchLst = 0 then .ok 0
  else mulRatio "A16" totalNative batchLst totalLst

/-- `get_rates`: (redemption, purchase) as `Decimal` atomics, read from the *stored* state -/
def getRates (s : CState) : R (Nat × Nat) :=
  if s.st.totalLst = 0 then .ok (0, 0)
  else do
    let red ← decimalFromRatio "A38a" s.st.totalNative s.st.totalLst
    let pur ← decimalFromRatio "A38b" s.st.totalLst s.st.totalNative
    pure (red, pur)

/-! ## execute.rs: IBC plumbing -/

def memoFor (contract : String) : String := "{\"ibc_callback\":\"" ++ contract ++ "\"}"

/-- `ibc_transfer_msg` -/
def ibcTransferMsg (s : CState) (env : Env) (receiver : String) (coin : Coin) : R Msg := do
  ensure (!s.config.proto.channel.isEmpty) .ibcChannelNotFound
  let timeout ← add64 "A01" env.timeNs IBC_TIMEOUT_NS
  pure (.transfer s.config.proto.channel "transfer" env.contract receiver coin timeout (memoFor env.contract))

/-- `save_ibc_waiting_for_reply` -/
def saveWaiting (s : CState) (id : Nat) (w : Waiting) : R CState :=
  match s.waiting.find? id with
  | some _ => .error .contractLocked
  | none => .ok { s with waiting := s.waiting.insert id w }

/-- the default reply id: `tx.index as u64 + time.nanos()` or `time.nanos()` -/
def defaultSubId (env : Env) : R Nat :=
  match env.txIndex with
  | some i => add64 "A03" i env.timeNs
  | none => .ok env.timeNs

/-- `ibc_transfer_sub_msg`; note that the default id is computed eagerly (`unwrap_or(expr)`) -/
def ibcTransferSubMsg (s : CState) (env : Env) (receiver : String) (coin : Coin)
    (subId : Option Nat) : R (CState × SubMsg) := do
  let m ← ibcTransferMsg s env receiver coin
  let dflt ← defaultSubId env
  let id := subId.getD dflt
  let s' ← saveWaiting s id { coin := coin, receiver := receiver }
  pure (s', { id := id, msg := m, replyAlways := true })

def oraclePayload (denom purchase redemption : String) : String :=
  "{\"post_rates\":{\"denom\":\"" ++ denom ++ "\",\"purchase_rate\":\"" ++ purchase
    ++ "\",\"redemption_rate\":\"" ++ redemption ++ "\"}}"

/-- `update_oracle_msgs`: nothing without an oracle; rates are read from the store `s` -/
def updateOracleMsgs (s : CState) (env : Env) (cfg : Config) : R (List SubMsg) :=
  match cfg.proto.oracle with
  | none => .ok []
  | some o => do
    let rates ← getRates s
    let payload := oraclePayload cfg.lstDenom (decimalToString rates.2) (decimalToString rates.1)
    pure [plain (.wasmExec env.contract o payload)]

def checkStopped (cfg : Config) : R Unit := ensure (!cfg.stopped) .halted

def isOk {α} : R α → Bool
  | .ok _ => true
  | .error _ => false

/-- `ADMIN.assert_admin` -/
def assertAdmin (s : CState) (sender : String) : R Unit :=
  ensure (s.admin == some sender) .admin

/-! ## execute.rs: handlers -/

/-- the `MissingMintAddress` test: evaluated only when no recipient is named -/
def checkSenderShape (cfg : Config) (info : Info) (mintTo : Option String) : R Unit :=
  match mintTo with
  | some _ => .ok ()
  | none => do
    let d ← subUsize "A06" info.sender.utf8ByteSize cfg.proto.accountPrefix.utf8ByteSize
    ensure (d == 39) .missingMintAddress

/-- ownerless stake (LST total zero, staked total not) is swept to the fees -/
def sweep (st : St) : R St :=
  if st.totalLst = 0 ∧ st.totalNative ≠ 0 then do
    let f ← add128 "A07" st.totalFees st.totalNative
    pure { st with totalFees := f, totalNative := 0 }
  else pure st

def checkExpected (mintAmount : Nat) (expected : Option Nat) : R Unit :=
  match expected with
  | some e => ensure (decide (mintAmount ≥ e)) .mintAmountMismatch
  | none => .ok ()

/-- whether the minted tokens are delivered on the protocol chain (else: IBC to the native chain) -/
def deliverOnProtocol (cfg : Config) (mintToAddr : String) (toNative : Option Bool) : Bool :=
  let isNative := isOk (validateAddress mintToAddr cfg.native.accountPrefix)
  let isProto := isOk (validateAddress mintToAddr cfg.proto.accountPrefix)
  if isNative && isProto then !(toNative.getD false) else isProto

/-- `execute_liquid_stake` -/
def liquidStake (s : CState) (env : Env) (info : Info) (amount : Nat)
    (mintTo : Option String) (toNative : Option Bool) (expected : Option Nat) : R Out := do
  let cfg := s.config
  checkStopped cfg
  checkSenderShape cfg info mintTo
  let mintToAddr := mintTo.getD info.sender
  ensure (isOk (validateAddress mintToAddr cfg.proto.accountPrefix)
          || isOk (validateAddress mintToAddr cfg.native.accountPrefix)) .invalidAddress
  let isProto := deliverOnProtocol cfg mintToAddr toNative
  ensure (decide (amount ≥ cfg.proto.minStake)) .minimumLiquidStake
  let st ← sweep s.st
  let mintAmount ← computeMint st.totalNative st.totalLst amount
  ensure (mintAmount != 0) .mintError
  checkExpected mintAmount expected
  let mintMsg := plain (.mint env.contract cfg.lstDenom mintAmount env.contract)
  let r1 ← ibcTransferSubMsg s env cfg.native.staker ⟨cfg.proto.ibcDenom, amount⟩ none
  let n' ← add128 "A09a" st.totalNative amount
  let l' ← add128 "A09b" st.totalLst mintAmount
  let s2 := { r1.1 with st := { st with totalNative := n', totalLst := l' } }
  -- computed from the store after the state has been saved
  let oracle ← updateOracleMsgs s2 env cfg
  let base := [mintMsg] ++ oracle ++ [r1.2]
  if isProto then
    pure (s2, base ++ [plain (.msgSend env.contract mintToAddr [⟨cfg.lstDenom, mintAmount⟩])])
  else do
    let id2 ← add64 "A10" r1.2.id 1
    let r3 ← ibcTransferSubMsg s2 env mintToAddr ⟨cfg.lstDenom, mintAmount⟩ (some id2)
    pure (r3.1, base ++ [r3.2])

def findReq (reqs : List Req) (batch : Nat) (user : String) : Option Req :=
  reqs.find? (fun r => r.batch = batch && r.user = user)

def setReqAmount (reqs : List Req) (batch : Nat) (user : String) (amount : Nat) : List Req :=
  reqs.map fun r => if r.batch = batch && r.user = user then { r with amount := amount } else r

def removeReq (reqs : List Req) (batch : Nat) (user : String) : List Req :=
  reqs.filter fun r => !(r.batch = batch && r.user = user)

/-- accumulate-or-create; returns the new request list and whether a request was created -/
def upsertReq (reqs : List Req) (p : Nat) (user : String) (amount : Nat) : R (List Req × Bool) :=
  match findReq reqs p user with
  | some r => do
    let a ← add128 "A11a" r.amount amount
    pure (setReqAmount reqs p user a, false)
  | none => pure (reqs ++ [{ batch := p, user := user, amount := amount }], true)

def bumpCount (b : Batch) (isNew : Bool) : R (Option Nat) :=
  if isNew then do
    let c ← add64 "A13" (b.reqCount.getD 0) 1
    pure (some c)
  else pure b.reqCount

/-- `execute_liquid_unstake` -/
def liquidUnstake (s : CState) (_env : Env) (info : Info) (amount : Nat) : R Out := do
  checkStopped s.config
  let p := s.pendingId
  let up ← upsertReq s.reqs p info.sender amount
  let b ← loadSome (s.batches.find? p) (.panic "A12")
  let tot ← add128 "A11b" b.total amount
  let cnt ← bumpCount b up.2
  let b' := { b with total := tot, reqCount := cnt }
  pure ({ s with reqs := up.1, batches := s.batches.insert p b' }, [])

/-- the deadline test of `execute_submit_batch` -/
def batchDue (b : Batch) (nowS : Nat) : Bool :=
  match b.nextAction with
  | some t => decide (t ≤ nowS)
  | none => false

/-- `execute_submit_batch` -/
def submitBatch (s : CState) (env : Env) (_info : Info) : R Out := do
  let cfg := s.config
  checkStopped cfg
  let p := s.pendingId
  let batch ← loadSome (s.batches.find? p) (.std "NotFound")
  ensure (batchDue batch env.seconds) .batchNotReady
  ensure (s.reqs.any (fun r => r.batch = p)) .batchEmpty
  let st := s.st
  ensure (decide (st.totalLst ≥ batch.total)) .invalidUnstakeAmount
  let newId ← add64 "A14" batch.id 1
  let due ← add64 "A15" env.seconds cfg.batchPeriod
  let batches1 := s.batches.insert newId (Batch.new newId 0 due)
  let burnMsg := plain (.burn env.contract cfg.lstDenom batch.total env.contract)
  let unbond ← computeUnbond st.totalNative st.totalLst batch.total
  let n' := (checkedSub st.totalNative unbond).getD 0
  let l' := (checkedSub st.totalLst batch.total).getD 0
  let st' := { st with totalNative := n', totalLst := l' }
  let due2 ← add64 "A17" env.seconds cfg.native.unbondingPeriod
  let batch' := ({ batch with expected := some unbond }).updateStatus .submitted (some due2)
  let s' := { s with st := st', pendingId := newId, batches := batches1.insert batch.id batch' }
  let oracle ← updateOracleMsgs s' env cfg
  pure (s', [burnMsg] ++ oracle)

/-- `execute_withdraw` -/
def withdraw (s : CState) (env : Env) (info : Info) (batchId : Nat) : R Out := do
  let cfg := s.config
  checkStopped cfg
  let batch ← loadSome (s.batches.find? batchId) .batchEmpty
  ensure (batch.status == .received) .tokensAlreadyClaimed
  let recv ← loadSome batch.received (.panic "A19")
  let r ← loadSome (findReq s.reqs batch.id info.sender) .noRequestInBatch
  let amount ← mulRatio "A20" recv r.amount batch.total
  let s' := { s with reqs := removeReq s.reqs batch.id info.sender }
  let send := plain (.msgSend env.contract info.sender [⟨cfg.proto.ibcDenom, amount⟩])
  let oracle ← updateOracleMsgs s' env cfg
  pure (s', [send] ++ oracle)

/-- `execute_add_validator` -/
def addValidator (s : CState) (info : Info) (v : String) : R Out := do
  assertAdmin s info.sender
  let cfg := s.config
  let addr ← validateAddress v cfg.native.validatorPrefix
  ensure (!cfg.native.validators.contains addr) .duplicateValidator
  let cfg' := { cfg with native := { cfg.native with validators := cfg.native.validators ++ [addr] } }
  pure ({ s with config := cfg' }, [])

/-- `execute_remove_validator`: removes the first occurrence -/
def removeValidator (s : CState) (info : Info) (v : String) : R Out := do
  assertAdmin s info.sender
  let cfg := s.config
  let addr ← validateAddress v cfg.native.validatorPrefix
  ensure (cfg.native.validators.contains addr) .validatorNotFound
  let cfg' := { cfg with native := { cfg.native with validators := cfg.native.validators.erase addr } }
  pure ({ s with config := cfg' }, [])

/-- the three stored values of the handover protocol -/
def ownOf (s : CState) : Own :=
  { admin := s.admin, pending := s.st.pendingOwner, minTime := s.st.ownerMinTime }

def setOwn (s : CState) (o : Own) : CState :=
  { s with admin := o.admin, st := { s.st with pendingOwner := o.pending, ownerMinTime := o.minTime } }

/-- `execute_transfer_ownership` -/
def transferOwnership (s : CState) (env : Env) (info : Info) (newOwner : String) : R Out := do
  let o ← (ownOf s).nominate env.seconds info.sender (addrValidate env.chainPrefix newOwner)
  pure (setOwn s o, [])

/-- `execute_revoke_ownership_transfer` -/
def revokeOwnership (s : CState) (info : Info) : R Out := do
  let o ← (ownOf s).revoke info.sender
  pure (setOwn s o, [])

/-- `execute_accept_ownership` -/
def acceptOwnership (s : CState) (env : Env) (info : Info) : R Out := do
  let o ← (ownOf s).accept env.seconds info.sender
  pure (setOwn s o, [])

/-- the `while taken < limit` loop of `paginate_map`: walk the range, keep the values the filter
accepts, count only those -/
def paginateLoop {α} (f : α → Bool) (limit : Nat) : List α → Nat → List α
  | [], _ => []
  | x :: rest, taken =>
    if taken < limit then
      if f x then x :: paginateLoop f limit rest (taken + 1)
      else paginateLoop f limit rest taken
    else []

/-- `paginate_map` over an `AMap` (ascending): exclusive cursor, the limit counts matches only -/
def paginate {α} (m : AMap α) (startAfter : Option Nat) (limit : Option Nat) (f : α → Bool) : List α :=
  paginateLoop f (limit.getD U32.max) ((m.after startAfter).map (·.2)) 0

/-- the forced-recovery loop: ids already collected are skipped (a packet listed twice is
recovered once); `acc` holds the packets collected so far, in order -/
def loadPacketsAux (s : CState) (receiver : String) : List Nat → List Packet → R (List Packet)
  | [], acc => .ok acc
  | id :: rest, acc =>
    if acc.any (fun p => p.seq = id) then loadPacketsAux s receiver rest acc
    else match s.inflight.find? id with
      | none => .error (.std "NotFound")
      | some p =>
        if p.receiver ≠ receiver then .error .invalidReceiver
        else loadPacketsAux s receiver rest (acc ++ [p])

def loadPackets (s : CState) (receiver : String) (ids : List Nat) : R (List Packet) :=
  loadPacketsAux s receiver ids []

def sumAmounts (site : String) : List Packet → Nat → R Nat
  | [], acc => .ok acc
  | p :: rest, acc =>
    match add128 site acc p.coin.amount with
    | .error e => .error e
    | .ok a => sumAmounts site rest a

/-- packets a non-forced recovery re-sends: refunded (failed / timed-out) ones of that receiver -/
def refundable (receiver : String) (p : Packet) : Bool :=
  p.receiver = receiver && (p.status = .ackFailure || p.status = .timedOut)

def selectPackets (s : CState) (recv : String) (selected : Option (List Nat)) (page : Bool) : R (List Packet) :=
  match selected with
  | some ids => loadPackets s recv ids
  | none => .ok (paginate s.inflight none (if page then some 10 else none) (refundable recv))

def recoverReceiver (cfg : Config) (receiver : Option String) : R String :=
  match receiver with
  | some r => validateAddress r cfg.native.accountPrefix
  | none => .ok cfg.native.staker

def firstDenom (ps : List Packet) : R String :=
  match ps with
  | [] => .error .noInflightPackets
  | p0 :: _ => .ok p0.coin.denom

def erasePackets (m : AMap Packet) (ps : List Packet) : AMap Packet :=
  ps.foldl (fun m p => m.erase p.seq) m

/-- `recover` -/
def recover (s : CState) (env : Env) (info : Info) (selected : Option (List Nat))
    (receiver : Option String) (page : Bool) : R Out := do
  ensure (selected.isNone || isOk (assertAdmin s info.sender)) .admin
  let cfg := s.config
  let recv ← recoverReceiver cfg receiver
  let packets ← selectPackets s recv selected page
  let denom ← firstDenom packets
  ensure (packets.all (fun p => p.coin.denom = denom)) .inconsistentDenom
  let maxId ← loadSome s.inflight.maxKey? (.panic "A26")
  let inflight' := erasePackets s.inflight packets
  let total ← sumAmounts "A27" packets 0
  let id ← add64 "A28" maxId 1
  let r ← ibcTransferSubMsg { s with inflight := inflight' } env recv ⟨denom, total⟩ (some id)
  pure (r.1, [r.2])

def optValidate {α β} (o : Option α) (f : α → R β) (dflt : β) : R β :=
  match o with
  | some a => f a
  | none => .ok dflt

/-- `update_config` -/
def updateConfig (s : CState) (info : Info) (native : Option UnsafeNative) (proto : Option UnsafeProto)
    (fee : Option UnsafeFee) (monitors : Option (List String)) (batchPeriod : Option Nat) : R Out := do
  assertAdmin s info.sender
  let cfg := s.config
  let nat' ← optValidate native (·.validate) cfg.native
  let proto' ← optValidate proto (·.validate) cfg.proto
  let fee' ← optValidate fee (·.validate proto') cfg.feeCfg
  let mons' ← optValidate monitors (validateAddresses · proto'.accountPrefix) cfg.monitors
  let bp' ← optValidate batchPeriod validatePeriod cfg.batchPeriod
  let cfg' := { cfg with native := nat', proto := proto', feeCfg := fee', monitors := mons',
                         batchPeriod := bp' }
  pure ({ s with config := cfg' }, [])

def findCoin (funds : List Coin) (denom : String) : Option Coin :=
  funds.find? (fun c => c.denom = denom)

/-- the ibc-hooks sender test shared by the two `Receive*` handlers -/
def checkHookSender (cfg : Config) (nativeSender sender : String) : R Unit :=
  ensure (deriveIntermediateSender cfg.proto.channel nativeSender cfg.proto.accountPrefix == some sender) .unauthorized

def accrueFee (cfg : Config) (st : St) (fee : Nat) : R Nat :=
  if cfg.feeCfg.treasury.isNone then add128 "A33c" st.totalFees fee else .ok st.totalFees

def treasuryMsgs (cfg : Config) (fee : Nat) : List SubMsg :=
  match cfg.feeCfg.treasury with
  | some t => [plain (.bankSend t [⟨cfg.proto.ibcDenom, fee⟩])]
  | none => []

/-- `receive_rewards` -/
def receiveRewards (s : CState) (env : Env) (info : Info) : R Out := do
  let cfg := s.config
  let st := s.st
  checkStopped cfg
  ensure (st.totalLst != 0) .noLiquidStake
  checkHookSender cfg cfg.native.rewardCollector info.sender
  let coin ← loadSome (findCoin info.funds cfg.proto.ibcDenom) (.payment "NoFunds")
  let amount := coin.amount
  let fee ← loadSome (checkedMulRatio cfg.feeCfg.fee amount 100000) .receiveRewardsTooSmall
  let afterFees ← loadSome (checkedSub amount fee) .receiveRewardsTooSmall
  let n' ← add128 "A33a" st.totalNative afterFees
  let r' ← add128 "A33b" st.totalReward amount
  let f' ← accrueFee cfg st fee
  let s1 := { s with st := { st with totalNative := n', totalReward := r', totalFees := f' } }
  let r2 ← ibcTransferSubMsg s1 env cfg.native.staker ⟨cfg.proto.ibcDenom, afterFees⟩ none
  let oracle ← updateOracleMsgs r2.1 env cfg
  pure (r2.1, oracle ++ [r2.2] ++ treasuryMsgs cfg fee)

/-- the unbonding deadline test of `receive_unstaked_tokens` -/
def unbondingDone (b : Batch) (nowS : Nat) : R Unit :=
  match b.nextAction with
  | none => .error .batchNotClaimable
  | some t => ensure (decide (t ≤ nowS)) .batchNotReady

/-- `receive_unstaked_tokens` -/
def receiveUnstaked (s : CState) (env : Env) (info : Info) (batchId : Nat) : R Out := do
  let cfg := s.config
  checkStopped cfg
  checkHookSender cfg cfg.native.staker info.sender
  let coin ← loadSome (findCoin info.funds cfg.proto.ibcDenom) (.payment "NoFunds")
  let batch ← loadSome (s.batches.find? batchId) (.std "NotFound")
  ensure (batch.status == .submitted) .batchNotClaimable
  unbondingDone batch env.seconds
  let batch' := ({ batch with received := some coin.amount }).updateStatus .received none
  pure ({ s with batches := s.batches.insert batch.id batch' }, [])

/-- `circuit_breaker` -/
def circuitBreaker (s : CState) (info : Info) : R Out := do
  ensure (isOk (assertAdmin s info.sender) || s.config.monitors.contains info.sender) .unauthorized
  pure ({ s with config := { s.config with stopped := true } }, [])

/-- `resume_contract` -/
def resumeContract (s : CState) (env : Env) (info : Info) (n l r : Nat) : R Out := do
  assertAdmin s info.sender
  let cfg := { s.config with stopped := false }
  let s' := { s with config := cfg, st := { s.st with totalNative := n, totalLst := l, totalReward := r } }
  let oracle ← updateOracleMsgs s' env cfg
  pure (s', oracle)

/-- `fee_withdraw` -/
def feeWithdraw (s : CState) (env : Env) (info : Info) (amount : Nat) : R Out := do
  assertAdmin s info.sender
  let cfg := s.config
  let st := s.st
  ensure (decide (amount ≤ st.totalFees)) .insufficientFunds
  let t ← loadSome cfg.feeCfg.treasury .treasuryNotConfigured
  let s' := { s with st := { st with totalFees := st.totalFees - amount } }
  pure (s', [plain (.msgSend env.contract t [⟨cfg.proto.ibcDenom, amount⟩])])

/-- `cw_utils::must_pay` -/
def mustPay (info : Info) (denom : String) : R Nat :=
  match info.funds with
  | [] => .error (.payment "NoFunds")
  | [c] =>
    if c.amount = 0 then .error (.payment "NoFunds")
    else if c.denom ≠ denom then .error (.payment "MissingDenom")
    else .ok c.amount
  | _ => .error (.payment "MultipleDenoms")

/-- `contract::execute` -/
def execute (s : CState) (env : Env) (info : Info) (msg : ExecMsg) : R Out :=
  match msg with
  | .liquidStake mintTo toNative expected => do
    let pay ← mustPay info s.config.proto.ibcDenom
    liquidStake s env info pay mintTo toNative expected
  | .liquidUnstake => do
    let pay ← mustPay info s.config.lstDenom
    liquidUnstake s env info pay
  | .submitBatch => submitBatch s env info
  | .withdraw b => withdraw s env info b
  | .addValidator v => addValidator s info v
  | .removeValidator v => removeValidator s info v
  | .transferOwnership o => transferOwnership s env info o
  | .acceptOwnership => acceptOwnership s env info
  | .revokeOwnershipTransfer => revokeOwnership s info
  | .updateConfig n p f m b => updateConfig s info n p f m b
  | .receiveRewards => receiveRewards s env info
  | .receiveUnstakedTokens b => receiveUnstaked s env info b
  | .circuitBreaker => circuitBreaker s info
  | .resumeContract n l r => resumeContract s env info n l r
  | .recover paginated selected receiver => recover s env info selected receiver (paginated.getD false)
  | .feeWithdraw a => feeWithdraw s env info a

/-! ## contract.rs: instantiate, reply, sudo -/

/-- `contract::instantiate`; `boot` of the reachable-state definitions -/
def instantiate (env : Env) (info : Info) (msg : InstantiateMsg) : R Out := do
  let native ← msg.native.validate
  let proto ← msg.proto.validate
  let feeCfg ← msg.feeCfg.validate proto
  let sub ← validateDenom msg.lstSubdenom
  let monitors ← validateAddresses msg.monitors msg.proto.accountPrefix
  let bp ← validatePeriod msg.batchPeriod
  let cfg : Config := { native, proto, feeCfg, lstDenom := "factory/" ++ env.contract ++ "/" ++ sub,
                        monitors, batchPeriod := bp, stopped := true }
  let st : St := { totalNative := 0, totalLst := 0, pendingOwner := none, ownerMinTime := none,
                   totalReward := 0, rate := 1, totalFees := 0, ibcIdCounter := 0 }
  let due ← add64 "A15i" env.seconds cfg.batchPeriod
  let s : CState := { config := cfg, st, admin := some info.sender, batches := [(1, Batch.new 1 0 due)],
                      pendingId := 1, reqs := [], inflight := [], waiting := [],
                      version := (CONTRACT_NAME, CONTRACT_VERSION) }
  pure (s, [plain (.createDenom env.contract msg.lstSubdenom)])

/-- `contract::reply` + `handle_ibc_reply` -/
def reply (s : CState) (id : Nat) (res : ReplyResult) : R Out :=
  match s.waiting.find? id with
  | none => .error .invalidReplyId
  | some w =>
    match res with
    | .ok seq =>
      let pkt : Packet := { seq := seq, coin := w.coin, receiver := w.receiver, status := .sent }
      .ok ({ s with waiting := s.waiting.erase id, inflight := s.inflight.insert seq pkt }, [])
    | _ => .error .failedIbcTransfer

/-- `receive_ack` / `receive_timeout` -/
def sudo (s : CState) (msg : SudoMsg) : R Out :=
  match msg with
  | .ack channel seq success =>
    if channel ≠ s.config.proto.channel then .ok (s, [])
    else match s.inflight.find? seq with
      | none => .ok (s, [])
      | some p =>
        if success then .ok ({ s with inflight := s.inflight.erase seq }, [])
        else .ok ({ s with inflight := s.inflight.insert seq { p with status := .ackFailure } }, [])
  | .timeout channel seq =>
    if channel ≠ s.config.proto.channel then .ok (s, [])
    else match s.inflight.find? seq with
      | none => .ok (s, [])
      | some p => .ok ({ s with inflight := s.inflight.insert seq { p with status := .timedOut } }, [])

end MW.Staking
