import MW.Staking.Query
import MW.Lemmas
/-!
# Helper lemmas on `paginate` and `sumAmounts` (copies of the statements proved in
# `MW/Props/C17.lean` and `MW/Props/C07.lean`, placed below the property files so that the
# world-level invariants can use them without an import cycle)
-/
namespace MW.Staking
open MW

/-- the loop of `paginate_map` computes "filter, then take `limit`" -/
theorem loop_eq_filter_take {α} (f : α → Bool) (limit : Nat) (items : List α) (taken : Nat) :
    paginateLoop f limit items taken = (items.filter f).take (limit - taken) := by
  induction items generalizing taken with
  | nil => simp [paginateLoop]
  | cons x rest ih =>
    simp only [paginateLoop]
    split
    · rename_i hlt
      split
      · rename_i hf
        rw [ih]
        simp only [List.filter_cons, hf, ↓reduceIte]
        have : limit - taken = (limit - (taken + 1)) + 1 := by omega
        rw [this, List.take_succ_cons]
      · rename_i hf
        rw [ih]
        simp [List.filter_cons, hf]
    · rename_i hge
      have : limit - taken = 0 := by omega
      simp [this]

/-- the page specification: entries after the (exclusive) cursor, filtered, first `limit` of them -/
def page {α} (m : AMap α) (cursor : Option Nat) (limit : Nat) (f : α → Bool) : List (Nat × α) :=
  ((m.after cursor).filter (fun kv => f kv.2)).take limit

/-- `paginate` (hence every paginated query) returns exactly the values of the specified page;
an absent limit means 2^32-1 -/
theorem paginate_is_page {α} (m : AMap α) (cursor : Option Nat) (limit : Option Nat) (f : α → Bool) :
    paginate m cursor limit f = (page m cursor (limit.getD U32.max) f).map (·.2) := by
  unfold paginate page
  rw [loop_eq_filter_take]
  simp only [Nat.sub_zero, List.map_take]
  congr 1
  induction (m.after cursor) with
  | nil => rfl
  | cons kv rest ih =>
    simp only [List.map_cons, List.filter_cons]
    split <;> simp_all

theorem mem_paginate {α} (m : AMap α) (c : Option Nat) (l : Option Nat) (f : α → Bool) (x : α)
    (h : x ∈ paginate m c l f) : f x = true ∧ ∃ k, (k, x) ∈ m := by
  unfold paginate at h
  have hl : ∀ (items : List α) (taken : Nat), x ∈ paginateLoop f (l.getD U32.max) items taken → f x = true ∧ x ∈ items := by
    intro items
    induction items with
    | nil => intro t h; simp [paginateLoop] at h
    | cons a r ih =>
      intro t h
      simp only [paginateLoop] at h
      split at h
      · split at h
        · rename_i hf
          simp only [List.mem_cons] at h
          rcases h with h | h
          · subst h; exact ⟨hf, by simp⟩
          · obtain ⟨h1, h2⟩ := ih _ h; exact ⟨h1, List.mem_cons_of_mem _ h2⟩
        · obtain ⟨h1, h2⟩ := ih _ h; exact ⟨h1, List.mem_cons_of_mem _ h2⟩
      · simp at h
  obtain ⟨h1, h2⟩ := hl _ _ h
  refine ⟨h1, ?_⟩
  obtain ⟨kv, hkv, rfl⟩ := List.mem_map.mp h2
  refine ⟨kv.1, ?_⟩
  unfold AMap.after at hkv
  cases c with
  | none => exact hkv
  | some c => exact (List.mem_filter.mp hkv).1

/-- the sum a recovery re-sends is the plain sum of the selected packets' amounts -/
theorem sumAmounts_eq (site : String) (ps : List Packet) (acc total : Nat) (h : sumAmounts site ps acc = .ok total) :
    total = acc + (ps.map (·.coin.amount)).sum := by
  induction ps generalizing acc with
  | nil => simp [sumAmounts] at h; simp [h]
  | cons p r ih =>
    simp only [sumAmounts] at h
    split at h
    · cases h
    · rename_i a ha
      simp only [add128_ok] at ha
      have := ih _ h
      simp only [List.map_cons, List.sum_cons]; omega

end MW.Staking
