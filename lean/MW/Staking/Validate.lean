import MW.Staking.Types
import MW.Bytes.Bech32
/-!
# Validators and address helpers (contracts/staking/src/helpers.rs, types.rs)

All length tests are on UTF-8 *bytes*, as `str::len()` is.
-/
namespace MW.Staking
open MW

def genericErr (s : String) : Err := .std s

/-- `validate_address_prefix` -/
def validatePrefix (hrp : String) : R String :=
  let bs := hrp.toUTF8.toList
  if bs.isEmpty || bs.length > 83 then .error (genericErr "invalid address prefix length")
  else if bs.any (fun b => !(b ≥ 33 && b ≤ 126)) then .error (genericErr "address prefix contains invalid chars")
  else
    let hasLower := bs.any Bech32.isLowerB
    let hasUpper := bs.any Bech32.isUpperB
    if hasLower && hasUpper then .error (genericErr "address prefix chars are mixed case")
    else if hasUpper then .ok (Bech32.lowerAscii hrp) else .ok hrp

/-- `validate_address`: bech32-decodable (either checksum variant) with exactly this prefix -/
def validateAddress (addr pref : String) : R String :=
  match Bech32.decode addr with
  | some (hrp, _, _) => if hrp = pref then .ok addr else .error (genericErr "Invalid address prefix")
  | none => .error (genericErr "Invalid address")

/-- `validate_addresses`: each valid, no string listed twice -/
def validateAddressesAux (pref : String) : List String → List String → R (List String)
  | [], _ => .ok []
  | a :: rest, seen =>
    match validateAddress a pref with
    | .error e => .error e
    | .ok v =>
      if seen.contains a then .error (genericErr "Duplicate address")
      else match validateAddressesAux pref rest (a :: seen) with
        | .error e => .error e
        | .ok vs => .ok (v :: vs)

def validateAddresses (addrs : List String) (pref : String) : R (List String) :=
  validateAddressesAux pref addrs []

/-- `validate_denom` (token sub-denoms): more than 3 bytes, ASCII letters only -/
def validateDenom (d : String) : R String :=
  if d.utf8ByteSize ≤ 3 then .error (genericErr "denom len is less than 3")
  else if !(d.toList.all Char.isAlpha) then .error (genericErr "denom must be alphabetic")
  else .ok d

/-- `validate_ibc_denom`: `ibc/` followed by 64 bytes -/
def validateIbcDenom (d : String) : R String :=
  if d.toList.take 4 = "ibc/".toList ∧ d.utf8ByteSize = 68 then .ok d
  else .error (genericErr "ibc denom is invalid")

/-- `str::parse::<u64>`: optional leading `+`, then one or more ASCII digits, value ≤ 2^64-1 -/
def parseU64 (s : String) : Option Nat :=
  let cs := s.toList
  let ds := match cs with
    | '+' :: rest => rest
    | _ => cs
  if ds.isEmpty then none
  else if !(ds.all Char.isDigit) then none
  else
    let v := ds.foldl (fun acc c => acc * 10 + (c.toNat - '0'.toNat)) 0
    if v ≤ U64.max then some v else none

/-- the channel test of `UnsafeProtocolChainConfig::validate` -/
def channelOk (ch : String) : Bool :=
  ch.toList.take 8 = "channel-".toList && (ch.toList.drop 8).all Char.isDigit
    && (parseU64 (String.ofList (ch.toList.drop 8))).isSome

def MAX_PERIOD_SECONDS : Nat := 10000000000

/-- `validate_period` -/
def validatePeriod (p : Nat) : R Nat :=
  if p > MAX_PERIOD_SECONDS then .error (genericErr "period is too long") else .ok p

/-- `opt.as_ref().map(|a| validate_address(a, prefix)).transpose()` -/
def optAddress (o : Option String) (pref : String) : R (Option String) :=
  match o with
  | none => .ok none
  | some a => match validateAddress a pref with
    | .ok v => .ok (some v)
    | .error e => .error e

def UnsafeNative.validate (c : UnsafeNative) : R NativeCfg := do
  let ap ← validatePrefix c.accountPrefix
  let vp ← validatePrefix c.validatorPrefix
  let td ← validateDenom c.tokenDenom
  let vals ← validateAddresses c.validators c.validatorPrefix
  let ub ← validatePeriod c.unbondingPeriod
  let staker ← validateAddress c.staker c.accountPrefix
  let rc ← validateAddress c.rewardCollector c.accountPrefix
  pure { accountPrefix := ap, validatorPrefix := vp, tokenDenom := td, validators := vals,
         unbondingPeriod := ub, staker := staker, rewardCollector := rc }

def UnsafeProto.validate (c : UnsafeProto) : R ProtoCfg := do
  ensure (channelOk c.channel) .ibcChannelConfigWrong
  let ap ← validatePrefix c.accountPrefix
  let den ← validateIbcDenom c.ibcDenom
  let oracle ← optAddress c.oracle c.accountPrefix
  pure { accountPrefix := ap, channel := c.channel, ibcDenom := den, minStake := c.minStake, oracle := oracle }

def UnsafeFee.validate (c : UnsafeFee) (p : ProtoCfg) : R FeeCfg := do
  let t ← optAddress c.treasury p.accountPrefix
  pure { fee := c.fee, treasury := t }

/-- `addess_hash(typ, key)` = SHA-256(SHA-256(typ) ++ key) -/
def addressHash (typ : String) (key : List UInt8) : List UInt8 :=
  Sha256.hash (Sha256.hash (Sha256.bytesOf typ) ++ key)

/-- `derive_intermediate_sender` -/
def deriveIntermediateSender (channel sender pref : String) : Option String :=
  let senderStr := channel ++ "/" ++ sender
  let h := addressHash SENDER_PREFIX (Sha256.bytesOf senderStr)
  Bech32.encode pref (Bech32.toBase32 h)

/-- `Api::addr_validate` of the protocol chain (modelled; see DESIGN.md §8): a lower-case
bech32 (not bech32m) string under the chain's own prefix carrying 20 or 32 bytes. -/
def addrValidate (chainPrefix s : String) : R String :=
  match Bech32.decode s with
  | some (hrp, data, .bech32) =>
    if hrp = chainPrefix && !(s.toList.any Char.isUpper) then
      match Bech32.fromBase32 data with
      | some bs => if bs.length = 20 || bs.length = 32 then .ok s else .error (genericErr "address length")
      | none => .error (genericErr "address padding")
    else .error (genericErr "address prefix or case")
  | _ => .error (genericErr "address not bech32")

#guard deriveIntermediateSender "channel-123" "celestia1sfhy3emrgp26wnzuu64p06kpkxd9phel8ym0ge" "osmo"
  = some "osmo1wdptta2h8y2hwt8kufzzeyx7ut3la6fade5pkxrlxe60vym0450sy3x3df"

end MW.Staking
