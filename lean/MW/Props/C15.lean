import MW.Staking.Facts
import MW.Staking.Query
import MW.Staking.Effects
import MW.Inv.OracleOptional
import MW.Inv.Demo
import MW.Staking.Interface
/-!
# C15 — Rates posted to the oracle are the post-transaction rates; the oracle is optional
-/
namespace MW.Props.C15
open MW MW.Staking

/-- the oracle message for store `s`: `PostRates{denom = LST, purchase, redemption}` with the
rates of `s` (Decimal strings, floor at 18 digits) -/
def oracleMsgFor (s : CState) (env : Env) (o : String) (red pur : Nat) : SubMsg :=
  plain (.wasmExec env.contract o (oraclePayload s.config.lstDenom (decimalToString pur) (decimalToString red)))

theorem getRates_congr (s1 s2 : CState) (hn : s1.st.totalNative = s2.st.totalNative)
    (hl : s1.st.totalLst = s2.st.totalLst) : getRates s1 = getRates s2 := by
  unfold getRates; rw [hn, hl]

/-- redemption = floor(N·10^18/L), purchase = floor(L·10^18/N), both 0 when no LST exists -/
theorem getRates_spec (s : CState) (red pur : Nat) (h : getRates s = .ok (red, pur)) :
    (s.st.totalLst = 0 → red = 0 ∧ pur = 0)
    ∧ (s.st.totalLst ≠ 0 → red = s.st.totalNative * 10 ^ 18 / s.st.totalLst
                          ∧ pur = s.st.totalLst * 10 ^ 18 / s.st.totalNative ∧ s.st.totalNative ≠ 0) := by
  unfold getRates at h
  split at h
  · cases h; simp_all
  · simp only [bind_ok, pure_ok, decimalFromRatio, mulRatio_ok] at h
    obtain ⟨r, ⟨_, _, hr⟩, p, ⟨hp0, _, hp⟩, h⟩ := h
    cases h
    simp_all

theorem oracle_msgs_some (s : CState) (env : Env) (cfg : Config) (o : String) (msgs : List SubMsg)
    (ho : cfg.proto.oracle = some o) (h : updateOracleMsgs s env cfg = .ok msgs) :
    ∃ red pur, getRates s = .ok (red, pur)
      ∧ msgs = [plain (.wasmExec env.contract o (oraclePayload cfg.lstDenom (decimalToString pur) (decimalToString red)))] := by
  unfold updateOracleMsgs at h
  rw [ho] at h
  simp only [bind_ok, pure_ok] at h
  obtain ⟨⟨red, pur⟩, hr, h⟩ := h
  exact ⟨red, pur, hr, h.symm⟩

/-- with no oracle configured nothing is posted and the computation cannot fail -/
theorem oracle_msgs_none (s : CState) (env : Env) (cfg : Config) (ho : cfg.proto.oracle = none) :
    updateOracleMsgs s env cfg = .ok [] := by
  unfold updateOracleMsgs; rw [ho]

/-- LiquidStake posts the rates of the state *after* the stake -/
theorem stake_posts_post_rates (s s' : CState) (env : Env) (info : Info) (a : Nat) (mt : Option String)
    (tn : Option Bool) (ex : Option Nat) (out : List SubMsg) (o : String)
    (ho : s.config.proto.oracle = some o) (h : liquidStake s env info a mt tn ex = .ok (s', out)) :
    ∃ red pur, getRates s' = .ok (red, pur) ∧ oracleMsgFor s' env o red pur ∈ out
      ∧ s'.config = s.config := by
  unfold liquidStake at h
  simp only [bind_ok, ensure_ok] at h
  obtain ⟨_, _, _, _, _, _, _, _, st, _, m, _, _, _, _, _, r1, h9, n', _, l', _, orc, h10, h13⟩ := h
  obtain ⟨red, pur, hr, horc⟩ := oracle_msgs_some _ env s.config o orc ho h10
  obtain ⟨_, _, hr1, _⟩ := ibcTransferSubMsg_ok h9
  split at h13
  · simp only [pure_ok] at h13; cases h13
    refine ⟨red, pur, hr, ?_, by rw [hr1]⟩
    simp [oracleMsgFor, horc, hr1]
  · simp only [bind_ok, pure_ok] at h13
    obtain ⟨_, _, r3, hr3, h13⟩ := h13
    obtain ⟨_, _, hr31, _⟩ := ibcTransferSubMsg_ok hr3
    cases h13
    refine ⟨red, pur, ?_, ?_, by rw [hr31, hr1]⟩
    · rw [← hr]; apply getRates_congr <;> rw [hr31]
    · simp [oracleMsgFor, horc, hr31, hr1]

/-- SubmitBatch posts the rates of the state after the submission -/
theorem submit_posts_post_rates (s s' : CState) (env : Env) (info : Info) (out : List SubMsg) (o : String)
    (ho : s.config.proto.oracle = some o) (h : submitBatch s env info = .ok (s', out)) :
    ∃ red pur, getRates s' = .ok (red, pur) ∧ oracleMsgFor s' env o red pur ∈ out := by
  unfold submitBatch at h
  simp only [bind_ok, ensure_ok, pure_ok] at h
  obtain ⟨_, _, b, _, _, _, _, _, _, _, nid, _, due, _, u, _, due2, _, orc, horc, h⟩ := h
  obtain ⟨red, pur, hr, horc⟩ := oracle_msgs_some _ env s.config o orc ho horc
  cases h
  exact ⟨red, pur, hr, by simp [oracleMsgFor, horc]⟩

/-- ReceiveRewards posts the rates of the state after the reward -/
theorem rewards_posts_post_rates (s s' : CState) (env : Env) (info : Info) (out : List SubMsg) (o : String)
    (ho : s.config.proto.oracle = some o) (h : receiveRewards s env info = .ok (s', out)) :
    ∃ red pur, getRates s' = .ok (red, pur) ∧ oracleMsgFor s' env o red pur ∈ out := by
  unfold receiveRewards at h
  simp only [bind_ok, ensure_ok, pure_ok] at h
  obtain ⟨_, _, _, _, _, _, c, _, fee, _, af, _, n', _, r', _, f', _, r2, h2, orc, horc, h⟩ := h
  obtain ⟨red, pur, hr, horc⟩ := oracle_msgs_some _ env s.config o orc ho horc
  obtain ⟨_, _, hr21, _⟩ := ibcTransferSubMsg_ok h2
  cases h
  exact ⟨red, pur, hr, by simp [oracleMsgFor, horc, hr21]⟩

/-- ResumeContract posts the rates of the supplied totals -/
theorem resume_posts_post_rates (s s' : CState) (env : Env) (info : Info) (n l r : Nat) (out : List SubMsg)
    (o : String) (ho : s.config.proto.oracle = some o) (h : resumeContract s env info n l r = .ok (s', out)) :
    ∃ red pur, getRates s' = .ok (red, pur) ∧ oracleMsgFor s' env o red pur ∈ out := by
  unfold resumeContract at h
  simp only [bind_ok, pure_ok] at h
  obtain ⟨_, _, orc, horc, h⟩ := h
  obtain ⟨red, pur, hr, horc⟩ := oracle_msgs_some _ env _ o orc (by simpa using ho) horc
  cases h
  exact ⟨red, pur, hr, by simp [oracleMsgFor, horc]⟩

/-- Withdraw (totals unchanged) posts the current rates -/
theorem withdraw_posts_post_rates (s s' : CState) (env : Env) (info : Info) (b : Nat) (out : List SubMsg)
    (o : String) (ho : s.config.proto.oracle = some o) (h : withdraw s env info b = .ok (s', out)) :
    ∃ red pur, getRates s' = .ok (red, pur) ∧ oracleMsgFor s' env o red pur ∈ out := by
  unfold withdraw at h
  simp only [bind_ok, ensure_ok, pure_ok] at h
  obtain ⟨_, _, bt, _, _, _, rc, _, rq, _, amt, _, orc, horc, h⟩ := h
  obtain ⟨red, pur, hr, horc⟩ := oracle_msgs_some _ env s.config o orc ho horc
  cases h
  exact ⟨red, pur, hr, by simp [oracleMsgFor, horc]⟩

/-- **every transaction that changes the totals posts the post-transaction rates.**  For every
message, sender, funds and state: if a successful call changed the staked total or the LST total and
an oracle is configured, the response contains the `PostRates` message carrying the rates of the state
the call left behind.  (The four handlers that can change the totals are stake, submission, rewards and
resume; for every other message the totals provably do not change.) -/
theorem every_total_change_posts (s s' : CState) (env : Env) (info : Info) (m : ExecMsg) (out : List SubMsg) (o : String)
    (ho : s.config.proto.oracle = some o) (h : execute s env info m = .ok (s', out))
    (hch : s'.st.totalNative ≠ s.st.totalNative ∨ s'.st.totalLst ≠ s.st.totalLst) :
    ∃ red pur, getRates s' = .ok (red, pur) ∧ oracleMsgFor s' env o red pur ∈ out := by
  cases m <;> simp only [execute] at h
  case liquidStake mt tn ex =>
    simp only [bind_ok] at h
    obtain ⟨pay, _, h⟩ := h
    obtain ⟨red, pur, h1, h2, _⟩ := stake_posts_post_rates s s' env info pay mt tn ex out o ho h
    exact ⟨red, pur, h1, h2⟩
  case submitBatch => exact submit_posts_post_rates s s' env info out o ho h
  case receiveRewards => exact rewards_posts_post_rates s s' env info out o ho h
  case resumeContract n l r => exact resume_posts_post_rates s s' env info n l r out o ho h
  case withdraw b => exact withdraw_posts_post_rates s s' env info b out o ho h
  case liquidUnstake =>
    exfalso
    simp only [bind_ok] at h
    obtain ⟨a, _, h⟩ := h
    obtain ⟨_, _, b, _, hs'⟩ := liquidUnstake_eff h
    subst hs'; simp at hch
  case addValidator v => exfalso; obtain ⟨_, _, _, _, hs'⟩ := addValidator_eff h; subst hs'; simp at hch
  case removeValidator v => exfalso; obtain ⟨_, _, _, hs'⟩ := removeValidator_eff h; subst hs'; simp at hch
  case transferOwnership n => exfalso; obtain ⟨_, o', _, hs'⟩ := transferOwnership_eff h; subst hs'; simp [setOwn] at hch
  case acceptOwnership => exfalso; obtain ⟨_, o', _, hs'⟩ := acceptOwnership_eff h; subst hs'; simp [setOwn] at hch
  case revokeOwnershipTransfer => exfalso; obtain ⟨_, o', _, hs'⟩ := revokeOwnership_eff h; subst hs'; simp [setOwn] at hch
  case updateConfig n p f mo bp =>
    exfalso; obtain ⟨_, _, _, _, _, _, _, _, _, _, _, _, hs'⟩ := updateConfig_eff h; subst hs'; simp at hch
  case receiveUnstakedTokens b =>
    exfalso; obtain ⟨_, _, _, _, _, _, _, _, _, _, _, hs'⟩ := receiveUnstaked_eff h; subst hs'; simp at hch
  case circuitBreaker =>
    exfalso
    unfold circuitBreaker at h
    simp only [bind_ok, pure_ok] at h
    obtain ⟨_, _, h⟩ := h; cases h; simp at hch
  case recover pg sel rc =>
    exfalso; obtain ⟨_, _, _, _, _, _, _, _, _, _, _, _, _, _, hs', _⟩ := recover_eff h; subst hs'; simp at hch
  case feeWithdraw a =>
    exfalso
    unfold feeWithdraw at h
    simp only [bind_ok, pure_ok] at h
    obtain ⟨_, _, _, _, _, _, h⟩ := h; cases h; simp at hch

/-- the State query reports the same purchase rate -/
theorem state_query_rate (s : CState) (r : StateResp) (h : queryState s = .ok r) :
    ∃ red, getRates s = .ok (red, r.rate) ∧ r.totalNative = s.st.totalNative ∧ r.totalLst = s.st.totalLst := by
  unfold queryState at h
  simp only [bind_ok, pure_ok] at h
  obtain ⟨⟨red, pur⟩, hr, h⟩ := h
  cases h
  exact ⟨red, hr, rfl, rfl⟩

/-- oracle optional, part 1: without an oracle no handler posts anything to any contract.
(Stated on the oracle computation every value-moving handler shares.) -/
theorem no_oracle_posts_nothing (s : CState) (env : Env) (cfg : Config) (msgs : List SubMsg)
    (ho : cfg.proto.oracle = none) (h : updateOracleMsgs s env cfg = .ok msgs) : msgs = [] := by
  rw [oracle_msgs_none s env cfg ho] at h; cases h; rfl

/-- oracle optional, part 2 (ResumeContract, the operation every deployment starts with): with
no oracle the admin's resume succeeds for all arguments -/
theorem resume_succeeds_without_oracle (s : CState) (env : Env) (info : Info) (n l r : Nat)
    (ha : s.admin = some info.sender) (ho : s.config.proto.oracle = none) :
    resumeContract s env info n l r = .ok
      ({ s with config := { s.config with stopped := false },
                st := { s.st with totalNative := n, totalLst := l, totalReward := r } }, []) := by
  have h1 : assertAdmin s info.sender = .ok () := assertAdmin_ok.mpr ha
  unfold resumeContract
  simp only [h1, bind, Except.bind]
  rw [oracle_msgs_none _ env _ (by simpa using ho)]
  rfl

/-- the operations that post rates (the four that can change the totals, and Withdraw) -/
def postsRates : ExecMsg → Bool
  | .liquidStake .. | .submitBatch | .withdraw _ | .receiveRewards | .resumeContract .. => true
  | _ => false

/-- **the oracle is optional.**  For every state, sender, funds and arguments: if one of these
operations succeeds with an oracle configured, then with no oracle configured (everything else equal)
it succeeds too, leaves the same store (up to the oracle field itself) and returns the same messages
except that nothing is posted. -/
theorem oracle_optional (s s' : CState) (env : Env) (info : Info) (m : ExecMsg) (out : List SubMsg) (o : String)
    (hm : postsRates m = true) (h : execute (setOracle s (some o)) env info m = .ok (s', out)) :
    execute (setOracle s none) env info m = .ok (setOracle s' none, out.filter nonOracle) := by
  cases m <;> simp [postsRates] at hm <;> simp only [execute] at h ⊢
  case liquidStake mt tn ex =>
    simp only [bind_ok] at h ⊢
    obtain ⟨pay, hp, h⟩ := h
    exact ⟨pay, hp, stake_oracle_optional s s' env info pay mt tn ex out o h⟩
  case submitBatch => exact submit_oracle_optional s s' env info out o h
  case withdraw b => exact withdraw_oracle_optional s s' env info b out o h
  case receiveRewards => exact rewards_oracle_optional s s' env info out o h
  case resumeContract n l r => exact resume_oracle_optional s s' env info n l r out o h

/-- ... and what is returned without an oracle contains no message to any contract -/
theorem oracle_optional_posts_nothing (out : List SubMsg) (x : SubMsg) (hx : x ∈ out.filter nonOracle)
    (sender c p : String) : x.msg ≠ .wasmExec sender c p := by
  intro hc
  have := (List.mem_filter.mp hx).2
  simp [nonOracle, hc] at this

-- non-vacuity of `oracle_optional` (a test of its hypothesis, not a proof): with an oracle configured the
-- admin's resume to totals 3001/1500 succeeds on the demo contract and posts one message; without one
-- it succeeds and posts none
#guard (MW.Chain.Demo.demoBoot.map fun w =>
    match execute (setOracle w.c (some "osmo1oracle")) MW.Chain.Demo.demoEnv ⟨MW.Chain.Demo.demoAdmin, []⟩ (.resumeContract 3001 1500 0),
          execute (setOracle w.c none) MW.Chain.Demo.demoEnv ⟨MW.Chain.Demo.demoAdmin, []⟩ (.resumeContract 3001 1500 0) with
    | .ok (_, out1), .ok (_, out2) => (out1.length, out2.length)
    | _, _ => (99, 99)) == some (1, 0)

/-- non-vacuity / regression witnesses: totals 3001/1500 give the strings the fixed code posts;
the first stake into an empty pool posts 1/1 -/
example : getRates { (default : CState) with st := { (default : St) with totalNative := 3001, totalLst := 1500 } }
    = .ok (2000666666666666666, 499833388870376541) := rfl
example : decimalToString 2000666666666666666 = "2.000666666666666666" := by decide

/-- the statements of this file quantify over every message the staking contract accepts: the `ExecuteMsg` the source
declares (table regenerated from /repo's `msg.rs` on every run) has exactly the variants, fields and types of the
model's `ExecMsg`, and the contract exports exactly the modelled entry points.  A message or entry point added to the
source — which no generated history would exercise — breaks this theorem -/
theorem messages_are_the_modelled_ones :
    MW.Generated.Interface.staking_execute = MW.Interface.model_staking_execute
    ∧ (∀ m : MW.Staking.ExecMsg, MW.Interface.execTag m ∈ MW.Interface.names MW.Generated.Interface.staking_execute)
    ∧ MW.Generated.Interface.staking_entry_points = ["execute", "instantiate", "migrate", "query", "reply", "sudo"] :=
  ⟨MW.Interface.staking_execute_eq, MW.Interface.staking_execute_covered.2, MW.Interface.staking_entry_points_eq⟩

end MW.Props.C15
