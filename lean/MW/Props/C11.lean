import MW.Staking.Facts
import MW.Inv.WorldStake
import MW.Inv.WorldRecover
import MW.Inv.Demo
import MW.Staking.Interface
import MW.Inv.WorldFees
import MW.Inv.Demo
/-!
# C11 — Protocol fee accounting on rewards
-/
namespace MW.Props.C11
open MW MW.Staking

theorem checkedMulRatio_some {a n d c : Nat} (h : checkedMulRatio a n d = some c) :
    d ≠ 0 ∧ c = a * n / d ∧ c ≤ U128.max := by
  unfold checkedMulRatio at h
  split at h
  · cases h
  · split at h
    · cases h; exact ⟨by assumption, rfl, by assumption⟩
    · cases h

/-- a successful reward: fee = floor(rate·reward/100000), fee + restaked = reward, the staked
total grows by the restaked part, the reward counter by the full reward, exactly the restaked
part is forwarded to the staker, and the fee either leaves to the treasury in the same
transaction or accrues to the withdrawable balance -/
theorem reward_split (s s' : CState) (env : Env) (info : Info) (out : List SubMsg)
    (h : receiveRewards s env info = .ok (s', out)) :
    ∃ reward fee orc sub,
      findCoin info.funds s.config.proto.ibcDenom = some reward
      ∧ fee = s.config.feeCfg.fee * reward.amount / 100000 ∧ fee ≤ reward.amount
      ∧ s.st.totalLst ≠ 0
      ∧ s'.st.totalNative = s.st.totalNative + (reward.amount - fee)
      ∧ s'.st.totalReward = s.st.totalReward + reward.amount
      ∧ s'.st.totalLst = s.st.totalLst
      ∧ out = orc ++ [sub] ++ treasuryMsgs s.config fee
      ∧ (∃ id t, sub = { id := id, replyAlways := true, msg := (Msg.transfer s.config.proto.channel "transfer"
            env.contract s.config.native.staker ⟨s.config.proto.ibcDenom, reward.amount - fee⟩ t (memoFor env.contract)) })
      ∧ (∀ m ∈ orc, ∃ o p, m = plain (.wasmExec env.contract o p))
      ∧ (∀ t, s.config.feeCfg.treasury = some t →
            treasuryMsgs s.config fee = [plain (.bankSend t [⟨s.config.proto.ibcDenom, fee⟩])]
            ∧ s'.st.totalFees = s.st.totalFees)
      ∧ (s.config.feeCfg.treasury = none →
            treasuryMsgs s.config fee = [] ∧ s'.st.totalFees = s.st.totalFees + fee) := by
  unfold receiveRewards at h
  simp only [bind_ok, ensure_ok, loadSome_ok, pure_ok, add128_ok, checkedSub_some] at h
  obtain ⟨_, _, _, hL, _, _, reward, hc, fee, hfee, after, ⟨hle, hafter⟩, n', ⟨_, hn⟩, r', ⟨_, hr⟩, f', hf,
    r2, h2, orc, ho, h⟩ := h
  obtain ⟨hd, hfee, _⟩ := checkedMulRatio_some hfee
  obtain ⟨id, t, hr21, _, hr22, _, _⟩ := ibcTransferSubMsg_ok h2
  cases h
  refine ⟨reward, fee, orc, r2.2, hc, hfee, hle, by simpa using hL, ?_, ?_, ?_, rfl, ⟨id, t, ?_⟩, ?_, ?_, ?_⟩
  · rw [hr21]; simp [hn, hafter]
  · rw [hr21]; simp [hr]
  · rw [hr21]
  · rw [hr22, hafter]
  · unfold updateOracleMsgs at ho
    split at ho
    · cases ho; simp
    · simp only [bind_ok, pure_ok] at ho
      obtain ⟨_, _, ho⟩ := ho; subst ho
      intro m hm; simp at hm; exact ⟨_, _, hm⟩
  · intro t ht
    refine ⟨by simp [treasuryMsgs, ht], ?_⟩
    rw [hr21]; simp only
    unfold accrueFee at hf; simp [ht] at hf; exact hf.symm
  · intro ht
    refine ⟨by simp [treasuryMsgs, ht], ?_⟩
    rw [hr21]; simp only
    unfold accrueFee at hf; simp [ht, add128_ok] at hf; exact hf.2

/-- rewards are refused while no LST exists, and when the fee exceeds the reward (rates beyond
100000, including rates whose product does not fit 128 bits) -/
theorem reward_refused_no_lst (s : CState) (env : Env) (info : Info) (hs : s.config.stopped = false)
    (hL : s.st.totalLst = 0) : receiveRewards s env info = .error .noLiquidStake := by
  simp [receiveRewards, checkStopped, hs, hL, ensure, bind, Except.bind]

theorem reward_refused_fee_exceeds (s : CState) (env : Env) (info : Info) (r : Out)
    (h : receiveRewards s env info = .ok r) (reward : Coin)
    (hc : findCoin info.funds s.config.proto.ibcDenom = some reward) :
    s.config.feeCfg.fee * reward.amount / 100000 ≤ reward.amount := by
  obtain ⟨s', out⟩ := r
  obtain ⟨rw', fee, _, _, hc', hfee, hle, _⟩ := reward_split s s' env info out h
  rw [hc] at hc'; cases hc'
  rw [← hfee]; exact hle

/-- FeeWithdraw: admin only, at most the accrued amount, only to the configured treasury, for
exactly the requested amount; the withdrawable balance decreases by exactly that amount and
nothing else in the accounting changes -/
theorem fee_withdraw (s s' : CState) (env : Env) (info : Info) (x : Nat) (out : List SubMsg)
    (h : feeWithdraw s env info x = .ok (s', out)) :
    s.admin = some info.sender ∧ x ≤ s.st.totalFees
      ∧ ∃ t, s.config.feeCfg.treasury = some t
        ∧ out = [plain (.msgSend env.contract t [⟨s.config.proto.ibcDenom, x⟩])]
        ∧ s' = { s with st := { s.st with totalFees := s.st.totalFees - x } } := by
  unfold feeWithdraw at h
  simp only [bind_ok, ensure_ok, loadSome_ok, pure_ok] at h
  obtain ⟨_, ha, _, hx, t, ht, h⟩ := h
  cases h
  exact ⟨assertAdmin_ok.mp ha, by simpa using hx, t, ht, rfl, rfl⟩

open MW.Chain in
/-- **the split, on the chain model's ledgers.**  A committed reward delivery through ibc-hooks (any
channel, native sender, coin, fault assignment; the hook account is not the contract): the coin is in
the staked-asset denom, `fee = floor(rate × reward / 100000) ≤ reward`, a pending packet carries
exactly `reward − fee` from the contract toward the staker, and the fee is paid to the treasury in the
same transaction when one is configured (the contract's own balance is then unchanged) and otherwise
stays in the contract — fee plus restaked amount is the reward exactly. -/
theorem C11_split_world (w : World) (channel ns : String) (coin : Coin) (f : Faults)
    (hc : (step w (.hook channel ns coin .receiveRewards f)).committed = true)
    (hself : ∀ acct, deriveIntermediateSender channel ns w.chainPrefix = some acct → acct ≠ w.self) :
    ∃ acct, deriveIntermediateSender channel ns w.chainPrefix = some acct
      ∧ coin.denom = w.c.config.proto.ibcDenom
      ∧ w.c.config.feeCfg.fee * coin.amount / 100000 ≤ coin.amount
      ∧ ChainPkt.mk w.nextSeq w.c.config.proto.channel w.self w.c.config.native.staker
          ⟨w.c.config.proto.ibcDenom, coin.amount - w.c.config.feeCfg.fee * coin.amount / 100000⟩ .pending
          ∈ (step w (.hook channel ns coin .receiveRewards f)).w.pkts
      ∧ (∀ t, w.c.config.feeCfg.treasury = some t → t ≠ w.self → t ≠ acct →
            (step w (.hook channel ns coin .receiveRewards f)).w.bal t w.c.config.proto.ibcDenom
              = w.bal t w.c.config.proto.ibcDenom + w.c.config.feeCfg.fee * coin.amount / 100000
            ∧ (step w (.hook channel ns coin .receiveRewards f)).w.bal w.self w.c.config.proto.ibcDenom
              = w.bal w.self w.c.config.proto.ibcDenom)
      ∧ (w.c.config.feeCfg.treasury = none →
            (step w (.hook channel ns coin .receiveRewards f)).w.bal w.self w.c.config.proto.ibcDenom
              = w.bal w.self w.c.config.proto.ibcDenom + w.c.config.feeCfg.fee * coin.amount / 100000) := by
  obtain ⟨acct, hacct, _, hcm, hw⟩ := hook_committed hc
  have hs := hself acct hacct
  obtain ⟨h1, h2, _, h4, h5, h6⟩ := rewards_tx_split (w := { w with bal := w.bal.add acct coin.denom coin.amount }) hs hcm
  simp only at h1 h2 h4 h5 h6
  have hts : ∀ t, t ≠ acct → (w.bal.add acct coin.denom coin.amount) t w.c.config.proto.ibcDenom = w.bal t w.c.config.proto.ibcDenom := by
    intro t ht; simp [Bal.add_apply, ht]
  refine ⟨acct, hacct, h1, h2, by rw [hw]; exact h4, ?_, ?_⟩
  · intro t htre h1' h2'
    obtain ⟨g1, g2, _⟩ := h5 t htre h1' h2'
    rw [hw]
    exact ⟨by rw [g1, hts t h2'], by rw [g2, hts w.self (fun e => hs e.symm)]⟩
  · intro htre
    rw [hw, (h6 htre).1, hts w.self (fun e => hs e.symm)]

open MW.Chain in
/-- **FeeWithdraw on the chain model's ledgers**: a committed FeeWithdraw was sent by the admin, for at
most the accrued amount, and moved exactly that amount from the contract's bank balance to the configured
treasury — to nobody else — lowering the fee counter by the same amount. -/
theorem C11_fee_withdraw_world {w : World} {sender : String} {amount : Nat} {f : Faults} {txi : Option Nat}
    (htre : w.c.config.feeCfg.treasury ≠ some w.self)
    (hc : (step w (.exec sender [] (.feeWithdraw amount) f txi)).committed = true) :
    ∃ t, w.c.config.feeCfg.treasury = some t ∧ w.c.admin = some sender ∧ amount ≤ w.c.st.totalFees
      ∧ (step w (.exec sender [] (.feeWithdraw amount) f txi)).w.c.st.totalFees = w.c.st.totalFees - amount
      ∧ (step w (.exec sender [] (.feeWithdraw amount) f txi)).w.bal t w.c.config.proto.ibcDenom
          = w.bal t w.c.config.proto.ibcDenom + amount
      ∧ amount ≤ w.bal w.self w.c.config.proto.ibcDenom
      ∧ (step w (.exec sender [] (.feeWithdraw amount) f txi)).w.bal w.self w.c.config.proto.ibcDenom
          = w.bal w.self w.c.config.proto.ibcDenom - amount
      ∧ (∀ a, a ≠ t → a ≠ w.self →
          (step w (.exec sender [] (.feeWithdraw amount) f txi)).w.bal a w.c.config.proto.ibcDenom
            = w.bal a w.c.config.proto.ibcDenom) :=
  fee_withdraw_tx_pays htre hc

/-- non-vacuity: a 10 % fee on 1001 is 100, the remainder 901 -/
example : checkedMulRatio 10000 1001 100000 = some 100 ∧ checkedSub 1001 100 = some 901 := ⟨rfl, rfl⟩
/-- a rate of 2^128-1 does not panic: the fee does not fit 128 bits and the reward is refused -/
example : checkedMulRatio (2 ^ 128 - 1) (10 ^ 27) 100000 = none := by decide

-- non-vacuity of `C11_split_world`: the last event of the demo history is a committed reward of 1000 at a
-- 10 % fee with no treasury: the contract's balance grows by 100 and a packet with 900 leaves for the staker
section Demo
open MW.Chain MW.Chain.Demo
#guard (demoBoot.map fun w =>
    let r0 := runW w {} (demoEvents.take (demoEvents.length - 1))
    let r1 := runW w {} demoEvents
    ((r1.1.bal demoSelf demoD : Int) - r0.1.bal demoSelf demoD,
     (r1.1.pkts.getLast?.map fun p => (p.receiver == demoStaker, p.coin.amount, p.state == .pending)))) == some (100, some (true, 900, true))
end Demo

/-- the statements of this file quantify over every message the staking contract accepts: the `ExecuteMsg` the source
declares (table regenerated from /repo's `msg.rs` on every run) has exactly the variants, fields and types of the
model's `ExecMsg`, and the contract exports exactly the modelled entry points.  A message or entry point added to the
source — which no generated history would exercise — breaks this theorem -/
theorem messages_are_the_modelled_ones :
    MW.Generated.Interface.staking_execute = MW.Interface.model_staking_execute
    ∧ (∀ m : MW.Staking.ExecMsg, MW.Interface.execTag m ∈ MW.Interface.names MW.Generated.Interface.staking_execute)
    ∧ MW.Generated.Interface.staking_entry_points = ["execute", "instantiate", "migrate", "query", "reply", "sudo"] :=
  ⟨MW.Interface.staking_execute_eq, MW.Interface.staking_execute_covered.2, MW.Interface.staking_entry_points_eq⟩

open MW.Chain in
/-- **the withdrawable fee balance, every history** (any interleaving of transactions by anybody, ibc-hooks deliveries,
acknowledgements, timeouts, stray callbacks, rolled-back transactions; no condition on the environment): the fee balance
the State query reports, plus everything FeeWithdraw has ever sent, equals everything that ever accrued — the protocol
fee `floor(rate × reward / 100000)` of each committed reward received while no treasury was configured, and the ownerless
stake swept by a stake when no LST existed.  Nothing else moves it: not ResumeContract, not UpdateConfig, not a reply or
a callback -/
theorem C11_fee_ledger {env : Env} {info : Info} {msg : InstantiateMsg} {c0 : CState} {out : List SubMsg}
    (hi : instantiate env info msg = .ok (c0, out)) (self pfx : String) (t hgt : Nat) (evs : List Event) :
    let r := runF (bootWorld c0 self pfx t hgt) {} evs
    r.1.c.st.totalFees + r.2.withdrawn = r.2.accrued :=
  world_history_finv hi self pfx t hgt evs

open MW.Chain in
/-- "FeeWithdraw can send at most the accrued amount": along every history the sum of all fee withdrawals never
exceeds the sum of everything accrued -/
theorem C11_withdrawn_le_accrued {env : Env} {info : Info} {msg : InstantiateMsg} {c0 : CState} {out : List SubMsg}
    (hi : instantiate env info msg = .ok (c0, out)) (self pfx : String) (t hgt : Nat) (evs : List Event) :
    (runF (bootWorld c0 self pfx t hgt) {} evs).2.withdrawn ≤ (runF (bootWorld c0 self pfx t hgt) {} evs).2.accrued := by
  have := C11_fee_ledger hi self pfx t hgt evs
  simp only at this
  omega

/-- the message-level statement behind it (every message, every sender) -/
theorem fee_balance_moves_only_by (s s' : CState) (env : Env) (info : Info) (m : ExecMsg) (out : List SubMsg)
    (h : execute s env info m = .ok (s', out)) :
    s'.st.totalFees + MW.Chain.feeOut m = s.st.totalFees + MW.Chain.feeIn s info m := MW.Chain.execute_fees h

/-! non-vacuity (tests on the demo history): the reward of 1000 at 10 % with no treasury accrues 100; after a treasury
is configured a FeeWithdraw of 60 commits: accrued 100, withdrawn 60, balance 40; a second withdrawal of 41 is refused -/
section Demo
open MW.Chain MW.Chain.Demo
def demoFees : List Event :=
  demoEvents ++
  [ .exec demoAdmin [] (.updateConfig none none (some { fee := 10000, treasury := some demoUser }) none none) {} (some 0),
    .exec demoAdmin [] (.feeWithdraw 60) {} (some 0),
    .exec demoAdmin [] (.feeWithdraw 41) {} (some 0) ]
#guard (demoBoot.map fun w => let r := runF w {} demoFees; (r.2.accrued, r.2.withdrawn, r.1.c.st.totalFees)) == some (100, 60, 40)
end Demo

end MW.Props.C11
