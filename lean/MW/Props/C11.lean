import MW.Staking.Facts
/-!
# C11 — Protocol fee accounting on rewards
-/
namespace MW.Props.C11
open MW MW.Staking

theorem checkedMulRatio_some {a n d c : Nat} (h : checkedMulRatio a n d = some c) :
    d ≠ 0 ∧ c = a * n / d ∧ c ≤ U128.max := by
  unfold checkedMulRatio at h
  split at h
  · cases h
  · split at h
    · cases h; exact ⟨by assumption, rfl, by assumption⟩
    · cases h

/-- a successful reward: fee = floor(rate·reward/100000), fee + restaked = reward, the staked
total grows by the restaked part, the reward counter by the full reward, exactly the restaked
part is forwarded to the staker, and the fee either leaves to the treasury in the same
transaction or accrues to the withdrawable balance -/
theorem reward_split (s s' : CState) (env : Env) (info : Info) (out : List SubMsg)
    (h : receiveRewards s env info = .ok (s', out)) :
    ∃ reward fee orc sub,
      findCoin info.funds s.config.proto.ibcDenom = some reward
      ∧ fee = s.config.feeCfg.fee * reward.amount / 100000 ∧ fee ≤ reward.amount
      ∧ s.st.totalLst ≠ 0
      ∧ s'.st.totalNative = s.st.totalNative + (reward.amount - fee)
      ∧ s'.st.totalReward = s.st.totalReward + reward.amount
      ∧ s'.st.totalLst = s.st.totalLst
      ∧ out = orc ++ [sub] ++ treasuryMsgs s.config fee
      ∧ (∃ id t, sub = { id := id, replyAlways := true, msg := (Msg.transfer s.config.proto.channel "transfer"
            env.contract s.config.native.staker ⟨s.config.proto.ibcDenom, reward.amount - fee⟩ t (memoFor env.contract)) })
      ∧ (∀ m ∈ orc, ∃ o p, m = plain (.wasmExec env.contract o p))
      ∧ (∀ t, s.config.feeCfg.treasury = some t →
            treasuryMsgs s.config fee = [plain (.bankSend t [⟨s.config.proto.ibcDenom, fee⟩])]
            ∧ s'.st.totalFees = s.st.totalFees)
      ∧ (s.config.feeCfg.treasury = none →
            treasuryMsgs s.config fee = [] ∧ s'.st.totalFees = s.st.totalFees + fee) := by
  unfold receiveRewards at h
  simp only [bind_ok, ensure_ok, loadSome_ok, pure_ok, add128_ok, checkedSub_some] at h
  obtain ⟨_, _, _, hL, _, _, reward, hc, fee, hfee, after, ⟨hle, hafter⟩, n', ⟨_, hn⟩, r', ⟨_, hr⟩, f', hf,
    r2, h2, orc, ho, h⟩ := h
  obtain ⟨hd, hfee, _⟩ := checkedMulRatio_some hfee
  obtain ⟨id, t, hr21, _, hr22, _, _⟩ := ibcTransferSubMsg_ok h2
  cases h
  refine ⟨reward, fee, orc, r2.2, hc, hfee, hle, by simpa using hL, ?_, ?_, ?_, rfl, ⟨id, t, ?_⟩, ?_, ?_, ?_⟩
  · rw [hr21]; simp [hn, hafter]
  · rw [hr21]; simp [hr]
  · rw [hr21]
  · rw [hr22, hafter]
  · unfold updateOracleMsgs at ho
    split at ho
    · cases ho; simp
    · simp only [bind_ok, pure_ok] at ho
      obtain ⟨_, _, ho⟩ := ho; subst ho
      intro m hm; simp at hm; exact ⟨_, _, hm⟩
  · intro t ht
    refine ⟨by simp [treasuryMsgs, ht], ?_⟩
    rw [hr21]; simp only
    unfold accrueFee at hf; simp [ht] at hf; exact hf.symm
  · intro ht
    refine ⟨by simp [treasuryMsgs, ht], ?_⟩
    rw [hr21]; simp only
    unfold accrueFee at hf; simp [ht, add128_ok] at hf; exact hf.2

/-- rewards are refused while no LST exists, and when the fee exceeds the reward (rates beyond
100000, including rates whose product does not fit 128 bits) -/
theorem reward_refused_no_lst (s : CState) (env : Env) (info : Info) (hs : s.config.stopped = false)
    (hL : s.st.totalLst = 0) : receiveRewards s env info = .error .noLiquidStake := by
  simp [receiveRewards, checkStopped, hs, hL, ensure, bind, Except.bind]

theorem reward_refused_fee_exceeds (s : CState) (env : Env) (info : Info) (r : Out)
    (h : receiveRewards s env info = .ok r) (reward : Coin)
    (hc : findCoin info.funds s.config.proto.ibcDenom = some reward) :
    s.config.feeCfg.fee * reward.amount / 100000 ≤ reward.amount := by
  obtain ⟨s', out⟩ := r
  obtain ⟨rw', fee, _, _, hc', hfee, hle, _⟩ := reward_split s s' env info out h
  rw [hc] at hc'; cases hc'
  rw [← hfee]; exact hle

/-- FeeWithdraw: admin only, at most the accrued amount, only to the configured treasury, for
exactly the requested amount; the withdrawable balance decreases by exactly that amount and
nothing else in the accounting changes -/
theorem fee_withdraw (s s' : CState) (env : Env) (info : Info) (x : Nat) (out : List SubMsg)
    (h : feeWithdraw s env info x = .ok (s', out)) :
    s.admin = some info.sender ∧ x ≤ s.st.totalFees
      ∧ ∃ t, s.config.feeCfg.treasury = some t
        ∧ out = [plain (.msgSend env.contract t [⟨s.config.proto.ibcDenom, x⟩])]
        ∧ s' = { s with st := { s.st with totalFees := s.st.totalFees - x } } := by
  unfold feeWithdraw at h
  simp only [bind_ok, ensure_ok, loadSome_ok, pure_ok] at h
  obtain ⟨_, ha, _, hx, t, ht, h⟩ := h
  cases h
  exact ⟨assertAdmin_ok.mp ha, by simpa using hx, t, ht, rfl, rfl⟩

/-- non-vacuity: a 10 % fee on 1001 is 100, the remainder 901 -/
example : checkedMulRatio 10000 1001 100000 = some 100 ∧ checkedSub 1001 100 = some 901 := ⟨rfl, rfl⟩
/-- a rate of 2^128-1 does not panic: the fee does not fit 128 bits and the reward is refused -/
example : checkedMulRatio (2 ^ 128 - 1) (10 ^ 27) 100000 = none := by decide

end MW.Props.C11
