import MW.Bytes.Bech32Lemmas
import MW.Staking.Effects
import MW.Staking.Interface
/-!
# C09 — Cross-chain sender authentication follows the ibc-hooks derivation

`hookAccount` is written from the ibc-hooks specification (osmosis x/ibc-hooks
`DeriveIntermediateSender` + cosmos-sdk `address.Hash`), not from the Rust.  SHA-256 is an opaque
function here: impersonation is *reduced* to a SHA-256 collision, which is the strongest formal
statement available (collision resistance is an assumption named in the trusted base).
-/
namespace MW.Props.C09
open MW MW.Staking

/-- the specification: bech32(prefix, SHA-256(SHA-256("ibc-wasm-hook-intermediary") ‖ "<channel>/<sender>")) -/
def hookAccount (channel sender pref : String) : Option String :=
  Bech32.encode pref (Bech32.toBase32
    (Sha256.hash (Sha256.hash (Sha256.bytesOf "ibc-wasm-hook-intermediary") ++ Sha256.bytesOf (channel ++ "/" ++ sender))))

/-- the contract's derivation is the specified one -/
theorem derive_is_spec (ch s p : String) : deriveIntermediateSender ch s p = hookAccount ch s p := rfl

/-- both Receive* handlers accept exactly the specified account of the configured channel and
native address (and only when the derivation succeeds) -/
theorem handlers_use_spec (s : CState) (env : Env) (info : Info) (r : Out) :
    (receiveRewards s env info = .ok r →
      hookAccount s.config.proto.channel s.config.native.rewardCollector s.config.proto.accountPrefix = some info.sender)
    ∧ (∀ b, receiveUnstaked s env info b = .ok r →
      hookAccount s.config.proto.channel s.config.native.staker s.config.proto.accountPrefix = some info.sender) := by
  obtain ⟨s', out⟩ := r
  constructor
  · intro h; obtain ⟨_, _, _, _, _, _, h3, _⟩ := receiveRewards_eff h; exact h3
  · intro b h; obtain ⟨_, _, _, _, _, h3, _⟩ := receiveUnstaked_eff h; exact h3

/-- a channel id accepted by validation contains no `/` -/
theorem valid_channel_no_slash (ch : String) (h : channelOk ch = true) : '/' ∉ ch.toList := by
  unfold channelOk at h
  simp only [Bool.and_eq_true, decide_eq_true_eq, List.all_eq_true] at h
  obtain ⟨⟨h1, h2⟩, _⟩ := h
  rw [← List.take_append_drop 8 ch.toList, h1]
  intro hm
  rcases List.mem_append.mp hm with hm | hm
  · revert hm; decide
  · have := h2 '/' hm; revert this; decide

/-- `<channel>/<sender>` is unambiguous when channels contain no `/` -/
theorem preimage_inj (c₁ c₂ s₁ s₂ : List Char) (h1 : '/' ∉ c₁) (h2 : '/' ∉ c₂)
    (h : c₁ ++ '/' :: s₁ = c₂ ++ '/' :: s₂) : c₁ = c₂ ∧ s₁ = s₂ := by
  induction c₁ generalizing c₂ with
  | nil =>
    cases c₂ with
    | nil => simp at h; exact ⟨rfl, h⟩
    | cons x r =>
      simp only [List.nil_append, List.cons_append, List.cons.injEq] at h
      exact absurd (h.1 ▸ (by simp : x ∈ x :: r)) h2
  | cons a r ih =>
    cases c₂ with
    | nil =>
      simp only [List.nil_append, List.cons_append, List.cons.injEq] at h
      exact absurd (h.1 ▸ (by simp : a ∈ a :: r)) h1
    | cons b r' =>
      simp only [List.cons_append, List.cons.injEq] at h
      obtain ⟨hab, hr⟩ := h
      obtain ⟨h3, h4⟩ := ih r' (fun hm => h1 (List.mem_cons_of_mem _ hm)) (fun hm => h2 (List.mem_cons_of_mem _ hm)) hr
      exact ⟨by rw [hab, h3], h4⟩

/-- a SHA-256 collision: two different inputs with the same digest -/
def Sha256Collision : Prop := ∃ x y : List UInt8, x ≠ y ∧ Sha256.hash x = Sha256.hash y

theorem sha_length (x : List UInt8) : (Sha256.hash x).length = 32 := Sha256.hash_length x

theorem utf8_inj (a b : String) (h : Sha256.bytesOf a = Sha256.bytesOf b) : a = b := Sha256.bytesOf_inj h

/-- no impersonation: if two (channel, sender) pairs whose channels passed validation derive the
same account under one prefix, they are the same pair — or a SHA-256 collision has been found -/
theorem C09_no_impersonation (c₁ c₂ s₁ s₂ p acct : String)
    (hc1 : channelOk c₁ = true) (hc2 : channelOk c₂ = true)
    (h1 : hookAccount c₁ s₁ p = some acct) (h2 : hookAccount c₂ s₂ p = some acct) :
    (c₁ = c₂ ∧ s₁ = s₂) ∨ Sha256Collision := by
  unfold hookAccount at h1 h2
  have hlen : ∀ x y : List UInt8, x.length = y.length → (Bech32.toBase32 x).length = (Bech32.toBase32 y).length := by
    intro x y hxy
    have hf : ∀ d : List UInt8, (d.flatMap Bech32.byteBits).length = 8 * d.length := by
      intro d; induction d with
      | nil => rfl
      | cons a r ih => simp [List.flatMap_cons, Bech32.byteBits_length, ih]; omega
    have hc : ∀ l : List Bool, (Bech32.chunk5 l).length = (l.length + 4) / 5 := by
      intro l
      fun_induction Bech32.chunk5 l with
      | case1 => rfl
      | case2 a b c d e rest ih => simp [ih]; omega
      | case3 l h1 h2 =>
        have : l.length < 5 ∧ 0 < l.length := by
          match l with
          | [] => exact absurd rfl h1
          | [_] => simp
          | [_, _] => simp
          | [_, _, _] => simp
          | [_, _, _, _] => simp
          | a :: b :: c :: d :: e :: rest => exact absurd rfl (h2 a b c d e rest)
        simp; omega
    unfold Bech32.toBase32
    simp only [List.length_map, hc, hf, hxy]
  have hdata := Bech32.encode_inj p _ _ acct
    (hlen _ _ (by rw [sha_length, sha_length]))
    (Bech32.toBase32_lt _) (Bech32.toBase32_lt _) h1 h2
  have hhash := Bech32.toBase32_inj _ _ (by rw [sha_length, sha_length]) hdata
  by_cases hpre : Sha256.bytesOf (c₁ ++ "/" ++ s₁) = Sha256.bytesOf (c₂ ++ "/" ++ s₂)
  · left
    have hs := utf8_inj _ _ hpre
    have := congrArg String.toList hs
    simp only [String.toList_append] at this
    have hsl : ("/" : String).toList = ['/'] := rfl
    rw [hsl, List.append_assoc, List.append_assoc] at this
    obtain ⟨ha, hb⟩ := preimage_inj _ _ _ _ (valid_channel_no_slash c₁ hc1) (valid_channel_no_slash c₂ hc2) this
    exact ⟨String.toList_inj.mp ha, String.toList_inj.mp hb⟩
  · right
    refine ⟨_, _, ?_, hhash⟩
    intro heq
    exact hpre (List.append_cancel_left heq)

-- regression vector, evaluated at build time (a test, cross-checked against the Rust function and an
-- independent Python implementation): the staker of the test fixtures on channel-123
#guard hookAccount "channel-123" "celestia1sfhy3emrgp26wnzuu64p06kpkxd9phel8ym0ge" "osmo"
    = some "osmo1wdptta2h8y2hwt8kufzzeyx7ut3la6fade5pkxrlxe60vym0450sy3x3df"

/-- non-vacuity of the hypotheses of `C09_no_impersonation` -/
example : channelOk "channel-123" = true ∧ channelOk "channel-7" = true := by decide

/-- the statements of this file quantify over every message the staking contract accepts: the `ExecuteMsg` the source
declares (table regenerated from /repo's `msg.rs` on every run) has exactly the variants, fields and types of the
model's `ExecMsg`, and the contract exports exactly the modelled entry points.  A message or entry point added to the
source — which no generated history would exercise — breaks this theorem -/
theorem messages_are_the_modelled_ones :
    MW.Generated.Interface.staking_execute = MW.Interface.model_staking_execute
    ∧ (∀ m : MW.Staking.ExecMsg, MW.Interface.execTag m ∈ MW.Interface.names MW.Generated.Interface.staking_execute)
    ∧ MW.Generated.Interface.staking_entry_points = ["execute", "instantiate", "migrate", "query", "reply", "sudo"] :=
  ⟨MW.Interface.staking_execute_eq, MW.Interface.staking_execute_covered.2, MW.Interface.staking_entry_points_eq⟩

end MW.Props.C09
