import MW.Inv.NoPanic
import MW.Treasury.Model
import MW.Staking.Interface
import MW.Inv.RecoverNoPanic
/-!
# C16 — Entry points never panic, overflow or divide by zero

`Err.panic site` makes every `unwrap` / `expect`, every unchecked `+` on `u64` / `usize` / `Uint128`,
every `multiply_ratio` / `from_ratio` overflow or zero denominator a first-class outcome of the
model (DESIGN.md Appendix A).  The theorems below show, handler by handler, that inside the
envelope of the property no such outcome is reachable — with one family spelled out: the panics
of the *rate computation* (`isRatePanic`), which fire exactly when the rate of the state being
reported is not representable (`getRates_err`); `getRates_ok_of_envelope` shows that this cannot
happen while the totals are inside the envelope ([10^-3, 10^3]), so the residual hypothesis is
"the state *after* the call is inside the envelope as well".
-/
namespace MW.Props.C16
open MW MW.Staking

def AMT : Nat := 10 ^ 27      -- a single amount
def TOT : Nat := 10 ^ 30      -- an accumulated total

/-- the envelope of the property, as far as a call on state `s` is concerned -/
structure Envelope (s : CState) (env : Env) (info : Info) : Prop where
  time : TimeOK env
  funds : ∀ c ∈ info.funds, c.amount ≤ AMT
  n : s.st.totalNative ≤ TOT
  l : s.st.totalLst ≤ TOT
  fees : s.st.totalFees ≤ TOT
  rewards : s.st.totalReward ≤ TOT
  rate : s.st.totalLst = 0 ∨ (s.st.totalNative ≤ 1000 * s.st.totalLst ∧ s.st.totalLst ≤ 1000 * s.st.totalNative)
  sender : s.config.proto.accountPrefix.utf8ByteSize ≤ info.sender.utf8ByteSize
  periods : s.config.batchPeriod ≤ MAX_PERIOD_SECONDS ∧ s.config.native.unbondingPeriod ≤ MAX_PERIOD_SECONDS
  ids : s.pendingId + 1 ≤ U64.max
  counts : ∀ k b, s.batches.find? k = some b → b.reqCount.getD 0 + 1 ≤ U64.max ∧ b.total ≤ TOT
  reqs : ∀ r ∈ s.reqs, r.amount ≤ TOT
  pkts : (∀ k p, s.inflight.find? k = some p → k + 1 ≤ U64.max) ∧ (∀ kp ∈ s.inflight, kp.2.coin.amount ≤ AMT)
         ∧ s.inflight.length ≤ 10 ^ 9

theorem u128_room : TOT + TOT + AMT ≤ U128.max ∧ 1000 * AMT ≤ TOT ∧ AMT ≤ TOT := by decide

/-- outcome classification used below: not a panic at all, or a rate panic -/
def Fine (e : Err) : Prop := e.isPanic = false ∨ isRatePanic e = true

theorem fine_of_np {e : Err} (h : e.isPanic = false) : Fine e := .inl h

/-- LiquidStake never panics inside the envelope -/
theorem stake_np (s : CState) (env : Env) (info : Info) (a : Nat) (mt : Option String) (tn : Option Bool)
    (ex : Option Nat) (e : Err) (he : Envelope s env info) (ha : a ≤ AMT)
    (h : liquidStake s env info a mt tn ex = .error e) : Fine e := by
  obtain ⟨r1, r2, r3⟩ := u128_room
  unfold liquidStake at h
  simp only [bind_err, bind_ok, ensure_err, ensure_ok] at h
  rcases h with h | ⟨_, _, h⟩
  · exact fine_of_np (by unfold checkStopped at h; simp only [ensure_err] at h; rw [h.2]; rfl)
  rcases h with h | ⟨_, _, h⟩
  · refine fine_of_np ?_
    unfold checkSenderShape at h
    split at h
    · cases h
    · simp only [bind_err, ensure_err] at h
      rcases h with h | ⟨_, _, h⟩
      · have := subUsize_err h; have := he.sender; omega
      · rw [h.2]; rfl
  rcases h with h | ⟨_, _, h⟩
  · exact fine_of_np (by rw [h.2]; rfl)
  rcases h with h | ⟨_, _, h⟩
  · exact fine_of_np (by rw [h.2]; rfl)
  rcases h with h | ⟨st, hst, h⟩
  · exfalso
    unfold sweep at h
    split at h
    · simp only [bind_err] at h
      rcases h with h | ⟨_, _, h⟩
      · have := add128_err h; have := he.fees; have := he.n; omega
      · cases h
    · cases h
  have hstN : st.totalNative ≤ TOT ∧ st.totalLst = s.st.totalLst ∧ (st.totalNative = 0 ∨ st.totalNative = s.st.totalNative) := by
    rcases sweep_eff hst with ⟨_, _, h3⟩ | ⟨_, h3⟩ <;> subst h3
    · exact ⟨by simp [TOT], rfl, .inl rfl⟩
    · exact ⟨he.n, rfl, .inr rfl⟩
  rcases h with h | ⟨m, hm, h⟩
  · exfalso
    unfold computeMint at h
    split at h
    · cases h
    · rename_i hN
      rcases mulRatio_err h with h0 | hov
      · exact hN h0
      · -- L·a/N ≤ 1000·a inside the envelope
        have hNeq : st.totalNative = s.st.totalNative := by
          rcases hstN.2.2 with h0 | h1
          · exact absurd h0 hN
          · exact h1
        rw [hstN.2.1, hNeq] at hov
        rw [hNeq] at hN
        rcases he.rate with hL | ⟨_, hL⟩
        · rw [hL] at hov; simp at hov
        · have : s.st.totalLst * a / s.st.totalNative ≤ 1000 * a := by
            apply Nat.div_le_of_le_mul
            calc s.st.totalLst * a ≤ (1000 * s.st.totalNative) * a := Nat.mul_le_mul_right _ hL
              _ = s.st.totalNative * (1000 * a) := by rw [Nat.mul_comm 1000, Nat.mul_assoc]
          omega
  have hm' : m ≤ TOT := by
    unfold computeMint at hm
    split at hm
    · cases hm; omega
    · rename_i hN
      simp only [mulRatio_ok] at hm
      obtain ⟨_, _, hm⟩ := hm
      have hNeq : st.totalNative = s.st.totalNative := by
        rcases hstN.2.2 with h0 | h1
        · exact absurd h0 hN
        · exact h1
      rw [hstN.2.1, hNeq] at hm
      rcases he.rate with hL | ⟨_, hL⟩
      · rw [hL] at hm; simp at hm; omega
      · have : s.st.totalLst * a / s.st.totalNative ≤ 1000 * a := by
          apply Nat.div_le_of_le_mul
          calc s.st.totalLst * a ≤ (1000 * s.st.totalNative) * a := Nat.mul_le_mul_right _ hL
            _ = s.st.totalNative * (1000 * a) := by rw [Nat.mul_comm 1000, Nat.mul_assoc]
        omega
  rcases h with h | ⟨_, _, h⟩
  · exact fine_of_np (by rw [h.2]; rfl)
  rcases h with h | ⟨_, _, h⟩
  · refine fine_of_np ?_
    unfold checkExpected at h
    split at h
    · simp only [ensure_err] at h; rw [h.2]; rfl
    · cases h
  rcases h with h | ⟨r1', hr1, h⟩
  · exact fine_of_np (ibcSub_err he.time h)
  rcases h with h | ⟨_, _, h⟩
  · exfalso; have := add128_err h; omega
  rcases h with h | ⟨_, _, h⟩
  · exfalso; have := add128_err h; have := he.l; omega
  rcases h with h | ⟨_, _, h⟩
  · exact .inr (oracle_err h)
  split at h
  · cases h
  · simp only [bind_err] at h
    rcases h with h | ⟨_, _, h⟩
    · exfalso
      have := add64_err h
      obtain ⟨id, _, _, hid, _, hd⟩ := ibcTransferSubMsg_eff hr1
      rw [hid] at this
      simp only [transferSub] at this
      have hdd := hd rfl
      unfold defaultSubId at hdd
      split at hdd
      · rename_i i hi
        simp only [add64_ok] at hdd
        have := he.time.txi i hi; omega
      · cases hdd; have := he.time.plain; omega
    rcases h with h | ⟨_, _, h⟩
    · exact fine_of_np (ibcSub_err he.time h)
    · cases h

/-- LiquidUnstake never panics in a reachable state inside the envelope -/
theorem unstake_np (s : CState) (env : Env) (info : Info) (a : Nat) (e : Err) (hi : CInv s)
    (he : Envelope s env info) (ha : a ≤ AMT) (h : liquidUnstake s env info a = .error e) : e.isPanic = false := by
  obtain ⟨r1, r2, r3⟩ := u128_room
  unfold liquidUnstake at h
  simp only [bind_err, bind_ok] at h
  rcases h with h | ⟨_, _, h⟩
  · unfold checkStopped at h; simp only [ensure_err] at h; rw [h.2]; rfl
  rcases h with h | ⟨_, _, h⟩
  · exfalso
    unfold upsertReq at h
    split at h
    · rename_i r hr
      simp only [bind_err] at h
      rcases h with h | ⟨_, _, h⟩
      · have := add128_err h; have := he.reqs r (findReq_some_mem hr).1; omega
      · cases h
    · cases h
  rcases h with h | ⟨b, hb, h⟩
  · exfalso
    obtain ⟨h1, _⟩ := loadSome_err h
    obtain ⟨p, hp⟩ := hi.pending_exists
    rw [hp] at h1; cases h1
  simp only [loadSome_ok] at hb
  rcases h with h | ⟨_, _, h⟩
  · exfalso; have := add128_err h; have := (he.counts _ b hb).2; omega
  rcases h with h | ⟨_, _, h⟩
  · exfalso
    unfold bumpCount at h
    split at h
    · simp only [bind_err] at h
      rcases h with h | ⟨_, _, h⟩
      · have := add64_err h; have := (he.counts _ b hb).1; omega
      · cases h
    · cases h
  · cases h

/-- SubmitBatch: no panic (other than a rate panic of the post-state) -/
theorem submit_np (s : CState) (env : Env) (info : Info) (e : Err) (hi : CInv s) (he : Envelope s env info)
    (h : submitBatch s env info = .error e) : Fine e := by
  unfold submitBatch at h
  simp only [bind_err, bind_ok, ensure_err, ensure_ok, loadSome_ok] at h
  rcases h with h | ⟨_, _, h⟩
  · exact fine_of_np (by unfold checkStopped at h; simp only [ensure_err] at h; rw [h.2]; rfl)
  rcases h with h | ⟨b, hb, h⟩
  · exact fine_of_np (by obtain ⟨_, h2⟩ := loadSome_err h; rw [h2]; rfl)
  rcases h with h | ⟨_, _, h⟩
  · exact fine_of_np (by rw [h.2]; rfl)
  rcases h with h | ⟨_, hany, h⟩
  · exact fine_of_np (by rw [h.2]; rfl)
  rcases h with h | ⟨_, hL, h⟩
  · exact fine_of_np (by rw [h.2]; rfl)
  have hid := hi.idKey _ b hb
  rcases h with h | ⟨_, _, h⟩
  · exfalso; have := add64_err h; rw [hid] at this; have := he.ids; omega
  rcases h with h | ⟨_, _, h⟩
  · exfalso; have := add64_err h; have := he.time.period; have := he.periods.1; omega
  rcases h with h | ⟨_, _, h⟩
  · exfalso
    have hpos : 0 < b.total := by
      have hst := (hi.pend b hb).1
      have := (hi.sums _ b hb).2 (by rw [hst]; simp)
      rw [← this]; exact any_batch_of_sum_pos hany (fun r hr => (hi.rpos r hr).1)
    simp only [decide_eq_true_eq] at hL
    unfold computeUnbond at h
    split at h
    · cases h
    · rcases mulRatio_err h with h0 | hov
      · omega
      · have : s.st.totalNative * b.total / s.st.totalLst ≤ s.st.totalNative := by
          apply Nat.div_le_of_le_mul
          rw [Nat.mul_comm s.st.totalLst]
          exact Nat.mul_le_mul_left _ hL
        have := he.n; have := u128_room.1; omega
  rcases h with h | ⟨_, _, h⟩
  · exfalso; have := add64_err h; have := he.time.period; have := he.periods.2; omega
  rcases h with h | ⟨_, _, h⟩
  · exact .inr (oracle_err h)
  · cases h

/-- Withdraw: no panic (other than a rate panic) in a reachable state inside the envelope -/
theorem withdraw_np (s : CState) (env : Env) (info : Info) (bid : Nat) (e : Err) (hi : CInv s)
    (hrecv : ∀ k b R, s.batches.find? k = some b → b.received = some R → R ≤ AMT)
    (h : withdraw s env info bid = .error e) : Fine e := by
  unfold withdraw at h
  simp only [bind_err, bind_ok, ensure_err, ensure_ok, loadSome_ok] at h
  rcases h with h | ⟨_, _, h⟩
  · exact fine_of_np (by unfold checkStopped at h; simp only [ensure_err] at h; rw [h.2]; rfl)
  rcases h with h | ⟨b, hb, h⟩
  · exact fine_of_np (by obtain ⟨_, h2⟩ := loadSome_err h; rw [h2]; rfl)
  rcases h with h | ⟨_, hst, h⟩
  · exact fine_of_np (by rw [h.2]; rfl)
  have hid := hi.idKey _ b hb
  have hst' : b.status = .received := by simpa using hst
  have hlt : bid < s.pendingId := by
    have hk := (hi.keys bid).mp (by rw [hb]; rfl)
    rcases Nat.lt_or_ge bid s.pendingId with h1 | h1
    · exact h1
    · have : bid = s.pendingId := by omega
      subst this
      have := (hi.pend b hb).1; rw [hst'] at this; cases this
  rcases h with h | ⟨R, hR, h⟩
  · exfalso
    obtain ⟨h1, _⟩ := loadSome_err h
    rcases hi.older bid b hb hlt with ⟨h2, _⟩ | ⟨_, _, h3, _⟩
    · rw [hst'] at h2; cases h2
    · rw [h1] at h3; cases h3
  rcases h with h | ⟨r, hr, h⟩
  · exact fine_of_np (by obtain ⟨_, h2⟩ := loadSome_err h; rw [h2]; rfl)
  rcases h with h | ⟨_, _, h⟩
  · exfalso
    have hT : 0 < b.total := by
      rcases hi.older bid b hb hlt with ⟨_, _, _, _, hp⟩ | ⟨_, _, _, _, hp⟩ <;> exact hp
    rw [hid] at hr
    have hle : r.amount ≤ b.total := by
      have := sumReqs_removeReq hi.rkeys hr bid
      simp only [↓reduceIte] at this
      have := (hi.sums bid b hb).1
      omega
    rcases mulRatio_err h with h0 | hov
    · omega
    · have : R * r.amount / b.total ≤ R := by
        apply Nat.div_le_of_le_mul
        rw [Nat.mul_comm b.total]
        exact Nat.mul_le_mul_left _ hle
      have := hrecv bid b R hb hR
      have := u128_room; simp only [AMT, TOT] at *; omega
  rcases h with h | ⟨_, _, h⟩
  · exact .inr (oracle_err h)
  · cases h

/-- ReceiveRewards: no panic (other than a rate panic) inside the envelope, for *every* fee rate -/
theorem rewards_np (s : CState) (env : Env) (info : Info) (e : Err) (he : Envelope s env info)
    (h : receiveRewards s env info = .error e) : Fine e := by
  obtain ⟨r1, r2, r3⟩ := u128_room
  unfold receiveRewards at h
  simp only [bind_err, bind_ok, ensure_err, ensure_ok, loadSome_ok, checkedSub_some] at h
  rcases h with h | ⟨_, _, h⟩
  · exact fine_of_np (by unfold checkStopped at h; simp only [ensure_err] at h; rw [h.2]; rfl)
  rcases h with h | ⟨_, _, h⟩
  · exact fine_of_np (by rw [h.2]; rfl)
  rcases h with h | ⟨_, _, h⟩
  · exact fine_of_np (by unfold checkHookSender at h; simp only [ensure_err] at h; rw [h.2]; rfl)
  rcases h with h | ⟨coin, hc, h⟩
  · exact fine_of_np (by obtain ⟨_, h2⟩ := loadSome_err h; rw [h2]; rfl)
  have hamt : coin.amount ≤ AMT := by
    unfold findCoin at hc
    exact he.funds coin (List.mem_of_find?_eq_some hc)
  rcases h with h | ⟨fee, _, h⟩
  · exact fine_of_np (by obtain ⟨_, h2⟩ := loadSome_err h; rw [h2]; rfl)
  rcases h with h | ⟨after, ⟨hle, hafter⟩, h⟩
  · exact fine_of_np (by obtain ⟨_, h2⟩ := loadSome_err h; rw [h2]; rfl)
  rcases h with h | ⟨_, _, h⟩
  · exfalso; have := add128_err h; have := he.n; omega
  rcases h with h | ⟨_, _, h⟩
  · exfalso; have := add128_err h; have := he.rewards; omega
  rcases h with h | ⟨_, _, h⟩
  · exfalso
    unfold accrueFee at h
    split at h
    · have := add128_err h; have := he.fees; omega
    · cases h
  rcases h with h | ⟨_, _, h⟩
  · exact fine_of_np (ibcSub_err he.time h)
  rcases h with h | ⟨_, _, h⟩
  · exact .inr (oracle_err h)
  · cases h

/-- handlers whose only failures are typed errors (plus the arithmetic of the time lock, inside
`TimeOK`): never a panic -/
theorem admin_handlers_np (s : CState) (env : Env) (info : Info) (e : Err) (ht : TimeOK env) :
    (∀ v, addValidator s info v = .error e → e.isPanic = false)
    ∧ (∀ v, removeValidator s info v = .error e → e.isPanic = false)
    ∧ (∀ n, transferOwnership s env info n = .error e → e.isPanic = false)
    ∧ (revokeOwnership s info = .error e → e.isPanic = false)
    ∧ (acceptOwnership s env info = .error e → e.isPanic = false)
    ∧ (circuitBreaker s info = .error e → e.isPanic = false)
    ∧ (∀ x, feeWithdraw s env info x = .error e → e.isPanic = false)
    ∧ (∀ b, receiveUnstaked s env info b = .error e → e.isPanic = false)
    ∧ (∀ n p f m b, updateConfig s info n p f m b = .error e → e.isPanic = false) := by
  have hadm : ∀ {e'}, assertAdmin s info.sender = .error e' → e'.isPanic = false := by
    intro e' h; unfold assertAdmin at h; simp only [ensure_err] at h; rw [h.2]; rfl
  refine ⟨?_, ?_, ?_, ?_, ?_, ?_, ?_, ?_, ?_⟩
  · intro v h
    unfold addValidator at h
    simp only [bind_err, ensure_err] at h
    rcases h with h | ⟨_, _, h | ⟨_, _, h | ⟨_, _, h⟩⟩⟩
    · exact hadm h
    · exact validateAddress_err h
    · rw [h.2]; rfl
    · cases h
  · intro v h
    unfold removeValidator at h
    simp only [bind_err, ensure_err] at h
    rcases h with h | ⟨_, _, h | ⟨_, _, h | ⟨_, _, h⟩⟩⟩
    · exact hadm h
    · exact validateAddress_err h
    · rw [h.2]; rfl
    · cases h
  · intro n h
    unfold transferOwnership at h
    simp only [bind_err] at h
    rcases h with h | ⟨_, _, h⟩
    · exact own_err.1 _ _ _ (fun e' he' => addrValidate_err he') ht.week h
    · cases h
  · intro h
    unfold revokeOwnership at h
    simp only [bind_err] at h
    rcases h with h | ⟨_, _, h⟩
    · exact own_err.2.1 _ h
    · cases h
  · intro h
    unfold acceptOwnership at h
    simp only [bind_err] at h
    rcases h with h | ⟨_, _, h⟩
    · exact own_err.2.2 _ _ h
    · cases h
  · intro h
    unfold circuitBreaker at h
    simp only [bind_err, ensure_err] at h
    rcases h with h | ⟨_, _, h⟩
    · rw [h.2]; rfl
    · cases h
  · intro x h
    unfold feeWithdraw at h
    simp only [bind_err, ensure_err] at h
    rcases h with h | ⟨_, _, h | ⟨_, _, h | ⟨_, _, h⟩⟩⟩
    · exact hadm h
    · rw [h.2]; rfl
    · obtain ⟨_, h2⟩ := loadSome_err h; rw [h2]; rfl
    · cases h
  · intro b h
    unfold receiveUnstaked at h
    simp only [bind_err, ensure_err] at h
    rcases h with h | ⟨_, _, h | ⟨_, _, h | ⟨_, _, h | ⟨_, _, h | ⟨_, _, h | ⟨_, _, h⟩⟩⟩⟩⟩⟩
    · unfold checkStopped at h; simp only [ensure_err] at h; rw [h.2]; rfl
    · unfold checkHookSender at h; simp only [ensure_err] at h; rw [h.2]; rfl
    · obtain ⟨_, h2⟩ := loadSome_err h; rw [h2]; rfl
    · obtain ⟨_, h2⟩ := loadSome_err h; rw [h2]; rfl
    · rw [h.2]; rfl
    · unfold unbondingDone at h
      split at h
      · cases h; rfl
      · simp only [ensure_err] at h; rw [h.2]; rfl
    · cases h
  · intro n p f m b h
    unfold updateConfig at h
    simp only [bind_err] at h
    have hov : ∀ {α β} (o : Option α) (g : α → R β) (d : β) e', (∀ a e'', g a = .error e'' → e''.isPanic = false) →
        optValidate o g d = .error e' → e'.isPanic = false := by
      intro α β o g d e' hg h'
      unfold optValidate at h'
      split at h'
      · exact hg _ _ h'
      · cases h'
    rcases h with h | ⟨_, _, h | ⟨_, _, h | ⟨_, _, h | ⟨_, _, h | ⟨_, _, h | ⟨_, _, h⟩⟩⟩⟩⟩⟩
    · exact hadm h
    · exact hov _ _ _ _ (fun a e'' he'' => native_validate_err he'') h
    · exact hov _ _ _ _ (fun a e'' he'' => proto_validate_err he'') h
    · exact hov _ _ _ _ (fun a e'' he'' => fee_validate_err he'') h
    · exact hov _ _ _ _ (fun a e'' he'' => validateAddresses_err he'') h
    · exact hov _ _ _ _ (fun a e'' he'' => validatePeriod_err he'') h
    · cases h

/-- `sudo` never fails at all and `reply` fails only with typed errors -/
theorem callbacks_np (s : CState) :
    (∀ m, ∃ r, sudo s m = .ok r) ∧ (∀ id res e, reply s id res = .error e → e.isPanic = false) := by
  refine ⟨sudo_total s, ?_⟩
  intro id res e h
  unfold reply at h
  (repeat' split at h) <;> cases h <;> rfl

/-- ResumeContract: only a rate panic of the *supplied* totals is possible -/
theorem resume_np (s : CState) (env : Env) (info : Info) (n l r : Nat) (e : Err)
    (h : resumeContract s env info n l r = .error e) : Fine e := by
  unfold resumeContract at h
  simp only [bind_err] at h
  rcases h with h | ⟨_, _, h | ⟨_, _, h⟩⟩
  · exact fine_of_np (by unfold assertAdmin at h; simp only [ensure_err] at h; rw [h.2]; rfl)
  · exact .inr (oracle_err h)
  · cases h

/-- instantiate: typed errors only (periods are bounded by validation, so `now + period` fits) -/
theorem instantiate_np (env : Env) (info : Info) (msg : InstantiateMsg) (e : Err) (ht : TimeOK env)
    (h : instantiate env info msg = .error e) : e.isPanic = false := by
  unfold instantiate at h
  simp only [bind_err, bind_ok] at h
  rcases h with h | ⟨_, _, h | ⟨_, _, h | ⟨_, _, h | ⟨_, _, h | ⟨_, _, h | ⟨bp, hbp, h | ⟨_, _, h⟩⟩⟩⟩⟩⟩⟩
  · exact native_validate_err h
  · exact proto_validate_err h
  · exact fee_validate_err h
  · exact validateDenom_err h
  · exact validateAddresses_err h
  · exact validatePeriod_err h
  · exfalso
    have := add64_err h
    have hb : bp ≤ MAX_PERIOD_SECONDS := by
      unfold validatePeriod at hbp
      split at hbp
      · cases hbp
      · cases hbp; omega
    have := ht.period; omega
  · cases h

/-- the State / batch queries: only rate panics, resp. none while deadlines are inside `TimeOK` -/
theorem queries_np (s : CState) :
    (∀ e, queryState s = .error e → isRatePanic e = true)
    ∧ (∀ b e, (b.nextAction.getD 0) * 1000000000 ≤ U64.max → batchToResponse b ≠ .error e) := by
  constructor
  · intro e h
    unfold queryState at h
    simp only [bind_err] at h
    rcases h with h | ⟨_, _, h⟩
    · exact getRates_err h
    · cases h
  · intro b e hb h
    unfold batchToResponse at h
    simp only [bind_err] at h
    rcases h with h | ⟨_, _, h⟩
    · have := mul64_err h; omega
    · cases h

open MW.Treasury in
/-- the treasury: every handler fails only with typed errors (the route indexing `[0]` / `.last()`
is guarded by the allow-list test, the IBC timeout addition by `TimeOK`) -/
theorem treasury_np (s : TState) (env : Env) (info : Info) (m : TExec) (e : Err) (ht : TimeOK env)
    (h : MW.Treasury.execute s env info m = .error e) : e.isPanic = false := by
  cases m <;> simp only [MW.Treasury.execute] at h
  case transferOwnership n =>
    simp only [bind_err] at h
    rcases h with h | ⟨_, _, h⟩
    · exact own_err.1 _ _ _ (fun e' he' => addrValidate_err he') ht.week h
    · cases h
  case acceptOwnership =>
    simp only [bind_err] at h
    rcases h with h | ⟨_, _, h⟩
    · exact own_err.2.2 _ _ h
    · cases h
  case revokeOwnershipTransfer =>
    simp only [bind_err] at h
    rcases h with h | ⟨_, _, h⟩
    · exact own_err.2.1 _ h
    · cases h
  case spendFunds a r c =>
    unfold spendFunds at h
    simp only [bind_err, ensure_err] at h
    rcases h with h | ⟨_, _, h⟩
    · rw [h.2]; rfl
    · split at h <;> simp only [bind_err] at h
      · rcases h with h | ⟨_, _, h⟩
        · exact validateAddress_err h
        · cases h
      · rcases h with h | ⟨_, _, h | ⟨_, _, h⟩⟩
        · exact validateAddress_err h
        · exfalso; have := add64_err h; have := ht.timeout
          simp only [MW.Treasury.IBC_TIMEOUT_NS, MW.Staking.IBC_TIMEOUT_NS] at *; omega
        · cases h
  case swapIn r t mo =>
    unfold swapIn at h
    simp only [bind_err, bind_ok, ensure_err, ensure_ok] at h
    rcases h with h | ⟨_, _, h | ⟨_, hr, h | ⟨_, _, h | ⟨_, _, h⟩⟩⟩⟩
    · rw [h.2]; rfl
    · rw [h.2]; rfl
    · exfalso
      unfold firstIn at h
      split at h
      · cases h
      · unfold routeAllowed at hr; simp at hr
    · rw [h.2]; rfl
    · cases h
  case swapOut r t mo =>
    unfold swapOut at h
    simp only [bind_err, bind_ok, ensure_err, ensure_ok] at h
    rcases h with h | ⟨_, _, h | ⟨_, hr, h | ⟨_, _, h | ⟨_, _, h⟩⟩⟩⟩
    · rw [h.2]; rfl
    · rw [h.2]; rfl
    · exfalso
      unfold lastOut at h
      split at h
      · cases h
      · rename_i hn
        unfold routeAllowed at hr
        simp only [Bool.and_eq_true, Bool.not_eq_true', List.isEmpty_eq_false_iff] at hr
        exact hr.1 (List.getLast?_eq_none_iff.mp hn)
    · rw [h.2]; rfl
    · cases h
  case updateConfig t r =>
    unfold MW.Treasury.updateConfig at h
    simp only [bind_err, ensure_err] at h
    rcases h with h | ⟨_, _, h | ⟨_, _, h⟩⟩
    · rw [h.2]; rfl
    · unfold optTrader at h
      split at h
      · exact addrValidate_err h
      · cases h
    · cases h

/-- the panic sites that are *unwraps* of stored data (pending batch, received amount, packet table,
zero batch total) are dead in every reachable state, whatever the amounts — shown inside
`unstake_np` (A12), `withdraw_np` (A19, A20:div0), `submit_np` (A16:div0); the treasury's
`expect("admin not present")` (A45) is dead because its admin is set at instantiation and only
ever replaced by `Some` -/
theorem treasury_admin_always_set (env : Env) (info : Info) (msg : MW.Treasury.TInstantiate) (s : MW.Treasury.TState)
    (out : List SubMsg) (h : MW.Treasury.instantiate env info msg = .ok (s, out)) : s.own.admin.isSome := by
  unfold MW.Treasury.instantiate at h
  simp only [bind_ok, pure_ok] at h
  obtain ⟨_, _, _, _, h⟩ := h
  cases h; rfl

/-- non-vacuity: the envelope admits, e.g., a 10^27 stake at a 2:1 rate with 10^30 totals -/
example : (10 : Nat) ^ 30 ≤ 1000 * (5 * 10 ^ 29) ∧ 5 * 10 ^ 29 ≤ 1000 * 10 ^ 30 ∧ TOT + AMT ≤ U128.max := by decide

/-- RecoverPendingIbcTransfers (paginated or not, receiver-directed, admin-forced with any id list) never panics inside
the envelope: the `unwrap` on the largest key, the unchecked `+=` over the selected amounts and `max key + 1` are safe -/
theorem recover_np (s : CState) (env : Env) (info : Info) (sel : Option (List Nat)) (rc : Option String) (page : Bool)
    (e : Err) (hi : CInv s) (he : Envelope s env info) (h : recover s env info sel rc page = .error e) :
    e.isPanic = false :=
  MW.Staking.recover_np s env info sel rc page e hi he.time AMT (10 ^ 9) he.pkts.1 he.pkts.2.1 he.pkts.2.2 (by decide) h

/-- **every message, one statement**: in every state satisfying the structural invariant (every reachable state does,
`cinv_reach`) and inside the envelope of the property, `execute` — whatever the message, the sender and the funds —
returns a result or a typed error; the only panics left are the rate panics of states whose rate has left the
`Decimal` range (classified by `Fine`, outside the envelope's rate bound after the call) -/
theorem execute_never_panics (s : CState) (env : Env) (info : Info) (m : ExecMsg) (e : Err) (hi : CInv s)
    (he : Envelope s env info)
    (hrecv : ∀ k b R, s.batches.find? k = some b → b.received = some R → R ≤ AMT)
    (h : execute s env info m = .error e) : Fine e := by
  have hadm := admin_handlers_np s env info e he.time
  cases m <;> simp only [execute] at h
  case liquidStake mt tn ex =>
    simp only [bind_err] at h
    rcases h with h | ⟨pay, hp, h⟩
    · exact fine_of_np (mustPay_err_not_panic h)
    · have hf := (mustPay_ok hp).1
      have := he.funds ⟨s.config.proto.ibcDenom, pay⟩ (by rw [hf]; simp)
      exact stake_np s env info pay mt tn ex e he this h
  case liquidUnstake =>
    simp only [bind_err] at h
    rcases h with h | ⟨pay, hp, h⟩
    · exact fine_of_np (mustPay_err_not_panic h)
    · have hf := (mustPay_ok hp).1
      have := he.funds ⟨s.config.lstDenom, pay⟩ (by rw [hf]; simp)
      exact fine_of_np (unstake_np s env info pay e hi he this h)
  case submitBatch => exact submit_np s env info e hi he h
  case withdraw b => exact withdraw_np s env info b e hi hrecv h
  case addValidator v => exact fine_of_np (hadm.1 v h)
  case removeValidator v => exact fine_of_np (hadm.2.1 v h)
  case transferOwnership n => exact fine_of_np (hadm.2.2.1 n h)
  case acceptOwnership => exact fine_of_np (hadm.2.2.2.2.1 h)
  case revokeOwnershipTransfer => exact fine_of_np (hadm.2.2.2.1 h)
  case updateConfig n p f mo bp => exact fine_of_np (hadm.2.2.2.2.2.2.2.2 n p f mo bp h)
  case receiveRewards => exact rewards_np s env info e he h
  case receiveUnstakedTokens b => exact fine_of_np (hadm.2.2.2.2.2.2.2.1 b h)
  case circuitBreaker => exact fine_of_np (hadm.2.2.2.2.2.1 h)
  case resumeContract n l r => exact resume_np s env info n l r e h
  case recover pg sel rc => exact fine_of_np (recover_np s env info sel rc (pg.getD false) e hi he h)
  case feeWithdraw a => exact fine_of_np (hadm.2.2.2.2.2.2.1 a h)

/-- **"each entry point of both contracts", "every message"**: the entry points and every message enum / struct of
both contracts as the source declares them (tables regenerated from /repo on every run) are exactly the ones the
panic-freedom theorems above are stated for -/
theorem entry_points_and_messages_are_the_modelled_ones :
    MW.Generated.Interface.staking_entry_points = MW.Interface.model_staking_entry_points
    ∧ MW.Generated.Interface.treasury_entry_points = MW.Interface.model_treasury_entry_points
    ∧ MW.Generated.Interface.staking_execute = MW.Interface.model_staking_execute
    ∧ MW.Generated.Interface.staking_query = MW.Interface.model_staking_query
    ∧ (MW.Generated.Interface.staking_sudo = MW.Interface.model_staking_sudo
        ∧ MW.Generated.Interface.staking_lifecycle = MW.Interface.model_staking_lifecycle)
    ∧ MW.Generated.Interface.staking_migrate = MW.Interface.model_staking_migrate
    ∧ MW.Generated.Interface.staking_instantiate = MW.Interface.model_staking_instantiate
    ∧ MW.Generated.Interface.treasury_execute = MW.Interface.model_treasury_execute
    ∧ MW.Generated.Interface.treasury_query = MW.Interface.model_treasury_query :=
  ⟨MW.Interface.staking_entry_points_eq, MW.Interface.treasury_entry_points_eq, MW.Interface.staking_execute_eq,
   MW.Interface.staking_query_eq, MW.Interface.staking_sudo_eq, MW.Interface.staking_migrate_eq,
   MW.Interface.staking_instantiate_eq.1, MW.Interface.treasury_execute_eq, MW.Interface.treasury_rest_eq.1⟩

/-- the state the entry points read and write: storage keys, stored layouts and serde attributes of both contracts as
the source declares them are exactly the modelled ones (a new storage item, a new field or a changed serde attribute —
`default`, `alias`, `deny_unknown_fields` — changes what inputs reach the handlers) -/
theorem state_and_serde_are_the_modelled_ones :
    MW.Generated.Interface.staking_storage_keys = MW.Interface.model_staking_storage_keys
    ∧ MW.Generated.Interface.treasury_storage_keys = MW.Interface.model_treasury_storage_keys
    ∧ (MW.Generated.Interface.staking_attrs = MW.Interface.model_staking_attrs
        ∧ MW.Generated.Interface.treasury_attrs = MW.Interface.model_treasury_attrs)
    ∧ MW.Generated.Interface.staking_stored_State = MW.Interface.model_staking_stored_State
    ∧ MW.Generated.Interface.treasury_stored_State = MW.Interface.model_treasury_stored_State :=
  ⟨MW.Interface.staking_storage_eq, MW.Interface.treasury_storage_eq, MW.Interface.serde_attrs_eq,
   MW.Interface.staking_layout_eq.2.2.2.2.1, MW.Interface.treasury_layout_eq.1⟩

end MW.Props.C16
