import MW.Staking.Facts
import MW.Chain.World
import MW.Staking.Interface
/-!
# C08 — Authorization matrix of the staking contract

Every statement has the form "the call succeeded ⇒ the caller is the required principal",
for every state, environment, funds and argument.  The matrix "message variant × principal ×
reachable state" is the universal quantifier of these theorems.
-/
namespace MW.Props.C08
open MW MW.Staking MW.Chain

/-- messages only the current admin may execute -/
def adminOnly : ExecMsg → Bool
  | .addValidator _ | .removeValidator _ | .updateConfig .. | .transferOwnership _
  | .revokeOwnershipTransfer | .resumeContract .. | .feeWithdraw _ => true
  | .recover _ (some _) _ => true
  | _ => false

theorem admin_only (s : CState) (env : Env) (info : Info) (m : ExecMsg) (r : Out)
    (hm : adminOnly m = true) (h : execute s env info m = .ok r) : s.admin = some info.sender := by
  cases m <;> simp [adminOnly] at hm <;> simp only [execute] at h
  case addValidator v =>
    unfold addValidator at h; simp only [bind_ok] at h
    obtain ⟨_, ha, _⟩ := h; exact assertAdmin_ok.mp ha
  case removeValidator v =>
    unfold removeValidator at h; simp only [bind_ok] at h
    obtain ⟨_, ha, _⟩ := h; exact assertAdmin_ok.mp ha
  case transferOwnership o =>
    unfold transferOwnership Own.nominate at h; simp only [bind_ok, ensure_ok] at h
    obtain ⟨_, ⟨_, ha, _⟩, _⟩ := h; simpa [Own.isAdmin, ownOf] using ha
  case revokeOwnershipTransfer =>
    unfold revokeOwnership Own.revoke at h; simp only [bind_ok, ensure_ok] at h
    obtain ⟨_, ⟨_, ha, _⟩, _⟩ := h; simpa [Own.isAdmin, ownOf] using ha
  case updateConfig n p f mo b =>
    unfold updateConfig at h; simp only [bind_ok] at h
    obtain ⟨_, ha, _⟩ := h; exact assertAdmin_ok.mp ha
  case resumeContract n l rw =>
    unfold resumeContract at h; simp only [bind_ok] at h
    obtain ⟨_, ha, _⟩ := h; exact assertAdmin_ok.mp ha
  case feeWithdraw a =>
    unfold feeWithdraw at h; simp only [bind_ok] at h
    obtain ⟨_, ha, _⟩ := h; exact assertAdmin_ok.mp ha
  case recover pg sel rc =>
    cases sel with
    | none => simp at hm
    | some ids =>
      unfold recover at h; simp only [bind_ok, ensure_ok] at h
      obtain ⟨_, ha, _⟩ := h
      simp at ha; exact assertAdmin_isOk.mp ha

/-- CircuitBreaker: only the admin or a configured monitor -/
theorem breaker_auth (s : CState) (env : Env) (info : Info) (r : Out)
    (h : execute s env info .circuitBreaker = .ok r) :
    s.admin = some info.sender ∨ info.sender ∈ s.config.monitors := by
  simp only [execute] at h
  unfold circuitBreaker at h
  simp only [bind_ok, ensure_ok, Bool.or_eq_true] at h
  obtain ⟨_, hg, _⟩ := h
  rcases hg with hg | hg
  · exact .inl (assertAdmin_isOk.mp hg)
  · exact .inr (by simpa using hg)

/-- AcceptOwnership: only the nominated account -/
theorem accept_auth (s : CState) (env : Env) (info : Info) (r : Out)
    (h : execute s env info .acceptOwnership = .ok r) : s.st.pendingOwner = some info.sender := by
  simp only [execute] at h
  unfold acceptOwnership Own.accept at h
  simp only [bind_ok, ensure_ok] at h
  obtain ⟨_, ⟨_, _, _, hp, _⟩, _⟩ := h
  simpa [ownOf] using hp

/-- ReceiveRewards: only the ibc-hooks account of the configured reward collector -/
theorem rewards_auth (s : CState) (env : Env) (info : Info) (r : Out)
    (h : execute s env info .receiveRewards = .ok r) :
    deriveIntermediateSender s.config.proto.channel s.config.native.rewardCollector
      s.config.proto.accountPrefix = some info.sender := by
  simp only [execute] at h
  unfold receiveRewards at h
  simp only [bind_ok, ensure_ok, checkHookSender] at h
  obtain ⟨_, _, _, _, _, hs, _⟩ := h
  simpa using hs

/-- ReceiveUnstakedTokens: only the ibc-hooks account of the configured staker -/
theorem unstaked_auth (s : CState) (env : Env) (info : Info) (b : Nat) (r : Out)
    (h : execute s env info (.receiveUnstakedTokens b) = .ok r) :
    deriveIntermediateSender s.config.proto.channel s.config.native.staker
      s.config.proto.accountPrefix = some info.sender := by
  simp only [execute] at h
  unfold receiveUnstaked at h
  simp only [bind_ok, ensure_ok, checkHookSender] at h
  obtain ⟨_, _, _, hs, _⟩ := h
  simpa using hs

/-- Withdraw pays only the caller, from the caller's own request, and deletes exactly it -/
theorem withdraw_own (s : CState) (env : Env) (info : Info) (b : Nat) (s' : CState) (out : List SubMsg)
    (h : execute s env info (.withdraw b) = .ok (s', out)) :
    ∃ batch req amt orc, s.batches.find? b = some batch ∧ findReq s.reqs batch.id info.sender = some req
      ∧ out = plain (.msgSend env.contract info.sender [⟨s.config.proto.ibcDenom, amt⟩]) :: orc
      ∧ (∀ m ∈ orc, ∃ o p, m = plain (.wasmExec env.contract o p))
      ∧ s'.reqs = removeReq s.reqs batch.id info.sender := by
  simp only [execute] at h
  unfold withdraw at h
  simp only [bind_ok, ensure_ok, loadSome_ok, pure_ok] at h
  obtain ⟨_, _, batch, hb, _, _, recv, _, req, hr, amt, _, orc, ho, h⟩ := h
  cases h
  refine ⟨batch, req, amt, orc, hb, hr, rfl, ?_, rfl⟩
  unfold updateOracleMsgs at ho
  split at ho
  · cases ho; simp
  · simp only [bind_ok, pure_ok] at ho
    obtain ⟨_, _, ho⟩ := ho
    subst ho
    intro m hm; simp at hm; exact ⟨_, _, hm⟩

/-- after the handover the former admin has no admin rights: any admin-only message from an
account other than the new admin fails -/
theorem former_admin_powerless (s s' : CState) (env env' : Env) (q old : String) (f f' : List Coin)
    (out : List SubMsg) (m : ExecMsg) (hacc : execute s env ⟨q, f⟩ .acceptOwnership = .ok (s', out))
    (hne : old ≠ q) (hm : adminOnly m = true) :
    ∃ e, execute s' env' ⟨old, f'⟩ m = .error e := by
  have hadm : s'.admin = some q := by
    simp only [execute] at hacc
    unfold acceptOwnership Own.accept at hacc
    simp only [bind_ok, ensure_ok, pure_ok] at hacc
    obtain ⟨_, ⟨_, _, _, _, ho⟩, h⟩ := hacc
    cases h; subst ho; rfl
  cases hx : execute s' env' ⟨old, f'⟩ m with
  | error e => exact ⟨e, rfl⟩
  | ok r =>
    have := admin_only s' env' ⟨old, f'⟩ m r hm hx
    rw [hadm] at this
    simp at this
    exact absurd this.symm hne

/-- any other caller gets an error *and nothing changes*: a transaction whose handler (or any of
the messages it returned) fails leaves the whole world — contract store and ledgers — as it was -/
theorem failed_tx_changes_nothing (w : World) (sender : String) (funds : List Coin) (m : ExecMsg)
    (f : Faults) (txi : Option Nat) (h : (runExec w sender funds m f txi).committed = false) :
    (runExec w sender funds m f txi).w = w := by
  unfold runExec at *
  split <;> simp_all

/-- who may execute a message, as a predicate on the contract state: the authorization matrix -/
def authorized (s : CState) (sender : String) : ExecMsg → Prop
  | .circuitBreaker => s.admin = some sender ∨ sender ∈ s.config.monitors
  | .acceptOwnership => s.st.pendingOwner = some sender
  | .receiveRewards =>
    deriveIntermediateSender s.config.proto.channel s.config.native.rewardCollector s.config.proto.accountPrefix = some sender
  | .receiveUnstakedTokens _ =>
    deriveIntermediateSender s.config.proto.channel s.config.native.staker s.config.proto.accountPrefix = some sender
  | m => adminOnly m = true → s.admin = some sender

/-- the matrix in one statement: a successful call was authorized -/
theorem success_was_authorized (s : CState) (env : Env) (info : Info) (m : ExecMsg) (r : Out)
    (h : execute s env info m = .ok r) : authorized s info.sender m := by
  cases m
  case circuitBreaker => exact breaker_auth s env info r h
  case acceptOwnership => exact accept_auth s env info r h
  case receiveRewards => exact rewards_auth s env info r h
  case receiveUnstakedTokens b => exact unstaked_auth s env info b r h
  all_goals exact fun hm => admin_only s env info _ r hm h

/-- **any other caller gets an error and nothing changes — on the chain model.**  A transaction
carrying a message its sender is not authorized for does not commit, and the whole world (contract
store, all balances including the funds attached, LST supply, packets) is exactly as before, whatever
the funds, faults and transaction index. -/
theorem unauthorized_tx_without_effect (w : World) (sender : String) (funds : List Coin) (m : ExecMsg)
    (f : Faults) (txi : Option Nat) (hna : ¬ authorized w.c sender m) :
    (step w (.exec sender funds m f txi)).w = w ∧ (step w (.exec sender funds m f txi)).committed = false := by
  simp only [step, runExec, runExecCore]
  split
  · rename_i w' calls heq
    exfalso
    split at heq
    · cases heq
    · rename_i bal1 _
      cases hx : execute ({ w with bal := bal1 } : World).c (({ w with bal := bal1 } : World).env txi) { sender, funds } m with
      | error e => simp only [hx] at heq; cases heq
      | ok r => exact hna (success_was_authorized _ _ _ _ r hx)
  · exact ⟨rfl, rfl⟩

/-- non-vacuity: the admin can execute an admin-only message -/
example : adminOnly (.feeWithdraw 0) = true := rfl

/-- **the matrix is about every message there is**: the `ExecuteMsg` the source declares (table regenerated from
/repo's `msg.rs` on every run) has exactly the variants, fields and types this model was written against, and the
model's `ExecMsg` — over which `authorized`, `success_was_authorized` and `unauthorized_tx_without_effect` quantify —
has exactly one constructor per variant.  A message added to the source (which no generated history would send) breaks
this theorem -/
theorem matrix_covers_source_interface :
    MW.Generated.Interface.staking_execute = MW.Interface.model_staking_execute
    ∧ MW.Interface.names MW.Generated.Interface.staking_execute = MW.Interface.execSamples.map MW.Interface.execTag
    ∧ (∀ m : ExecMsg, MW.Interface.execTag m ∈ MW.Interface.names MW.Generated.Interface.staking_execute)
    ∧ MW.Generated.Interface.staking_entry_points = ["execute", "instantiate", "migrate", "query", "reply", "sudo"] :=
  ⟨MW.Interface.staking_execute_eq, MW.Interface.staking_execute_covered.1, MW.Interface.staking_execute_covered.2,
   MW.Interface.staking_entry_points_eq⟩

end MW.Props.C08
