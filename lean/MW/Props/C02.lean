import MW.Inv.GReach
import MW.Props.C05
import MW.Inv.WorldInv
import MW.Inv.Demo
import MW.Inv.WorldPayable
import MW.Inv.WorldFees
import MW.Staking.Interface
/-!
# C02 — Contract-held staked asset always equals what it owes (solvency)

Proved here, for every reachable state of every history: the contract's *obligations* are
well-defined and bounded — for each Received batch the payouts made so far plus the payouts still
owed to open requests never exceed what was received (`claims_covered`), every operation that
pays out pays exactly its own claim and removes it (`withdraw_pays_own_claim`, `fee_withdraw`,
`recover` in C07), and no handler pays from another party's claim.

The ledger equation itself (balance + swept + paid = received + fees + refundable + donations) is
about the chain's bank: `C02_solvency` proves it on the chain model's bank ledger for every history
that satisfies the honest-environment conditions (DESIGN.md §12); the same equation is evaluated on
the simulator's ledgers and the real contract's answers on every run (monitor `N2_solvency`).
-/
namespace MW.Props.C02
open MW MW.Staking

/-- staked asset still owed to the open requests of batch `k` if it received `R` for total `T` -/
def owedOpen (reqs : List Req) (k R T : Nat) : Nat :=
  (((reqs.filter (fun r => r.batch = k)).map (·.amount)).map (fun a => R * a / T)).sum

/-- for every Received batch, in every reachable state: paid so far + still owed ≤ received -/
theorem claims_covered (x : GC) (h : GReach x) (k : Nat) (b : Batch) (R : Nat)
    (hb : x.s.batches.find? k = some b) (hR : b.received = some R) :
    x.g.paid k + owedOpen x.s.reqs k R b.total ≤ R := by
  have hi := allinv_reach h
  have htot := hi.p.total k b hb
  have hpaid := hi.p.paidLe k b R hb hR
  have hT : 0 < b.total := by
    have hk := (hi.c.keys k).mp (by rw [hb]; rfl)
    rcases Nat.lt_or_ge k x.s.pendingId with hlt | hge
    · rcases hi.c.older k b hb hlt with ⟨_, _, _, _, hp⟩ | ⟨_, _, _, _, hp⟩ <;> exact hp
    · have : k = x.s.pendingId := by omega
      subst this
      have := (hi.c.pend b hb).2.2.2
      rw [hR] at this; cases this
  have hopen := C05.sum_floor_le R b.total ((x.s.reqs.filter (fun r => r.batch = k)).map (·.amount))
  unfold owedOpen
  have hs : ((x.s.reqs.filter (fun r => r.batch = k)).map (·.amount)).sum = sumReqs x.s.reqs k := rfl
  rw [hs] at hopen
  -- (owed + paid)·T ≤ R·open + R·wd = R·T
  have h1 : (((x.s.reqs.filter (fun r => r.batch = k)).map (·.amount)).map (fun a => R * a / b.total)).sum * b.total
      ≤ R * sumReqs x.s.reqs k := by
    calc _ ≤ (R * sumReqs x.s.reqs k / b.total) * b.total := Nat.mul_le_mul_right _ hopen
      _ ≤ R * sumReqs x.s.reqs k := Nat.div_mul_le_self _ _
  have h2 : (x.g.paid k + (((x.s.reqs.filter (fun r => r.batch = k)).map (·.amount)).map (fun a => R * a / b.total)).sum) * b.total
      ≤ R * b.total := by
    have e2 : R * b.total = R * sumReqs x.s.reqs k + R * x.g.wd k := by rw [← htot, Nat.mul_add]
    rw [Nat.add_mul, e2]
    omega
  exact Nat.le_of_mul_le_mul_right h2 hT

/-- hence the payouts of a batch never add up to more than was received for it -/
theorem payouts_bounded (x : GC) (h : GReach x) (k : Nat) (b : Batch) (R : Nat)
    (hb : x.s.batches.find? k = some b) (hR : b.received = some R) : x.g.paid k ≤ R := by
  have := claims_covered x h k b R hb hR; omega

/-- a Withdraw pays exactly the caller's own claim (the pro-rata share of the caller's request) and
deletes exactly that claim; every other claim, the fee balance and the totals are untouched -/
theorem withdraw_pays_own_claim (s s' : CState) (env : Env) (info : Info) (b : Nat) (out : List SubMsg)
    (h : withdraw s env info b = .ok (s', out)) :
    ∃ batch recv req, s.batches.find? b = some batch ∧ batch.received = some recv
      ∧ findReq s.reqs batch.id info.sender = some req
      ∧ sendSum s.config.proto.ibcDenom out = recv * req.amount / batch.total
      ∧ s'.st = s.st ∧ s'.batches = s.batches ∧ s'.inflight = s.inflight
      ∧ s'.reqs = removeReq s.reqs batch.id info.sender := by
  obtain ⟨batch, recv, req, orc, _, hb, _, hrecv, hr, _, horc, hs', hout⟩ := withdraw_eff h
  obtain ⟨_, _, _, ho4⟩ := sums_oracle env s.config.proto.ibcDenom orc horc
  subst hs' hout
  refine ⟨batch, recv, req, hb, hrecv, hr, ?_, rfl, rfl, rfl, rfl⟩
  rw [sendSum_append, ho4, sendSum_single]; rfl

/-- FeeWithdraw pays at most the accrued fees, only to the treasury, and reduces the fee balance
by exactly what it pays -/
theorem fee_withdraw_pays_fees (s s' : CState) (env : Env) (info : Info) (x : Nat) (out : List SubMsg)
    (h : feeWithdraw s env info x = .ok (s', out)) :
    x ≤ s.st.totalFees ∧ s'.st.totalFees = s.st.totalFees - x
      ∧ sendSum s.config.proto.ibcDenom out = x ∧ s'.batches = s.batches ∧ s'.reqs = s.reqs := by
  unfold feeWithdraw at h
  simp only [bind_ok, ensure_ok, loadSome_ok, pure_ok] at h
  obtain ⟨_, _, _, hx, t, _, h⟩ := h
  cases h
  exact ⟨by simpa using hx, rfl, sendSum_single _ _ _ _, rfl, rfl⟩

/-- the solvency equation, as evaluated by the monitor on the chain ledgers (statement only) -/
def N2 (balance swept fees refundable donated : Nat) (owed : Nat) : Prop :=
  balance + swept = owed + fees + refundable + donated

/-- a withdrawal touches neither the fee counter nor the packet table -/
theorem withdraw_touches_only_requests (s s' : CState) (env : Env) (info : Info) (b : Nat) (out : List SubMsg)
    (h : withdraw s env info b = .ok (s', out)) :
    s'.st.totalFees = s.st.totalFees ∧ s'.inflight = s.inflight := by
  obtain ⟨_, _, _, _, _, _, _, h1, _, h3, _⟩ := withdraw_pays_own_claim s s' env info b out h
  exact ⟨by rw [h1], h3⟩

open MW.Chain in
/-- **N2 (solvency), every history.**  Along every history of the chain model that satisfies the
honest-environment conditions, the contract's own balance of the staked asset on the bank ledger,
plus the native total that was swept into the fee counter without tokens, plus everything paid out
by withdrawals, equals: what came back for Received batches + the accrued fees + the refunded
outbound transfers awaiting re-send + what was given to the contract outside the protocol.
Together with `claims_covered` (paid so far + still owed ≤ received, per batch) the contract always
holds what its open requests, the treasury and the refundable packets are owed -/
theorem C02_solvency {env : Env} {info : Info} {msg : InstantiateMsg} {c0 : CState} {out : List SubMsg}
    (hi : instantiate env info msg = .ok (c0, out)) (self pfx : String) (t hgt : Nat) (evs : List Event)
    (hok : AllOK (bootWorld c0 self pfx t hgt) evs) :
    let r := runW (bootWorld c0 self pfx t hgt) {} evs
    (r.1.bal r.1.self r.1.c.config.proto.ibcDenom : Int) + r.2.swept + r.2.paid = owedD r.1.c + r.2.donD :=
  (world_history_winv hi self pfx t hgt evs hok).n2

open MW.Chain in
/-- **"therefore every entitled Withdraw, FeeWithdraw and recovery re-send is paid in full".**  Along
every history of the chain model that satisfies the honest-environment conditions, the contract's bank
balance of the staked asset (plus the swept term, which is zero unless the operator resumed with an LST
total of zero over a non-zero staked total) covers *at the same time*: what every open request of every
Received batch is entitled to (`floor(received × own / total)` each), the retained fees, the refunded
transfers awaiting re-send and what was donated.  So paying any of them never uses tokens that back
another party's claim. -/
theorem C02_covers {env : Env} {info : Info} {msg : InstantiateMsg} {c0 : CState} {out : List SubMsg}
    (hi : instantiate env info msg = .ok (c0, out)) (self pfx : String) (t hgt : Nat) (evs : List Event)
    (hok : AllOK (bootWorld c0 self pfx t hgt) evs) :
    let r := runW (bootWorld c0 self pfx t hgt) {} evs
    (owedOpenAll r.1.c : Int) + r.1.c.st.totalFees + refundableSum r.1.c r.1.c.config.proto.ibcDenom + r.2.donD
      ≤ r.1.bal r.1.self r.1.c.config.proto.ibcDenom + r.2.swept := by
  intro r
  have hn2 := (world_history_winv hi self pfx t hgt evs hok).n2
  have hcr : CReach (bootWorld c0 self pfx t hgt).c := ⟨env, info, msg, c0, out, [], hi, rfl⟩
  have hj := runW_jinv evs hcr (jinv_boot hi self pfx t hgt)
  unfold JInv at hj
  simp only [owedD] at hn2
  have e1 : r = runW (bootWorld c0 self pfx t hgt) {} evs := rfl
  rw [← e1] at hn2 hj
  push_cast at hn2
  omega

open MW.Chain in
/-- in particular, in every reachable contract state the claim of any single open request of a Received
batch is one of the claims `C02_covers` covers -/
theorem entitled_claim_within_cover (c : CState) (hr : CReach c) (k : Nat) (u : String) (b : Batch) (recv : Nat) (r : Req)
    (hb : c.batches.find? k = some b) (hst : b.status = .received) (hrecv : b.received = some recv)
    (hreq : findReq c.reqs k u = some r) : recv * r.amount / b.total ≤ owedOpenAll c :=
  claim_le_owedOpenAll (cinv_reach hr) hb hst hrecv hreq

/-! non-vacuity of `C02_solvency`: the demo history ends with balance 100, owed 580 (480 received,
100 fees), 480 paid out -/
section Demo
open MW.Chain MW.Chain.Demo
#guard (demoBoot.map fun w => allOKb w demoEvents) == some true
#guard (demoBoot.map fun w => let r := runW w {} demoEvents; ((summary r.1 r.2).drop 7).take 3) == some [100, 580, 480]
-- non-vacuity of `C02_covers`: just before the withdrawal of the demo history the open request is owed 480
-- and the contract holds exactly 480 (no fees, nothing refundable, nothing swept)
#guard (demoBoot.map fun w => let r := runW w {} (demoEvents1 ++ demoEvents2.take 4)
          (owedOpenAll r.1.c, r.1.c.st.totalFees, refundableSum r.1.c demoD, r.1.bal demoSelf demoD, r.2.swept,
           allOKb w (demoEvents1 ++ demoEvents2.take 4))) == some (480, 0, 0, 480, 0, true)
end Demo

/-- non-vacuity: received 1000 for total 300 with open requests 100 and 200: owed 333 + 666 ≤ 1000 -/
example : owedOpen [⟨1, "a", 100⟩, ⟨1, "b", 200⟩, ⟨2, "a", 5⟩] 1 1000 300 = 999 := by decide

/-- "a staked total without any LST outstanding" -/
def Ownerless (st : St) : Prop := st.totalLst = 0 ∧ st.totalNative ≠ 0

/-- **ownerless stake is only ever declared by the admin.**  The stake handler sweeps a staked total that has no LST
behind it into `total_fees` — tokens the contract does not hold (they were forwarded to the staker).  No message other
than `ResumeContract` produces such a state: stakes mint, `SubmitBatch` of the whole supply sets aside the whole total
(`N·L/L = N`), rewards are refused while no LST is outstanding, everything else leaves the totals alone.  (The monitor
`ownerless_sweep` evaluates the same statement along histories of the real contract.) -/
theorem ownerless_only_by_resume {s s' : CState} {env : Env} {info : Info} {m : ExecMsg} {out : List SubMsg}
    (hx : execute s env info m = .ok (s', out)) (h0 : ¬ Ownerless s.st)
    (hm : ∀ n l r, m ≠ .resumeContract n l r) : ¬ Ownerless s'.st := by
  unfold Ownerless at *
  cases m <;> simp only [execute] at hx
  case liquidStake mt tn ex =>
    simp only [bind_ok] at hx
    obtain ⟨pay, _, hx⟩ := hx
    obtain ⟨st, mint, _, _, _, _, _, hm0, _, _, _, hcase⟩ := liquidStake_eff hx
    rcases hcase with ⟨_, hs', _⟩ | ⟨_, _, hs', _⟩ <;> subst hs' <;> simp only <;> omega
  case liquidUnstake =>
    simp only [bind_ok] at hx
    obtain ⟨a, _, hx⟩ := hx
    obtain ⟨_, _, b, _, hs'⟩ := liquidUnstake_eff hx
    subst hs'; exact h0
  case submitBatch =>
    obtain ⟨batch, u, _, _, _, _, _, hb, hu, _, hs', _⟩ := submitBatch_eff hx
    subst hs'
    simp only
    intro ⟨hL', hN'⟩
    apply hN'
    have hbL : batch.total = s.st.totalLst := by
      by_cases hle : batch.total ≤ s.st.totalLst
      · rw [checkedSub_some.mpr ⟨hle, rfl⟩] at hL'
        simp only [Option.getD_some] at hL'; omega
      · exact absurd hb hle
    unfold computeUnbond at hu
    split at hu
    · rename_i hz
      -- an empty batch: nothing outstanding before either, so nothing was staked
      have hL0 : s.st.totalLst = 0 := by omega
      have hN0 : s.st.totalNative = 0 := by
        by_cases hn : s.st.totalNative = 0
        · exact hn
        · exact absurd ⟨hL0, hn⟩ h0
      simp only [Except.ok.injEq] at hu
      rw [hN0, ← hu]; simp [checkedSub]
    · simp only [mulRatio_ok] at hu
      obtain ⟨hne, _, hu⟩ := hu
      have : u = s.st.totalNative := by
        rw [hu, hbL]; exact Nat.mul_div_cancel _ (Nat.pos_of_ne_zero hne)
      rw [this, checkedSub_some.mpr ⟨Nat.le_refl _, rfl⟩]; simp
  case withdraw b =>
    obtain ⟨_, _, _, _, _, _, _, _, _, _, _, hs', _⟩ := withdraw_eff hx
    subst hs'; exact h0
  case addValidator v => obtain ⟨_, _, _, _, hs'⟩ := addValidator_eff hx; subst hs'; exact h0
  case removeValidator v => obtain ⟨_, _, _, hs'⟩ := removeValidator_eff hx; subst hs'; exact h0
  case transferOwnership n => obtain ⟨_, o, _, hs'⟩ := transferOwnership_eff hx; subst hs'; exact h0
  case acceptOwnership => obtain ⟨_, o, _, hs'⟩ := acceptOwnership_eff hx; subst hs'; exact h0
  case revokeOwnershipTransfer => obtain ⟨_, o, _, hs'⟩ := revokeOwnership_eff hx; subst hs'; exact h0
  case updateConfig n p f mo bp =>
    obtain ⟨_, _, nat', proto', fee', mons', bp', _, _, _, _, _, hs'⟩ := updateConfig_eff hx
    subst hs'; exact h0
  case receiveRewards =>
    obtain ⟨reward, fee, _, _, _, hL, _, hc, hfee, _, _, _, hs', _⟩ := receiveRewards_eff hx
    subst hs'
    simp only
    intro ⟨hL', _⟩; exact hL hL'
  case receiveUnstakedTokens b =>
    obtain ⟨_, _, _, _, _, _, _, _, _, _, _, hs'⟩ := receiveUnstaked_eff hx; subst hs'; exact h0
  case circuitBreaker =>
    unfold circuitBreaker at hx
    simp only [bind_ok, pure_ok] at hx
    obtain ⟨_, _, hx⟩ := hx; cases hx; exact h0
  case resumeContract n l r => exact absurd rfl (hm n l r)
  case recover pg sel rc =>
    obtain ⟨_, _, _, _, _, _, _, _, _, _, _, _, _, _, hs', _⟩ := recover_eff hx
    subst hs'; exact h0
  case feeWithdraw a =>
    unfold feeWithdraw at hx
    simp only [bind_ok, pure_ok, ensure_ok, decide_eq_true_eq] at hx
    obtain ⟨_, _, _, hle, _, _, hx⟩ := hx; cases hx; exact h0

open MW.Chain in
/-- one transaction of the chain model, committed or rolled back, with whatever faults -/
theorem runExec_ownerless (w : World) (sender : String) (funds : List Coin) (msg : ExecMsg) (f : Faults) (txi : Option Nat)
    (h0 : ¬ Ownerless w.c.st) (hm : ∀ n l r, msg ≠ .resumeContract n l r) :
    ¬ Ownerless (runExec w sender funds msg f txi).w.c.st := by
  unfold runExec
  cases hcore : runExecCore w sender funds msg f txi with
  | mk o calls =>
    cases o with
    | none => exact h0
    | some w' =>
      simp only
      obtain ⟨bal1, c', msgs, d, _, hx, hd, hw'⟩ := runExecCore_some hcore
      subst hw'
      have hc := dispatchAll_st f { w := { w with bal := bal1, c := c' },
                                    calls := [Call.execute { sender, funds } msg (.ok msgs)] } msgs
      rw [hd] at hc
      rw [hc]
      exact ownerless_only_by_resume hx h0 hm

open MW.Chain in
/-- the event is not an admin override of the totals -/
def notResumeEv : Event → Prop
  | .exec _ _ msg _ _ => ∀ n l r, msg ≠ .resumeContract n l r
  | .hook _ _ _ msg _ => ∀ n l r, msg ≠ .resumeContract n l r
  | _ => True

open MW.Chain in
theorem step_ownerless (w : World) (e : Event) (h0 : ¬ Ownerless w.c.st) (hn : notResumeEv e) :
    ¬ Ownerless (step w e).w.c.st := by
  by_cases hx : ∃ s fu m f t, e = .exec s fu m f t
  · obtain ⟨sender, funds, msg, f, txi, rfl⟩ := hx
    simp only [step]
    exact runExec_ownerless w sender funds msg f txi h0 hn
  by_cases hk : ∃ c n co m f, e = .hook c n co m f
  · obtain ⟨channel, ns, coin, msg, f, rfl⟩ := hk
    simp only [step]
    split
    · exact h0
    · rename_i acct hacct
      split
      · exact h0
      · have h1 := runExec_ownerless { w with bal := w.bal.add acct coin.denom coin.amount } acct [coin] msg f (some 0) h0 hn
        split
        · exact h1
        · exact h0
  · have he : ∀ s fu m f t, e ≠ .exec s fu m f t := fun s fu m f t h => hx ⟨s, fu, m, f, t, h⟩
    have hh : ∀ c n co m f, e ≠ .hook c n co m f := fun c n co m f h => hk ⟨c, n, co, m, f, h⟩
    rw [step_st_other w e he hh]; exact h0

open MW.Chain in
def runEvs (w : World) : List Event → World
  | [] => w
  | e :: es => runEvs (step w e).w es

open MW.Chain in
/-- **every history**: as long as the admin does not override the totals, no interleaving of users, operator, relayers
and faults ever leaves a staked total without LST behind it — so the sweep of the stake handler never fires, and
`total_fees` never comes to include tokens the contract does not hold -/
theorem C02_never_ownerless (w : World) (evs : List Event) (h0 : ¬ Ownerless w.c.st) (hn : ∀ e ∈ evs, notResumeEv e) :
    ¬ Ownerless (runEvs w evs).c.st := by
  induction evs generalizing w with
  | nil => exact h0
  | cons e es ih =>
    simp only [runEvs]
    exact ih (step w e).w (step_ownerless w e h0 (hn e (by simp))) (fun e' he' => hn e' (by simp [he']))

section DemoOwnerless
open MW.Chain MW.Chain.Demo
/-! non-vacuity of `C02_never_ownerless`: after the demo's opening ResumeContract (0, 0, 0) nothing is staked and no LST
exists (not ownerless); none of the remaining events is a ResumeContract; at the end 3400 are staked behind 2500 LST -/
#guard (demoBoot.map fun w =>
  let w1 := runEvs w (demoEvents.take 1)
  let rest := demoEvents.drop 1
  let w2 := runEvs w1 rest
  (w1.c.st.totalLst, w1.c.st.totalNative,
   rest.all (fun e => match e with
     | .exec _ _ (.resumeContract ..) _ _ => false
     | .hook _ _ _ (.resumeContract ..) _ => false
     | _ => true),
   w2.c.st.totalLst, w2.c.st.totalNative)) == some (0, 0, true, 2500, 3400)
/-! the exception is real: the admin's ResumeContract (5, 0, 0) does leave 5 staked without LST behind them -/
#guard (demoBoot.map fun w =>
  let w1 := runEvs w [.exec demoAdmin [] (.resumeContract 5 0 0) {} (some 0)]
  (w1.c.st.totalLst, w1.c.st.totalNative)) == some (0, 5)
end DemoOwnerless

/-- the statements of this file quantify over every message the staking contract accepts: the `ExecuteMsg` the source
declares (table regenerated from /repo's `msg.rs` on every run) has exactly the variants, fields and types of the
model's `ExecMsg`, and the contract exports exactly the modelled entry points.  A message or entry point added to the
source — which no generated history would exercise — breaks this theorem -/
theorem messages_are_the_modelled_ones :
    MW.Generated.Interface.staking_execute = MW.Interface.model_staking_execute
    ∧ (∀ m : MW.Staking.ExecMsg, MW.Interface.execTag m ∈ MW.Interface.names MW.Generated.Interface.staking_execute)
    ∧ MW.Generated.Interface.staking_entry_points = ["execute", "instantiate", "migrate", "query", "reply", "sudo"] :=
  ⟨MW.Interface.staking_execute_eq, MW.Interface.staking_execute_covered.2, MW.Interface.staking_entry_points_eq⟩

end MW.Props.C02
