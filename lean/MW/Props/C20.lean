import MW.Proto.Schema
import MW.Proto.Nested
/-!
# C20 — Protobuf bindings are wire-compatible and type URLs are canonical

Generic theorems (all message shapes, all sizes) live in `MW.Proto.Codec` / `MW.Proto.Schema`.
The quantifier "every message type defined in the package" is a finite table regenerated from
the sources on every run (`MW.Generated.Tables`); the facts about it below are decided by kernel
evaluation over the whole table (`decide +kernel`) — a proof, re-checked whenever the sources
change, not a sample.
-/
namespace MW.Props.C20
open MW.Proto MW.Generated

/-- generic: varints of every size round-trip -/
theorem varint_roundtrip' (n : Nat) (rest : Bytes) : decodeVarint (varint n ++ rest) = some (n, rest) :=
  varint_roundtrip n rest

/-- generic: every well-formed wire field list round-trips -/
theorem wire_roundtrip' (fs : List WField) (hf : ∀ f ∈ fs, WFField f) :
    decodeFields (encodeFields fs) = some fs := wire_roundtrip fs hf

/-- generic, one message level: values using declared fields round-trip through any descriptor
(sub-messages as opaque payloads) -/
theorem msg_roundtrip_one_level (m : MD) (fs : List WField) (hw : ∀ f ∈ fs, WFField f)
    (hc : ∀ f ∈ fs, conformsField m f = true) : decodeTyped m (encodeTyped m fs) = some fs :=
  msg_roundtrip_partial m fs hw hc

/-- generic, **every nesting depth**: a value tree typed by a descriptor — nested messages typed by the
descriptors their fields refer to, to any depth and width — is returned unchanged by
encode-then-decode, against any descriptor environment (in particular the table regenerated from
packages/initia-proto) -/
theorem msg_roundtrip (env : Nat → Option MD) (m : MD) (fs : TFields) (hw : fs.WF) (hc : fs.Conforms env m) :
    decodeNested env fs.size m (encodeNested fs) = some fs := typed_roundtrip env m fs hw hc

/-- non-vacuity: with the first descriptors of the repository's table (message 2 holds a repeated
message field referring to message 5, which has two string fields) a two-level value conforms -/
example :
    let m5 : MD := ⟨5, [⟨1, 1, 0, false, 0, 0⟩, ⟨2, 1, 0, false, 0, 0⟩]⟩
    let m2 : MD := ⟨2, [⟨1, 9, 2, false, 5, 0⟩]⟩
    let env : Nat → Option MD := fun r => if r = 5 then some m5 else none
    let v : TFields := .cons 1 (.msg (.cons 2 (.scalar (.lenDelim [97, 98])) .nil)) .nil
    v.WF ∧ v.Conforms env m2 := by
  intro m5 m2 env v
  refine ⟨?_, ?_⟩
  · simp [v, TFields.WF, TVal.WF, WFVal]
  · refine ⟨⟨⟨1, 9, 2, false, 5, 0⟩, by decide, ?_⟩, trivial⟩
    refine ⟨by decide, m5, by simp [env], ?_⟩
    exact ⟨⟨⟨2, 1, 0, false, 0, 0⟩, by decide, by simp [TVal.Conforms, isMsg]⟩, trivial⟩

theorem any_roundtrip' (url : String) (m : MD) (fs : List WField) (hw : ∀ f ∈ fs, WFField f)
    (hc : ∀ f ∈ fs, conformsField m f = true) : fromAny url m (toAny url m fs) = some fs :=
  any_roundtrip url m fs hw hc

theorem any_rejects_other_url' (url other : String) (m : MD) (v : Bytes) (h : other ≠ url) :
    fromAny url m { typeUrl := other, value := v } = none := any_rejects_other_url url other m v h

/-- every message descriptor extracted from packages/initia-proto is well formed: unique ascending
tags in range, valid kinds and labels, packed only on repeated scalars -/
theorem repo_env_wellformed : wfTable schema = true := by decide +kernel

/-- every message of the pinned baseline is still present with all its fields (tag, kind, label,
packedness, referenced type) unchanged -/
theorem repo_matches_baseline : matchesBaseline schema baseline = true := by decide +kernel

/-- for every message also present in the independently generated bindings (osmosis-std,
prost-types), all common tags have the same wire shape -/
theorem repo_matches_reference : matchesReference schema refSchema = true := by decide +kernel

/-- the Rust module tree of lib.rs mirrors the protobuf packages: every `include!` sits in the
module whose path is the package of the included file -/
theorem module_tree_mirrors_packages : tree.all (fun p => p.1 == p.2) = true := by decide +kernel

/-- every registered type URL is "/" ++ fully-qualified protobuf name of its message -/
theorem type_urls_canonical :
    typeUrls.all (fun e => e.1 == "/" ++ e.2.1 ++ "." ++ e.2.2) = true := by decide +kernel

/-- no field of the bindings carries a prost attribute outside the wire model the theorems above are about (such as
`default = ".."`, which gives a proto3 field proto2 default semantics: the value named is then encoded as absent and
an absent field decoded as that value) -/
theorem no_unmodelled_attributes : unmodelledAttrs.isEmpty = true := by decide +kernel

/-- the tables are not empty (non-vacuity of the table theorems) -/
theorem tables_nonempty : 1000 < schema.length ∧ 500 < refSchema.length ∧ 100 < tree.length
    ∧ 20 < typeUrls.length := by decide +kernel

end MW.Props.C20
