import MW.Staking.Facts
import MW.Treasury.Model
import MW.Inv.WorldOwn
import MW.Inv.Demo
import MW.Staking.Interface
/-!
# C12 — Two-step, seven-day time-locked admin handover (both contracts)

The protocol is proved on the shared machine `MW.Own` for *every* history of nominate / revoke /
accept attempts by any principals at any times (`Hist`), and both contracts are shown to run
exactly this machine on their own stores (`staking_*`, `treasury_*`): ownership messages are
machine steps, every other message leaves the three values untouched.
-/
namespace MW.Props.C12
open MW MW.Own

/-! ## single steps -/

theorem nominate_ok (o o' : Own) (now : Nat) (sender : String) (v : R String)
    (h : o.nominate now sender v = .ok o') :
    o.admin = some sender ∧ ∃ n, v = .ok n ∧ o'.admin = o.admin ∧ o'.pending = some n
      ∧ o'.minTime = some ((now + 604800) * 1000000000) := by
  unfold nominate at h
  simp only [bind_ok, ensure_ok, pure_ok, add64_ok, mul64_ok] at h
  obtain ⟨_, ha, n, hv, t, ⟨_, ht⟩, tn, ⟨_, htn⟩, h⟩ := h
  subst h
  refine ⟨by simpa [isAdmin] using ha, n, hv, rfl, rfl, ?_⟩
  simp [htn, ht, SEVEN_DAYS]

theorem revoke_ok (o o' : Own) (sender : String) (h : o.revoke sender = .ok o') :
    o.admin = some sender ∧ o' = { o with pending := none, minTime := none } := by
  unfold revoke at h
  simp only [bind_ok, ensure_ok, pure_ok] at h
  obtain ⟨_, ha, h⟩ := h
  exact ⟨by simpa [isAdmin] using ha, h.symm⟩

/-- acceptance: exactly the nominee, not before the time lock, consumes the nomination and
makes the nominee the admin -/
theorem accept_sound (o o' : Own) (now : Nat) (q : String) (h : o.accept now q = .ok o') :
    o.pending = some q ∧ ripe o.minTime now = true
      ∧ o' = { o with pending := none, admin := some q } := by
  unfold accept at h
  simp only [bind_ok, ensure_ok, pure_ok] at h
  obtain ⟨_, hr, _, hp, h⟩ := h
  exact ⟨by simpa using hp, hr, h.symm⟩

/-- a second acceptance fails: the nomination was consumed -/
theorem accept_consumes (o o' : Own) (now now' : Nat) (q q' : String) (h : o.accept now q = .ok o') :
    ∃ e, o'.accept now' q' = .error e := by
  obtain ⟨_, _, h'⟩ := accept_sound o o' now q h
  subst h'
  cases hx : ({ o with pending := none, admin := some q } : Own).accept now' q' with
  | error e => exact ⟨e, rfl⟩
  | ok o'' =>
    obtain ⟨hp, _⟩ := accept_sound _ _ _ _ hx
    simp at hp

/-- revocation cancels: after a revoke nobody can accept -/
theorem revoke_cancels (o o' : Own) (sender q : String) (now : Nat) (h : o.revoke sender = .ok o') :
    ∃ e, o'.accept now q = .error e := by
  obtain ⟨_, h'⟩ := revoke_ok o o' sender h
  subst h'
  cases hx : ({ o with pending := none, minTime := none } : Own).accept now q with
  | error e => exact ⟨e, rfl⟩
  | ok o'' =>
    obtain ⟨hp, _⟩ := accept_sound _ _ _ _ hx
    simp at hp

/-! ## histories -/

/-- an attempt by any principal at any time -/
inductive Ev where
  | nominate (now : Nat) (sender : String) (validated : R String)
  | revoke (sender : String)
  | accept (now : Nat) (sender : String)
deriving Repr

/-- ghost: the live nomination = (time, nominee, nominator) of the most recent successful
nomination that has been neither revoked, nor replaced, nor accepted -/
structure G where
  o : Own
  nom : Option (Nat × String × String)

def gstep (g : G) : Ev → G
  | .nominate now sender v =>
    match g.o.nominate now sender v with
    | .ok o' => { o := o', nom := o'.pending.map (fun n => (now, n, sender)) }
    | .error _ => g
  | .revoke sender =>
    match g.o.revoke sender with
    | .ok o' => { o := o', nom := none }
    | .error _ => g
  | .accept now sender =>
    match g.o.accept now sender with
    | .ok o' => { o := o', nom := none }
    | .error _ => g

/-- the stored nomination is the live one, with its time lock at nomination time + 7 days -/
def Inv (g : G) : Prop :=
  (∀ p, g.o.pending = some p → ∃ t by_, g.nom = some (t, p, by_) ∧ g.o.minTime = some ((t + 604800) * 1000000000))
  ∧ (g.o.pending = none → g.nom = none)

def boot (admin : String) : G := { o := { admin := some admin, pending := none, minTime := none }, nom := none }

theorem inv_boot (a : String) : Inv (boot a) := by
  constructor
  · intro p hp; simp [boot] at hp
  · intro _; rfl

theorem inv_step (g : G) (e : Ev) (h : Inv g) : Inv (gstep g e) := by
  cases e with
  | nominate now sender v =>
    simp only [gstep]
    split
    · rename_i o' hn
      obtain ⟨_, n', _, _, hp, hm⟩ := nominate_ok _ _ _ _ _ hn
      constructor
      · intro p hp'; simp only at hp'; rw [hp] at hp'; cases hp'
        exact ⟨now, sender, by simp [hp], hm⟩
      · intro hp'; simp only at hp'; rw [hp] at hp'; cases hp'
    · exact h
  | revoke sender =>
    simp only [gstep]
    split
    · rename_i o' hr
      obtain ⟨_, ho⟩ := revoke_ok _ _ _ hr
      subst ho
      exact ⟨by intro p hp; simp at hp, fun _ => rfl⟩
    · exact h
  | accept now sender =>
    simp only [gstep]
    split
    · rename_i o' ha
      obtain ⟨_, _, ho⟩ := accept_sound _ _ _ _ ha
      subst ho
      exact ⟨by intro p hp; simp at hp, fun _ => rfl⟩
    · exact h

theorem inv_reach (a : String) (evs : List Ev) : Inv (evs.foldl gstep (boot a)) := by
  suffices ∀ g, Inv g → Inv (evs.foldl gstep g) from this _ (inv_boot a)
  induction evs with
  | nil => intro g h; exact h
  | cons e es ih => intro g h; exact ih _ (inv_step g e h)

/-- in every reachable state, the admin changes only through an acceptance by exactly the
nominee of the *most recent* nomination (issued by the then-admin), no earlier than seven days
(604800 s) after that nomination, with no revoke / newer nomination / acceptance in between -/
theorem admin_changes_only_by_accept (a : String) (evs : List Ev) (e : Ev)
    (hch : (gstep (evs.foldl gstep (boot a)) e).o.admin ≠ (evs.foldl gstep (boot a)).o.admin) :
    ∃ now q t by_, e = .accept now q ∧ (evs.foldl gstep (boot a)).nom = some (t, q, by_)
      ∧ t + 604800 ≤ now ∧ (gstep (evs.foldl gstep (boot a)) e).o.admin = some q := by
  have hinv := inv_reach a evs
  generalize evs.foldl gstep (boot a) = g at *
  cases e with
  | nominate now sender v =>
    simp only [gstep] at hch
    split at hch
    · rename_i o' hn
      obtain ⟨_, _, _, hadm, _⟩ := nominate_ok _ _ _ _ _ hn
      exact absurd hadm hch
    · exact absurd rfl hch
  | revoke sender =>
    simp only [gstep] at hch
    split at hch
    · rename_i o' hr
      obtain ⟨_, ho⟩ := revoke_ok _ _ _ hr
      subst ho; simp at hch
    · exact absurd rfl hch
  | accept now q =>
    simp only [gstep] at hch ⊢
    split at hch
    · rename_i o' ha
      obtain ⟨hp, hr, ho⟩ := accept_sound _ _ _ _ ha
      obtain ⟨t, by_, hnom, hmt⟩ := hinv.1 q hp
      refine ⟨now, q, t, by_, rfl, hnom, ?_, ?_⟩
      · rw [hmt] at hr
        simp only [ripe, decide_eq_true_eq] at hr
        have : (t + 604800) * 1000000000 / 1000000000 = t + 604800 := Nat.mul_div_cancel _ (by decide)
        omega
      · subst ho; simp
    · exact absurd rfl hch

/-- the nominator recorded for the live nomination was the admin when it was issued, and a
nomination can only be issued by the current admin -/
theorem nomination_by_admin (g : G) (now : Nat) (sender : String) (v : R String) (o' : Own)
    (h : g.o.nominate now sender v = .ok o') : g.o.admin = some sender :=
  (nominate_ok _ _ _ _ _ h).1

/-- a newer nomination restarts the clock: the old nominee can no longer accept and the new one
must wait seven days from the new nomination -/
theorem renominate_restarts_clock (o o' : Own) (now : Nat) (sender : String) (v : R String)
    (h : o.nominate now sender v = .ok o') (q : String) (t : Nat) (o'' : Own)
    (ha : o'.accept t q = .ok o'') : v = .ok q ∧ now + 604800 ≤ t := by
  obtain ⟨_, n, hv, _, hp, hm⟩ := nominate_ok _ _ _ _ _ h
  obtain ⟨hq, hr, _⟩ := accept_sound _ _ _ _ ha
  rw [hp] at hq; cases hq
  refine ⟨hv, ?_⟩
  rw [hm] at hr
  simp only [ripe, decide_eq_true_eq] at hr
  have : (now + 604800) * 1000000000 / 1000000000 = now + 604800 := Nat.mul_div_cancel _ (by decide)
  omega

/-- after acceptance the former admin cannot nominate or revoke -/
theorem former_admin_loses_rights (o o' : Own) (now : Nat) (q old : String) (h : o.accept now q = .ok o')
    (hne : old ≠ q) (t : Nat) (v : R String) :
    (∃ e, o'.nominate t old v = .error e) ∧ (∃ e, o'.revoke old = .error e) := by
  obtain ⟨_, _, ho⟩ := accept_sound _ _ _ _ h
  subst ho
  constructor
  · cases hx : ({ o with pending := none, admin := some q } : Own).nominate t old v with
    | error e => exact ⟨e, rfl⟩
    | ok o'' => have := (nominate_ok _ _ _ _ _ hx).1; simp at this; exact absurd this.symm hne
  · cases hx : ({ o with pending := none, admin := some q } : Own).revoke old with
    | error e => exact ⟨e, rfl⟩
    | ok o'' => have := (revoke_ok _ _ _ hx).1; simp at this; exact absurd this.symm hne

/-! ## both contracts run this machine -/

open MW.Staking in
/-- staking: the three ownership messages are machine steps on `ownOf`, with no messages -/
theorem staking_ownership_steps (s s' : CState) (env : Env) (info : Info) (out : List SubMsg) :
    (∀ n, execute s env info (.transferOwnership n) = .ok (s', out) →
        (ownOf s).nominate env.seconds info.sender (addrValidate env.chainPrefix n) = .ok (ownOf s') ∧ out = [])
    ∧ (execute s env info .revokeOwnershipTransfer = .ok (s', out) →
        (ownOf s).revoke info.sender = .ok (ownOf s') ∧ out = [])
    ∧ (execute s env info .acceptOwnership = .ok (s', out) →
        (ownOf s).accept env.seconds info.sender = .ok (ownOf s') ∧ out = []) := by
  refine ⟨?_, ?_, ?_⟩
  · intro n h
    simp only [execute, transferOwnership, bind_ok, pure_ok] at h
    obtain ⟨o, ho, h⟩ := h; cases h; exact ⟨by rw [ho]; rfl, rfl⟩
  · intro h
    simp only [execute, revokeOwnership, bind_ok, pure_ok] at h
    obtain ⟨o, ho, h⟩ := h; cases h; exact ⟨by rw [ho]; rfl, rfl⟩
  · intro h
    simp only [execute, acceptOwnership, bind_ok, pure_ok] at h
    obtain ⟨o, ho, h⟩ := h; cases h; exact ⟨by rw [ho]; rfl, rfl⟩

open MW.Treasury in
/-- treasury: ownership messages are machine steps on the stored `own`; all other messages
leave it untouched -/
theorem treasury_runs_machine (s s' : TState) (env : MW.Staking.Env) (info : MW.Staking.Info) (m : TExec)
    (out : List MW.Staking.SubMsg) (h : MW.Treasury.execute s env info m = .ok (s', out)) :
    match m with
    | .transferOwnership n => s.own.nominate env.seconds info.sender (MW.Staking.addrValidate env.chainPrefix n) = .ok s'.own
    | .revokeOwnershipTransfer => s.own.revoke info.sender = .ok s'.own
    | .acceptOwnership => s.own.accept env.seconds info.sender = .ok s'.own
    | _ => s'.own = s.own := by
  cases m <;> simp only [MW.Treasury.execute] at h ⊢
  case transferOwnership n =>
    simp only [bind_ok, pure_ok] at h; obtain ⟨o, ho, h⟩ := h; cases h; exact ho
  case acceptOwnership =>
    simp only [bind_ok, pure_ok] at h; obtain ⟨o, ho, h⟩ := h; cases h; exact ho
  case revokeOwnershipTransfer =>
    simp only [bind_ok, pure_ok] at h; obtain ⟨o, ho, h⟩ := h; cases h; exact ho
  case spendFunds a r c =>
    unfold spendFunds at h
    simp only [bind_ok, ensure_ok] at h
    obtain ⟨_, _, h⟩ := h
    split at h <;> simp only [bind_ok, pure_ok] at h
    · obtain ⟨_, _, h⟩ := h; cases h; rfl
    · obtain ⟨_, _, _, _, h⟩ := h; cases h; rfl
  case swapIn r t mo =>
    unfold swapIn at h
    simp only [bind_ok, ensure_ok, pure_ok] at h
    obtain ⟨_, _, _, _, _, _, _, _, h⟩ := h; cases h; rfl
  case swapOut r t mo =>
    unfold swapOut at h
    simp only [bind_ok, ensure_ok, pure_ok] at h
    obtain ⟨_, _, _, _, _, _, _, _, h⟩ := h; cases h; rfl
  case updateConfig t r =>
    unfold MW.Treasury.updateConfig at h
    simp only [bind_ok, ensure_ok, pure_ok] at h
    obtain ⟨_, _, _, _, h⟩ := h; cases h; rfl

/-! ## the staking contract along every history of the chain model -/

section World
open MW.Staking MW.Chain

/-- every message other than the three ownership messages, and every reply and callback, leaves the staking
contract's admin, nominee and time lock untouched (ResumeContract and UpdateConfig included) -/
theorem staking_ownership_frame (s s' : CState) (env : Env) (info : Info) (m : ExecMsg) (out : List SubMsg)
    (hm : ∀ n, m ≠ .transferOwnership n) (hr : m ≠ .revokeOwnershipTransfer) (ha : m ≠ .acceptOwnership)
    (h : execute s env info m = .ok (s', out)) : ownOf s' = ownOf s := by
  have := execute_own h
  cases m <;> first | exact this | skip
  · exact absurd rfl (hm _)
  · exact absurd rfl ha
  · exact absurd rfl hr

/-- the attempt of the abstract machine that a world event amounts to: a *committed* transaction or ibc-hooks
delivery carrying one of the three ownership messages; every other event is no machine event -/
def evOf (w : World) (e : Event) : Option Ev :=
  if (step w e).committed then
    match e with
    | .exec sender _ (.transferOwnership n) _ _ => some (.nominate (w.timeNs / 1000000000) sender (addrValidate w.chainPrefix n))
    | .exec sender _ .revokeOwnershipTransfer _ _ => some (.revoke sender)
    | .exec sender _ .acceptOwnership _ _ => some (.accept (w.timeNs / 1000000000) sender)
    | .hook channel ns _ (.transferOwnership n) _ =>
      (deriveIntermediateSender channel ns w.chainPrefix).map
        (fun a => .nominate (w.timeNs / 1000000000) a (addrValidate w.chainPrefix n))
    | .hook channel ns _ .revokeOwnershipTransfer _ => (deriveIntermediateSender channel ns w.chainPrefix).map .revoke
    | .hook channel ns _ .acceptOwnership _ =>
      (deriveIntermediateSender channel ns w.chainPrefix).map (.accept (w.timeNs / 1000000000))
    | _ => none
  else none

def gstepO (g : G) : Option Ev → G
  | none => g
  | some e => gstep g e

/-- **every event of the chain model** is, on the ownership triple of the staking contract, exactly the machine
step `evOf` names (or no step) -/
theorem staking_step_is_machine (w : World) (g : G) (e : Event) (hg : g.o = ownOf w.c) :
    (gstepO g (evOf w e)).o = ownOf (step w e).w.c := by
  rw [step_own]
  unfold ownAfter evOf
  by_cases hc : (step w e).committed = true
  · simp only [hc, ↓reduceIte]
    cases e with
    | exec sender funds msg f txi =>
      cases msg <;> simp only [gstepO, ownAfterMsg, hg]
      case transferOwnership n =>
        simp only [gstep, hg, World.env, Env.seconds]
        split <;> simp_all
      case revokeOwnershipTransfer =>
        simp only [gstep, hg]
        split <;> simp_all
      case acceptOwnership =>
        simp only [gstep, hg, World.env, Env.seconds]
        split <;> simp_all
    | hook channel ns coin msg f =>
      cases hd : deriveIntermediateSender channel ns w.chainPrefix with
      | none => cases msg <;> simp [gstepO, hd, hg]
      | some acct =>
        cases msg <;> simp only [hd, Option.map_some] <;> simp only [gstepO, ownAfterMsg]
        case transferOwnership n =>
          simp only [gstep, hg, World.env, Env.seconds]
          split <;> simp_all
        case revokeOwnershipTransfer =>
          simp only [gstep, hg]
          split <;> simp_all
        case acceptOwnership =>
          simp only [gstep, hg, World.env, Env.seconds]
          split <;> simp_all
        all_goals exact hg
    | _ => simp [gstepO, hg]
  · simp only [hc, Bool.false_eq_true, ↓reduceIte, gstepO, hg]

/-- the machine attempts a world history amounts to, in order -/
def machineEvs (w : World) : List Event → List Ev
  | [] => []
  | e :: es => (evOf w e).toList ++ machineEvs (step w e).w es

theorem foldl_gstepO (g : G) (o : Option Ev) (rest : List Ev) :
    (o.toList ++ rest).foldl gstep g = rest.foldl gstep (gstepO g o) := by
  cases o <;> rfl

theorem staking_history_is_machine (w : World) (gh : WGhost) (g : G) (evs : List Event) (hg : g.o = ownOf w.c) :
    ((machineEvs w evs).foldl gstep g).o = ownOf (runW w gh evs).1.c := by
  induction evs generalizing w gh g with
  | nil => exact hg
  | cons e es ih =>
    simp only [machineEvs, runW, foldl_gstepO]
    exact ih (step w e).w (wgstep w gh e) (gstepO g (evOf w e)) (staking_step_is_machine w g e hg)

/-- **every history**: the admin, nominee and time lock of the staking contract after any history of the chain
model from an accepted instantiation are those of the abstract machine after the history's committed ownership
attempts, started with the instantiating account as admin.  Hence everything proved about machine histories above
(`inv_reach`, `admin_changes_only_by_accept`, …) holds of the staking contract whatever else happens in between —
stakes, halts and resumes, configuration updates, IBC callbacks, rolled-back transactions. -/
theorem C12_staking_history {env : Env} {info : Info} {msg : InstantiateMsg} {c0 : CState} {out : List SubMsg}
    (hi : instantiate env info msg = .ok (c0, out)) (self pfx : String) (t hgt : Nat) (evs : List Event) :
    ownOf (runW (bootWorld c0 self pfx t hgt) {} evs).1.c
      = ((machineEvs (bootWorld c0 self pfx t hgt) evs).foldl gstep (boot info.sender)).o := by
  have hb : (boot info.sender).o = ownOf (bootWorld c0 self pfx t hgt).c := by
    unfold instantiate at hi
    simp only [bind_ok, pure_ok] at hi
    obtain ⟨_, _, _, _, _, _, _, _, _, _, _, _, _, _, hi⟩ := hi
    cases hi; rfl
  exact (staking_history_is_machine _ {} _ evs hb).symm

/-- **the property for the staking contract, along every history**: if an event changes the admin, that event is a
committed AcceptOwnership by exactly the nominee `q` of the live nomination, made at time `tn` by the then admin, and
at least seven days (604800 s) have passed since `tn` -/
theorem C12_staking_admin_change {env : Env} {info : Info} {msg : InstantiateMsg} {c0 : CState} {out : List SubMsg}
    (hi : instantiate env info msg = .ok (c0, out)) (self pfx : String) (t hgt : Nat) (evs : List Event) (e : Event)
    (hch : (runW (bootWorld c0 self pfx t hgt) {} (evs ++ [e])).1.c.admin ≠ (runW (bootWorld c0 self pfx t hgt) {} evs).1.c.admin) :
    ∃ now q tn by_, evOf (runW (bootWorld c0 self pfx t hgt) {} evs).1 e = some (.accept now q)
      ∧ ((machineEvs (bootWorld c0 self pfx t hgt) evs).foldl gstep (boot info.sender)).nom = some (tn, q, by_)
      ∧ tn + 604800 ≤ now
      ∧ (runW (bootWorld c0 self pfx t hgt) {} (evs ++ [e])).1.c.admin = some q := by
  have h0 := C12_staking_history hi self pfx t hgt evs
  have hrun : ∀ (w : World) (g : WGhost) (l : List Event) (x : Event),
      (runW w g (l ++ [x])).1 = (step (runW w g l).1 x).w := by
    intro w g l x
    induction l generalizing w g with
    | nil => rfl
    | cons y ys ih => simp only [List.cons_append, runW]; exact ih _ _
  have hstep := staking_step_is_machine (runW (bootWorld c0 self pfx t hgt) {} evs).1
    ((machineEvs (bootWorld c0 self pfx t hgt) evs).foldl gstep (boot info.sender)) e h0.symm
  rw [hrun] at hch ⊢
  have ha1 : (step (runW (bootWorld c0 self pfx t hgt) {} evs).1 e).w.c.admin
      = (gstepO ((machineEvs (bootWorld c0 self pfx t hgt) evs).foldl gstep (boot info.sender))
          (evOf (runW (bootWorld c0 self pfx t hgt) {} evs).1 e)).o.admin := by
    rw [hstep]; rfl
  have ha0 : (runW (bootWorld c0 self pfx t hgt) {} evs).1.c.admin
      = ((machineEvs (bootWorld c0 self pfx t hgt) evs).foldl gstep (boot info.sender)).o.admin := by
    rw [← h0]; rfl
  rw [ha1, ha0] at hch
  cases hev : evOf (runW (bootWorld c0 self pfx t hgt) {} evs).1 e with
  | none => rw [hev] at hch; exact absurd rfl hch
  | some mev =>
    rw [hev] at hch
    simp only [gstepO] at hch
    obtain ⟨now, q, tn, by_, hme, hnom, hle, hadm⟩ :=
      admin_changes_only_by_accept info.sender (machineEvs (bootWorld c0 self pfx t hgt) evs) mev hch
    refine ⟨now, q, tn, by_, by rw [hme], hnom, hle, ?_⟩
    rw [ha1, hev]; exact hadm

end World

/-! non-vacuity of the world-level statements (tests on a concrete history of the chain model): a nomination, a
ResumeContract and an UpdateConfig in between, an acceptance one second early (refused, no machine event), seven days
after the nomination the acceptance commits and the admin changes; two machine events in total -/
section Demo
open MW.Staking MW.Chain MW.Chain.Demo
def demoHandover : List Event :=
  [ .exec demoAdmin [] (.transferOwnership demoUser) {} (some 0),
    .exec demoAdmin [] (.resumeContract 0 0 0) {} (some 0),
    .exec demoAdmin [] (.updateConfig none none none none (some 100)) {} (some 0),
    .advance ((604800 - 1) * 1000000000) 10,
    .exec demoUser [] .acceptOwnership {} (some 0),
    .advance 1000000000 1,
    .exec demoUser [] .acceptOwnership {} (some 0) ]
#guard (demoBoot.map fun w => (runW w {} (demoHandover.take 5)).1.c.admin) == some (some demoAdmin)
#guard (demoBoot.map fun w => (runW w {} demoHandover).1.c.admin) == some (some demoUser)
#guard (demoBoot.map fun w => (machineEvs w demoHandover).length) == some 2
end Demo

/-- non-vacuity: nominate at t = 1000, accept fails at 7 d − 1 s and succeeds at exactly 7 d -/
example :
    let o : Own := { admin := some "a", pending := none, minTime := none }
    ∃ o1, o.nominate 1000 "a" (.ok "q") = .ok o1
      ∧ (o1.accept (1000 + 604799) "q" = .error .ownershipNotReady)
      ∧ (∃ o2, o1.accept (1000 + 604800) "q" = .ok o2 ∧ o2.admin = some "q") := by
  refine ⟨_, rfl, rfl, _, rfl, rfl⟩

/-- both contracts accept exactly the modelled messages (tables regenerated from /repo's sources on every run): no
other message could reach the three ownership values -/
theorem ownership_messages_are_the_modelled_ones :
    MW.Generated.Interface.staking_execute = MW.Interface.model_staking_execute
    ∧ MW.Generated.Interface.treasury_execute = MW.Interface.model_treasury_execute
    ∧ MW.Generated.Interface.staking_entry_points = MW.Interface.model_staking_entry_points
    ∧ MW.Generated.Interface.treasury_entry_points = MW.Interface.model_treasury_entry_points :=
  ⟨MW.Interface.staking_execute_eq, MW.Interface.treasury_execute_eq, MW.Interface.staking_entry_points_eq,
   MW.Interface.treasury_entry_points_eq⟩

end MW.Props.C12
