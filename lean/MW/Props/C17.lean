import MW.Inv.Reach
import MW.Staking.Query
import MW.Staking.Effects
import MW.Staking.Interface
/-!
# C17 — Queries paginate completely and the per-user request index is consistent

The model keeps one request list and answers `UnstakeRequests` by filtering it: that *is* the
specification the real `IndexedMap` + `UniqueIndex` must agree with; the index upkeep itself
(save / update / remove paths of cw-storage-plus) is covered by the correspondence check.
-/
namespace MW.Props.C17
open MW MW.Staking

/-- the loop of `paginate_map` computes "filter, then take `limit`" -/
theorem loop_eq_filter_take {α} (f : α → Bool) (limit : Nat) (items : List α) (taken : Nat) :
    paginateLoop f limit items taken = (items.filter f).take (limit - taken) := by
  induction items generalizing taken with
  | nil => simp [paginateLoop]
  | cons x rest ih =>
    simp only [paginateLoop]
    split
    · rename_i hlt
      split
      · rename_i hf
        rw [ih]
        simp only [List.filter_cons, hf, ↓reduceIte]
        have : limit - taken = (limit - (taken + 1)) + 1 := by omega
        rw [this, List.take_succ_cons]
      · rename_i hf
        rw [ih]
        simp [List.filter_cons, hf]
    · rename_i hge
      have : limit - taken = 0 := by omega
      simp [this]

/-- the page specification: entries after the (exclusive) cursor, filtered, first `limit` of them -/
def page {α} (m : AMap α) (cursor : Option Nat) (limit : Nat) (f : α → Bool) : List (Nat × α) :=
  ((m.after cursor).filter (fun kv => f kv.2)).take limit

/-- `paginate` (hence every paginated query) returns exactly the values of the specified page;
an absent limit means 2^32-1 -/
theorem paginate_is_page {α} (m : AMap α) (cursor : Option Nat) (limit : Option Nat) (f : α → Bool) :
    paginate m cursor limit f = (page m cursor (limit.getD U32.max) f).map (·.2) := by
  unfold paginate page
  rw [loop_eq_filter_take]
  simp only [Nat.sub_zero, List.map_take]
  congr 1
  induction (m.after cursor) with
  | nil => rfl
  | cons kv rest ih =>
    simp only [List.map_cons, List.filter_cons]
    split <;> simp_all

/-- iterate pages, passing the key of the last returned entry as the next cursor, until a page
comes back empty -/
def pagesFrom {α} (m : AMap α) (limit : Nat) (f : α → Bool) : Nat → Option Nat → List (Nat × α)
  | 0, _ => []
  | fuel + 1, cursor =>
    match (page m cursor limit f).getLast? with
    | none => []
    | some last => page m cursor limit f ++ pagesFrom m limit f fuel (some last.1)

theorem after_filter_eq {α} (l : AMap α) (hs : AMap.Sorted l) (pre suf : AMap α) (x : Nat × α)
    (hl : l = pre ++ x :: suf) : l.filter (fun kv => x.1 < kv.1) = suf := by
  subst hl
  unfold AMap.Sorted at hs
  rw [List.pairwise_append] at hs
  obtain ⟨_, hxs, hcross⟩ := hs
  rw [List.pairwise_cons] at hxs
  rw [List.filter_append, List.filter_cons]
  have h1 : pre.filter (fun kv => decide (x.1 < kv.1)) = [] := by
    rw [List.filter_eq_nil_iff]
    intro a ha
    have := hcross a ha x (by simp)
    simp; omega
  have h2 : suf.filter (fun kv => decide (x.1 < kv.1)) = suf := by
    rw [List.filter_eq_self]
    intro a ha
    simpa using hxs.1 a ha
  simp [h1, h2]

/-- chained pages cover everything: for any page size ≥ 1, any filter and any sorted map, the
concatenation of the pages is exactly the matching entries, each once, in ascending key order -/
theorem pages_cover {α} (m : AMap α) (hs : AMap.Sorted m) (limit : Nat) (hl : 1 ≤ limit) (f : α → Bool) :
    pagesFrom m limit f (m.length + 1) none = m.filter (fun kv => f kv.2) := by
  -- generalised: from any cursor whose remaining entries are a suffix `rest` of `m`
  have key : ∀ (fuel : Nat) (cursor : Option Nat) (pre rest : AMap α), m = pre ++ rest →
      m.after cursor = rest → rest.length < fuel →
      pagesFrom m limit f fuel cursor = rest.filter (fun kv => f kv.2) := by
    intro fuel
    induction fuel with
    | zero => intro _ _ _ _ _ h; omega
    | succ fuel ih =>
      intro cursor pre rest hm hafter hlen
      simp only [pagesFrom]
      have hpage : page m cursor limit f = (rest.filter (fun kv => f kv.2)).take limit := by
        unfold page; rw [hafter]
      rw [hpage]
      cases hfl : ((rest.filter (fun kv => f kv.2)).take limit).getLast? with
      | none =>
        have : (rest.filter (fun kv => f kv.2)).take limit = [] := List.getLast?_eq_none_iff.mp hfl
        have : rest.filter (fun kv => f kv.2) = [] := by
          cases hr : rest.filter (fun kv => f kv.2) with
          | nil => rfl
          | cons a b =>
            rw [hr] at this
            have : limit = 0 := by
              cases limit with
              | zero => rfl
              | succ n => simp at this
            omega
        simp [this]
      | some last =>
        -- split `rest` at `last`
        have hmem : last ∈ (rest.filter (fun kv => f kv.2)).take limit := List.mem_of_getLast? hfl
        have hmem' : last ∈ rest := (List.mem_filter.mp (List.mem_of_mem_take hmem)).1
        obtain ⟨r1, r2, hr⟩ := List.append_of_mem hmem'
        -- everything taken lies in r1 ++ [last]; what remains is the filter of r2
        have hsr : AMap.Sorted rest := by
          rw [hm] at hs; unfold AMap.Sorted at hs ⊢
          exact (List.pairwise_append.mp hs).2.1
        have hafter' : m.after (some last.1) = r2 := by
          show m.filter (fun kv => last.1 < kv.1) = r2
          exact after_filter_eq m hs (pre ++ r1) r2 last (by rw [hm, hr]; simp)
        have hrec := ih (some last.1) (pre ++ r1 ++ [last]) r2 (by rw [hm, hr]; simp) hafter'
          (by rw [hr] at hlen; simp at hlen; omega)
        dsimp only
        rw [hrec]
        -- the taken prefix is exactly the filter of r1 ++ [last]
        have hnodup : ∀ x ∈ r1, x.1 < last.1 := by
          intro x hx
          rw [hr] at hsr; unfold AMap.Sorted at hsr
          exact (List.pairwise_append.mp hsr).2.2 x hx last (by simp)
        have hgt : ∀ x ∈ r2, last.1 < x.1 := by
          intro x hx
          rw [hr] at hsr; unfold AMap.Sorted at hsr
          have := (List.pairwise_append.mp hsr).2.1
          rw [List.pairwise_cons] at this
          exact this.1 x hx
        have hflast : f last.2 = true := by
          have := (List.mem_filter.mp (List.mem_of_mem_take hmem)).2
          simpa using this
        have hfr : rest.filter (fun kv => f kv.2)
            = r1.filter (fun kv => f kv.2) ++ last :: r2.filter (fun kv => f kv.2) := by
          rw [hr, List.filter_append, List.filter_cons]; simp [hflast]
        rw [hfr] at hfl ⊢
        generalize hA : r1.filter (fun kv => f kv.2) = A at *
        generalize hB : r2.filter (fun kv => f kv.2) = B at *
        have hAlt : ∀ x ∈ A, x.1 < last.1 := by
          intro x hx; rw [← hA] at hx; exact hnodup x (List.mem_filter.mp hx).1
        have hBgt : ∀ x ∈ B, last.1 < x.1 := by
          intro x hx; rw [← hB] at hx; exact hgt x (List.mem_filter.mp hx).1
        -- the page is A ++ [last]: `last` is the last element taken, so nothing after it was taken
        have htake : (A ++ last :: B).take limit = A ++ [last] := by
          by_cases hle : limit ≤ A.length
          · -- then the page lies inside A and cannot end with `last`
            have : (A ++ last :: B).take limit = A.take limit := by
              rw [List.take_append_of_le_length hle]
            rw [this] at hfl
            have hin : last ∈ A := List.mem_of_mem_take (List.mem_of_getLast? hfl)
            have := hAlt last hin
            omega
          · have hgtA : A.length < limit := by omega
            rw [List.take_append, List.take_of_length_le (by omega)]
            congr 1
            cases hk : limit - A.length with
            | zero => omega
            | succ k =>
              rw [List.take_succ_cons]
              cases hBk : B.take k with
              | nil => rfl
              | cons b bs =>
                -- then the page's last element would come from B, not be `last`
                exfalso
                have : (A ++ last :: B).take limit = A ++ last :: (b :: bs) := by
                  rw [List.take_append, List.take_of_length_le (by omega), hk, List.take_succ_cons, hBk]
                rw [this] at hfl
                have hl2 : (A ++ last :: b :: bs).getLast? = (b :: bs).getLast? := by
                  rw [show A ++ last :: b :: bs = (A ++ [last]) ++ (b :: bs) by simp, List.getLast?_append]
                  cases hx : (b :: bs).getLast? with
                  | none => simp [List.getLast?_eq_none_iff] at hx
                  | some x => simp
                rw [hl2] at hfl
                have hin : last ∈ b :: bs := List.mem_of_getLast? hfl
                have hin' : last ∈ B := List.mem_of_mem_take (by rw [hBk]; exact hin)
                have := hBgt last hin'
                omega
        rw [htake]
        simp
  have := key (m.length + 1) none [] m (by simp) rfl (by omega)
  exact this

/-- BatchesByIds returns exactly the existing requested batches, in request order -/
theorem by_ids (s : CState) (ids : List Nat) :
    queryBatchesByIds s ids = mapR batchToResponse (ids.filterMap (s.batches.find? ·)) := rfl

/-- the batches a Batches query selects are the page of the batch table for the status filter,
and in reachable states each returned batch carries its key as id (so the last id is the cursor) -/
theorem batches_query_is_page (s : CState) (c : Option Nat) (l : Option Nat) (st : Option BatchStatus) :
    selectBatches s c l st
      = (page s.batches c (l.getD U32.max) (statusFilter st)).map (·.2) := by
  unfold selectBatches; rw [paginate_is_page]

theorem batch_ids_are_keys (s : CState) (h : CReach s) (k : Nat) (b : Batch) (hb : (k, b) ∈ s.batches) : b.id = k := by
  have hi := cinv_reach h
  exact hi.idKey k b (AMap.find?_of_mem_sorted hi.sortedB hb)

/-- the in-flight queue pages the same way (no filter) -/
theorem ibc_queue_is_page (s : CState) (c : Option Nat) (l : Option Nat) :
    queryIbcQueue s c l = (page s.inflight c (l.getD U32.max) (fun _ => true)).map (·.2) := by
  unfold queryIbcQueue; rw [paginate_is_page]

/-- UnstakeRequests(u) is exactly the user's open requests with their current amounts -/
theorem user_requests (s : CState) (u : String) (r : Req) :
    r ∈ queryUnstakeRequests s u ↔ (r ∈ s.reqs ∧ r.user = u) := by
  unfold queryUnstakeRequests; simp [List.mem_filter]

/-- at most one request per batch in the answer, in every reachable state -/
theorem user_requests_one_per_batch (s : CState) (h : CReach s) (u : String) :
    ((queryUnstakeRequests s u).map (·.batch)).Nodup := by
  have hk := (cinv_reach h).rkeys
  unfold KeysNodup at hk
  unfold queryUnstakeRequests
  have hp : s.reqs.Pairwise (fun a b => reqKey a ≠ reqKey b) := by
    unfold List.Nodup at hk; rwa [List.pairwise_map] at hk
  have hp2 : (s.reqs.filter (fun r => r.user = u)).Pairwise (fun a b => reqKey a ≠ reqKey b) :=
    hp.sublist List.filter_sublist
  unfold List.Nodup; rw [List.pairwise_map]
  refine List.Pairwise.imp_of_mem ?_ hp2
  intro a b ha hb hne heq
  apply hne
  have hua := (List.mem_filter.mp ha).2
  have hub := (List.mem_filter.mp hb).2
  simp only [decide_eq_true_eq] at hua hub
  simp [reqKey, heq, hua, hub]

/-- the deprecated AllUnstakeRequests / AllUnstakeRequestsV2 queries: without a limit the answer holds
every open request of every user exactly once (a permutation of the request table, in the order of the
by-user index), whatever cursor is supplied; with a limit it is a prefix of that answer -/
theorem all_requests_complete (s : CState) (cursor : Option Nat) (h : s.reqs.length ≤ U32.max) :
    (queryAllRequests s cursor none).Perm s.reqs := by
  unfold queryAllRequests
  simp only [Option.getD_none]
  have hl : (s.reqs.mergeSort reqKeyLe).length ≤ U32.max := by rw [List.length_mergeSort]; exact h
  rw [List.take_of_length_le hl]
  exact List.mergeSort_perm _ _

theorem all_requests_limit_is_prefix (s : CState) (cursor : Option Nat) (n : Nat) (h : n ≤ U32.max) :
    queryAllRequests s cursor (some n) = (queryAllRequests s cursor none).take n := by
  unfold queryAllRequests
  simp only [Option.getD_some, Option.getD_none, List.take_take]
  congr 1
  omega

/-- non-vacuity: three batches, page size 1 with a status filter walks all matches -/
example :
    let m : AMap Nat := [(1, 10), (2, 20), (3, 30)]
    pagesFrom m 1 (fun v => v != 20) 4 none = [(1, 10), (3, 30)] := by decide

/-- **the per-user listing follows the life of a request**: a successful `Withdraw` removes exactly the sender's request
for that batch from `UnstakeRequests{sender}` — the sender's other requests stay, in order — and leaves every other user's
answer as it was.  (The monitor `closed_request_listed` evaluates the first clause on the real contract's answers.) -/
theorem withdraw_closes_listed_request (s s' : CState) (env : Env) (info : Info) (b : Nat) (out : List SubMsg)
    (h : withdraw s env info b = .ok (s', out)) :
    ∃ batch, s.batches.find? b = some batch
      ∧ (∀ r ∈ queryUnstakeRequests s' info.sender, r.batch ≠ batch.id)
      ∧ queryUnstakeRequests s' info.sender = (queryUnstakeRequests s info.sender).filter (fun r => r.batch ≠ batch.id)
      ∧ ∀ u, u ≠ info.sender → queryUnstakeRequests s' u = queryUnstakeRequests s u := by
  obtain ⟨batch, _, _, _, _, hb, _, _, _, _, _, hs', _⟩ := withdraw_eff h
  subst hs'
  refine ⟨batch, hb, ?_, ?_, ?_⟩
  · intro r hr
    simp only [queryUnstakeRequests, removeReq, List.mem_filter, Bool.not_eq_true', Bool.and_eq_false_iff,
      decide_eq_false_iff_not, decide_eq_true_eq] at hr
    obtain ⟨⟨_, h1⟩, h2⟩ := hr
    rcases h1 with h1 | h1
    · exact h1
    · exact absurd h2 h1
  · simp only [queryUnstakeRequests, removeReq, List.filter_filter]
    apply List.filter_congr
    intro r _
    by_cases hu : r.user = info.sender <;> by_cases hbb : r.batch = batch.id <;> simp [hu, hbb]
  · intro u hu
    simp only [queryUnstakeRequests, removeReq, List.filter_filter]
    apply List.filter_congr
    intro r _
    by_cases hru : r.user = u
    · have : r.user ≠ info.sender := by rw [hru]; exact hu
      simp [hru, this, hu]
    · simp [hru]

/-- the queries the source declares (table regenerated from /repo's `QueryMsg` on every run) are exactly the eleven
the model answers, with the same parameters -/
theorem queries_are_the_modelled_ones :
    MW.Generated.Interface.staking_query = MW.Interface.model_staking_query := MW.Interface.staking_query_eq

end MW.Props.C17
