import MW.Inv.Reach
import MW.Inv.WorldReach
import MW.Staking.Interface
import MW.Inv.WorldPayable
/-!
# C06 — Unstake batch lifecycle and timing
-/
namespace MW.Props.C06
open MW MW.Staking

def rank : BatchStatus → Nat
  | .pending => 0 | .submitted => 1 | .received => 2

/-- in every reachable state: batch ids are exactly 1..p, the single pending batch is the one
with the highest id `p` (with a deadline), and every older batch is Submitted (expected amount
and deadline set) or Received (expected and received set, no deadline) -/
theorem lifecycle_inv (s : CState) (h : CReach s) :
    (∀ k, (s.batches.find? k).isSome ↔ (1 ≤ k ∧ k ≤ s.pendingId))
    ∧ (∃ p, s.batches.find? s.pendingId = some p ∧ p.id = s.pendingId ∧ p.status = .pending ∧ p.nextAction.isSome)
    ∧ (∀ k b, s.batches.find? k = some b → k < s.pendingId →
        b.id = k ∧ b.status ≠ .pending
        ∧ ((b.status = .submitted ∧ b.expected.isSome ∧ b.nextAction.isSome)
           ∨ (b.status = .received ∧ b.expected.isSome ∧ b.received.isSome ∧ b.nextAction = none)))
    ∧ s.batches.Sorted := by
  have hi := cinv_reach h
  refine ⟨hi.keys, ?_, ?_, hi.sortedB⟩
  · obtain ⟨p, hp⟩ := hi.pending_exists
    obtain ⟨h1, h2, _, _⟩ := hi.pend p hp
    exact ⟨p, hp, hi.idKey _ p hp, h1, h2⟩
  · intro k b hb hk
    refine ⟨hi.idKey k b hb, ?_, ?_⟩
    · rcases hi.older k b hb hk with ⟨h1, _⟩ | ⟨h1, _⟩ <;> rw [h1] <;> simp
    · rcases hi.older k b hb hk with ⟨h1, h2, h3, _, _⟩ | ⟨h1, h2, h3, h4, _⟩
      · exact .inl ⟨h1, h2, h3⟩
      · exact .inr ⟨h1, h2, h3, h4⟩

/-- a batch after its submission -/
def asSubmitted (b : Batch) (u due : Nat) : Batch :=
  { b with expected := some u, status := .submitted, nextAction := some due }

/-- a successful SubmitBatch (by any caller — the handler ignores the sender): the contract is
running, the pending batch is non-empty and due (`now ≥ deadline`, in whole seconds), and then
exactly: the old batch is Submitted with expected = floor(N·T/L) and deadline now + unbonding
period, a new empty Pending batch `p+1` is due one batch period later -/
theorem submit_sound (s s' : CState) (env : Env) (info : Info) (out : List SubMsg)
    (h : submitBatch s env info = .ok (s', out)) :
    ∃ batch unbond, s.config.stopped = false ∧ s.batches.find? s.pendingId = some batch
      ∧ (∃ t, batch.nextAction = some t ∧ t ≤ env.seconds)
      ∧ s.reqs.any (fun r => r.batch = s.pendingId) = true
      ∧ computeUnbond s.st.totalNative s.st.totalLst batch.total = .ok unbond
      ∧ s'.pendingId = batch.id + 1
      ∧ s'.batches.find? (batch.id + 1) = some (Batch.new (batch.id + 1) 0 (env.seconds + s.config.batchPeriod))
      ∧ s'.batches.find? batch.id
          = some (asSubmitted batch unbond (env.seconds + s.config.native.unbondingPeriod)) := by
  obtain ⟨batch, unbond, orc, h1, h2, h3, h4, _, h6, _, hs', _⟩ := submitBatch_eff h
  subst hs'
  refine ⟨batch, unbond, h1, h2, ?_, h4, h6, rfl, ?_, ?_⟩
  · unfold batchDue at h3
    split at h3
    · rename_i t ht; exact ⟨t, ht, by simpa using h3⟩
    · cases h3
  · simp only [AMap.find?_insert]
    have : ¬ batch.id + 1 = batch.id := by omega
    simp [this]
  · simp only [AMap.find?_insert, ↓reduceIte, Batch.updateStatus, asSubmitted]

/-- conversely, a *typed* failure of SubmitBatch has exactly one of these causes (so, while
running and with the accounting guard `L ≥ batch total` satisfied, SubmitBatch succeeds exactly
when the batch is non-empty and due, unless an arithmetic bound of the envelope is exceeded) -/
theorem submit_fails_only_for (s : CState) (env : Env) (info : Info) (e : Err)
    (h : submitBatch s env info = .error e) :
    (e = .halted ∧ s.config.stopped = true)
    ∨ (∃ w, e = .std w ∧ s.batches.find? s.pendingId = none)
    ∨ (e = .batchNotReady ∧ ∃ b, s.batches.find? s.pendingId = some b ∧ batchDue b env.seconds = false)
    ∨ (e = .batchEmpty ∧ s.reqs.any (fun r => r.batch = s.pendingId) = false)
    ∨ (e = .invalidUnstakeAmount ∧ ∃ b, s.batches.find? s.pendingId = some b ∧ s.st.totalLst < b.total)
    ∨ e.isPanic = true := by
  unfold submitBatch at h
  simp only [bind_err, ensure_err, bind_ok, ensure_ok, loadSome_ok] at h
  rcases h with h | ⟨_, _, h⟩
  · left
    unfold checkStopped at h; simp only [ensure_err] at h
    exact ⟨h.2, by simpa using h.1⟩
  rcases h with h | ⟨b, hb, h⟩
  · right; left
    unfold loadSome at h; split at h
    · cases h
    · rename_i hn; cases h; exact ⟨_, rfl, hn⟩
  rcases h with h | ⟨_, _, h⟩
  · right; right; left; exact ⟨h.2, b, hb, h.1⟩
  rcases h with h | ⟨_, _, h⟩
  · right; right; right; left; exact ⟨h.2, h.1⟩
  rcases h with h | ⟨_, _, h⟩
  · right; right; right; right; left
    exact ⟨h.2, b, hb, by have := h.1; simp only [decide_eq_false_iff_not] at this; omega⟩
  -- everything after the guards can only fail by an arithmetic panic
  right; right; right; right; right
  have hp64 : ∀ site a b e', add64 site a b = .error e' → e'.isPanic = true := by
    intro site a b e' h'; unfold add64 at h'; split at h' <;> cases h'; rfl
  have hpr : ∀ site a n d e', mulRatio site a n d = .error e' → e'.isPanic = true := by
    intro site a n d e' h'; unfold mulRatio at h'; (repeat' split at h') <;> cases h' <;> rfl
  have hpu : ∀ N L T e', computeUnbond N L T = .error e' → e'.isPanic = true := by
    intro N L T e' h'; unfold computeUnbond at h'; split at h'
    · cases h'
    · exact hpr _ _ _ _ _ h'
  have hpo : ∀ st env cfg e', updateOracleMsgs st env cfg = .error e' → e'.isPanic = true := by
    intro st env cfg e' h'
    unfold updateOracleMsgs at h'
    split at h'
    · cases h'
    · simp only [bind_err] at h'
      rcases h' with h' | ⟨_, _, h'⟩
      · unfold getRates at h'
        split at h'
        · cases h'
        · simp only [bind_err, decimalFromRatio] at h'
          rcases h' with h' | ⟨_, _, h' | ⟨_, _, h'⟩⟩
          · exact hpr _ _ _ _ _ h'
          · exact hpr _ _ _ _ _ h'
          · cases h'
      · cases h'
  rcases h with h | ⟨_, _, h⟩
  · exact hp64 _ _ _ _ h
  rcases h with h | ⟨_, _, h⟩
  · exact hp64 _ _ _ _ h
  rcases h with h | ⟨_, _, h⟩
  · exact hpu _ _ _ _ h
  rcases h with h | ⟨_, _, h⟩
  · exact hp64 _ _ _ _ h
  rcases h with h | ⟨_, _, h⟩
  · exact hpo _ _ _ _ h
  · cases h

/-- in every reachable state the accounting guard of SubmitBatch is the only one of its guards
that depends on the totals; the amount set aside never exceeds the staked total -/
theorem expected_le_total (N L T u : Nat) (hT : T ≤ L) (h : computeUnbond N L T = .ok u) : u ≤ N := by
  unfold computeUnbond at h
  split at h
  · cases h; omega
  · simp only [mulRatio_ok] at h
    obtain ⟨hL, _, hu⟩ := h
    subst hu
    apply Nat.div_le_of_le_mul
    rw [Nat.mul_comm L N]
    exact Nat.mul_le_mul_left N hT

/-- every change of a batch by one successful call, in every state satisfying the invariant:
the status moves forward by at most one step, the expected amount never changes once set, and
Submitted → Received happens only in a ReceiveUnstakedTokens sent by the authenticated
ibc-hooks account of the configured staker, carrying the staked asset, no earlier than the
unbonding deadline recorded at submission -/
theorem batch_evolution (s s' : CState) (env : Env) (info : Info) (m : ExecMsg) (out : List SubMsg)
    (hi : CInv s) (hx : execute s env info m = .ok (s', out)) (k : Nat) (b : Batch)
    (hb : s.batches.find? k = some b) :
    ∃ b', s'.batches.find? k = some b'
      ∧ rank b.status ≤ rank b'.status ∧ rank b'.status ≤ rank b.status + 1
      ∧ (b.expected.isSome → b'.expected = b.expected)
      ∧ (b.status = .submitted → b'.status = .received →
          ∃ coin t, m = .receiveUnstakedTokens k
            ∧ deriveIntermediateSender s.config.proto.channel s.config.native.staker s.config.proto.accountPrefix = some info.sender
            ∧ findCoin info.funds s.config.proto.ibcDenom = some coin ∧ b'.received = some coin.amount
            ∧ b.nextAction = some t ∧ t ≤ env.seconds) := by
  have hc := execute_batchChange hx
  cases hc with
  | none m hbs hp =>
    refine ⟨b, by rw [hbs]; exact hb, Nat.le_refl _, Nat.le_succ _, fun _ => rfl, ?_⟩
    intro h1 h2; rw [h1] at h2; cases h2
  | unstake pb a isNew hpb hp hbs =>
    rw [hbs]; simp only [AMap.find?_insert]
    split
    · rename_i hk; subst hk
      rw [hpb] at hb; cases hb
      refine ⟨_, rfl, Nat.le_refl _, Nat.le_succ _, fun _ => rfl, ?_⟩
      intro h1 h2; simp only [grown] at h2; rw [h1] at h2; cases h2
    · refine ⟨b, hb, Nat.le_refl _, Nat.le_succ _, fun _ => rfl, ?_⟩
      intro h1 h2; rw [h1] at h2; cases h2
  | submit batch unbond _ hpb _ _ _ _ hp hbs =>
    have hid : batch.id = s.pendingId := hi.idKey _ batch hpb
    rw [hbs]; simp only [AMap.find?_insert, hid]
    split
    · rename_i hk; subst hk
      rw [hpb] at hb; cases hb
      obtain ⟨hst, _, hex, _⟩ := hi.pend b hpb
      refine ⟨_, rfl, ?_, ?_, ?_, ?_⟩
      · simp [Batch.updateStatus, hst, rank]
      · simp [Batch.updateStatus, hst, rank]
      · intro h'; rw [hex] at h'; cases h'
      · intro h1; rw [hst] at h1; cases h1
    · split
      · rename_i hk1 hk2
        have := (hi.keys k).mp (by rw [hb]; rfl)
        omega
      · refine ⟨b, hb, Nat.le_refl _, Nat.le_succ _, fun _ => rfl, ?_⟩
        intro h1 h2; rw [h1] at h2; cases h2
  | receive bid coin batch t _ hsender hcoin hfind hst hna ht hp hbs =>
    have hid : batch.id = bid := hi.idKey _ batch hfind
    rw [hbs]; simp only [AMap.find?_insert, hid]
    split
    · rename_i hk; subst hk
      rw [hfind] at hb; cases hb
      refine ⟨_, rfl, ?_, ?_, fun _ => rfl, ?_⟩
      · simp [hst, rank]
      · simp [hst, rank]
      · intro _ _; exact ⟨coin, t, rfl, hsender, hcoin, rfl, hna, ht⟩
    · refine ⟨b, hb, Nat.le_refl _, Nat.le_succ _, fun _ => rfl, ?_⟩
      intro h1 h2; rw [h1] at h2; cases h2

/-- `reply` and `sudo` never touch the batch table -/
theorem callbacks_leave_batches (s s' : CState) (out : List SubMsg) :
    (∀ id res, reply s id res = .ok (s', out) → s'.batches = s.batches ∧ s'.pendingId = s.pendingId)
    ∧ (∀ m, sudo s m = .ok (s', out) → s'.batches = s.batches ∧ s'.pendingId = s.pendingId) :=
  ⟨fun _ _ h => ⟨(reply_batches h).1, (reply_batches h).2.1⟩, fun _ h => ⟨(sudo_batches h).1, (sudo_batches h).2.1⟩⟩

/-- hence, along every history, the expected amount recorded at submission never changes -/
theorem expected_immutable (s : CState) (hr : CReach s) (e : CEv) (k : Nat) (b : Batch)
    (hb : s.batches.find? k = some b) (hex : b.expected.isSome) :
    ∃ b', (cstep s e).batches.find? k = some b' ∧ b'.expected = b.expected := by
  have hi := cinv_reach hr
  cases e with
  | exec env info m =>
    simp only [cstep]; split
    · rename_i r hx; obtain ⟨s', out⟩ := r
      obtain ⟨b', h1, _, _, h4, _⟩ := batch_evolution s s' env info m out hi hx k b hb
      exact ⟨b', h1, h4 hex⟩
    · exact ⟨b, hb, rfl⟩
  | reply id res =>
    simp only [cstep]; split
    · rename_i r hx; obtain ⟨s', out⟩ := r
      exact ⟨b, by rw [(reply_batches hx).1]; exact hb, rfl⟩
    · exact ⟨b, hb, rfl⟩
  | sudo m =>
    simp only [cstep]; split
    · rename_i r hx; obtain ⟨s', out⟩ := r
      exact ⟨b, by rw [(sudo_batches hx).1]; exact hb, rfl⟩
    · exact ⟨b, hb, rfl⟩

/-- the same along every history of the *chain model* (transactions with sub-message replies and
whole-transaction rollback, ibc-hooks deliveries, acknowledgements, timeouts, stray callbacks,
donations, clock advances; any number of steps): the contract store always satisfies the
structural invariant (ids 1..p, single pending batch with the highest id, older batches Submitted
or Received with their fields, request sums bounded by batch totals, packet table keyed by sequence) -/
theorem lifecycle_every_world_history (env : Env) (info : Info) (msg : InstantiateMsg) (c0 : CState)
    (out : List SubMsg) (hi : instantiate env info msg = .ok (c0, out)) (self pfx : String) (t hgt : Nat)
    (evs : List MW.Chain.Event) :
    CInv (evs.foldl (fun w e => (MW.Chain.step w e).w) (MW.Chain.bootWorld c0 self pfx t hgt)).c :=
  MW.Chain.world_history_cinv env info msg c0 out hi self pfx t hgt evs

open MW.Chain in
/-- **on the chain model, every event**: if an event turns a Submitted batch into a Received one, the event is a committed
transaction or ibc-hooks delivery carrying `ReceiveUnstakedTokens` for that batch, executed as the ibc-hooks account of
the configured channel and staker, with the staked asset attached (the amount recorded as received), at a block time no
earlier than the unbonding deadline recorded at submission.  Acknowledgements, timeouts, stray callbacks, donations,
rolled-back transactions and every other message leave the batch as it was -/
theorem received_only_by_staker_world (w : World) (hr : CReach w.c) (e : Event) (k : Nat) (b b' : Batch)
    (hb : w.c.batches.find? k = some b) (hb' : (step w e).w.c.batches.find? k = some b')
    (hs : b.status = .submitted) (hs' : b'.status = .received) :
    ∃ sender funds coin t,
      ((∃ f txi, e = .exec sender funds (.receiveUnstakedTokens k) f txi)
        ∨ (∃ ch ns c f, e = .hook ch ns c (.receiveUnstakedTokens k) f
              ∧ deriveIntermediateSender ch ns w.chainPrefix = some sender ∧ funds = [c]))
      ∧ deriveIntermediateSender w.c.config.proto.channel w.c.config.native.staker w.c.config.proto.accountPrefix = some sender
      ∧ findCoin funds w.c.config.proto.ibcDenom = some coin ∧ b'.received = some coin.amount
      ∧ b.nextAction = some t ∧ t ≤ w.timeNs / 1000000000 := by
  have hi := cinv_reach hr
  -- one transaction on a world whose store is `w.c`
  have tx : ∀ (w1 : World) (sender : String) (funds : List Coin) (msg : ExecMsg) (f : Faults) (txi : Option Nat),
      w1.c = w.c → w1.timeNs = w.timeNs →
      (runExec w1 sender funds msg f txi).w.c.batches.find? k = some b' →
      ∃ coin t, msg = .receiveUnstakedTokens k
        ∧ deriveIntermediateSender w.c.config.proto.channel w.c.config.native.staker w.c.config.proto.accountPrefix = some sender
        ∧ findCoin funds w.c.config.proto.ibcDenom = some coin ∧ b'.received = some coin.amount
        ∧ b.nextAction = some t ∧ t ≤ w.timeNs / 1000000000 := by
    intro w1 sender funds msg f txi hc ht hfind
    unfold runExec at hfind
    cases hcore : runExecCore w1 sender funds msg f txi with
    | mk o calls =>
      rw [hcore] at hfind
      cases o with
      | none =>
        simp only at hfind
        rw [hc, hb] at hfind; cases hfind
        rw [hs] at hs'; cases hs'
      | some w' =>
        simp only at hfind
        obtain ⟨bal1, c', msgs, d, _, hx, hd, hw'⟩ := runExecCore_some hcore
        subst hw'
        have hrb := dispatchAll_rb f { w := { w1 with bal := bal1, c := c' },
                                       calls := [Call.execute { sender, funds } msg (.ok msgs)] } msgs
        rw [hd] at hrb
        rw [hrb.2] at hfind
        rw [hc] at hx
        obtain ⟨b2, h1, _, _, _, h5⟩ := batch_evolution w.c c' (w1.env txi) { sender, funds } msg msgs hi hx k b hb
        simp only at hfind
        rw [h1] at hfind; cases hfind
        obtain ⟨coin, t, hm, hder, hcoin, hrec, hna, ht'⟩ := h5 hs hs'
        refine ⟨coin, t, hm, hder, hcoin, hrec, hna, ?_⟩
        have : (w1.env txi).seconds = w.timeNs / 1000000000 := by
          simp only [World.env, Env.seconds, ht]
        rw [this] at ht'; exact ht'
  by_cases hx : ∃ s fu m f t, e = .exec s fu m f t
  · obtain ⟨sender, funds, msg, f, txi, rfl⟩ := hx
    simp only [step] at hb'
    obtain ⟨coin, t, hm, h2, h3, h4, h5, h6⟩ := tx w sender funds msg f txi rfl rfl hb'
    subst hm
    exact ⟨sender, funds, coin, t, .inl ⟨f, txi, rfl⟩, h2, h3, h4, h5, h6⟩
  by_cases hk : ∃ c n co m f, e = .hook c n co m f
  · obtain ⟨channel, ns, coin0, msg, f, rfl⟩ := hk
    simp only [step] at hb'
    split at hb'
    · rw [hb] at hb'; cases hb'; rw [hs] at hs'; cases hs'
    · rename_i acct hacct
      split at hb'
      · rw [hb] at hb'; cases hb'; rw [hs] at hs'; cases hs'
      · split at hb'
        · obtain ⟨coin, t, hm, h2, h3, h4, h5, h6⟩ :=
            tx { w with bal := w.bal.add acct coin0.denom coin0.amount } acct [coin0] msg f (some 0) rfl rfl hb'
          subst hm
          exact ⟨acct, [coin0], coin, t, .inr ⟨channel, ns, coin0, f, rfl, hacct, rfl⟩, h2, h3, h4, h5, h6⟩
        · simp only at hb'
          rw [hb] at hb'; cases hb'; rw [hs] at hs'; cases hs'
  · exfalso
    have he : ∀ s fu m f t, e ≠ .exec s fu m f t := fun s fu m f t h => hx ⟨s, fu, m, f, t, h⟩
    have hh : ∀ c n co m f, e ≠ .hook c n co m f := fun c n co m f h => hk ⟨c, n, co, m, f, h⟩
    obtain ⟨_, h2⟩ := step_rb_other w e he hh
    rw [h2, hb] at hb'; cases hb'
    rw [hs] at hs'; cases hs'

/-- the boundary is `≥` on whole seconds: one second before the deadline the test fails,
exactly at the deadline (and at any sub-second offset of it) it passes -/
example : batchDue (Batch.new 1 0 1000) 999 = false ∧ batchDue (Batch.new 1 0 1000) 1000 = true
    ∧ ({ timeNs := 1000 * 1000000000 + 999999999, height := 0, txIndex := none, contract := "", chainPrefix := "" } : Env).seconds = 1000 := by
  decide

/-- the statements of this file quantify over every message the staking contract accepts: the `ExecuteMsg` the source
declares (table regenerated from /repo's `msg.rs` on every run) has exactly the variants, fields and types of the
model's `ExecMsg`, and the contract exports exactly the modelled entry points.  A message or entry point added to the
source — which no generated history would exercise — breaks this theorem -/
theorem messages_are_the_modelled_ones :
    MW.Generated.Interface.staking_execute = MW.Interface.model_staking_execute
    ∧ (∀ m : MW.Staking.ExecMsg, MW.Interface.execTag m ∈ MW.Interface.names MW.Generated.Interface.staking_execute)
    ∧ MW.Generated.Interface.staking_entry_points = ["execute", "instantiate", "migrate", "query", "reply", "sudo"] :=
  ⟨MW.Interface.staking_execute_eq, MW.Interface.staking_execute_covered.2, MW.Interface.staking_entry_points_eq⟩

end MW.Props.C06
