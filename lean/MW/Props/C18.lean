import MW.Staking.Migrate
import MW.Lemmas
import MW.Staking.Interface
/-!
# C18 — Migrations are version-gated and preserve every value-bearing record

A migration is one atomic entry-point call; a refused migration returns an error and therefore
no store (runtime atomicity) — "changes nothing" is by construction of `R` and is checked on the
real contract's raw storage by the correspondence run.
-/
namespace MW.Props.C18
open MW MW.Staking

/-- the source versions of the three paths are strictly older than the contract version
(on the parsed values; that the strings parse to these values is evaluated by the `#guard`s below) -/
theorem from_versions_older :
    (⟨0, 4, 18, []⟩ : SemVer).cmp ⟨1, 1, 0, []⟩ = .lt ∧ (⟨0, 4, 20, []⟩ : SemVer).cmp ⟨1, 1, 0, []⟩ = .lt
    ∧ (⟨1, 0, 0, []⟩ : SemVer).cmp ⟨1, 1, 0, []⟩ = .lt := by decide

#guard parseSemver "0.4.18" = some ⟨0, 4, 18, []⟩ && parseSemver "0.4.20" = some ⟨0, 4, 20, []⟩
  && parseSemver "1.0.0" = some ⟨1, 0, 0, []⟩ && parseSemver CONTRACT_VERSION = some ⟨1, 1, 0, []⟩
#guard parseSemver "1.0" = none && parseSemver "01.0.0" = none && parseSemver "1.1.0-rc.1" = some ⟨1, 1, 0, ["rc", "1"]⟩
  && ((parseSemver "1.1.0-rc.1").map (·.cmp ⟨1, 1, 0, []⟩)) = some .lt

/-- a successful migration: the stored record named this contract and carried exactly the source
version of the chosen path; afterwards it names this contract at the new version -/
theorem migrate_gate (st st' : MStore) (msg : MigrateMsg) (h : migrate st msg = .ok st') :
    st.version = some (CONTRACT_NAME, msg.from) ∧ st'.version = some (CONTRACT_NAME, CONTRACT_VERSION) := by
  unfold migrate at h
  simp only [bind_ok, pure_ok] at h
  obtain ⟨_, _, _, hv, st1, _, h⟩ := h
  subst h
  refine ⟨?_, rfl⟩
  unfold assertContractVersion at hv
  simp only [bind_ok, ensure_ok, loadSome_ok] at hv
  obtain ⟨cur, hc, _, h1, h2⟩ := hv
  rw [hc]
  simp only [beq_iff_eq] at h1 h2
  obtain ⟨a, b⟩ := cur
  simp only at h1 h2
  rw [h1, h2]

/-- the generic gate (both contracts): a different contract name, a newer or equal stored version,
or an unparsable one is refused -/
theorem gate_refuses (name ver : String) (stored : String × String) (r : String × String)
    (h : migrateGate name ver (some stored) = .ok r) :
    stored.1 = name ∧ ∃ a b, parseSemver stored.2 = some a ∧ parseSemver ver = some b ∧ a.cmp b = .lt := by
  unfold migrateGate at h
  simp only [bind_ok, ensure_ok, loadSome_ok, pure_ok] at h
  obtain ⟨cur, hc, _, hn, v, hv, nv, hnv, _, h1, _, h2, _⟩ := h
  cases hc
  refine ⟨(by simpa using hn : name = stored.1).symm, v, nv, hv, hnv, ?_⟩
  cases hcmp : v.cmp nv <;> simp_all

/-- 1.0.0 → 1.1.0 keeps every tracked packet and every pending reply with its key, sequence, amount
and status, adds the staked-asset denom and the staker as receiver, and leaves the configuration
untouched -/
theorem v110_packets (st st' : MStore) (h : migrate st .v100 = .ok st') :
    ∃ c, st.cfg = some (.cur c) ∧ st'.cfg = st.cfg
      ∧ st'.inflight = migratePackets c st.linflight ∧ st'.waiting = migrateWaiting c st.lwaiting
      ∧ st'.inflight.map (·.1) = st.linflight.map (·.1) ∧ st'.waiting.map (·.1) = st.lwaiting.map (·.1)
      ∧ (∀ k p, (k, p) ∈ st.linflight → (k, { seq := p.seq, coin := ⟨c.proto.ibcDenom, p.amount⟩,
                                              receiver := c.native.staker, status := p.status }) ∈ st'.inflight)
      ∧ (∀ k a, (k, a) ∈ st.lwaiting → (k, { coin := ⟨c.proto.ibcDenom, a⟩, receiver := c.native.staker }) ∈ st'.waiting) := by
  unfold migrate at h
  simp only [bind_ok, pure_ok] at h
  obtain ⟨_, _, _, _, st1, h1, h⟩ := h
  subst h
  unfold migratePath at h1
  simp only at h1
  split at h1
  · rename_i c hc
    cases h1
    refine ⟨c, hc, hc.symm ▸ rfl, rfl, rfl, ?_, ?_, ?_, ?_⟩
    · simp [migratePackets, List.map_map, Function.comp]
    · simp [migrateWaiting, List.map_map, Function.comp]
    · intro k p hp
      simp only [migratePackets, List.mem_map]
      exact ⟨(k, p), hp, rfl⟩
    · intro k a ha
      simp only [migrateWaiting, List.mem_map]
      exact ⟨(k, a), ha, rfl⟩
  · cases h1

/-- refundable value is preserved: the sum of the failed / timed-out packets before the upgrade
equals the sum of the packets the permissionless recovery (receiver = staker) selects afterwards -/
theorem v110_recoverable (c : Config) (l : AMap LegacyPkt) :
    (((migratePackets c l).map (·.2)).filter (refundable c.native.staker)).map (·.coin.amount)
      = ((l.map (·.2)).filter (fun p => p.status = .ackFailure || p.status = .timedOut)).map (·.amount)
    ∧ ∀ p ∈ (migratePackets c l).map (·.2), p.coin.denom = c.proto.ibcDenom ∧ p.receiver = c.native.staker := by
  constructor
  · induction l with
    | nil => rfl
    | cons kv rest ih =>
      obtain ⟨k, p⟩ := kv
      simp only [migratePackets, List.map_cons, List.filter_cons, refundable, decide_true, Bool.true_and] at ih ⊢
      cases hs : p.status <;> simp_all [migratePackets]
  · intro p hp
    simp only [migratePackets, List.map_map, List.mem_map, Function.comp] at hp
    obtain ⟨kv, _, rfl⟩ := hp
    exact ⟨rfl, rfl⟩

/-- 0.4.18 → 0.4.20: every field the newer layout retains is copied unchanged -/
theorem v0420_fields (c : Cfg0418) (b : Bool) :
    let n := migrateCfg0418 c b
    n.nativeTokenDenom = c.nativeTokenDenom ∧ n.lstDenom = c.lstDenom ∧ n.treasury = c.treasury ∧ n.monitors = c.monitors
    ∧ n.validators = c.validators ∧ n.batchPeriod = c.batchPeriod ∧ n.unbondingPeriod = c.unbondingPeriod ∧ n.fee = c.fee
    ∧ n.staker = c.staker ∧ n.rewardCollector = c.rewardCollector ∧ n.minStake = c.minStake ∧ n.channel = c.channel
    ∧ n.stopped = c.stopped ∧ n.oracle = c.oracle ∧ n.sendFeesToTreasury = b := by
  simp [migrateCfg0418]

/-- 0.4.20 → 1.0.0: the translation is the identity on every retained value; the supplied prefixes
and denom are validated and every stored native / protocol address is valid under them -/
theorem v100_fields (c : Cfg0420) (nap nvp ntd pap : String) (n : Config) (h : migrateCfg0420 c nap nvp ntd pap = .ok n) :
    n.native.validators = c.validators ∧ n.native.unbondingPeriod = c.unbondingPeriod ∧ n.native.staker = c.staker
    ∧ n.native.rewardCollector = c.rewardCollector ∧ n.native.tokenDenom = ntd
    ∧ n.proto.channel = c.channel ∧ n.proto.ibcDenom = c.nativeTokenDenom ∧ n.proto.minStake = c.minStake
    ∧ n.proto.oracle = c.oracle ∧ n.feeCfg.fee = c.fee
    ∧ n.feeCfg.treasury = (if c.sendFeesToTreasury then some c.treasury else none)
    ∧ n.lstDenom = c.lstDenom ∧ n.monitors = c.monitors.getD [] ∧ n.batchPeriod = c.batchPeriod ∧ n.stopped = c.stopped
    ∧ validatePrefix nap = .ok n.native.accountPrefix ∧ validatePrefix nvp = .ok n.native.validatorPrefix
    ∧ validatePrefix pap = .ok n.proto.accountPrefix
    ∧ (∃ a, validateAddress c.staker n.native.accountPrefix = .ok a)
    ∧ (∃ a, validateAddress c.rewardCollector n.native.accountPrefix = .ok a) := by
  unfold migrateCfg0420 at h
  simp only [bind_ok, pure_ok] at h
  obtain ⟨nap', h1, nvp', h2, pap', h3, _, _, a1, h5, a2, h6, _, _, _, _, _, _, h⟩ := h
  subst h
  exact ⟨rfl, rfl, rfl, rfl, rfl, rfl, rfl, rfl, rfl, rfl, rfl, rfl, rfl, rfl, rfl, h1, h2, h3, ⟨a1, h5⟩, ⟨a2, h6⟩⟩

/-- the treasury's migrate is the gate alone and changes nothing -/
theorem treasury_gate (stored r : Option (String × String)) (h : treasuryMigrate stored = .ok r) :
    r = stored ∧ ∃ s, stored = some s ∧ s.1 = "treasury" := by
  unfold treasuryMigrate at h
  simp only [bind_ok, pure_ok] at h
  obtain ⟨g, hg, h⟩ := h
  subst h
  refine ⟨rfl, ?_⟩
  cases stored with
  | none => simp [migrateGate, loadSome, bind, Except.bind] at hg
  | some s => exact ⟨s, rfl, (gate_refuses _ _ s g hg).1⟩

-- non-vacuity (evaluated at build time): a 1.0.0 store with one failed packet migrates and keeps
-- key 5 / sequence 5 / amount 700 / status
#guard
  let cfg : Config := { (default : Config) with proto := { (default : ProtoCfg) with ibcDenom := "ibc/X" },
                                                native := { (default : NativeCfg) with staker := "celestia1s" } }
  let st : MStore := { version := some ("staking", "1.0.0"), cfg := some (.cur cfg),
                       linflight := [(5, { seq := 5, amount := 700, status := .ackFailure })] }
  (migrate st .v100).toOption.map (·.inflight)
    == some [(5, { seq := 5, coin := ⟨"ibc/X", 700⟩, receiver := "celestia1s", status := .ackFailure })]

/-- the migration paths the source declares (table regenerated from /repo's `MigrateMsg` on every run) are exactly the
three the model covers, with the same parameters; `MigrateMsg` has one constructor per path -/
theorem migration_paths_are_the_modelled_ones :
    MW.Generated.Interface.staking_migrate = MW.Interface.model_staking_migrate
    ∧ (∀ m : MigrateMsg, MW.Interface.migrateTag m ∈ MW.Interface.names MW.Generated.Interface.staking_migrate)
    ∧ MW.Generated.Interface.treasury_migrate = [] :=
  ⟨MW.Interface.staking_migrate_eq, by rw [MW.Interface.staking_migrate_eq]; exact MW.Interface.migrate_tag_pinned,
   MW.Interface.treasury_rest_eq.2.2.1⟩

/-- what a migration has to produce: the stored layouts (field names, types, serde attributes of `Config`, `State`,
`Batch`, `IBCTransfer`, `IbcWaitingForReply`, `UnstakeRequest`, the status enums) and the storage keys of the current
version as the source declares them (tables regenerated from /repo on every run) are the ones the migration model
writes; a storage item added to the source is state neither the migration model nor the contract model has -/
theorem stored_layout_is_the_modelled_one :
    MW.Generated.Interface.staking_storage_keys = MW.Interface.model_staking_storage_keys
    ∧ MW.Generated.Interface.staking_stored_IBCTransfer = MW.Interface.model_staking_stored_IBCTransfer
    ∧ MW.Generated.Interface.staking_stored_IbcWaitingForReply = MW.Interface.model_staking_stored_IbcWaitingForReply
    ∧ MW.Generated.Interface.staking_stored_Config = MW.Interface.model_staking_stored_Config
    ∧ MW.Generated.Interface.staking_stored_Batch = MW.Interface.model_staking_stored_Batch
    ∧ MW.Generated.Interface.treasury_storage_keys = MW.Interface.model_treasury_storage_keys :=
  ⟨MW.Interface.staking_storage_eq, MW.Interface.staking_layout_eq.2.2.2.2.2.2.2.1, MW.Interface.staking_layout_eq.2.2.2.2.2.2.1,
   MW.Interface.staking_layout_eq.1, MW.Interface.staking_layout_eq.2.2.2.2.2.2.2.2.2.1, MW.Interface.treasury_storage_eq⟩

end MW.Props.C18
