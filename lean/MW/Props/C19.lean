import MW.Proto.Msgs
import MW.Proto.Schema
import MW.Staking.Effects
import MW.Staking.Interface
import MW.Inv.Reach
/-!
# C19 — Token-factory messages are correct for the target chain in both build variants

The model of the contract is build-independent: handlers return abstract `Msg` values and only
`Proto.encodeMsg build` (the `tokenfactory` backend + `Into<CosmosMsg>`) depends on the cargo
feature.  So "all other observable behaviour of the two builds is identical" is the statement
that every non-token-factory message encodes identically (`other_msgs_build_independent`), and
the co-simulation runs the same histories against both real builds.

The target chains' definitions are pinned here by hand:
* Osmosis `osmosis.tokenfactory.v1beta1`: MsgCreateDenom{1 sender, 2 subdenom},
  MsgMint{1 sender, 2 amount Coin, 3 mintToAddress}, MsgBurn{1 sender, 2 amount Coin, 3 burnFromAddress}
  (osmosis/x/tokenfactory/types/tx.proto);
* miniwasm `miniwasm.tokenfactory.v1`: MsgCreateDenom{1, 2}, MsgMint{1 sender, 2 amount, 3 mint_to_address},
  MsgBurn{1 sender, 2 amount} (initia-labs/miniwasm proto/miniwasm/tokenfactory/v1/tx.proto);
* `cosmos.base.v1beta1.Coin{1 denom, 2 amount}`.
-/
namespace MW.Props.C19
open MW MW.Staking MW.Proto

/-- a string field as the wire value the chain's decoder sees (absent when empty: proto3) -/
def strField (t : Nat) (s : String) : List WField :=
  if s.isEmpty then [] else [⟨t, .lenDelim s.toUTF8.toList⟩]

theorem fString_eq (t : Nat) (s : String) : fString t s = encodeFields (strField t s) := by
  unfold fString strField
  split <;> simp [encodeFields, encodeField, lenDelim, Proto.tag, WVal.wireType]

/-- `Coin` on the wire: denom (1) and the decimal amount string (2) -/
def coinFields (c : Coin) : List WField := strField 1 c.denom ++ strField 2 (toString c.amount)

theorem encCoin_eq (c : Coin) : encCoin c = encodeFields (coinFields c) := by
  unfold encCoin coinFields
  rw [fString_eq, fString_eq]
  simp [encodeFields]

theorem wf_strField (t : Nat) (s : String) (ht : 1 ≤ t) : ∀ f ∈ strField t s, WFField f := by
  intro f hf
  unfold strField at hf
  split at hf
  · simp at hf
  · simp at hf; subst hf; exact ⟨ht, trivial⟩

/-- the coin bytes decode (by the independent wire reader) to exactly denom and amount -/
theorem coin_decodes (c : Coin) : decodeFields (encCoin c) = some (coinFields c) := by
  rw [encCoin_eq]
  apply wire_roundtrip
  intro f hf
  unfold coinFields at hf
  rcases List.mem_append.mp hf with h | h
  · exact wf_strField 1 _ (by decide) f h
  · exact wf_strField 2 _ (by decide) f h

/-- the wire fields of a mint message as the target chain's definition numbers them -/
def mintFields (sender denom : String) (amount : Nat) (mintTo : String) : List WField :=
  strField 1 sender ++ [⟨2, .lenDelim (encCoin ⟨denom, amount⟩)⟩] ++ strField 3 mintTo

/-- MsgMint, both builds: the type URL belongs to the target chain's token-factory module and the
bytes decode to sender (1), Coin{denom, amount} (2) and the holder (3) -/
theorem mint_decodes (b : Build) (sender denom : String) (amount : Nat) (mintTo : String) :
    ∃ bytes, encodeMsg b (.mint sender denom amount mintTo)
        = some ((match b with | .osmosis => "/osmosis.tokenfactory.v1beta1.MsgMint"
                               | .miniwasm => "/miniwasm.tokenfactory.v1.MsgMint"), bytes)
      ∧ decodeFields bytes = some (mintFields sender denom amount mintTo) := by
  have hb : fString 1 sender ++ fMsg 2 (encCoin ⟨denom, amount⟩) ++ fString 3 mintTo
      = encodeFields (mintFields sender denom amount mintTo) := by
    rw [fString_eq, fString_eq]
    simp [mintFields, encodeFields, encodeField, fMsg, lenDelim, Proto.tag, WVal.wireType]
  have hd : decodeFields (encodeFields (mintFields sender denom amount mintTo))
      = some (mintFields sender denom amount mintTo) := by
    apply wire_roundtrip
    intro f hf
    unfold mintFields at hf
    simp only [List.mem_append, List.mem_singleton] at hf
    rcases hf with (h | h) | h
    · exact wf_strField 1 _ (by decide) f h
    · subst h; exact ⟨by show 1 ≤ 2; decide, trivial⟩
    · exact wf_strField 3 _ (by decide) f h
  cases b <;> exact ⟨_, by simp only [encodeMsg]; rw [hb], hd⟩

/-- MsgBurn: Osmosis carries burnFromAddress (3); miniwasm's definition has no such field and
burns from the sender -/
def burnFields (b : Build) (sender denom : String) (amount : Nat) (burnFrom : String) : List WField :=
  strField 1 sender ++ [⟨2, .lenDelim (encCoin ⟨denom, amount⟩)⟩] ++
    (match b with | .osmosis => strField 3 burnFrom | .miniwasm => [])

theorem burn_decodes (b : Build) (sender denom : String) (amount : Nat) (burnFrom : String) :
    ∃ bytes, encodeMsg b (.burn sender denom amount burnFrom)
        = some ((match b with | .osmosis => "/osmosis.tokenfactory.v1beta1.MsgBurn"
                               | .miniwasm => "/miniwasm.tokenfactory.v1.MsgBurn"), bytes)
      ∧ decodeFields bytes = some (burnFields b sender denom amount burnFrom) := by
  have hwf : ∀ b', ∀ f ∈ burnFields b' sender denom amount burnFrom, WFField f := by
    intro b' f hf
    unfold burnFields at hf
    simp only [List.mem_append, List.mem_singleton] at hf
    rcases hf with (h | h) | h
    · exact wf_strField 1 _ (by decide) f h
    · subst h; exact ⟨by show 1 ≤ 2; decide, trivial⟩
    · cases b' with
      | osmosis => exact wf_strField 3 _ (by decide) f h
      | miniwasm => simp at h
  cases b with
  | osmosis =>
    refine ⟨_, rfl, ?_⟩
    have : fString 1 sender ++ fMsg 2 (encCoin ⟨denom, amount⟩) ++ fString 3 burnFrom
        = encodeFields (burnFields .osmosis sender denom amount burnFrom) := by
      rw [fString_eq, fString_eq]
      simp [burnFields, encodeFields, encodeField, fMsg, lenDelim, Proto.tag, WVal.wireType]
    rw [this]; exact wire_roundtrip _ (hwf .osmosis)
  | miniwasm =>
    refine ⟨_, rfl, ?_⟩
    have : fString 1 sender ++ fMsg 2 (encCoin ⟨denom, amount⟩)
        = encodeFields (burnFields .miniwasm sender denom amount burnFrom) := by
      rw [fString_eq]
      simp [burnFields, encodeFields, encodeField, fMsg, lenDelim, Proto.tag, WVal.wireType]
    rw [this]; exact wire_roundtrip _ (hwf .miniwasm)

/-- MsgCreateDenom, both builds: sender (1) and sub-denom (2) -/
theorem create_denom_decodes (b : Build) (sender sub : String) :
    ∃ bytes, encodeMsg b (.createDenom sender sub)
        = some ((match b with | .osmosis => "/osmosis.tokenfactory.v1beta1.MsgCreateDenom"
                               | .miniwasm => "/miniwasm.tokenfactory.v1.MsgCreateDenom"), bytes)
      ∧ decodeFields bytes = some (strField 1 sender ++ strField 2 sub) := by
  have hb : fString 1 sender ++ fString 2 sub = encodeFields (strField 1 sender ++ strField 2 sub) := by
    rw [fString_eq, fString_eq]; simp [encodeFields]
  have hd : decodeFields (encodeFields (strField 1 sender ++ strField 2 sub)) = some (strField 1 sender ++ strField 2 sub) := by
    apply wire_roundtrip
    intro f hf
    rcases List.mem_append.mp hf with h | h
    · exact wf_strField 1 _ (by decide) f h
    · exact wf_strField 2 _ (by decide) f h
  cases b <;> exact ⟨_, by simp only [encodeMsg]; rw [hb], hd⟩

/-- which messages belong to the token factory -/
def isTf : Msg → Bool
  | .createDenom .. | .mint .. | .burn .. => true
  | _ => false

/-- every other message is encoded identically by the two builds -/
theorem other_msgs_build_independent (m : Msg) (h : isTf m = false) :
    encodeMsg .osmosis m = encodeMsg .miniwasm m := by
  cases m <;> simp [isTf] at h <;> rfl

/-- where the contract emits token-factory messages, with the contract as sender and holder, the
LST denom and the exact amount: instantiate creates the configured sub-denom … -/
theorem instantiate_creates_denom (env : Env) (info : Info) (msg : InstantiateMsg) (s : CState) (out : List SubMsg)
    (h : instantiate env info msg = .ok (s, out)) :
    out = [plain (.createDenom env.contract msg.lstSubdenom)]
      ∧ s.config.lstDenom = "factory/" ++ env.contract ++ "/" ++ msg.lstSubdenom := by
  unfold instantiate at h
  simp only [bind_ok, pure_ok] at h
  obtain ⟨_, _, _, _, _, _, sub, hsub, _, _, _, _, _, _, h⟩ := h
  cases h
  have : sub = msg.lstSubdenom := by
    unfold validateDenom at hsub; (repeat' split at hsub) <;> simp_all
  subst this
  exact ⟨rfl, rfl⟩

/-- … each stake mints exactly the minted amount of the LST denom to the contract itself … -/
theorem stake_mints (s s' : CState) (env : Env) (info : Info) (a : Nat) (mt : Option String) (tn : Option Bool)
    (ex : Option Nat) (out : List SubMsg) (h : liquidStake s env info a mt tn ex = .ok (s', out)) :
    ∃ m, out.head? = some (plain (.mint env.contract s.config.lstDenom m env.contract))
      ∧ s'.st.totalLst = (match sweep s.st with | .ok st => st.totalLst | .error _ => 0) + m
      ∧ ∀ x ∈ out.tail, isTf x.msg = false := by
  obtain ⟨st, m, id1, orc, _, hsw, _, _, _, _, horc, hcase⟩ := liquidStake_eff h
  have horc' : ∀ x ∈ orc, isTf x.msg = false := by
    intro x hx; obtain ⟨o, p, hxp⟩ := horc x hx; subst hxp; rfl
  rcases hcase with ⟨_, hs', hout⟩ | ⟨_, _, hs', hout⟩
  · refine ⟨m, by rw [hout]; simp, by rw [hs']; simp [hsw], ?_⟩
    intro x hx
    rw [hout] at hx
    simp only [List.cons_append, List.nil_append, List.tail_cons, List.mem_append, List.mem_singleton] at hx
    rcases hx with (hx | hx) | hx
    · exact horc' x hx
    · subst hx; rfl
    · subst hx; rfl
  · refine ⟨m, by rw [hout]; simp, by rw [hs']; simp [hsw], ?_⟩
    intro x hx
    rw [hout] at hx
    simp only [List.cons_append, List.nil_append, List.tail_cons, List.mem_append, List.mem_singleton] at hx
    rcases hx with (hx | hx) | hx
    · exact horc' x hx
    · subst hx; rfl
    · subst hx; rfl

/-- … and each batch submission burns exactly the batch total from the contract -/
theorem submit_burns (s s' : CState) (env : Env) (info : Info) (out : List SubMsg)
    (h : submitBatch s env info = .ok (s', out)) :
    ∃ batch, s.batches.find? s.pendingId = some batch
      ∧ out.head? = some (plain (.burn env.contract s.config.lstDenom batch.total env.contract))
      ∧ ∀ x ∈ out.tail, isTf x.msg = false := by
  obtain ⟨batch, _, orc, _, hb, _, _, _, _, horc, _, hout⟩ := submitBatch_eff h
  refine ⟨batch, hb, by rw [hout]; rfl, ?_⟩
  intro x hx
  rw [hout] at hx
  simp only [List.cons_append, List.nil_append, List.tail_cons] at hx
  obtain ⟨o, p, hxp⟩ := horc x hx; subst hxp; rfl

/-- the pinned chain definitions: (tag, kind, label, packed) with kind 1 = string, 9 = message and
label 0 = singular, 1 = optional -/
def pinned (name : String) : Option (List (Nat × Nat × Nat × Bool)) :=
  if name == "osmosis::tokenfactory::v1beta1::MsgCreateDenom" || name == "miniwasm::tokenfactory::v1::MsgCreateDenom"
  then some [(1, 1, 0, false), (2, 1, 0, false)]
  else if name == "osmosis::tokenfactory::v1beta1::MsgMint" || name == "miniwasm::tokenfactory::v1::MsgMint"
      || name == "osmosis::tokenfactory::v1beta1::MsgBurn"
  then some [(1, 1, 0, false), (2, 9, 1, false), (3, 1, 0, false)]
  else if name == "miniwasm::tokenfactory::v1::MsgBurn" then some [(1, 1, 0, false), (2, 9, 1, false)]
  else if name == "cosmos::base::v1beta1::Coin" then some [(1, 1, 0, false), (2, 1, 0, false)]
  else none

def pinnedUrl (name : String) : Option String :=
  if name == "osmosis::tokenfactory::v1beta1::MsgCreateDenom" then some "/osmosis.tokenfactory.v1beta1.MsgCreateDenom"
  else if name == "osmosis::tokenfactory::v1beta1::MsgMint" then some "/osmosis.tokenfactory.v1beta1.MsgMint"
  else if name == "osmosis::tokenfactory::v1beta1::MsgBurn" then some "/osmosis.tokenfactory.v1beta1.MsgBurn"
  else none

/-- the bindings the two builds are compiled against (regenerated from osmosis-std and from
packages/initia-proto on every run) have exactly the pinned field numbers, kinds and labels,
and osmosis-std's type URLs are the ones the model emits -/
theorem repo_schema_matches_chain :
    MW.Generated.emitted.all (fun e =>
      (match pinned e.2.1 with | some fs => e.2.2.2 == fs | none => true)
      && (match pinnedUrl e.2.1 with | some u => e.2.2.1 == u | none => true)) = true
    ∧ (MW.Generated.emitted.filter (fun e => (pinned e.2.1).isSome)).length = 8 := by
  decide +kernel

/-- non-vacuity: a concrete mint in the miniwasm build -/
example : (encodeMsg .miniwasm (.mint "c" "factory/c/stTIA" 500 "c")).map (·.1) = some "/miniwasm.tokenfactory.v1.MsgMint" := rfl

/-- **"each batch submission a burn", for every message**: whatever message turns a Pending batch into a Submitted one is
`SubmitBatch`, and its response carries the token-factory burn of exactly that batch's total by the contract from the
contract's own balance (in either build the message is encoded from these four values, `burn_*` above).  No other handler
— LiquidUnstake included — can submit a batch -/
theorem submission_carries_burn (s s' : CState) (env : Env) (info : Info) (m : ExecMsg) (out : List SubMsg)
    (hi : CInv s) (hx : execute s env info m = .ok (s', out)) (k : Nat) (b b' : Batch)
    (hb : s.batches.find? k = some b) (hb' : s'.batches.find? k = some b')
    (hs : b.status = .pending) (hs' : b'.status = .submitted) :
    m = .submitBatch ∧ plain (.burn env.contract s.config.lstDenom b.total env.contract) ∈ out := by
  have hkp : k = s.pendingId := by
    have hk := (hi.keys k).mp (by simp [hb])
    by_cases hlt : k < s.pendingId
    · rcases hi.older k b hb hlt with ⟨h1, _⟩ | ⟨h1, _⟩ <;> (rw [hs] at h1; cases h1)
    · omega
  cases execute_batchChange hx with
  | none m hbs _ =>
    rw [hbs, hb] at hb'; cases hb'; rw [hs] at hs'; cases hs'
  | unstake pb a isNew hpb _ hbs =>
    rw [hbs, hkp, AMap.find?_insert_self] at hb'
    cases hb'
    rw [hkp, hpb] at hb; cases hb
    simp only [grown] at hs'; rw [hs] at hs'; cases hs'
  | submit batch unbond _ hpb _ _ _ _ _ hbs =>
    refine ⟨rfl, ?_⟩
    rw [hkp, hpb] at hb; cases hb
    simp only [execute] at hx
    obtain ⟨batch2, _, orc, _, hb2, _, _, _, _, _, _, hout⟩ := submitBatch_eff hx
    rw [hpb] at hb2; cases hb2
    rw [hout]; simp
  | receive bid coin batch t _ _ _ hfind hst _ _ _ hbs =>
    have hid : batch.id = bid := hi.idKey _ batch hfind
    rw [hbs, hid] at hb'
    by_cases hkb : bid = k
    · subst hkb
      rw [hfind] at hb; cases hb
      rw [hs] at hst; cases hst
    · rw [AMap.find?_insert_other _ _ _ _ (fun e => hkb e.symm), hb] at hb'
      cases hb'; rw [hs] at hs'; cases hs'

/-- the statements of this file quantify over every message the staking contract accepts: the `ExecuteMsg` the source
declares (table regenerated from /repo's `msg.rs` on every run) has exactly the variants, fields and types of the
model's `ExecMsg`, and the contract exports exactly the modelled entry points.  A message or entry point added to the
source — which no generated history would exercise — breaks this theorem -/
theorem messages_are_the_modelled_ones :
    MW.Generated.Interface.staking_execute = MW.Interface.model_staking_execute
    ∧ (∀ m : MW.Staking.ExecMsg, MW.Interface.execTag m ∈ MW.Interface.names MW.Generated.Interface.staking_execute)
    ∧ MW.Generated.Interface.staking_entry_points = ["execute", "instantiate", "migrate", "query", "reply", "sudo"] :=
  ⟨MW.Interface.staking_execute_eq, MW.Interface.staking_execute_covered.2, MW.Interface.staking_entry_points_eq⟩

end MW.Props.C19
