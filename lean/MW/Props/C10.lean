import MW.Staking.Facts
import MW.Chain.World
import MW.Chain.Dispatch
import MW.Staking.Effects
import MW.Inv.WorldFlag
import MW.Inv.Demo
import MW.Staking.Interface
/-!
# C10 — Circuit breaker halts all value-moving user operations
-/
namespace MW.Props.C10
open MW MW.Staking MW.Chain

/-- a new contract is halted -/
theorem boot_halted (env : Env) (info : Info) (msg : InstantiateMsg) (s : CState) (out : List SubMsg)
    (h : instantiate env info msg = .ok (s, out)) : s.config.stopped = true := by
  unfold instantiate at h
  simp only [bind_ok, pure_ok] at h
  obtain ⟨_, _, _, _, _, _, _, _, _, _, _, _, _, _, h⟩ := h
  cases h; rfl

/-- the six value-moving handlers, as `execute` dispatches them -/
def valueMoving : ExecMsg → Bool
  | .liquidStake .. | .liquidUnstake | .submitBatch | .withdraw _ | .receiveRewards
  | .receiveUnstakedTokens _ => true
  | _ => false

/-- while halted each of the six operations fails with a typed error (never a panic, never
success), for every sender, funds, arguments and state -/
theorem halted_blocks (s : CState) (env : Env) (info : Info) (m : ExecMsg)
    (hm : valueMoving m = true) (hs : s.config.stopped = true) :
    ∃ e, execute s env info m = .error e ∧ e.isPanic = false := by
  cases m <;> simp [valueMoving] at hm
  case liquidStake mt tn ex =>
    simp only [execute]
    cases hp : mustPay info s.config.proto.ibcDenom with
    | error e =>
      exact ⟨e, by simp [bind, Except.bind], mustPay_err_not_panic hp⟩
    | ok pay =>
      refine ⟨.halted, ?_, rfl⟩
      simp [bind, Except.bind, liquidStake, checkStopped, hs, ensure]
  case liquidUnstake =>
    simp only [execute]
    cases hp : mustPay info s.config.lstDenom with
    | error e =>
      exact ⟨e, by simp [bind, Except.bind], mustPay_err_not_panic hp⟩
    | ok pay =>
      refine ⟨.halted, ?_, rfl⟩
      simp [bind, Except.bind, liquidUnstake, checkStopped, hs, ensure]
  case submitBatch =>
    exact ⟨.halted, by simp [execute, submitBatch, checkStopped, hs, ensure, bind, Except.bind], rfl⟩
  case withdraw b =>
    exact ⟨.halted, by simp [execute, withdraw, checkStopped, hs, ensure, bind, Except.bind], rfl⟩
  case receiveRewards =>
    exact ⟨.halted, by simp [execute, receiveRewards, checkStopped, hs, ensure, bind, Except.bind], rfl⟩
  case receiveUnstakedTokens b =>
    exact ⟨.halted, by simp [execute, receiveUnstaked, checkStopped, hs, ensure, bind, Except.bind], rfl⟩

/-- halting changes nothing but the flag, emits nothing, and only the admin or a monitor can -/
theorem breaker_frame (s s' : CState) (info : Info) (out : List SubMsg)
    (h : circuitBreaker s info = .ok (s', out)) :
    s' = { s with config := { s.config with stopped := true } } ∧ out = []
      ∧ (s.admin = some info.sender ∨ info.sender ∈ s.config.monitors) := by
  unfold circuitBreaker at h
  simp only [bind_ok, ensure_ok, pure_ok] at h
  obtain ⟨_, hg, h⟩ := h
  cases h
  refine ⟨rfl, rfl, ?_⟩
  simp only [Bool.or_eq_true] at hg
  rcases hg with hg | hg
  · left; exact assertAdmin_isOk.mp hg
  · right; simpa using hg

/-- only the admin can resume; resuming clears the flag, sets the three totals to exactly the
supplied values and nothing else; the messages are the oracle update for the new totals -/
theorem resume_exact (s s' : CState) (env : Env) (info : Info) (n l r : Nat) (out : List SubMsg)
    (h : resumeContract s env info n l r = .ok (s', out)) :
    s.admin = some info.sender
      ∧ s' = { s with config := { s.config with stopped := false },
                      st := { s.st with totalNative := n, totalLst := l, totalReward := r } }
      ∧ updateOracleMsgs s' env s'.config = .ok out := by
  unfold resumeContract at h
  simp only [bind_ok, pure_ok] at h
  obtain ⟨_, ha, o, ho, h⟩ := h
  cases h
  exact ⟨assertAdmin_ok.mp ha, rfl, ho⟩

/-- **without effect, on the chain model.**  While the contract is halted, a transaction carrying any
of the six value-moving messages — from any account, with any funds, under any fault assignment —
does not commit and leaves the *whole world* as it was: the contract store, every bank balance
(the funds attached to the message stay with the sender), the LST supply and the packet list. -/
theorem halted_tx_without_effect (w : World) (sender : String) (funds : List Coin) (m : ExecMsg) (f : Faults)
    (txi : Option Nat) (hm : valueMoving m = true) (hs : w.c.config.stopped = true) :
    (step w (.exec sender funds m f txi)).w = w ∧ (step w (.exec sender funds m f txi)).committed = false := by
  simp only [step, runExec, runExecCore]
  split
  · rename_i w' calls heq
    exfalso
    split at heq
    · cases heq
    · rename_i bal1 _
      obtain ⟨e, he, _⟩ := halted_blocks ({ w with bal := bal1 } : World).c (({ w with bal := bal1 } : World).env txi)
        { sender, funds } m hm hs
      simp only [he] at heq
      cases heq
  · exact ⟨rfl, rfl⟩

/-- the same for the two operator deliveries arriving through ibc-hooks: the transfer that carries a
`ReceiveRewards` / `ReceiveUnstakedTokens` (or any other value-moving message) to a halted contract is
rejected as a whole — the world, including the hook account's balance, is unchanged -/
theorem halted_hook_without_effect (w : World) (channel nativeSender : String) (coin : Coin) (m : ExecMsg) (f : Faults)
    (hm : valueMoving m = true) (hs : w.c.config.stopped = true) :
    (step w (.hook channel nativeSender coin m f)).w = w
    ∧ (step w (.hook channel nativeSender coin m f)).committed = false := by
  simp only [step]
  split
  · exact ⟨rfl, rfl⟩
  · rename_i acct _
    split
    · exact ⟨rfl, rfl⟩
    · have h := halted_tx_without_effect { w with bal := w.bal.add acct coin.denom coin.amount } acct [coin] m f (some 0) hm hs
      simp only [step] at h
      simp only [h.2, Bool.false_eq_true, ↓reduceIte, and_self]

/-- **halting and resuming, on the chain model.**  A committed `CircuitBreaker` (sent without funds)
changes nothing in the whole world but the halted flag; a committed `ResumeContract` changes nothing
but the flag and the three totals, which become exactly the values supplied — every bank balance, the
LST supply, the packet list and the rest of the contract store are as before. -/
theorem breaker_tx_exact (w : World) (sender : String) (f : Faults) (txi : Option Nat)
    (hc : (step w (.exec sender [] .circuitBreaker f txi)).committed = true) :
    (step w (.exec sender [] .circuitBreaker f txi)).w
      = { w with c := { w.c with config := { w.c.config with stopped := true } } } := by
  simp only [step, runExec] at hc ⊢
  cases hcore : runExecCore w sender [] .circuitBreaker f txi with
  | mk o calls =>
    cases o with
    | none => simp [hcore] at hc
    | some w' =>
      simp only [hcore]
      obtain ⟨bal1, c', msgs, d, hbal, hx, hd, hw'⟩ := runExecCore_some hcore
      simp only [List.isEmpty_nil, ↓reduceIte, Option.some.injEq] at hbal
      subst hbal hw'
      simp only [execute] at hx
      obtain ⟨hs', hout, _⟩ := breaker_frame _ _ _ _ hx
      subst hs' hout
      have := dispatchAll_nil_ok hd; subst this
      rfl

theorem resume_tx_exact (w : World) (sender : String) (n l r : Nat) (f : Faults) (txi : Option Nat)
    (hc : (step w (.exec sender [] (.resumeContract n l r) f txi)).committed = true) :
    (step w (.exec sender [] (.resumeContract n l r) f txi)).w
      = { w with c := { w.c with config := { w.c.config with stopped := false },
                                 st := { w.c.st with totalNative := n, totalLst := l, totalReward := r } } } := by
  simp only [step, runExec] at hc ⊢
  cases hcore : runExecCore w sender [] (.resumeContract n l r) f txi with
  | mk o calls =>
    cases o with
    | none => simp [hcore] at hc
    | some w' =>
      simp only [hcore]
      obtain ⟨bal1, c', msgs, d, hbal, hx, hd, hw'⟩ := runExecCore_some hcore
      simp only [List.isEmpty_nil, ↓reduceIte, Option.some.injEq] at hbal
      subst hbal hw'
      simp only [execute] at hx
      obtain ⟨_, hs', horc⟩ := resume_exact _ _ _ _ _ _ _ _ hx
      subst hs'
      have := dispatchAll_oracle (oracle_msgs_shape horc) hd
      subst this
      rfl

/-- non-vacuity: a halted state exists in which a stake with otherwise valid inputs is refused -/
example : ∃ e, execute { (default : CState) with config := { (default : Config) with stopped := true } }
    default { sender := "x", funds := [⟨"", 5⟩] } (.liquidStake none none none) = .error e := ⟨.halted, rfl⟩

/-- "halting by the admin or any monitor": for the admin and for every account on the monitor list — wherever it stands in
the list, whatever the state, halted already or not — CircuitBreaker succeeds (and, `breaker_frame`, changes nothing but
the flag); conversely (`breaker_frame`) it succeeds for nobody else -/
theorem breaker_succeeds_for_admin_and_monitors (s : CState) (info : Info)
    (h : s.admin = some info.sender ∨ info.sender ∈ s.config.monitors) :
    circuitBreaker s info = .ok ({ s with config := { s.config with stopped := true } }, []) := by
  unfold circuitBreaker
  have hc : isOk (assertAdmin s info.sender) = true ∨ info.sender ∈ s.config.monitors := by
    rcases h with h | h
    · exact .inl (assertAdmin_isOk.mpr h)
    · exact .inr h
  simp [ensure, hc, bind, Except.bind, pure, Except.pure]

/-- whatever message succeeds, for whatever sender: the halted flag afterwards is set by CircuitBreaker, cleared by
ResumeContract and unchanged by every other message (UpdateConfig with any sections included) -/
theorem flag_changes_only_by (s s' : CState) (env : Env) (info : Info) (m : ExecMsg) (out : List SubMsg)
    (h : execute s env info m = .ok (s', out)) :
    s'.config.stopped = (match m with
      | .circuitBreaker => true
      | .resumeContract .. => false
      | _ => s.config.stopped) := by
  have := execute_stopped h
  cases m <;> exact this

/-- callbacks and replies never touch the flag (nor any other part of the configuration) -/
theorem callbacks_keep_config (s s' : CState) (out : List SubMsg) :
    (∀ id res, reply s id res = .ok (s', out) → s'.config = s.config)
    ∧ (∀ m, sudo s m = .ok (s', out) → s'.config = s.config) :=
  ⟨fun _ _ h => reply_config h, fun _ h => sudo_config h⟩

/-- **every event of the chain model** (a transaction by anybody with any funds, message and faults, an ibc-hooks
delivery, an acknowledgement, a timeout, a stray callback, a donation, a clock advance): the flag afterwards is what
the event itself defines -/
theorem C10_flag_step (w : World) (e : Event) : (step w e).w.c.config.stopped = flagAfter w e := step_flag w e

/-- **every history**: the contract is halted after a history exactly when the history says so — it starts halted,
each committed CircuitBreaker halts it, each committed ResumeContract resumes it, nothing else changes it.  With
`halted_tx_without_effect` / `halted_hook_without_effect` this is the first sentence of the property for whole
executions: from instantiation until the first committed ResumeContract, and after every committed CircuitBreaker
until the next committed ResumeContract, none of the six operations has any effect. -/
theorem C10_flag_history {env : Env} {info : Info} {msg : InstantiateMsg} {c0 : CState} {out : List SubMsg}
    (hi : instantiate env info msg = .ok (c0, out)) (self pfx : String) (t hgt : Nat) (evs : List Event) :
    (runW (bootWorld c0 self pfx t hgt) {} evs).1.c.config.stopped = histFlagV true (bootWorld c0 self pfx t hgt) evs :=
  world_history_flag hi self pfx t hgt evs

/-! non-vacuity (tests of the statement on the demo history): halted before the first event, running after the
resume that opens the demo history and through all its transactions, halted again after a monitor-less admin
CircuitBreaker appended to it, and an UpdateConfig in between changes nothing -/
section Demo
open MW.Chain.Demo
#guard (demoBoot.map fun w => histFlagV true w []) == some true
#guard (demoBoot.map fun w => histFlagV true w demoEvents) == some false
#guard (demoBoot.map fun w => (runW w {} demoEvents).1.c.config.stopped) == some false
#guard (demoBoot.map fun w => histFlagV true w (demoEvents ++ [.exec demoAdmin [] .circuitBreaker {} (some 0),
          .exec demoAdmin [] (.updateConfig none none none none (some 100)) {} (some 0)])) == some true
#guard (demoBoot.map fun w =>
          let c := (runW w {} (demoEvents ++ [.exec demoAdmin [] .circuitBreaker {} (some 0),
            .exec demoAdmin [] (.updateConfig none none none none (some 100)) {} (some 0)])).1.c.config
          (c.stopped, c.batchPeriod)) == some (true, 100)
end Demo

/-- the value-moving operations are six of the sixteen messages the source declares (table regenerated from /repo on
every run); every other message is classified by `valueMoving` as not value-moving, and a message added to the source
breaks `MW.Interface.staking_execute_eq` -/
theorem value_moving_are_source_messages :
    (MW.Interface.execSamples.filter valueMoving).map MW.Interface.execTag
      = ["liquid_stake", "liquid_unstake", "receive_rewards", "receive_unstaked_tokens", "submit_batch", "withdraw"]
    ∧ MW.Interface.names MW.Generated.Interface.staking_execute = MW.Interface.execSamples.map MW.Interface.execTag :=
  ⟨by decide +kernel, MW.Interface.staking_execute_covered.1⟩

end MW.Props.C10
