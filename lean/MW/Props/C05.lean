import MW.Staking.Facts
import MW.Inv.ReqHistory
import MW.Inv.Demo
import MW.Chain.Dispatch
import MW.Staking.Interface
/-!
# C05 — Pro-rata, at-most-once withdrawal of unbonded tokens

Single-transaction statements first (`withdraw_pays`, `withdraw_once`, …), then the statements over
every reachable state (`batch_total_is_sum`, `single_payout_bounded`) and over every history after a
batch became Received (`payouts_every_history`, `no_request_no_payout`: what a requester is paid is
fixed at receipt, whatever calls follow in whatever order).  The bound "payouts of a batch never add
up to more than was received" over histories is `MW.Props.C02.payouts_bounded`.
-/
namespace MW.Props.C05
open MW MW.Staking

theorem findReq_removeReq (reqs : List Req) (b : Nat) (u : String) : findReq (removeReq reqs b u) b u = none := by
  unfold findReq removeReq
  rw [List.find?_eq_none]
  intro r hr
  simp only [List.mem_filter] at hr
  have h2 := hr.2
  simp only [Bool.not_eq_true'] at h2
  simp [h2]

theorem findReq_removeReq_other (reqs : List Req) (b b' : Nat) (u u' : String) (h : ¬ (b' = b ∧ u' = u)) :
    findReq (removeReq reqs b u) b' u' = findReq reqs b' u' := by
  unfold findReq removeReq
  induction reqs with
  | nil => rfl
  | cons r rest ih =>
    simp only [List.filter_cons]
    by_cases hk : (r.batch = b ∧ r.user = u)
    · have : (!(decide (r.batch = b) && decide (r.user = u))) = false := by simp [hk.1, hk.2]
      rw [this]; simp only [Bool.false_eq_true, ↓reduceIte]
      rw [ih, List.find?_cons]
      have : (decide (r.batch = b') && decide (r.user = u')) = false := by
        simp only [Bool.and_eq_false_iff, decide_eq_false_iff_not]
        by_cases h1 : r.batch = b'
        · right; intro h2; exact h ⟨by rw [← h1, hk.1], by rw [← h2, hk.2]⟩
        · left; exact h1
      rw [this]
    · have : (!(decide (r.batch = b) && decide (r.user = u))) = true := by
        simp only [Bool.not_eq_true', Bool.and_eq_false_iff, decide_eq_false_iff_not]
        by_cases h1 : r.batch = b
        · right; intro h2; exact hk ⟨h1, h2⟩
        · left; exact h1
      rw [this]; simp only [↓reduceIte, List.find?_cons]
      rw [ih]

/-- a successful Withdraw: the batch is Received, the caller holds a request in it, the single
value message pays the caller floor(received × ownRequest / batchTotal) of the staked asset, and
exactly the caller's request in that batch is deleted (all others, the batches and the
accounting totals are untouched) -/
theorem withdraw_pays (s s' : CState) (env : Env) (info : Info) (b : Nat) (out : List SubMsg)
    (h : withdraw s env info b = .ok (s', out)) :
    ∃ batch recv req orc, s.batches.find? b = some batch ∧ batch.status = .received
      ∧ batch.received = some recv ∧ findReq s.reqs batch.id info.sender = some req
      ∧ batch.total ≠ 0
      ∧ out = plain (.msgSend env.contract info.sender
                [⟨s.config.proto.ibcDenom, recv * req.amount / batch.total⟩]) :: orc
      ∧ (∀ m ∈ orc, ∃ o p, m = plain (.wasmExec env.contract o p))
      ∧ s' = { s with reqs := removeReq s.reqs batch.id info.sender }
      ∧ findReq s'.reqs batch.id info.sender = none := by
  unfold withdraw at h
  simp only [bind_ok, ensure_ok, loadSome_ok, pure_ok, mulRatio_ok] at h
  obtain ⟨_, _, batch, hb, _, hst, recv, hrecv, req, hr, amt, ⟨hT, _, hamt⟩, orc, ho, h⟩ := h
  cases h
  refine ⟨batch, recv, req, orc, hb, by simpa using hst, hrecv, hr, hT, by rw [hamt]; rfl, ?_, rfl, findReq_removeReq _ _ _⟩
  unfold updateOracleMsgs at ho
  split at ho
  · cases ho; simp
  · simp only [bind_ok, pure_ok] at ho
    obtain ⟨_, _, ho⟩ := ho; subst ho
    intro m hm; simp at hm; exact ⟨_, _, hm⟩

/-- at most once: immediately after a successful Withdraw the same caller's second Withdraw of
that batch fails, at any later time and with any funds -/
theorem withdraw_once (s s' : CState) (env env' : Env) (info : Info) (f' : List Coin) (b : Nat) (out : List SubMsg)
    (h : withdraw s env info b = .ok (s', out)) :
    ∃ e, withdraw s' env' ⟨info.sender, f'⟩ b = .error e ∧ e.isPanic = false := by
  obtain ⟨batch, recv, req, orc, hb, hst, hrecv, hr, _, _, _, hs', hnone⟩ := withdraw_pays s s' env info b out h
  have hb' : s'.batches.find? b = some batch := by rw [hs']; exact hb
  by_cases hstop : s'.config.stopped = true
  · exact ⟨.halted, by simp [withdraw, checkStopped, hstop, ensure, bind, Except.bind], rfl⟩
  · refine ⟨.noRequestInBatch, ?_, rfl⟩
    have hstop' : s'.config.stopped = false := by simpa using hstop
    simp [withdraw, checkStopped, hstop', ensure, bind, Except.bind, hb', loadSome, hst, hrecv, hnone]

/-- accounts without a request in the batch get an error and nothing -/
theorem withdraw_without_request (s : CState) (env : Env) (info : Info) (b : Nat)
    (hn : ∀ batch, s.batches.find? b = some batch → findReq s.reqs batch.id info.sender = none) :
    ∃ e, withdraw s env info b = .error e := by
  cases hx : withdraw s env info b with
  | error e => exact ⟨e, rfl⟩
  | ok r =>
    obtain ⟨s', out⟩ := r
    obtain ⟨batch, _, req, _, hb, _, _, hr, _⟩ := withdraw_pays s s' env info b out hx
    rw [hn batch hb] at hr; cases hr

/-- the payout of one request depends only on that batch's (received, total) and the request:
withdrawals of other (batch, user) pairs do not change it -/
theorem withdraw_frame_others (s s' : CState) (env : Env) (info : Info) (b : Nat) (out : List SubMsg)
    (h : withdraw s env info b = .ok (s', out)) (b' : Nat) (u' : String) :
    s'.batches = s.batches
    ∧ (∀ batch, s.batches.find? b = some batch → ¬ (b' = batch.id ∧ u' = info.sender) →
        findReq s'.reqs b' u' = findReq s.reqs b' u') := by
  obtain ⟨batch, _, _, _, hb, _, _, _, _, _, _, hs', _⟩ := withdraw_pays s s' env info b out h
  subst hs'
  refine ⟨rfl, ?_⟩
  intro batch' hb' hne
  rw [hb] at hb'; cases hb'
  exact findReq_removeReq_other _ _ _ _ _ hne

theorem findReq_setReqAmount (reqs : List Req) (p : Nat) (u : String) (a : Nat) (r : Req)
    (h : findReq reqs p u = some r) : findReq (setReqAmount reqs p u a) p u = some { r with amount := a } := by
  unfold findReq setReqAmount at *
  induction reqs with
  | nil => simp at h
  | cons x rest ih =>
    simp only [List.map_cons, List.find?_cons] at h ⊢
    by_cases hk : (decide (x.batch = p) && decide (x.user = u)) = true
    · simp only [hk, ↓reduceIte] at h ⊢
      cases h
      simp only [Bool.and_eq_true, decide_eq_true_eq] at hk
      simp [hk.1, hk.2]
    · have hk' : (decide (x.batch = p) && decide (x.user = u)) = false := by simpa using hk
      simp only [hk', Bool.false_eq_true, ↓reduceIte] at h ⊢
      exact ih h

theorem findReq_append_new (reqs : List Req) (p : Nat) (u : String) (a : Nat)
    (h : findReq reqs p u = none) : findReq (reqs ++ [{ batch := p, user := u, amount := a }]) p u
      = some { batch := p, user := u, amount := a } := by
  unfold findReq at *
  rw [List.find?_append, h]
  simp

/-- repeated unstakes by one account in the pending batch accumulate into one request; the
batch total grows by exactly the amount handed in; nothing is emitted -/
theorem unstake_accumulates (s s' : CState) (env : Env) (info : Info) (a : Nat) (out : List SubMsg)
    (h : liquidUnstake s env info a = .ok (s', out)) :
    out = [] ∧ s'.pendingId = s.pendingId
    ∧ (∃ b, s.batches.find? s.pendingId = some b
        ∧ s'.batches = s.batches.insert s.pendingId (grown b a (findReq s.reqs s.pendingId info.sender).isNone))
    ∧ (∀ r, findReq s.reqs s.pendingId info.sender = some r →
          findReq s'.reqs s.pendingId info.sender = some { r with amount := r.amount + a }
          ∧ s'.reqs.length = s.reqs.length)
    ∧ (findReq s.reqs s.pendingId info.sender = none →
          s'.reqs = s.reqs ++ [{ batch := s.pendingId, user := info.sender, amount := a }]) := by
  unfold liquidUnstake at h
  simp only [bind_ok, loadSome_ok, pure_ok, add128_ok] at h
  obtain ⟨_, _, up, hup, b, hb, tot, ⟨_, htot⟩, cnt, hcnt, h⟩ := h
  cases h
  unfold upsertReq at hup
  refine ⟨rfl, rfl, ⟨b, hb, ?_⟩, ?_, ?_⟩
  · cases hf : findReq s.reqs s.pendingId info.sender with
    | none =>
      rw [hf] at hup; simp only [pure_ok] at hup; cases hup
      simp only [bumpCount, ↓reduceIte, bind_ok, pure_ok, add64_ok] at hcnt
      obtain ⟨c, ⟨_, hc⟩, hcnt⟩ := hcnt
      subst hcnt hc htot; simp [grown]
    | some r =>
      rw [hf] at hup; simp only [bind_ok, pure_ok] at hup
      obtain ⟨_, _, hup⟩ := hup; cases hup
      simp only [bumpCount, Bool.false_eq_true, ↓reduceIte, pure_ok] at hcnt
      subst hcnt htot; simp [grown]
  · intro r hr
    rw [hr] at hup; simp only [bind_ok, pure_ok, add128_ok] at hup
    obtain ⟨x, ⟨_, hx⟩, hup⟩ := hup; cases hup
    subst hx
    exact ⟨findReq_setReqAmount _ _ _ _ _ hr, by simp [setReqAmount]⟩
  · intro hn
    rw [hn] at hup; simp only [pure_ok] at hup; cases hup; rfl

/-- Σ floor(R·rᵢ/T) ≤ floor(R·Σrᵢ/T): pro-rata payouts of any set of requests never exceed the
pro-rata share of their sum -/
theorem sum_floor_le (R T : Nat) (rs : List Nat) :
    (rs.map (fun r => R * r / T)).sum ≤ R * rs.sum / T := by
  induction rs with
  | nil => simp
  | cons r rest ih =>
    simp only [List.map_cons, List.sum_cons]
    have h1 : R * r / T + R * rest.sum / T ≤ (R * r + R * rest.sum) / T := by
      by_cases hT : T = 0
      · subst hT; simp
      · rw [Nat.le_div_iff_mul_le (Nat.pos_of_ne_zero hT), Nat.add_mul]
        have a1 := Nat.div_mul_le_self (R * r) T
        have a2 := Nat.div_mul_le_self (R * rest.sum) T
        omega
    rw [Nat.mul_add]
    omega

/-- hence, if the requests of a batch sum to at most its total, their payouts sum to at most
what was received -/
theorem payouts_le_received (R T : Nat) (rs : List Nat) (h : rs.sum ≤ T) :
    (rs.map (fun r => R * r / T)).sum ≤ R := by
  by_cases hT : T = 0
  · subst hT
    have := sum_floor_le R 0 rs
    rw [Nat.div_zero] at this
    omega
  · calc (rs.map (fun r => R * r / T)).sum ≤ R * rs.sum / T := sum_floor_le R T rs
      _ ≤ R * T / T := Nat.div_le_div_right (Nat.mul_le_mul_left R h)
      _ = R := Nat.mul_div_cancel R (Nat.pos_of_ne_zero hT)

/-- in every reachable state: request keys (batch, user) are unique, every request is positive,
the open requests of a batch sum to exactly its total until the batch is Received, and to at
most its total afterwards (the difference being the requests already withdrawn) -/
theorem batch_total_is_sum (s : CState) (h : CReach s) :
    KeysNodup s.reqs ∧ (∀ r ∈ s.reqs, 0 < r.amount)
    ∧ ∀ k b, s.batches.find? k = some b →
        sumReqs s.reqs k ≤ b.total ∧ (b.status ≠ .received → sumReqs s.reqs k = b.total) := by
  have hi := cinv_reach h
  exact ⟨hi.rkeys, fun r hr => (hi.rpos r hr).1, hi.sums⟩

/-- a withdrawal in a reachable state never divides by zero and never pays more than the
batch received: own ≤ total, so floor(received·own/total) ≤ received -/
theorem single_payout_bounded (s s' : CState) (hr : CReach s) (env : Env) (info : Info) (b : Nat)
    (out : List SubMsg) (h : withdraw s env info b = .ok (s', out)) :
    ∃ batch recv req, s.batches.find? b = some batch ∧ batch.received = some recv
      ∧ findReq s.reqs batch.id info.sender = some req ∧ req.amount ≤ batch.total
      ∧ recv * req.amount / batch.total ≤ recv := by
  have hi := cinv_reach hr
  obtain ⟨batch, recv, req, _, hb, _, hrecv, hreq, hT, _⟩ := withdraw_pays s s' env info b out h
  have hid := hi.idKey _ batch hb
  have hsum := (hi.sums b batch hb).1
  have hmem := findReq_some_mem hreq
  have hle : req.amount ≤ sumReqs s.reqs b := by
    have := sumReqs_removeReq hi.rkeys hreq b
    rw [hid] at this; simp only [↓reduceIte] at this; omega
  refine ⟨batch, recv, req, hb, hrecv, hreq, by omega, ?_⟩
  apply Nat.div_le_of_le_mul
  rw [Nat.mul_comm batch.total recv]
  exact Nat.mul_le_mul_left recv (by omega)

/-- **order and timing independence, at most once, exact amount — every history.**  From any
reachable state in which batch `k` is Received and `u` holds the request `r` in it, after *any*
sequence of entry-point calls (any accounts, messages, funds, block times, replies, callbacks):
the batch record is unchanged, and the payments made to `u` out of batch `k` along the way are
either none (the request is still there, unchanged) or exactly one, of
`floor(received × own / total)` (and the request is gone). -/
theorem payouts_every_history (s : CState) (hr : CReach s) (evs : List CEv) (k : Nat) (u : String) (b : Batch)
    (recv : Nat) (r : Req) (hb : s.batches.find? k = some b) (hst : b.status = .received)
    (hrecv : b.received = some recv) (hreq : findReq s.reqs k u = some r) :
    (List.foldl cstep s evs).batches.find? k = some b
    ∧ ((findReq (List.foldl cstep s evs).reqs k u = some r ∧ payoutsOf k u s evs = [])
       ∨ (findReq (List.foldl cstep s evs).reqs k u = none ∧ payoutsOf k u s evs = [recv * r.amount / b.total])) :=
  payouts_fixed (cinv_reach hr) evs hb hst hrecv hreq

/-- accounts without a request in a Received batch are never paid from it, along every history
(a request in a batch that is no longer pending cannot be created) -/
theorem no_request_no_payout (s : CState) (hr : CReach s) (evs : List CEv) (k : Nat) (u : String) (b : Batch)
    (hb : s.batches.find? k = some b) (hst : b.status = .received) (hreq : findReq s.reqs k u = none) :
    findReq (List.foldl cstep s evs).reqs k u = none ∧ payoutsOf k u s evs = [] :=
  gone_history (cinv_reach hr) evs hb hst hreq

/-- **receives — on the chain model.**  A committed `Withdraw {k}` transaction sent (without funds)
by an account `u` other than the contract moves exactly `floor(received × own / total)` of the staked
asset from the contract's bank balance to `u`'s, leaves every other account's balance of that asset
as it was, and deletes `u`'s request; whatever oracle is configured and whatever the fault
assignment. -/
theorem withdraw_tx_pays (w : MW.Chain.World) (u : String) (k : Nat) (f : MW.Chain.Faults) (txi : Option Nat)
    (hu : u ≠ w.self) (hc : (MW.Chain.step w (.exec u [] (.withdraw k) f txi)).committed = true) :
    ∃ batch recv req, w.c.batches.find? k = some batch ∧ batch.status = .received ∧ batch.received = some recv
      ∧ findReq w.c.reqs batch.id u = some req
      ∧ (let w' := (MW.Chain.step w (.exec u [] (.withdraw k) f txi)).w
         let D := w.c.config.proto.ibcDenom
         let amt := recv * req.amount / batch.total
         w'.bal u D = w.bal u D + amt ∧ amt ≤ w.bal w.self D ∧ w'.bal w.self D = w.bal w.self D - amt
         ∧ (∀ a, a ≠ u → a ≠ w.self → w'.bal a D = w.bal a D)
         ∧ findReq w'.c.reqs batch.id u = none) := by
  simp only [MW.Chain.step, MW.Chain.runExec] at hc ⊢
  cases hcore : MW.Chain.runExecCore w u [] (.withdraw k) f txi with
  | mk o calls =>
    cases o with
    | none => simp [hcore] at hc
    | some w' =>
      simp only [hcore]
      obtain ⟨bal1, c', msgs, d, hbal, hx, hd, hw'⟩ := MW.Chain.runExecCore_some hcore
      simp only [List.isEmpty_nil, ↓reduceIte, Option.some.injEq] at hbal
      subst hbal hw'
      obtain ⟨batch, recv, req, orc, _, hb, hst, hrecv, hreq, _, horc, hs', hout⟩ := withdraw_eff (by simpa [execute] using hx)
      refine ⟨batch, recv, req, hb, hst, hrecv, hreq, ?_⟩
      subst hout
      obtain ⟨d1, h1, h2⟩ := MW.Chain.dispatchAll_append_ok hd
      obtain ⟨d0', h3, h4⟩ := MW.Chain.dispatchAll_cons_ok h1
      have := MW.Chain.dispatchAll_nil_ok h4; subst this
      have := MW.Chain.dispatchAll_oracle horc h2; subst this
      obtain ⟨_, b, hbm, hd'⟩ := MW.Chain.dispatch_msgSend_ok h3
      subst hd'
      obtain ⟨g1, g2, g3, g4⟩ := MW.Chain.bankMove_ok (fun e => hu e.symm) hbm w.c.config.proto.ibcDenom
      simp only [MW.Chain.coinSum, ↓reduceIte, Nat.add_zero] at g1 g2 g3 g4
      refine ⟨g1, g2, g3, fun a ha hs => g4 a hs ha, ?_⟩
      subst hs'
      exact findReq_removeReq _ _ _

section Demo
open MW.Chain.Demo

private def u1 : String := demoUser
private def u2 : String := "osmo1fl48vsnmsdzcv85q5d2q4z5ajdha8yu3aq6l09"
private def hookStaker : String := (deriveIntermediateSender "channel-7" demoStaker "osmo").getD ""
private def envAt (dS : Nat) : Env := { demoEnv with timeNs := demoEnv.timeNs + dS * 1000000000 }

/-- boot, resume with totals 1000/1000, two unstakes (100 and 200) into batch 1, submission after the
batch period, 1000 received after the unbonding period -/
private def demoReceived : Option CState :=
  match instantiate demoEnv { sender := demoAdmin, funds := [] } demoMsg with
  | .error _ => none
  | .ok (c, _) => some (List.foldl cstep c
      [ .exec demoEnv ⟨demoAdmin, []⟩ (.resumeContract 1000 1000 0),
        .exec demoEnv ⟨u1, [⟨demoX, 100⟩]⟩ .liquidUnstake,
        .exec demoEnv ⟨u2, [⟨demoX, 200⟩]⟩ .liquidUnstake,
        .exec (envAt 86400) ⟨u2, []⟩ .submitBatch,
        .exec (envAt (86400 + 1814400)) ⟨hookStaker, [⟨demoD, 1000⟩]⟩ (.receiveUnstakedTokens 1) ])

/-- calls after receipt, in an arbitrary order: u2 withdraws, a stranger tries, u1 unstakes into the
next batch, u1 withdraws, u1 tries again, u2 tries again -/
private def demoAfter : List CEv :=
  [ .exec (envAt 3000000) ⟨u2, []⟩ (.withdraw 1),
    .exec (envAt 3000001) ⟨demoAdmin, []⟩ (.withdraw 1),
    .exec (envAt 3000002) ⟨u1, [⟨demoX, 5⟩]⟩ .liquidUnstake,
    .sudo (.timeout "channel-7" 99),
    .exec (envAt 3000003) ⟨u1, []⟩ (.withdraw 1),
    .exec (envAt 3000004) ⟨u1, []⟩ (.withdraw 1),
    .exec (envAt 3000005) ⟨u2, []⟩ (.withdraw 1) ]

-- non-vacuity of `payouts_every_history` / `no_request_no_payout` (tests of the hypotheses, not proofs):
-- the state is reachable by construction, batch 1 is Received with 1000 for a total of 300, and the
-- history above pays 333 to u1 and 666 to u2, each exactly once, and nothing to the stranger
#guard (demoReceived.map fun s => (s.batches.find? 1).map fun b => (b.status == .received, b.received, b.total))
        == some (some (true, some 1000, 300))
#guard (demoReceived.map fun s => ((findReq s.reqs 1 u1).map (·.amount), (findReq s.reqs 1 u2).map (·.amount)))
        == some (some 100, some 200)
#guard (demoReceived.map fun s => (payoutsOf 1 u1 s demoAfter, payoutsOf 1 u2 s demoAfter, payoutsOf 1 demoAdmin s demoAfter))
        == some ([333], [666], [])
end Demo

/-- arithmetic of the demo: 1000 received for a batch of 300 with requests 100 and 200 pays 333 and 666 -/
example : 1000 * 100 / 300 = 333 ∧ 1000 * 200 / 300 = 666 ∧ 333 + 666 ≤ 1000 := by decide

/-- the statements of this file quantify over every message the staking contract accepts: the `ExecuteMsg` the source
declares (table regenerated from /repo's `msg.rs` on every run) has exactly the variants, fields and types of the
model's `ExecMsg`, and the contract exports exactly the modelled entry points.  A message or entry point added to the
source — which no generated history would exercise — breaks this theorem -/
theorem messages_are_the_modelled_ones :
    MW.Generated.Interface.staking_execute = MW.Interface.model_staking_execute
    ∧ (∀ m : MW.Staking.ExecMsg, MW.Interface.execTag m ∈ MW.Interface.names MW.Generated.Interface.staking_execute)
    ∧ MW.Generated.Interface.staking_entry_points = ["execute", "instantiate", "migrate", "query", "reply", "sudo"] :=
  ⟨MW.Interface.staking_execute_eq, MW.Interface.staking_execute_covered.2, MW.Interface.staking_entry_points_eq⟩

end MW.Props.C05
