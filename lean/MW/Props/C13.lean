import MW.Treasury.Model
import MW.Proto.Msgs
import MW.Staking.Interface
/-!
# C13 — Treasury: trader-only swaps on allow-listed routes; admin-only spending
-/
namespace MW.Props.C13
open MW MW.Staking MW.Treasury

/-- route membership is plain list equality with an allow-listed route (hops, order, pools,
denoms): prefixes, suffixes, reorderings and concatenations are simply different lists -/
theorem routeAllowed_iff (cfg : TConfig) (routes : List SwapRoute) :
    routeAllowed cfg routes = true ↔ routes ≠ [] ∧ routes ∈ cfg.routes := by
  unfold routeAllowed
  simp only [Bool.and_eq_true, Bool.not_eq_true', List.any_eq_true, beq_iff_eq]
  constructor
  · rintro ⟨h1, r, hr, rfl⟩
    exact ⟨by intro h; simp [h] at h1, hr⟩
  · rintro ⟨h1, h2⟩
    exact ⟨by cases routes <;> simp_all, routes, h2, rfl⟩

/-- exact-in swap: trader only, allow-listed route, first input denom = offered coin; the emitted
message reproduces route, coin and limit with the treasury as sender; the store is untouched -/
theorem swap_in_sound (s s' : TState) (env : Env) (info : Info) (routes : List SwapRoute) (coin : Coin)
    (lim : Nat) (out : List SubMsg) (h : swapIn s env info routes coin lim = .ok (s', out)) :
    info.sender = s.config.trader ∧ routes ≠ [] ∧ routes ∈ s.config.routes
      ∧ (∃ r rest, routes = r :: rest ∧ r.tokenIn = coin.denom)
      ∧ out = [plain (.swapIn env.contract (routes.map fun r => ⟨r.poolId, r.tokenOut⟩) coin lim)]
      ∧ s' = s := by
  unfold swapIn at h
  simp only [bind_ok, ensure_ok, pure_ok] at h
  obtain ⟨_, ht, _, hr, d, hd, _, hdd, h⟩ := h
  cases h
  obtain ⟨hne, hmem⟩ := (routeAllowed_iff _ _).mp hr
  refine ⟨(by simpa using ht : s.config.trader = info.sender).symm, hne, hmem, ?_, rfl, rfl⟩
  unfold firstIn at hd
  split at hd
  · rename_i r rest; cases hd; exact ⟨r, rest, rfl, by simpa using hdd⟩
  · cases hd

/-- exact-out swap: symmetric, with the last output denom -/
theorem swap_out_sound (s s' : TState) (env : Env) (info : Info) (routes : List SwapRoute) (coin : Coin)
    (lim : Nat) (out : List SubMsg) (h : swapOut s env info routes coin lim = .ok (s', out)) :
    info.sender = s.config.trader ∧ routes ≠ [] ∧ routes ∈ s.config.routes
      ∧ (∃ r, routes.getLast? = some r ∧ r.tokenOut = coin.denom)
      ∧ out = [plain (.swapOut env.contract (routes.map fun r => ⟨r.poolId, r.tokenIn⟩) coin lim)]
      ∧ s' = s := by
  unfold swapOut at h
  simp only [bind_ok, ensure_ok, pure_ok] at h
  obtain ⟨_, ht, _, hr, d, hd, _, hdd, h⟩ := h
  cases h
  obtain ⟨hne, hmem⟩ := (routeAllowed_iff _ _).mp hr
  refine ⟨(by simpa using ht : s.config.trader = info.sender).symm, hne, hmem, ?_, rfl, rfl⟩
  unfold lastOut at hd
  split at hd
  · rename_i r hl; cases hd; exact ⟨r, hl, by simpa using hdd⟩
  · cases hd

/-- a route that is not allow-listed is rejected with a typed error, for both swap kinds -/
theorem not_allowed_rejected (s : TState) (env : Env) (info : Info) (routes : List SwapRoute) (coin : Coin)
    (lim : Nat) (hn : routes ∉ s.config.routes) :
    (∃ e, swapIn s env info routes coin lim = .error e ∧ e.isPanic = false)
    ∧ (∃ e, swapOut s env info routes coin lim = .error e ∧ e.isPanic = false) := by
  have hr : routeAllowed s.config routes = false := by
    cases hx : routeAllowed s.config routes with
    | false => rfl
    | true => exact absurd ((routeAllowed_iff _ _).mp hx).2 hn
  constructor
  · unfold swapIn
    cases ht : (s.config.trader == info.sender) with
    | false => exact ⟨.unauthorized, by simp [ensure, bind, Except.bind], rfl⟩
    | true => exact ⟨.swapRouteNotAllowed, by simp [ensure, hr, bind, Except.bind], rfl⟩
  · unfold swapOut
    cases ht : (s.config.trader == info.sender) with
    | false => exact ⟨.unauthorized, by simp [ensure, bind, Except.bind], rfl⟩
    | true => exact ⟨.swapRouteNotAllowed, by simp [ensure, hr, bind, Except.bind], rfl⟩

/-- SpendFunds: admin only; a local spend goes to an address valid under "osmo" by a bank send of
exactly the requested coin; an IBC spend goes to an address valid under "celestia" by a transfer
of exactly that coin on the requested channel; the store is untouched -/
theorem spend_sound (s s' : TState) (env : Env) (info : Info) (coin : Coin) (recv : String)
    (ch : Option String) (out : List SubMsg) (h : spendFunds s env info coin recv ch = .ok (s', out)) :
    s.own.admin = some info.sender ∧ s' = s
      ∧ (ch = none → (∃ d v, Bech32.decode recv = some ("osmo", d, v)) ∧ out = [plain (.bankSend recv [coin])])
      ∧ (∀ c, ch = some c → (∃ d v, Bech32.decode recv = some ("celestia", d, v))
            ∧ ∃ t memo, out = [plain (.transfer c "transfer" env.contract recv coin t memo)]) := by
  unfold spendFunds at h
  simp only [bind_ok, ensure_ok] at h
  obtain ⟨_, ha, h⟩ := h
  have hadm : s.own.admin = some info.sender := by simpa [Own.isAdmin] using ha
  have key : ∀ p a, validateAddress recv p = .ok a → ∃ d v, Bech32.decode recv = some (p, d, v) := by
    intro p a hv
    unfold validateAddress at hv
    split at hv
    · rename_i hrp d v hd
      split at hv
      · rename_i hp; subst hp; exact ⟨d, v, hd⟩
      · cases hv
    · cases hv
  cases ch with
  | none =>
    simp only [bind_ok, pure_ok] at h
    obtain ⟨a, hv, h⟩ := h; cases h
    exact ⟨hadm, rfl, fun _ => ⟨key _ _ hv, rfl⟩, fun c hc => nomatch hc⟩
  | some c =>
    simp only [bind_ok, pure_ok] at h
    obtain ⟨a, hv, t, _, h⟩ := h; cases h
    refine ⟨hadm, rfl, ?_, ?_⟩
    · intro hc; cases hc
    · intro c' hc
      simp only [Option.some.injEq] at hc; subst hc
      exact ⟨key _ _ hv, t, _, rfl⟩

/-- UpdateConfig: admin only; exactly the supplied parts change -/
theorem update_config_sound (s s' : TState) (env : Env) (info : Info) (tr : Option String)
    (rs : Option (List (List SwapRoute))) (out : List SubMsg)
    (h : Treasury.updateConfig s env info tr rs = .ok (s', out)) :
    s.own.admin = some info.sender ∧ out = [] ∧ s'.own = s.own
      ∧ s'.config.routes = rs.getD s.config.routes
      ∧ (tr = none → s'.config.trader = s.config.trader)
      ∧ (∀ t, tr = some t → s'.config.trader = t ∧ addrValidate env.chainPrefix t = .ok t) := by
  unfold Treasury.updateConfig at h
  simp only [bind_ok, ensure_ok, pure_ok] at h
  obtain ⟨_, ha, t, ht, h⟩ := h
  cases h
  refine ⟨by simpa [Own.isAdmin] using ha, rfl, rfl, rfl, ?_, ?_⟩
  · intro hn; subst hn; simp [optTrader] at ht; exact ht.symm
  · intro t' ht'; subst ht'
    simp only [optTrader] at ht
    have : t = t' := by
      unfold addrValidate at ht
      (repeat' split at ht) <;> simp_all
    subst this; exact ⟨rfl, ht⟩

/-- the swap message on the wire: type URL of the Osmosis pool manager and fields in the order
the chain's definition gives them (sender 1, routes 2, token_in 3, min_out 4) -/
theorem swap_in_wire (sender : String) (routes : List SwapHop) (c : Coin) (lim : Nat) :
    Proto.encodeMsg .osmosis (.swapIn sender routes c lim) =
      some ("/osmosis.poolmanager.v1beta1.MsgSwapExactAmountIn",
        Proto.fString 1 sender ++ (routes.flatMap fun r => Proto.fMsg 2 (Proto.fUint 1 r.poolId ++ Proto.fString 2 r.denom))
          ++ Proto.fMsg 3 (Proto.encCoin c) ++ Proto.fString 4 (toString lim)) := rfl

/-- the exact-out message on the wire (sender 1, routes 2 with the *input* denom of each hop,
token_in_max_amount 3, token_out 4) -/
theorem swap_out_wire (sender : String) (routes : List SwapHop) (c : Coin) (lim : Nat) :
    Proto.encodeMsg .osmosis (.swapOut sender routes c lim) =
      some ("/osmosis.poolmanager.v1beta1.MsgSwapExactAmountOut",
        Proto.fString 1 sender ++ (routes.flatMap fun r => Proto.fMsg 2 (Proto.fUint 1 r.poolId ++ Proto.fString 2 r.denom))
          ++ Proto.fString 3 (toString lim) ++ Proto.fMsg 4 (Proto.encCoin c)) := rfl

/-- non-vacuity: an allow-list with a two-hop route accepts it and rejects its one-hop prefix -/
example :
    let r1 : SwapRoute := ⟨1, "a", "b"⟩
    let r2 : SwapRoute := ⟨2, "b", "c"⟩
    let cfg : TConfig := { trader := "t", routes := [[r1, r2]] }
    routeAllowed cfg [r1, r2] = true ∧ routeAllowed cfg [r1] = false ∧ routeAllowed cfg [r2, r1] = false
      ∧ routeAllowed cfg [] = false := by decide

/-- the trader and the allow-list change only through UpdateConfig (which only the admin can send,
`update_config_sound`): every other successful message — swaps, spends, the three ownership messages, by whatever
sender — leaves the configuration exactly as it was.  Along any sequence of calls, a route is swappable at some point
only if the configuration in force at that point lists it, and that configuration is the one the admin's last
UpdateConfig (or the instantiation) wrote -/
theorem config_changes_only_by_update (s s' : TState) (env : Env) (info : Info) (m : TExec) (out : List SubMsg)
    (hm : ∀ t r, m ≠ .updateConfig t r) (h : MW.Treasury.execute s env info m = .ok (s', out)) :
    s'.config = s.config := by
  cases m <;> simp only [MW.Treasury.execute] at h
  case transferOwnership n =>
    simp only [bind_ok, pure_ok] at h; obtain ⟨o, _, h⟩ := h; cases h; rfl
  case acceptOwnership =>
    simp only [bind_ok, pure_ok] at h; obtain ⟨o, _, h⟩ := h; cases h; rfl
  case revokeOwnershipTransfer =>
    simp only [bind_ok, pure_ok] at h; obtain ⟨o, _, h⟩ := h; cases h; rfl
  case spendFunds a r c =>
    unfold spendFunds at h
    simp only [bind_ok, ensure_ok] at h
    obtain ⟨_, _, h⟩ := h
    split at h <;> simp only [bind_ok, pure_ok] at h
    · obtain ⟨_, _, h⟩ := h; cases h; rfl
    · obtain ⟨_, _, _, _, h⟩ := h; cases h; rfl
  case swapIn r t mo =>
    unfold swapIn at h
    simp only [bind_ok, ensure_ok, pure_ok] at h
    obtain ⟨_, _, _, _, _, _, _, _, h⟩ := h; cases h; rfl
  case swapOut r t mo =>
    unfold swapOut at h
    simp only [bind_ok, ensure_ok, pure_ok] at h
    obtain ⟨_, _, _, _, _, _, _, _, h⟩ := h; cases h; rfl
  case updateConfig t r => exact absurd rfl (hm t r)

/-- the treasury's `ExecuteMsg`, `InstantiateMsg`, `SwapRoute` and entry points as the source declares them (tables
regenerated from /repo on every run) are exactly what the model covers; `TExec` has one constructor per variant -/
theorem treasury_interface_is_modelled :
    MW.Generated.Interface.treasury_execute = MW.Interface.model_treasury_execute
    ∧ MW.Interface.names MW.Generated.Interface.treasury_execute = MW.Interface.texecSamples.map MW.Interface.texecTag
    ∧ (∀ m : MW.Treasury.TExec, MW.Interface.texecTag m ∈ MW.Interface.names MW.Generated.Interface.treasury_execute)
    ∧ MW.Generated.Interface.treasury_entry_points = ["execute", "instantiate", "migrate", "query"]
    ∧ MW.Generated.Interface.treasury_SwapRoute = MW.Interface.model_treasury_SwapRoute :=
  ⟨MW.Interface.treasury_execute_eq, MW.Interface.treasury_execute_covered.1, MW.Interface.treasury_execute_covered.2,
   MW.Interface.treasury_entry_points_eq, MW.Interface.treasury_rest_eq.2.2.2⟩

end MW.Props.C13
