import MW.Inv.GReach
import MW.Chain.World
import MW.Inv.WorldInv
import MW.Inv.Demo
import MW.Inv.WorldStake
import MW.Staking.Interface
/-!
# C03 — LST supply integrity and exact delivery of minted tokens
-/
namespace MW.Props.C03
open MW MW.Staking MW.Chain

/-- in every reachable state: LST minted − LST burned through the token factory (+ the re-basing
term of ResumeContract) = the LST total of the State query -/
theorem C03_supply (x : GC) (h : GReach x) :
    ((x.g.minted : Int) - x.g.burned) + x.g.rebaseL = x.s.st.totalLst :=
  (allinv_reach h).g.l1

/-- the chain's token factory changes the supply by exactly the amount of a mint / burn message
(chain-model clause), so `minted − burned` above is the circulating supply of the simulator -/
theorem dispatch_mint_supply (f : Faults) (d d' : Disp) (sender denom : String) (amount : Nat) (to : String)
    (h : dispatch f d (plain (.mint sender denom amount to)) = (d', true)) :
    d'.w.supply denom = d.w.supply denom + amount ∧ d'.w.bal to denom = d.w.bal to denom + amount
      ∧ sender = d.w.self := by
  simp only [dispatch, plain] at h
  split at h
  · cases h
  · rename_i hc
    simp only [Bool.or_eq_true, decide_eq_true_eq, not_or] at hc
    cases h
    simp [Bal.add, Decidable.of_not_not hc.1]

theorem dispatch_burn_supply (f : Faults) (d d' : Disp) (sender denom : String) (amount : Nat) (from_ : String)
    (h : dispatch f d (plain (.burn sender denom amount from_)) = (d', true)) :
    d'.w.supply denom = d.w.supply denom - amount ∧ amount ≤ d.w.bal from_ denom
      ∧ amount ≤ d.w.supply denom
      ∧ d'.w.bal from_ denom = d.w.bal from_ denom - amount := by
  simp only [dispatch, plain] at h
  split at h
  · cases h
  · rename_i hc
    simp only [Bool.or_eq_true, decide_eq_true_eq, not_or, Nat.not_lt] at hc
    cases h
    simp [Bal.sub, hc.1.2, hc.2]

/-- a successful LiquidStake mints `m` to the contract and delivers exactly `m` to the chosen
recipient — by a bank send on the protocol chain or by an IBC transfer to a native-chain address —
and to nobody else: these are the only LST-moving messages it returns -/
theorem C03_delivery (s s' : CState) (env : Env) (info : Info) (a : Nat) (mt : Option String)
    (tn : Option Bool) (ex : Option Nat) (out : List SubMsg)
    (h : liquidStake s env info a mt tn ex = .ok (s', out)) :
    ∃ m orc id1, m ≠ 0 ∧ s'.st.totalLst = (match sweep s.st with | .ok st => st.totalLst | .error _ => 0) + m
      ∧ (∀ x ∈ orc, ∃ o p, x = plain (.wasmExec env.contract o p))
      ∧ let recipient := mt.getD info.sender
        let base := [plain (.mint env.contract s.config.lstDenom m env.contract)] ++ orc
                      ++ [transferSub s env id1 s.config.native.staker ⟨s.config.proto.ibcDenom, a⟩]
        (deliverOnProtocol s.config recipient tn = true ∧
            out = base ++ [plain (.msgSend env.contract recipient [⟨s.config.lstDenom, m⟩])])
        ∨ (deliverOnProtocol s.config recipient tn = false ∧
            out = base ++ [transferSub s env (id1 + 1) recipient ⟨s.config.lstDenom, m⟩]) := by
  obtain ⟨st, m, id1, orc, _, hsw, _, hm0, _, _, horc, hcase⟩ := liquidStake_eff h
  refine ⟨m, orc, id1, hm0, ?_, horc, ?_⟩
  · rcases hcase with ⟨_, hs', _⟩ | ⟨_, _, hs', _⟩ <;> subst hs' <;> simp [hsw]
  · rcases hcase with ⟨hp, _, hout⟩ | ⟨hp, _, _, hout⟩
    · exact .inl ⟨hp, hout⟩
    · exact .inr ⟨hp, hout⟩

/-- recipient classification: an address valid under exactly one of the two prefixes is delivered
on that chain; under both (equal prefixes) the flag decides, defaulting to the protocol chain;
under neither the stake is refused; senders that are not plain 20-byte accounts (their address is
not prefix + 39 characters) must name a recipient -/
theorem C03_classification (cfg : Config) (addr : String) (flag : Option Bool) :
    let n := isOk (validateAddress addr cfg.native.accountPrefix)
    let p := isOk (validateAddress addr cfg.proto.accountPrefix)
    (p = true → n = false → deliverOnProtocol cfg addr flag = true)
    ∧ (p = false → n = true → deliverOnProtocol cfg addr flag = false)
    ∧ (p = true → n = true → deliverOnProtocol cfg addr flag = !(flag.getD false)) := by
  simp only [deliverOnProtocol]
  refine ⟨?_, ?_, ?_⟩ <;> intro h1 h2 <;> simp [h1, h2]

theorem must_name_recipient (s s' : CState) (env : Env) (info : Info) (a : Nat) (tn : Option Bool) (ex : Option Nat)
    (out : List SubMsg) (h : liquidStake s env info a none tn ex = .ok (s', out)) :
    info.sender.utf8ByteSize = s.config.proto.accountPrefix.utf8ByteSize + 39 := by
  unfold liquidStake at h
  simp only [bind_ok] at h
  obtain ⟨_, _, _, hshape, _⟩ := h
  simp only [checkSenderShape, bind_ok, subUsize_ok, ensure_ok] at hshape
  obtain ⟨d, ⟨hle, hd⟩, hd39⟩ := hshape
  simp only [beq_iff_eq] at hd39
  omega

theorem neither_prefix_refused (s : CState) (env : Env) (info : Info) (a : Nat) (mt : Option String)
    (tn : Option Bool) (ex : Option Nat) (r : Out) (h : liquidStake s env info a mt tn ex = .ok r) :
    isOk (validateAddress (mt.getD info.sender) s.config.proto.accountPrefix) = true
    ∨ isOk (validateAddress (mt.getD info.sender) s.config.native.accountPrefix) = true := by
  unfold liquidStake at h
  simp only [bind_ok, ensure_ok] at h
  obtain ⟨_, _, _, _, _, hv, _⟩ := h
  simpa using hv

/-- SubmitBatch burns exactly the batch total, from the contract itself -/
theorem C03_burn (s s' : CState) (env : Env) (info : Info) (out : List SubMsg)
    (h : submitBatch s env info = .ok (s', out)) :
    ∃ batch, s.batches.find? s.pendingId = some batch
      ∧ out.head? = some (plain (.burn env.contract s.config.lstDenom batch.total env.contract))
      ∧ burnSum s.config.lstDenom out = batch.total := by
  obtain ⟨batch, _, orc, _, hb, _, _, _, _, horc, _, hout⟩ := submitBatch_eff h
  obtain ⟨_, _, ho3, _⟩ := sums_oracle env s.config.lstDenom orc horc
  subst hout
  exact ⟨batch, hb, rfl, by simp [burnSum_append, ho3, burnSum, plain]⟩

/-- **L1 on the chain's own ledger, every history.**  Along every history of the chain model that
satisfies the honest-environment conditions, the token-factory supply of the LST plus the term
declared by the admin's ResumeContract equals the LST total of the State query -/
theorem C03_supply_world {env : Env} {info : Info} {msg : InstantiateMsg} {c0 : CState} {out : List SubMsg}
    (hi : instantiate env info msg = .ok (c0, out)) (self pfx : String) (t hgt : Nat) (evs : List Event)
    (hok : AllOK (bootWorld c0 self pfx t hgt) evs) :
    let r := runW (bootWorld c0 self pfx t hgt) {} evs
    (r.1.supply r.1.c.config.lstDenom : Int) + r.2.rebaseL = r.1.c.st.totalLst :=
  (world_history_winv hi self pfx t hgt evs hok).l1

/-- **L2 (custody), every history.**  The contract's own LST balance on the bank ledger equals the total
of the pending unstake batch plus the refunded outbound LST transfers awaiting re-send, plus what
was given to it outside the protocol (donations, faucets, funds attached to calls that do not
consume them) -/
theorem C03_custody {env : Env} {info : Info} {msg : InstantiateMsg} {c0 : CState} {out : List SubMsg}
    (hi : instantiate env info msg = .ok (c0, out)) (self pfx : String) (t hgt : Nat) (evs : List Event)
    (hok : AllOK (bootWorld c0 self pfx t hgt) evs) :
    let r := runW (bootWorld c0 self pfx t hgt) {} evs
    r.1.bal r.1.self r.1.c.config.lstDenom
      = pendTotal r.1.c + refundableSum r.1.c r.1.c.config.lstDenom + r.2.donL :=
  (world_history_winv hi self pfx t hgt evs hok).l2

/-- the per-step fact behind L2 for an unstake: it adds exactly the LST handed in to the pending batch -/
theorem unstake_grows_pending (s s' : CState) (env : Env) (info : Info) (a : Nat) (out : List SubMsg)
    (h : liquidUnstake s env info a = .ok (s', out)) :
    ∃ b b', s.batches.find? s.pendingId = some b ∧ s'.batches.find? s.pendingId = some b'
      ∧ b'.total = b.total + a ∧ out = [] := by
  obtain ⟨ho, _, b, hb, hs'⟩ := liquidUnstake_eff h
  subst hs'
  exact ⟨b, grown b a (findReq s.reqs s.pendingId info.sender).isNone, hb, by simp [AMap.find?_insert], rfl, ho⟩

/-- **exact delivery, on the chain model's own ledgers.**  A committed `LiquidStake` transaction (sender
and recipient other than the contract; the two denoms distinct, as they are in every reachable
configuration) raises the LST supply by the minted amount `m ≠ 0` and

* with a protocol-chain recipient: raises the recipient's bank balance of LST by exactly `m` and
  changes no other account's LST balance (the contract's own included);
* with a native-chain recipient: changes no bank balance of LST and leaves a pending IBC packet that
  carries exactly `m` LST from the contract to the recipient

— to the chosen recipient and to nobody else, for every state, amount, rate, fault assignment and
configuration. -/
theorem C03_delivery_world {w : World} {sender : String} {funds : List Coin} {mt : Option String} {tn : Option Bool}
    {ex : Option Nat} {f : Faults} {txi : Option Nat} (hs : sender ≠ w.self) (hr : mt.getD sender ≠ w.self)
    (hXD : w.c.config.proto.ibcDenom ≠ w.c.config.lstDenom)
    (hc : (step w (.exec sender funds (.liquidStake mt tn ex) f txi)).committed = true) :
    ∃ m, m ≠ 0
      ∧ (step w (.exec sender funds (.liquidStake mt tn ex) f txi)).w.supply w.c.config.lstDenom = w.supply w.c.config.lstDenom + m
      ∧ ((deliverOnProtocol w.c.config (mt.getD sender) tn = true
           ∧ (step w (.exec sender funds (.liquidStake mt tn ex) f txi)).w.bal (mt.getD sender) w.c.config.lstDenom
               = w.bal (mt.getD sender) w.c.config.lstDenom + m
           ∧ ∀ acct, acct ≠ mt.getD sender →
               (step w (.exec sender funds (.liquidStake mt tn ex) f txi)).w.bal acct w.c.config.lstDenom = w.bal acct w.c.config.lstDenom)
        ∨ (deliverOnProtocol w.c.config (mt.getD sender) tn = false
           ∧ (∀ acct, (step w (.exec sender funds (.liquidStake mt tn ex) f txi)).w.bal acct w.c.config.lstDenom
                        = w.bal acct w.c.config.lstDenom)
           ∧ ChainPkt.mk (w.nextSeq + 1) w.c.config.proto.channel w.self (mt.getD sender) ⟨w.c.config.lstDenom, m⟩ .pending
               ∈ (step w (.exec sender funds (.liquidStake mt tn ex) f txi)).w.pkts)) :=
  stake_tx_delivers hs hr hXD hc

/-! ### a concrete history that meets the hypotheses (non-vacuity; evaluated, not proved)

boot → resume → stake (protocol recipient) → stake (native recipient: LST leaves by IBC) →
error acknowledgement of the LST packet → permissionless recovery → unstake → timeout of the
re-sent packet → donation.  The conditions `AllOK` hold (so `C03_custody` applies) and the state is
non-trivial: supply 3000, pending batch 500, refundable 1000, donated 7, contract balance 1507. -/
section Demo
open MW.Chain.Demo
#guard (demoBoot.map fun w => allOKb w demoEvents1) == some true
#guard (demoBoot.map fun w => let r := runW w {} demoEvents1; (summary r.1 r.2).take 7)
  == some [1507, 3000, 3000, 500, 1000, 7, 4]
-- non-vacuity of `C03_delivery_world`: the two stakes of the demo history commit; the first raises the
-- user's LST balance from 0 to 2000, the second leaves it there and creates packet 3 with 1000 LST for
-- the native-chain recipient
#guard (demoBoot.map fun w =>
    let r2 := runW w {} (demoEvents1.take 3)
    let r3 := runW w {} (demoEvents1.take 4)
    (r2.1.bal demoUser demoX, r3.1.bal demoUser demoX, r3.1.supply demoX,
     (r3.1.pkts.filter (fun p => p.coin.denom == demoX)).map (fun p => (p.seq, p.receiver == demoNativeUser, p.coin.amount))))
  == some (2000, 2000, 3000, [(3, true, 1000)])
end Demo

/-- regression witness for the defect fixed in /repo (ce795a0): at totals 2000/1000 a stake of 1001
mints 500 and the native-chain delivery now carries 500, not 1001 -/
example : computeMint 2000 1000 1001 = .ok 500 := rfl

/-- the statements of this file quantify over every message the staking contract accepts: the `ExecuteMsg` the source
declares (table regenerated from /repo's `msg.rs` on every run) has exactly the variants, fields and types of the
model's `ExecMsg`, and the contract exports exactly the modelled entry points.  A message or entry point added to the
source — which no generated history would exercise — breaks this theorem -/
theorem messages_are_the_modelled_ones :
    MW.Generated.Interface.staking_execute = MW.Interface.model_staking_execute
    ∧ (∀ m : MW.Staking.ExecMsg, MW.Interface.execTag m ∈ MW.Interface.names MW.Generated.Interface.staking_execute)
    ∧ MW.Generated.Interface.staking_entry_points = ["execute", "instantiate", "migrate", "query", "reply", "sudo"] :=
  ⟨MW.Interface.staking_execute_eq, MW.Interface.staking_execute_covered.2, MW.Interface.staking_entry_points_eq⟩

end MW.Props.C03
