import MW.Staking.Effects
import MW.Staking.Interface
/-!
# C14 — Only well-formed configuration is ever accepted; updates are sectional

Interpretation notes: lengths are UTF-8 *bytes* (`str::len()`); "listed twice" is string equality,
as in the code; well-formedness is per accepted section, with respect to the prefix in force after
that same update.
-/
namespace MW.Props.C14
open MW MW.Staking

/-- an accepted prefix: 1..83 bytes, all in 33..126, not mixed case; the stored value is its
lower-case form -/
theorem prefix_ok (h h' : String) (hv : validatePrefix h = .ok h') :
    1 ≤ h.toUTF8.toList.length ∧ h.toUTF8.toList.length ≤ 83
      ∧ (∀ b ∈ h.toUTF8.toList, 33 ≤ b ∧ b ≤ 126)
      ∧ ¬ (h.toUTF8.toList.any Bech32.isLowerB = true ∧ h.toUTF8.toList.any Bech32.isUpperB = true)
      ∧ h' = (if h.toUTF8.toList.any Bech32.isUpperB then Bech32.lowerAscii h else h) := by
  unfold validatePrefix at hv
  simp only at hv
  split at hv
  · cases hv
  · rename_i h1
    split at hv
    · cases hv
    · rename_i h2
      split at hv
      · cases hv
      · rename_i h3
        simp only [Bool.or_eq_true, List.isEmpty_iff, decide_eq_true_eq, not_or] at h1
        refine ⟨?_, by omega, ?_, by simpa using h3, ?_⟩
        · have : h.toUTF8.toList ≠ [] := h1.1
          cases hl : h.toUTF8.toList with
          | nil => exact absurd hl this
          | cons a b => simp
        · intro b hb
          have h2' : ¬ ∃ x ∈ h.toUTF8.toList, (!(decide (x ≥ 33) && decide (x ≤ 126))) = true := by
            intro hc; exact h2 (List.any_eq_true.mpr hc)
          have := fun hc => h2' ⟨b, hb, hc⟩
          simp only [Bool.not_eq_true', Bool.and_eq_false_iff, decide_eq_false_iff_not] at this
          constructor
          · exact Decidable.byContradiction (fun hc => this (.inl hc))
          · exact Decidable.byContradiction (fun hc => this (.inr hc))
        · split at hv <;> cases hv <;> simp_all

/-- an accepted address is the given string, checksum-valid bech32 with exactly that prefix -/
theorem address_ok (a p r : String) (hv : validateAddress a p = .ok r) :
    r = a ∧ ∃ d v, Bech32.decode a = some (p, d, v) := by
  unfold validateAddress at hv
  split at hv
  · rename_i hrp d v hd
    split at hv
    · rename_i hp; cases hv; subst hp; exact ⟨rfl, d, v, hd⟩
    · cases hv
  · cases hv

theorem addressesAux_ok (p : String) (as seen vs : List String) (hv : validateAddressesAux p as seen = .ok vs) :
    vs = as ∧ (∀ a ∈ as, a ∉ seen) ∧ as.Nodup ∧ ∀ a ∈ as, ∃ d v, Bech32.decode a = some (p, d, v) := by
  induction as generalizing seen vs with
  | nil => simp [validateAddressesAux] at hv; subst hv; simp
  | cons a rest ih =>
    simp only [validateAddressesAux] at hv
    split at hv
    · cases hv
    · rename_i v hva
      obtain ⟨hv1, d, vv, hd⟩ := address_ok a p v hva
      split at hv
      · cases hv
      · rename_i hns
        split at hv
        · cases hv
        · rename_i vs' hrest
          cases hv
          obtain ⟨h1, h2, h3, h4⟩ := ih (a :: seen) vs' hrest
          subst h1 hv1
          simp only [List.contains_eq_mem, decide_eq_true_eq] at hns
          refine ⟨rfl, ?_, ?_, ?_⟩
          · intro x hx
            simp only [List.mem_cons] at hx
            rcases hx with hx | hx
            · subst hx; exact hns
            · intro hs; exact h2 x hx (List.mem_cons_of_mem _ hs)
          · refine List.nodup_cons.mpr ⟨?_, h3⟩
            intro hm; exact h2 _ hm (by simp)
          · intro x hx
            simp only [List.mem_cons] at hx
            rcases hx with hx | hx
            · subst hx; exact ⟨d, vv, hd⟩
            · exact h4 x hx

/-- an accepted address list: unchanged, no string listed twice, every entry valid under the prefix -/
theorem addresses_ok (as vs : List String) (p : String) (hv : validateAddresses as p = .ok vs) :
    vs = as ∧ as.Nodup ∧ ∀ a ∈ as, ∃ d v, Bech32.decode a = some (p, d, v) := by
  obtain ⟨h1, _, h3, h4⟩ := addressesAux_ok p as [] vs hv
  exact ⟨h1, h3, h4⟩

/-- an accepted channel id is `channel-` followed by one or more ASCII digits (and nothing else) -/
theorem channel_ok (ch : String) (h : channelOk ch = true) :
    ∃ ds, ch.toList = "channel-".toList ++ ds ∧ ds ≠ [] ∧ ∀ c ∈ ds, c.isDigit = true := by
  unfold channelOk at h
  simp only [Bool.and_eq_true, decide_eq_true_eq, List.all_eq_true] at h
  obtain ⟨⟨h1, h2⟩, h3⟩ := h
  refine ⟨ch.toList.drop 8, ?_, ?_, h2⟩
  · rw [← h1]; exact (List.take_append_drop 8 ch.toList).symm
  · intro hn
    rw [hn] at h3
    simp [parseU64] at h3

/-- an accepted staked-asset denom is `ibc/` followed by 64 bytes -/
theorem ibc_denom_ok (d d' : String) (h : validateIbcDenom d = .ok d') :
    d' = d ∧ d.toList.take 4 = "ibc/".toList ∧ d.utf8ByteSize = 68 := by
  unfold validateIbcDenom at h
  split at h
  · rename_i hc; cases h; exact ⟨rfl, hc.1, hc.2⟩
  · cases h

/-- an accepted token sub-denom has more than 3 bytes and only ASCII letters -/
theorem subdenom_ok (d d' : String) (h : validateDenom d = .ok d') :
    d' = d ∧ 3 < d.utf8ByteSize ∧ ∀ c ∈ d.toList, c.isAlpha = true := by
  unfold validateDenom at h
  split at h
  · cases h
  · rename_i h1
    split at h
    · cases h
    · rename_i h2
      cases h
      exact ⟨rfl, by omega, by simpa using h2⟩

/-- an accepted native-chain section is well-formed with respect to its own prefixes -/
theorem native_section_ok (c : UnsafeNative) (n : NativeCfg) (h : c.validate = .ok n) :
    validatePrefix c.accountPrefix = .ok n.accountPrefix
    ∧ validatePrefix c.validatorPrefix = .ok n.validatorPrefix
    ∧ n.validators = c.validators ∧ n.validators.Nodup
    ∧ (∀ a ∈ n.validators, ∃ d v, Bech32.decode a = some (c.validatorPrefix, d, v))
    ∧ (∃ d v, Bech32.decode n.staker = some (c.accountPrefix, d, v))
    ∧ (∃ d v, Bech32.decode n.rewardCollector = some (c.accountPrefix, d, v))
    ∧ n.unbondingPeriod = c.unbondingPeriod ∧ n.unbondingPeriod ≤ MAX_PERIOD_SECONDS
    ∧ (∀ ch ∈ n.tokenDenom.toList, ch.isAlpha = true) := by
  unfold UnsafeNative.validate at h
  simp only [bind_ok, pure_ok] at h
  obtain ⟨ap, hap, vp, hvp, td, htd, vals, hvals, ub, hub, st, hst, rc, hrc, h⟩ := h
  subst h
  obtain ⟨hv1, hv2, hv3⟩ := addresses_ok _ _ _ hvals
  obtain ⟨hs1, hs2⟩ := address_ok _ _ _ hst
  obtain ⟨hr1, hr2⟩ := address_ok _ _ _ hrc
  obtain ⟨ht1, _, ht3⟩ := subdenom_ok _ _ htd
  have hub' : ub = c.unbondingPeriod ∧ ub ≤ MAX_PERIOD_SECONDS := by
    unfold validatePeriod at hub
    split at hub
    · cases hub
    · cases hub; exact ⟨rfl, by omega⟩
  subst hv1 hs1 hr1 ht1
  exact ⟨hap, hvp, rfl, hv2, hv3, hs2, hr2, hub'.1, hub'.2, ht3⟩

/-- an accepted protocol-chain section: valid prefix, channel-<n>, ibc/ + 64 bytes, oracle (if any)
valid under the section's own prefix -/
theorem protocol_section_ok (c : UnsafeProto) (p : ProtoCfg) (h : c.validate = .ok p) :
    validatePrefix c.accountPrefix = .ok p.accountPrefix ∧ p.channel = c.channel ∧ channelOk p.channel = true
    ∧ p.ibcDenom = c.ibcDenom ∧ p.ibcDenom.toList.take 4 = "ibc/".toList ∧ p.ibcDenom.utf8ByteSize = 68
    ∧ p.minStake = c.minStake ∧ p.oracle = c.oracle
    ∧ (∀ o, p.oracle = some o → ∃ d v, Bech32.decode o = some (c.accountPrefix, d, v)) := by
  unfold UnsafeProto.validate at h
  simp only [bind_ok, pure_ok, ensure_ok] at h
  obtain ⟨_, hch, ap, hap, den, hden, orc, horc, h⟩ := h
  subst h
  obtain ⟨hd1, hd2, hd3⟩ := ibc_denom_ok _ _ hden
  subst hd1
  have ho : orc = c.oracle ∧ ∀ o, orc = some o → ∃ d v, Bech32.decode o = some (c.accountPrefix, d, v) := by
    unfold optAddress at horc
    split at horc
    · cases horc; rename_i hn; exact ⟨hn.symm, by intro o ho; cases ho⟩
    · rename_i a ha
      split at horc
      · rename_i v hv
        cases horc
        obtain ⟨h1, h2⟩ := address_ok _ _ _ hv
        subst h1
        exact ⟨ha.symm, by intro o ho; cases ho; exact h2⟩
      · cases horc
  exact ⟨hap, rfl, hch, rfl, hd2, hd3, rfl, ho.1, ho.2⟩

/-- an accepted fee section: the treasury (if any) is valid under the protocol prefix in force -/
theorem fee_section_ok (c : UnsafeFee) (p : ProtoCfg) (f : FeeCfg) (h : c.validate p = .ok f) :
    f.fee = c.fee ∧ f.treasury = c.treasury
    ∧ (∀ t, f.treasury = some t → ∃ d v, Bech32.decode t = some (p.accountPrefix, d, v)) := by
  unfold UnsafeFee.validate at h
  simp only [bind_ok, pure_ok] at h
  obtain ⟨t, ht, h⟩ := h
  subst h
  unfold optAddress at ht
  split at ht
  · cases ht; rename_i hn; exact ⟨rfl, hn.symm, by intro o ho; cases ho⟩
  · rename_i a ha
    split at ht
    · rename_i v hv
      cases ht
      obtain ⟨h1, h2⟩ := address_ok _ _ _ hv
      subst h1
      exact ⟨rfl, ha.symm, by intro o ho; cases ho; exact h2⟩
    · cases ht

/-- UpdateConfig is sectional: a section that is not supplied is unchanged, a supplied one is the
validated input; the LST denom and the halted flag can never be altered; nothing else in the
store changes and no message is emitted -/
theorem update_sectional (s s' : CState) (info : Info) (n : Option UnsafeNative) (p : Option UnsafeProto)
    (f : Option UnsafeFee) (m : Option (List String)) (b : Option Nat) (out : List SubMsg)
    (h : updateConfig s info n p f m b = .ok (s', out)) :
    out = [] ∧ s.admin = some info.sender
    ∧ s'.config.lstDenom = s.config.lstDenom ∧ s'.config.stopped = s.config.stopped
    ∧ s' = { s with config := s'.config }
    ∧ (n = none → s'.config.native = s.config.native)
    ∧ (∀ c, n = some c → c.validate = .ok s'.config.native)
    ∧ (p = none → s'.config.proto = s.config.proto)
    ∧ (∀ c, p = some c → c.validate = .ok s'.config.proto)
    ∧ (f = none → s'.config.feeCfg = s.config.feeCfg)
    ∧ (∀ c, f = some c → c.validate s'.config.proto = .ok s'.config.feeCfg)
    ∧ (m = none → s'.config.monitors = s.config.monitors)
    ∧ (∀ ms, m = some ms → s'.config.monitors = ms ∧ ms.Nodup
          ∧ ∀ a ∈ ms, ∃ d v, Bech32.decode a = some (s'.config.proto.accountPrefix, d, v))
    ∧ (b = none → s'.config.batchPeriod = s.config.batchPeriod)
    ∧ (∀ x, b = some x → s'.config.batchPeriod = x ∧ x ≤ MAX_PERIOD_SECONDS) := by
  obtain ⟨ho, ha, nat', proto', fee', mons', bp', hn, hp, hf, hm, hb, hs'⟩ := updateConfig_eff h
  subst hs'
  refine ⟨ho, ha, rfl, rfl, rfl, ?_, ?_, ?_, ?_, ?_, ?_, ?_, ?_, ?_, ?_⟩
  · intro hx; subst hx; simp [optValidate] at hn; exact hn.symm
  · intro c hx; subst hx; simpa [optValidate] using hn
  · intro hx; subst hx; simp [optValidate] at hp; exact hp.symm
  · intro c hx; subst hx; simpa [optValidate] using hp
  · intro hx; subst hx; simp [optValidate] at hf; exact hf.symm
  · intro c hx; subst hx; simpa [optValidate] using hf
  · intro hx; subst hx; simp [optValidate] at hm; exact hm.symm
  · intro ms hx; subst hx
    simp only [optValidate] at hm
    obtain ⟨h1, h2, h3⟩ := addresses_ok _ _ _ hm
    exact ⟨h1, h2, h3⟩
  · intro hx; subst hx; simp [optValidate] at hb; exact hb.symm
  · intro x hx; subst hx
    simp only [optValidate, validatePeriod] at hb
    split at hb
    · cases hb
    · cases hb; exact ⟨rfl, by omega⟩

/-- AddValidator appends exactly the named validator (valid under the validator prefix, not
already listed); RemoveValidator removes exactly it (it must be listed); admin only; nothing
else changes -/
theorem add_validator (s s' : CState) (info : Info) (v : String) (out : List SubMsg)
    (h : addValidator s info v = .ok (s', out)) :
    s.admin = some info.sender ∧ v ∉ s.config.native.validators
    ∧ (∃ d x, Bech32.decode v = some (s.config.native.validatorPrefix, d, x))
    ∧ s'.config.native.validators = s.config.native.validators ++ [v]
    ∧ s' = { s with config := { s.config with native := { s.config.native with validators := s'.config.native.validators } } } := by
  obtain ⟨_, ha, hv, hn, hs'⟩ := addValidator_eff h
  subst hs'
  exact ⟨ha, hn, (address_ok _ _ _ hv).2, rfl, rfl⟩

theorem remove_validator (s s' : CState) (info : Info) (v : String) (out : List SubMsg)
    (h : removeValidator s info v = .ok (s', out)) :
    s.admin = some info.sender ∧ v ∈ s.config.native.validators
    ∧ s'.config.native.validators = s.config.native.validators.erase v
    ∧ s' = { s with config := { s.config with native := { s.config.native with validators := s'.config.native.validators } } } := by
  obtain ⟨_, ha, hm, hs'⟩ := removeValidator_eff h
  subst hs'
  exact ⟨ha, hm, rfl, rfl⟩

/-- the configuration accepted at instantiation is made of validated sections, starts halted and
its LST denom is factory/<contract>/<alphabetic sub-denom> -/
theorem instantiate_config (env : Env) (info : Info) (msg : InstantiateMsg) (s : CState) (out : List SubMsg)
    (h : instantiate env info msg = .ok (s, out)) :
    msg.native.validate = .ok s.config.native ∧ msg.proto.validate = .ok s.config.proto
    ∧ msg.feeCfg.validate s.config.proto = .ok s.config.feeCfg
    ∧ validateAddresses msg.monitors msg.proto.accountPrefix = .ok s.config.monitors
    ∧ s.config.lstDenom = "factory/" ++ env.contract ++ "/" ++ msg.lstSubdenom
    ∧ (∀ c ∈ msg.lstSubdenom.toList, c.isAlpha = true)
    ∧ s.config.batchPeriod = msg.batchPeriod ∧ msg.batchPeriod ≤ MAX_PERIOD_SECONDS := by
  unfold instantiate at h
  simp only [bind_ok, pure_ok] at h
  obtain ⟨nat, hn, pr, hp, fe, hf, sub, hsub, mons, hm, bp, hbp, due, _, h⟩ := h
  cases h
  obtain ⟨hs1, _, hs3⟩ := subdenom_ok _ _ hsub
  subst hs1
  have : bp = msg.batchPeriod ∧ bp ≤ MAX_PERIOD_SECONDS := by
    unfold validatePeriod at hbp
    split at hbp
    · cases hbp
    · cases hbp; exact ⟨rfl, by omega⟩
  exact ⟨hn, hp, hf, hm, rfl, hs3, this.1, this.1 ▸ this.2⟩

/-- regression witnesses: a signed channel id is rejected, a plain one accepted -/
example : channelOk "channel-+5" = false ∧ channelOk "channel-5" = true ∧ channelOk "channel-" = false
    ∧ channelOk "channel-007" = true := by decide

/-- the statements of this file quantify over every message the staking contract accepts: the `ExecuteMsg` the source
declares (table regenerated from /repo's `msg.rs` on every run) has exactly the variants, fields and types of the
model's `ExecMsg`, and the contract exports exactly the modelled entry points.  A message or entry point added to the
source — which no generated history would exercise — breaks this theorem -/
theorem messages_are_the_modelled_ones :
    MW.Generated.Interface.staking_execute = MW.Interface.model_staking_execute
    ∧ (∀ m : MW.Staking.ExecMsg, MW.Interface.execTag m ∈ MW.Interface.names MW.Generated.Interface.staking_execute)
    ∧ MW.Generated.Interface.staking_entry_points = ["execute", "instantiate", "migrate", "query", "reply", "sudo"] :=
  ⟨MW.Interface.staking_execute_eq, MW.Interface.staking_execute_covered.2, MW.Interface.staking_entry_points_eq⟩

end MW.Props.C14
