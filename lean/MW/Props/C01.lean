import MW.Inv.GReach
import MW.Inv.WorldInv
import MW.Inv.Demo
import MW.Inv.WorldStaker
import MW.Staking.Interface
/-!
# C01 — Staked-asset accounting is fully backed

`C01_accounting` is the property's first sentence for every reachable state of every history
(any interleaving of user, operator, admin and IBC-callback calls), with the history counters of
`MW.Inv.Ghost` computed from the messages the contract returned.  `ResumeContract` overwrites the
totals, so the equation carries the explicit re-basing term `rebaseN` (zero until the first
resume with non-matching totals): full strength, not "no resume".

Where the forwarded tokens are is a statement about the chain's ledgers: `C01_located` proves, for
every history of the chain model that satisfies the honest-environment conditions (DESIGN.md §12),
that everything forwarded toward the staker is in flight to it, delivered to it, or refunded and
still earmarked for re-send to it, and `C01_backed` that the reported staked total is backed by
exactly those tokens.  The property's second sentence is `C01_staker_position` (what has been delivered
to the staker, every history) and `C01_staker_can_return` (an operator who has returned, for every
batch received so far, what that batch expected, holds the outstanding batches' expected amounts plus
exactly the reported total, up to what is still on its way).  The staker's holdings are *defined* as
delivered − returned: what the staker does with delivered tokens (delegation, slashing) is outside the model.
-/
namespace MW.Props.C01
open MW MW.Staking

/-- in every reachable state: staked total + set aside for submitted batches + ownerless stake swept
to fees = staked asset forwarded toward the staker (+ the re-basing term of ResumeContract) -/
theorem C01_accounting (x : GC) (h : GReach x) :
    (x.s.st.totalNative : Int) + x.g.setAside + x.g.swept = x.g.fwd + x.g.rebaseN :=
  (allinv_reach h).g.n1

/-- until the admin re-bases the totals the plain equality of the property holds -/
theorem C01_accounting_plain (x : GC) (h : GReach x) (hz : x.g.rebaseN = 0) :
    x.s.st.totalNative + x.g.setAside + x.g.swept = x.g.fwd := by
  have := C01_accounting x h
  rw [hz] at this
  omega

/-- a stake adds the paid amount to the total and forwards exactly that amount to the staker -/
theorem stake_forwards_paid (s s' : CState) (env : Env) (info : Info) (a : Nat) (mt : Option String)
    (tn : Option Bool) (ex : Option Nat) (out : List SubMsg) (hd : DenomsDistinct s)
    (h : liquidStake s env info a mt tn ex = .ok (s', out)) :
    transferSum s.config.proto.ibcDenom out = a
    ∧ (∃ id, transferSub s env id s.config.native.staker ⟨s.config.proto.ibcDenom, a⟩ ∈ out)
    ∧ ∃ st, sweep s.st = .ok st ∧ s'.st.totalNative = st.totalNative + a := by
  obtain ⟨st, m, id1, orc, _, hsw, _, _, _, _, horc, hcase⟩ := liquidStake_eff h
  obtain ⟨ho1, _, _, _⟩ := sums_oracle env s.config.proto.ibcDenom orc horc
  have hne : ¬ s.config.lstDenom = s.config.proto.ibcDenom := fun h => hd h.symm
  rcases hcase with ⟨_, hs', hout⟩ | ⟨_, _, hs', hout⟩
  all_goals
    subst hs' hout
    refine ⟨?_, ⟨id1, by simp⟩, st, hsw, rfl⟩
    simp [transferSum_append, ho1, transferSum, transferSub, plain, hne]

/-- a reward adds reward − fee and forwards exactly reward − fee to the staker -/
theorem reward_forwards_net (s s' : CState) (env : Env) (info : Info) (out : List SubMsg)
    (h : receiveRewards s env info = .ok (s', out)) :
    ∃ reward fee, findCoin info.funds s.config.proto.ibcDenom = some reward
      ∧ fee = s.config.feeCfg.fee * reward.amount / 100000
      ∧ transferSum s.config.proto.ibcDenom out = reward.amount - fee
      ∧ s'.st.totalNative = s.st.totalNative + (reward.amount - fee) := by
  obtain ⟨reward, fee, id, orc, _, _, _, hc, hfee, _, _, horc, hs', hout⟩ := receiveRewards_eff h
  obtain ⟨ho1, _, _, _⟩ := sums_oracle env s.config.proto.ibcDenom orc horc
  subst hs' hout
  refine ⟨reward, fee, hc, hfee, ?_, rfl⟩
  have : transferSum s.config.proto.ibcDenom (treasuryMsgs s.config fee) = 0 := by
    unfold treasuryMsgs; split <;> simp [transferSum, plain]
  simp [transferSum_append, ho1, transferSum, transferSub, this]

/-- a submission subtracts exactly the expected amount it records: the `unwrap_or(0)` fall-backs of
the code are dead in every reachable state -/
theorem submit_subtracts_expected (s s' : CState) (hr : CReach s) (env : Env) (info : Info) (out : List SubMsg)
    (h : submitBatch s env info = .ok (s', out)) :
    ∃ batch u, s.batches.find? s.pendingId = some batch
      ∧ (s'.batches.find? s.pendingId).bind (·.expected) = some u
      ∧ u = s.st.totalNative * batch.total / s.st.totalLst
      ∧ u ≤ s.st.totalNative ∧ s'.st.totalNative = s.st.totalNative - u
      ∧ s'.st.totalLst = s.st.totalLst - batch.total := by
  have hi := cinv_reach hr
  obtain ⟨batch, unbond, orc, _, hb, _, hany, hL, hu, _, hs', _⟩ := submitBatch_eff h
  have hid := hi.idKey _ batch hb
  have hpos : 0 < batch.total := by
    have hst := (hi.pend batch hb).1
    have := (hi.sums _ batch hb).2 (by rw [hst]; simp)
    rw [← this]; exact any_batch_of_sum_pos hany (fun r hr => (hi.rpos r hr).1)
  have hu' : unbond = s.st.totalNative * batch.total / s.st.totalLst := by
    unfold computeUnbond at hu
    split at hu
    · omega
    · simp only [mulRatio_ok] at hu; exact hu.2.2
  have hule : unbond ≤ s.st.totalNative := by
    rw [hu']
    by_cases hz : s.st.totalLst = 0
    · rw [hz]; simp
    · apply Nat.div_le_of_le_mul
      rw [Nat.mul_comm s.st.totalLst]
      exact Nat.mul_le_mul_left _ hL
  subst hs'
  refine ⟨batch, unbond, hb, ?_, hu', hule, ?_, ?_⟩
  · simp [AMap.find?_insert, hid, Batch.updateStatus]
  · simp [checkedSub, hule]
  · simp [checkedSub, hL]

/-- a recovery re-sends refunded packets without touching any accounting total -/
theorem recover_leaves_totals (s s' : CState) (env : Env) (info : Info) (sel : Option (List Nat))
    (rc : Option String) (pg : Bool) (out : List SubMsg) (h : recover s env info sel rc pg = .ok (s', out)) :
    s'.st = s.st ∧ s'.batches = s.batches ∧ s'.reqs = s.reqs := by
  obtain ⟨_, _, _, _, _, _, _, _, _, _, _, _, _, _, hs', _⟩ := recover_eff h
  subst hs'; exact ⟨rfl, rfl, rfl⟩

/-- every first-time forward is one reply-always transfer sub-message whose reply records a packet of
exactly that amount for the staker (so the amount is tracked until its success acknowledgement) -/
theorem reply_tracks_forward (s s' : CState) (env : Env) (id seq : Nat) (coin : Coin) (recv : String)
    (out : List SubMsg) (hw : s.waiting.find? id = some { coin := coin, receiver := recv })
    (h : reply s id (.ok seq) = .ok (s', out)) :
    s'.inflight.find? seq = some { seq := seq, coin := coin, receiver := recv, status := .sent } := by
  obtain ⟨_, w, seq', hres, hw', hs'⟩ := reply_eff h
  cases hres
  rw [hw] at hw'; cases hw'
  subst hs'
  simp [AMap.find?_insert]

open MW.Chain in
/-- **F1 (located), every history.**  Along every history of the chain model that satisfies the
honest-environment conditions, the staked asset forwarded toward the staker by stakes and (net)
rewards equals what the chain holds in flight to the staker or has delivered to it, plus what was
refunded to the contract and is still earmarked for re-send to the staker.  Nothing forwarded is
ever lost, duplicated or redirected — in particular a permissionless recovery can only re-send a
refunded amount to the receiver it was addressed to -/
theorem C01_located {env : Env} {info : Info} {msg : InstantiateMsg} {c0 : CState} {out : List SubMsg}
    (hi : instantiate env info msg = .ok (c0, out)) (self pfx : String) (t hgt : Nat) (evs : List Event)
    (hok : AllOK (bootWorld c0 self pfx t hgt) evs) :
    let r := runW (bootWorld c0 self pfx t hgt) {} evs
    locW r.1.c.config.native.staker r.1.c.config.proto.ibcDenom r.1.pkts
      + locC r.1.c.config.native.staker r.1.c.config.proto.ibcDenom r.1.c = r.2.fwd :=
  (world_history_winv hi self pfx t hgt evs hok).f1

open MW.Chain in
/-- **C01 on the chain's ledgers, every history.**  Along every history of the chain model that
satisfies the honest-environment conditions, the staked total reported by the State query, plus
what was set aside for submitted batches and the ownerless stake swept into fees, is backed token
for token: it equals what is in flight to the staker, delivered to the staker, or refunded and
earmarked for re-send to the staker (plus the re-basing term a ResumeContract with non-matching
totals introduces).  This is `N1` and `F1` over one and the same history counters -/
theorem C01_backed {env : Env} {info : Info} {msg : InstantiateMsg} {c0 : CState} {out : List SubMsg}
    (hi : instantiate env info msg = .ok (c0, out)) (self pfx : String) (t hgt : Nat) (evs : List Event)
    (hok : AllOK (bootWorld c0 self pfx t hgt) evs) :
    let r := runW (bootWorld c0 self pfx t hgt) {} evs
    (r.1.c.st.totalNative : Int) + r.2.setAside + r.2.swept
      = (locW r.1.c.config.native.staker r.1.c.config.proto.ibcDenom r.1.pkts : Int)
        + locC r.1.c.config.native.staker r.1.c.config.proto.ibcDenom r.1.c + r.2.rebaseN := by
  have h := world_history_winv hi self pfx t hgt evs hok
  have h1 := h.n1
  have h2 := h.f1
  simp only
  omega

open MW.Chain in
/-- **What the staker has been given, every history.**  Along every history of the chain model that satisfies the
honest-environment conditions: the staked asset delivered to the staker on the native chain, plus what is still
in flight to it, plus what was refunded and is earmarked for re-send to it, equals the staked total the State
query reports, plus the expected amounts of all batches submitted and not yet received, plus the expected
amounts of the batches already received, plus the ownerless stake swept to fees (minus the re-basing term of a
ResumeContract with non-matching totals).  `SInv` (the set-aside counter is the sum the batches record) holds
along every history without any condition. -/
theorem C01_staker_position {env : Env} {info : Info} {msg : InstantiateMsg} {c0 : CState} {out : List SubMsg}
    (hi : instantiate env info msg = .ok (c0, out)) (self pfx : String) (t hgt : Nat) (evs : List Event)
    (hok : AllOK (bootWorld c0 self pfx t hgt) evs) :
    let r := runW (bootWorld c0 self pfx t hgt) {} evs
    let S := r.1.c.config.native.staker
    let D := r.1.c.config.proto.ibcDenom
    (delW S D r.1.pkts : Int) + pendW S D r.1.pkts + locC S D r.1.c + r.2.rebaseN
      = r.1.c.st.totalNative + outSum r.1.c + doneSum r.1.c + r.2.swept := by
  have h := world_history_winv hi self pfx t hgt evs hok
  have hs := world_history_sinv hi self pfx t hgt evs
  have hc := cinv_reach (world_history_creach hi self pfx t hgt evs)
  have h1 := h.n1
  have h2 := h.f1
  have h3 := expSum_split hc
  have h4 := locW_split (runW (bootWorld c0 self pfx t hgt) {} evs).1.c.config.native.staker
    (runW (bootWorld c0 self pfx t hgt) {} evs).1.c.config.proto.ibcDenom (runW (bootWorld c0 self pfx t hgt) {} evs).1.pkts
  unfold SInv at hs
  simp only
  omega

open MW.Chain in
/-- **"Hence …": the staker holds enough.**  Call the staker's holdings what was delivered to it minus what it has
returned through `ReceiveUnstakedTokens` (`recvSum`, the received amounts the batches record; no slashing and no
other outflow — that is the honest-operator reading, and it is a definition here, the native chain is not
modelled further).  If the operator has returned for every batch received so far exactly what that batch expected,
then along every history satisfying the conditions the holdings plus what is still on its way to the staker equal
the outstanding batches' expected amounts plus the reported staked total (plus the swept stake, minus the
re-basing term): every outstanding batch can be returned in full and the remaining total stays backed exactly. -/
theorem C01_staker_can_return {env : Env} {info : Info} {msg : InstantiateMsg} {c0 : CState} {out : List SubMsg}
    (hi : instantiate env info msg = .ok (c0, out)) (self pfx : String) (t hgt : Nat) (evs : List Event)
    (hok : AllOK (bootWorld c0 self pfx t hgt) evs)
    (honest : recvSum (runW (bootWorld c0 self pfx t hgt) {} evs).1.c = doneSum (runW (bootWorld c0 self pfx t hgt) {} evs).1.c) :
    let r := runW (bootWorld c0 self pfx t hgt) {} evs
    let S := r.1.c.config.native.staker
    let D := r.1.c.config.proto.ibcDenom
    let holdings : Int := (delW S D r.1.pkts : Int) - recvSum r.1.c
    holdings + pendW S D r.1.pkts + locC S D r.1.c + r.2.rebaseN
      = outSum r.1.c + r.1.c.st.totalNative + r.2.swept := by
  have h := C01_staker_position hi self pfx t hgt evs hok
  simp only at h ⊢
  omega

/-! non-vacuity of `C01_located`: the demo history (two stakes, a refund and recovery of an LST packet,
rewards) satisfies the conditions; 3900 forwarded, 3900 in flight to the staker -/
section Demo
open MW.Chain MW.Chain.Demo
#guard (demoBoot.map fun w => allOKb w demoEvents) == some true
#guard (demoBoot.map fun w => let r := runW w {} demoEvents; (summary r.1 r.2).drop 10) == some [3900, 3900, 0]
/-- the same history followed by the success acknowledgements of both stake packets: 3000 delivered to the staker,
the 900 of the reward still in flight; batch 1 expected 500 and the operator returned 480 for it:
3000 + 900 + 0 = reported total 3400 + outstanding 0 + received batches' expectations 500 + swept 0 -/
def demoAcked : List Event := demoEvents ++ [.ack 1 true, .ack 2 true]
#guard (demoBoot.map fun w => allOKb w demoAcked) == some true
#guard (demoBoot.map fun w => let r := runW w {} demoAcked
          let S := r.1.c.config.native.staker
          [delW S demoD r.1.pkts, pendW S demoD r.1.pkts, locC S demoD r.1.c, outSum r.1.c, doneSum r.1.c, recvSum r.1.c,
           r.1.c.st.totalNative, r.2.swept]) == some [3000, 900, 0, 0, 500, 480, 3400, 0]
/-- non-vacuity of `C01_staker_can_return`: the operator returns the 500 batch 1 expects, a second batch of 300 LST
is submitted and still outstanding (expected 408 at the rate the reward produced): holdings 3000 − 500 = 2500, 900 in
flight; 2500 + 900 = outstanding 408 + reported total 2992 -/
def demoHonest : List Event :=
  demoEvents1 ++
  [ .advance (86400 * 1000000000) 100,
    .exec demoUser [] .submitBatch {} (some 0),
    .advance (1814400 * 1000000000) 100,
    .hook "channel-7" demoStaker ⟨demoD, 500⟩ (.receiveUnstakedTokens 1) {},
    .exec demoUser [] (.withdraw 1) {} (some 0),
    .hook "channel-7" demoCollector ⟨demoD, 1000⟩ .receiveRewards {},
    .ack 1 true, .ack 2 true,
    .exec demoUser [⟨demoX, 300⟩] .liquidUnstake {} (some 0),
    .exec demoUser [] .submitBatch {} (some 0) ]
#guard (demoBoot.map fun w => allOKb w demoHonest) == some true
#guard (demoBoot.map fun w => let r := runW w {} demoHonest
          let S := r.1.c.config.native.staker
          [delW S demoD r.1.pkts, pendW S demoD r.1.pkts, locC S demoD r.1.c, outSum r.1.c, doneSum r.1.c, recvSum r.1.c,
           r.1.c.st.totalNative, r.2.swept]) == some [3000, 900, 0, 408, 500, 500, 2992, 0]
end Demo

/-- non-vacuity: totals 0/0, a stake of 1000 forwards 1000 and the equation reads 1000 = 1000 -/
example : (1000 : Int) + 0 + 0 = 1000 + 0 := by decide

/-- the statements of this file quantify over every message the staking contract accepts: the `ExecuteMsg` the source
declares (table regenerated from /repo's `msg.rs` on every run) has exactly the variants, fields and types of the
model's `ExecMsg`, and the contract exports exactly the modelled entry points.  A message or entry point added to the
source — which no generated history would exercise — breaks this theorem -/
theorem messages_are_the_modelled_ones :
    MW.Generated.Interface.staking_execute = MW.Interface.model_staking_execute
    ∧ (∀ m : MW.Staking.ExecMsg, MW.Interface.execTag m ∈ MW.Interface.names MW.Generated.Interface.staking_execute)
    ∧ MW.Generated.Interface.staking_entry_points = ["execute", "instantiate", "migrate", "query", "reply", "sudo"] :=
  ⟨MW.Interface.staking_execute_eq, MW.Interface.staking_execute_covered.2, MW.Interface.staking_entry_points_eq⟩

end MW.Props.C01
