import MW.Staking.Exec
import MW.Lemmas
import MW.Staking.Interface
/-!
# C04 — Exchange-rate fairness: floor rounding, no dilution, no rounding profit

All statements are over unbounded `Nat`; representability (the result fits 128 bits) is the
success of the checked operation itself (`= .ok _`).
-/
namespace MW.Props.C04
open MW MW.Staking

/-- the pure mint formula is the floor, 1:1 when nothing is staked -/
theorem mint_eq_floor (N L a m : Nat) (h : computeMint N L a = .ok m) :
    (N = 0 → m = a) ∧ (N ≠ 0 → m = L * a / N) := by
  unfold computeMint at h
  split at h
  · simp_all
  · simp only [mulRatio_ok] at h; simp_all

/-- the pure unbond formula is the floor -/
theorem unbond_eq_floor (N L b u : Nat) (h : computeUnbond N L b = .ok u) :
    (b = 0 → u = 0) ∧ (b ≠ 0 → u = N * b / L ∧ L ≠ 0) := by
  unfold computeUnbond at h
  split at h
  · simp_all
  · simp only [mulRatio_ok] at h; simp_all

/-- the only way the pure functions fail is the 128-bit overflow of the quotient (or a zero
denominator for the unbond amount): they never produce a wrong value -/
theorem mint_fails_only_on_overflow (N L a : Nat) (e : Err) (h : computeMint N L a = .error e) :
    N ≠ 0 ∧ L * a / N > U128.max := by
  unfold computeMint mulRatio at h
  split at h <;> simp_all
  split at h <;> simp_all

/-- a successful stake: amount at or above the minimum, non-zero mint, at least the expected
amount, minted amount = the floor formula on the totals after the ownerless sweep, and the
totals grow by exactly (paid, minted) -/
theorem stake_guards (s s' : CState) (env : Env) (info : Info) (a : Nat) (mt : Option String)
    (tn : Option Bool) (ex : Option Nat) (out : List SubMsg)
    (h : liquidStake s env info a mt tn ex = .ok (s', out)) :
    ∃ st m, sweep s.st = .ok st ∧ computeMint st.totalNative st.totalLst a = .ok m
      ∧ a ≥ s.config.proto.minStake ∧ m ≠ 0 ∧ (∀ e, ex = some e → m ≥ e)
      ∧ out.head? = some (plain (.mint env.contract s.config.lstDenom m env.contract))
      ∧ s'.st.totalNative = st.totalNative + a ∧ s'.st.totalLst = st.totalLst + m := by
  unfold liquidStake at h
  simp only [bind_ok, ensure_ok] at h
  obtain ⟨_, _, _, _, _, _, _, h4, st, h5, m, h6, _, h7, _, h8, r1, h9, n', h11, l', h12, orc, h10, h13⟩ := h
  refine ⟨st, m, h5, h6, by simpa using h4, by simpa using h7, ?_, ?_, ?_, ?_⟩
  · intro e he; subst he; simp [checkExpected, ensure_ok] at h8; exact h8
  · split at h13
    · simp only [pure_ok] at h13; cases h13; simp
    · simp only [bind_ok, pure_ok] at h13; obtain ⟨_, _, r3, _, h13⟩ := h13; cases h13; simp
  · simp only [add128_ok] at h11
    split at h13
    · simp only [pure_ok] at h13; cases h13; simp [h11.2]
    · simp only [bind_ok, pure_ok] at h13
      obtain ⟨_, _, r3, hr3, h13⟩ := h13; cases h13
      simp only [ibcTransferSubMsg, bind_ok, pure_ok, saveWaiting] at hr3
      obtain ⟨_, _, _, _, s3, hs3, hr3⟩ := hr3
      cases hr3
      split at hs3 <;> simp at hs3
      subst hs3; simp [h11.2]
  · simp only [add128_ok] at h12
    split at h13
    · simp only [pure_ok] at h13; cases h13; simp [h12.2]
    · simp only [bind_ok, pure_ok] at h13
      obtain ⟨_, _, r3, hr3, h13⟩ := h13; cases h13
      simp only [ibcTransferSubMsg, bind_ok, pure_ok, saveWaiting] at hr3
      obtain ⟨_, _, _, _, s3, hs3, hr3⟩ := hr3
      cases hr3
      split at hs3 <;> simp at hs3
      subst hs3; simp [h12.2]

/-- staking does not lower the staked-per-LST ratio of existing holders:
`N/L ≤ (N+a)/(L+m)` cross-multiplied -/
theorem stake_no_dilution (N L a : Nat) :
    N * (L + L * a / N) ≤ (N + a) * L := by
  have h := Nat.mul_div_le (L * a) N
  have : N * (L + L * a / N) = N * L + N * (L * a / N) := by rw [Nat.mul_add]
  rw [this, Nat.add_mul]
  have : a * L = L * a := Nat.mul_comm _ _
  omega

/-- setting aside `floor(N*b/L)` for a batch of `b ≤ L` LST does not lower the ratio of the
holders that remain: `N/L ≤ (N-u)/(L-b)` cross-multiplied -/
theorem submit_no_dilution (N L b : Nat) :
    N * (L - b) ≤ (N - N * b / L) * L := by
  have h := Nat.mul_div_le (N * b) L
  rw [Nat.mul_sub, Nat.sub_mul]
  have : N * b / L * L = L * (N * b / L) := Nat.mul_comm _ _
  omega

/-- the amount set aside never exceeds the staked total, so the `checked_sub(..).unwrap_or(0)`
fall-backs of `SubmitBatch` are dead code whenever `b ≤ L` -/
theorem unbond_le_total (N L b : Nat) (hb : b ≤ L) : N * b / L ≤ N := by
  by_cases hL : L = 0
  · subst hL; simp
  · apply Nat.div_le_of_le_mul
    rw [Nat.mul_comm L N]
    exact Nat.mul_le_mul_left N hb

/-- staking `a` and immediately unstaking the minted amount at the new totals never returns
more than `a` (both the 1:1 case and the proportional case) -/
theorem roundtrip_no_profit (N L a m : Nat) (h : computeMint N L a = .ok m) :
    (N + a) * m / (L + m) ≤ a := by
  obtain ⟨h0, h1⟩ := mint_eq_floor N L a m h
  by_cases hz : L + m = 0
  · rw [hz]; simp
  · apply Nat.div_le_of_le_mul
    by_cases hN : N = 0
    · have := h0 hN; subst this; subst hN
      simp only [Nat.zero_add]
      have : (L + m) * m = L * m + m * m := Nat.add_mul _ _ _
      omega
    · have hm := h1 hN
      have hle : N * m ≤ L * a := by rw [hm]; exact Nat.mul_div_le (L * a) N
      rw [Nat.add_mul, Nat.add_mul]
      have : a * m = m * a := Nat.mul_comm _ _
      omega

/-- non-vacuity: concrete totals on which the guards are met and rounding is strict -/
example : computeMint 2000 1000 1001 = .ok 500 ∧ (2000 + 1001) * 500 / (1000 + 500) ≤ 1001 := ⟨rfl, by decide⟩
example : computeUnbond 3001 1500 500 = .ok 1000 := rfl

/-- the statements of this file quantify over every message the staking contract accepts: the `ExecuteMsg` the source
declares (table regenerated from /repo's `msg.rs` on every run) has exactly the variants, fields and types of the
model's `ExecMsg`, and the contract exports exactly the modelled entry points.  A message or entry point added to the
source — which no generated history would exercise — breaks this theorem -/
theorem messages_are_the_modelled_ones :
    MW.Generated.Interface.staking_execute = MW.Interface.model_staking_execute
    ∧ (∀ m : MW.Staking.ExecMsg, MW.Interface.execTag m ∈ MW.Interface.names MW.Generated.Interface.staking_execute)
    ∧ MW.Generated.Interface.staking_entry_points = ["execute", "instantiate", "migrate", "query", "reply", "sudo"] :=
  ⟨MW.Interface.staking_execute_eq, MW.Interface.staking_execute_covered.2, MW.Interface.staking_entry_points_eq⟩

end MW.Props.C04
