import MW.Staking.Exec
import MW.Lemmas
import MW.Staking.Interface
import MW.Inv.WorldFees
import MW.Inv.Demo
/-!
# C04 — Exchange-rate fairness: floor rounding, no dilution, no rounding profit

All statements are over unbounded `Nat`; representability (the result fits 128 bits) is the
success of the checked operation itself (`= .ok _`).
-/
namespace MW.Props.C04
open MW MW.Staking MW.Chain

/-- the pure mint formula is the floor, 1:1 when nothing is staked -/
theorem mint_eq_floor (N L a m : Nat) (h : computeMint N L a = .ok m) :
    (N = 0 → m = a) ∧ (N ≠ 0 → m = L * a / N) := by
  unfold computeMint at h
  split at h
  · simp_all
  · simp only [mulRatio_ok] at h; simp_all

/-- the pure unbond formula is the floor -/
theorem unbond_eq_floor (N L b u : Nat) (h : computeUnbond N L b = .ok u) :
    (b = 0 → u = 0) ∧ (b ≠ 0 → u = N * b / L ∧ L ≠ 0) := by
  unfold computeUnbond at h
  split at h
  · simp_all
  · simp only [mulRatio_ok] at h; simp_all

/-- the only way the pure functions fail is the 128-bit overflow of the quotient (or a zero
denominator for the unbond amount): they never produce a wrong value -/
theorem mint_fails_only_on_overflow (N L a : Nat) (e : Err) (h : computeMint N L a = .error e) :
    N ≠ 0 ∧ L * a / N > U128.max := by
  unfold computeMint mulRatio at h
  split at h <;> simp_all
  split at h <;> simp_all

/-- a successful stake: amount at or above the minimum, non-zero mint, at least the expected
amount, minted amount = the floor formula on the totals after the ownerless sweep, and the
totals grow by exactly (paid, minted) -/
theorem stake_guards (s s' : CState) (env : Env) (info : Info) (a : Nat) (mt : Option String)
    (tn : Option Bool) (ex : Option Nat) (out : List SubMsg)
    (h : liquidStake s env info a mt tn ex = .ok (s', out)) :
    ∃ st m, sweep s.st = .ok st ∧ computeMint st.totalNative st.totalLst a = .ok m
      ∧ a ≥ s.config.proto.minStake ∧ m ≠ 0 ∧ (∀ e, ex = some e → m ≥ e)
      ∧ out.head? = some (plain (.mint env.contract s.config.lstDenom m env.contract))
      ∧ s'.st.totalNative = st.totalNative + a ∧ s'.st.totalLst = st.totalLst + m := by
  unfold liquidStake at h
  simp only [bind_ok, ensure_ok] at h
  obtain ⟨_, _, _, _, _, _, _, h4, st, h5, m, h6, _, h7, _, h8, r1, h9, n', h11, l', h12, orc, h10, h13⟩ := h
  refine ⟨st, m, h5, h6, by simpa using h4, by simpa using h7, ?_, ?_, ?_, ?_⟩
  · intro e he; subst he; simp [checkExpected, ensure_ok] at h8; exact h8
  · split at h13
    · simp only [pure_ok] at h13; cases h13; simp
    · simp only [bind_ok, pure_ok] at h13; obtain ⟨_, _, r3, _, h13⟩ := h13; cases h13; simp
  · simp only [add128_ok] at h11
    split at h13
    · simp only [pure_ok] at h13; cases h13; simp [h11.2]
    · simp only [bind_ok, pure_ok] at h13
      obtain ⟨_, _, r3, hr3, h13⟩ := h13; cases h13
      simp only [ibcTransferSubMsg, bind_ok, pure_ok, saveWaiting] at hr3
      obtain ⟨_, _, _, _, s3, hs3, hr3⟩ := hr3
      cases hr3
      split at hs3 <;> simp at hs3
      subst hs3; simp [h11.2]
  · simp only [add128_ok] at h12
    split at h13
    · simp only [pure_ok] at h13; cases h13; simp [h12.2]
    · simp only [bind_ok, pure_ok] at h13
      obtain ⟨_, _, r3, hr3, h13⟩ := h13; cases h13
      simp only [ibcTransferSubMsg, bind_ok, pure_ok, saveWaiting] at hr3
      obtain ⟨_, _, _, _, s3, hs3, hr3⟩ := hr3
      cases hr3
      split at hs3 <;> simp at hs3
      subst hs3; simp [h12.2]

/-- staking does not lower the staked-per-LST ratio of existing holders:
`N/L ≤ (N+a)/(L+m)` cross-multiplied -/
theorem stake_no_dilution (N L a : Nat) :
    N * (L + L * a / N) ≤ (N + a) * L := by
  have h := Nat.mul_div_le (L * a) N
  have : N * (L + L * a / N) = N * L + N * (L * a / N) := by rw [Nat.mul_add]
  rw [this, Nat.add_mul]
  have : a * L = L * a := Nat.mul_comm _ _
  omega

/-- setting aside `floor(N*b/L)` for a batch of `b ≤ L` LST does not lower the ratio of the
holders that remain: `N/L ≤ (N-u)/(L-b)` cross-multiplied -/
theorem submit_no_dilution (N L b : Nat) :
    N * (L - b) ≤ (N - N * b / L) * L := by
  have h := Nat.mul_div_le (N * b) L
  rw [Nat.mul_sub, Nat.sub_mul]
  have : N * b / L * L = L * (N * b / L) := Nat.mul_comm _ _
  omega

/-- the amount set aside never exceeds the staked total, so the `checked_sub(..).unwrap_or(0)`
fall-backs of `SubmitBatch` are dead code whenever `b ≤ L` -/
theorem unbond_le_total (N L b : Nat) (hb : b ≤ L) : N * b / L ≤ N := by
  by_cases hL : L = 0
  · subst hL; simp
  · apply Nat.div_le_of_le_mul
    rw [Nat.mul_comm L N]
    exact Nat.mul_le_mul_left N hb

/-- staking `a` and immediately unstaking the minted amount at the new totals never returns
more than `a` (both the 1:1 case and the proportional case) -/
theorem roundtrip_no_profit (N L a m : Nat) (h : computeMint N L a = .ok m) :
    (N + a) * m / (L + m) ≤ a := by
  obtain ⟨h0, h1⟩ := mint_eq_floor N L a m h
  by_cases hz : L + m = 0
  · rw [hz]; simp
  · apply Nat.div_le_of_le_mul
    by_cases hN : N = 0
    · have := h0 hN; subst this; subst hN
      simp only [Nat.zero_add]
      have : (L + m) * m = L * m + m * m := Nat.add_mul _ _ _
      omega
    · have hm := h1 hN
      have hle : N * m ≤ L * a := by rw [hm]; exact Nat.mul_div_le (L * a) N
      rw [Nat.add_mul, Nat.add_mul]
      have : a * m = m * a := Nat.mul_comm _ _
      omega

/-- "the staked-per-LST ratio of `b` is at least that of `a`", cross-multiplied so that it is stated over `Nat` -/
def RateLe (a b : St) : Prop := a.totalNative * b.totalLst ≤ b.totalNative * a.totalLst

theorem RateLe.refl (a : St) : RateLe a a := Nat.le_refl _

/-- **no message dilutes the holders**: whatever message succeeds — from any sender, with any funds, under any
configuration — the ratio staked/LST of the totals afterwards is at least the ratio before, as long as somebody holds
LST.  The one exception is the admin's `ResumeContract`, which overwrites the totals by design. -/
theorem execute_rate {s s' : CState} {env : Env} {info : Info} {m : ExecMsg} {out : List SubMsg}
    (hx : execute s env info m = .ok (s', out)) (hL : s.st.totalLst ≠ 0)
    (hm : ∀ n l r, m ≠ .resumeContract n l r) : RateLe s.st s'.st := by
  cases m <;> simp only [execute] at hx
  case liquidStake mt tn ex =>
    simp only [bind_ok] at hx
    obtain ⟨pay, _, hx⟩ := hx
    obtain ⟨st, mint, _, _, _, hsw, hmint, _, _, _, _, hcase⟩ := liquidStake_eff hx
    have hst : st = s.st := by
      rcases sweep_eff hsw with ⟨h1, _, _⟩ | ⟨_, h3⟩
      · exact absurd h1 hL
      · exact h3
    subst hst
    obtain ⟨h0, h1⟩ := mint_eq_floor _ _ _ _ hmint
    have key : s.st.totalNative * (s.st.totalLst + mint) ≤ (s.st.totalNative + pay) * s.st.totalLst := by
      by_cases hN : s.st.totalNative = 0
      · rw [hN]; simp
      · rw [h1 hN]; exact stake_no_dilution _ _ _
    rcases hcase with ⟨_, hs', _⟩ | ⟨_, _, hs', _⟩ <;> subst hs' <;> exact key
  case liquidUnstake =>
    simp only [bind_ok] at hx
    obtain ⟨a, _, hx⟩ := hx
    obtain ⟨_, _, b, _, hs'⟩ := liquidUnstake_eff hx
    subst hs'; exact RateLe.refl _
  case submitBatch =>
    obtain ⟨batch, u, _, _, _, _, _, hb, hu, _, hs', _⟩ := submitBatch_eff hx
    subst hs'
    obtain ⟨h0, h1⟩ := unbond_eq_floor _ _ _ _ hu
    have hule : u ≤ s.st.totalNative := by
      by_cases hz : batch.total = 0
      · rw [h0 hz]; exact Nat.zero_le _
      · rw [(h1 hz).1]; exact unbond_le_total _ _ _ hb
    have e1 : (checkedSub s.st.totalNative u).getD 0 = s.st.totalNative - u := by
      rw [checkedSub_some.mpr ⟨hule, rfl⟩]; rfl
    have e2 : (checkedSub s.st.totalLst batch.total).getD 0 = s.st.totalLst - batch.total := by
      rw [checkedSub_some.mpr ⟨hb, rfl⟩]; rfl
    simp only [RateLe, e1, e2]
    by_cases hz : batch.total = 0
    · rw [h0 hz, hz]; simp
    · rw [(h1 hz).1]; exact submit_no_dilution _ _ _
  case withdraw b =>
    obtain ⟨_, _, _, _, _, _, _, _, _, _, _, hs', _⟩ := withdraw_eff hx
    subst hs'; exact RateLe.refl _
  case addValidator v => obtain ⟨_, _, _, _, hs'⟩ := addValidator_eff hx; subst hs'; exact RateLe.refl _
  case removeValidator v => obtain ⟨_, _, _, hs'⟩ := removeValidator_eff hx; subst hs'; exact RateLe.refl _
  case transferOwnership n => obtain ⟨_, o, _, hs'⟩ := transferOwnership_eff hx; subst hs'; exact Nat.le_refl _
  case acceptOwnership => obtain ⟨_, o, _, hs'⟩ := acceptOwnership_eff hx; subst hs'; exact Nat.le_refl _
  case revokeOwnershipTransfer => obtain ⟨_, o, _, hs'⟩ := revokeOwnership_eff hx; subst hs'; exact Nat.le_refl _
  case updateConfig n p f mo bp =>
    obtain ⟨_, _, nat', proto', fee', mons', bp', _, _, _, _, _, hs'⟩ := updateConfig_eff hx
    subst hs'; exact RateLe.refl _
  case receiveRewards =>
    obtain ⟨reward, fee, _, _, _, _, _, hc, hfee, _, _, _, hs', _⟩ := receiveRewards_eff hx
    subst hs'
    simp only [RateLe]
    exact Nat.mul_le_mul_right _ (Nat.le_add_right _ _)
  case receiveUnstakedTokens b =>
    obtain ⟨_, _, _, _, _, _, _, _, _, _, _, hs'⟩ := receiveUnstaked_eff hx; subst hs'; exact RateLe.refl _
  case circuitBreaker =>
    unfold circuitBreaker at hx
    simp only [bind_ok, pure_ok] at hx
    obtain ⟨_, _, hx⟩ := hx; cases hx; exact RateLe.refl _
  case resumeContract n l r => exact absurd rfl (hm n l r)
  case recover pg sel rc =>
    obtain ⟨_, _, _, _, _, _, _, _, _, _, _, _, _, _, hs', _⟩ := recover_eff hx
    subst hs'; exact RateLe.refl _
  case feeWithdraw a =>
    unfold feeWithdraw at hx
    simp only [bind_ok, pure_ok, ensure_ok, decide_eq_true_eq] at hx
    obtain ⟨_, _, _, hle, _, _, hx⟩ := hx; cases hx; exact Nat.le_refl _

/-- one transaction of the chain model: committed or rolled back, with whatever faults, the ratio does not drop -/
theorem runExec_rate (w : World) (sender : String) (funds : List Coin) (msg : ExecMsg) (f : Faults) (txi : Option Nat)
    (hL : w.c.st.totalLst ≠ 0) (hm : ∀ n l r, msg ≠ .resumeContract n l r) :
    RateLe w.c.st (runExec w sender funds msg f txi).w.c.st := by
  unfold runExec
  cases hcore : runExecCore w sender funds msg f txi with
  | mk o calls =>
    cases o with
    | none => exact RateLe.refl _
    | some w' =>
      simp only
      obtain ⟨bal1, c', msgs, d, _, hx, hd, hw'⟩ := runExecCore_some hcore
      subst hw'
      have hc := dispatchAll_st f { w := { w with bal := bal1, c := c' },
                                    calls := [Call.execute { sender, funds } msg (.ok msgs)] } msgs
      rw [hd] at hc
      rw [hc]
      exact execute_rate hx hL hm

/-- the event is not an admin override of the totals -/
def notResume : Event → Prop
  | .exec _ _ msg _ _ => ∀ n l r, msg ≠ .resumeContract n l r
  | .hook _ _ _ msg _ => ∀ n l r, msg ≠ .resumeContract n l r
  | _ => True

/-- **every event of the chain**: transactions by anybody, ibc-hooks deliveries, acknowledgements, timeouts, stray
callbacks, donations, clock advances, failed submissions — none lowers the ratio for existing holders -/
theorem step_rate (w : World) (e : Event) (hL : w.c.st.totalLst ≠ 0) (hn : notResume e) :
    RateLe w.c.st (step w e).w.c.st := by
  by_cases hx : ∃ s fu m f t, e = .exec s fu m f t
  · obtain ⟨sender, funds, msg, f, txi, rfl⟩ := hx
    simp only [step]
    exact runExec_rate w sender funds msg f txi hL hn
  by_cases hk : ∃ c n co m f, e = .hook c n co m f
  · obtain ⟨channel, ns, coin, msg, f, rfl⟩ := hk
    simp only [step]
    split
    · exact RateLe.refl _
    · rename_i acct hacct
      split
      · exact RateLe.refl _
      · have h1 := runExec_rate { w with bal := w.bal.add acct coin.denom coin.amount } acct [coin] msg f (some 0) hL hn
        split
        · exact h1
        · exact RateLe.refl _
  · have he : ∀ s fu m f t, e ≠ .exec s fu m f t := fun s fu m f t h => hx ⟨s, fu, m, f, t, h⟩
    have hh : ∀ c n co m f, e ≠ .hook c n co m f := fun c n co m f h => hk ⟨c, n, co, m, f, h⟩
    rw [step_st_other w e he hh]; exact RateLe.refl _

/-- the ratio comparison composes across a state in which somebody holds LST -/
theorem RateLe.trans {a b c : St} (h1 : RateLe a b) (h2 : RateLe b c) (hb : b.totalLst ≠ 0) : RateLe a c := by
  unfold RateLe at *
  apply Nat.le_of_mul_le_mul_left _ (Nat.pos_of_ne_zero hb)
  calc b.totalLst * (a.totalNative * c.totalLst)
      = (a.totalNative * b.totalLst) * c.totalLst := by
        rw [Nat.mul_comm b.totalLst, Nat.mul_assoc, Nat.mul_comm c.totalLst, ← Nat.mul_assoc]
    _ ≤ (b.totalNative * a.totalLst) * c.totalLst := Nat.mul_le_mul_right _ h1
    _ = (b.totalNative * c.totalLst) * a.totalLst := by
        rw [Nat.mul_assoc, Nat.mul_comm a.totalLst, ← Nat.mul_assoc]
    _ ≤ (c.totalNative * b.totalLst) * a.totalLst := Nat.mul_le_mul_right _ h2
    _ = b.totalLst * (c.totalNative * a.totalLst) := by
        rw [Nat.mul_comm c.totalNative, Nat.mul_assoc]

/-- the LST total stays positive at every state the history passes through, and no event is an admin override -/
def HoldersThroughout : World → List Event → Prop
  | w, [] => w.c.st.totalLst ≠ 0
  | w, e :: es => w.c.st.totalLst ≠ 0 ∧ notResume e ∧ HoldersThroughout (step w e).w es

def runEvents (w : World) : List Event → World
  | [] => w
  | e :: es => runEvents (step w e).w es

/-- **every history**: however users, the operator, relayers and the admin (short of overriding the totals) interleave,
the ratio at the end is at least the ratio at the start -/
theorem C04_rate_history (w : World) (evs : List Event) (h : HoldersThroughout w evs) :
    RateLe w.c.st (runEvents w evs).c.st := by
  induction evs generalizing w with
  | nil => exact RateLe.refl _
  | cons e es ih =>
    obtain ⟨hL, hn, hrest⟩ := h
    simp only [runEvents]
    have h1 := step_rate w e hL hn
    have h2 := ih (step w e).w hrest
    have hmid : (step w e).w.c.st.totalLst ≠ 0 := by
      cases es with
      | nil => exact hrest
      | cons _ _ => exact hrest.1
    exact RateLe.trans h1 h2 hmid

/-- executable form of `HoldersThroughout` for the non-vacuity check below -/
def holdersb : World → List Event → Bool
  | w, [] => w.c.st.totalLst != 0
  | w, e :: es => w.c.st.totalLst != 0
      && (match e with
          | .exec _ _ (.resumeContract ..) _ _ => false
          | .hook _ _ _ (.resumeContract ..) _ => false
          | _ => true)
      && holdersb (step w e).w es

section Demo
open MW.Chain.Demo
/-! non-vacuity of `C04_rate_history`: after the first stake of the demo history somebody holds LST, and the rest of
the history (a second stake, a failed acknowledgement and its recovery, an unstake, a timeout, a donation, a batch
submission, the operator's return, a withdrawal and a reward) keeps it so; the ratio goes from 2000/2000 to 3400/2500 -/
#guard (demoBoot.map fun w =>
  let w1 := runEvents w (demoEvents.take 3)
  let rest := demoEvents.drop 3
  let w2 := runEvents w1 rest
  (holdersb w1 rest, w1.c.st.totalNative, w1.c.st.totalLst, w2.c.st.totalNative, w2.c.st.totalLst))
  == some (true, 2000, 2000, 3400, 2500)
end Demo

/-- non-vacuity: concrete totals on which the guards are met and rounding is strict -/
example : computeMint 2000 1000 1001 = .ok 500 ∧ (2000 + 1001) * 500 / (1000 + 500) ≤ 1001 := ⟨rfl, by decide⟩
example : computeUnbond 3001 1500 500 = .ok 1000 := rfl

/-- the statements of this file quantify over every message the staking contract accepts: the `ExecuteMsg` the source
declares (table regenerated from /repo's `msg.rs` on every run) has exactly the variants, fields and types of the
model's `ExecMsg`, and the contract exports exactly the modelled entry points.  A message or entry point added to the
source — which no generated history would exercise — breaks this theorem -/
theorem messages_are_the_modelled_ones :
    MW.Generated.Interface.staking_execute = MW.Interface.model_staking_execute
    ∧ (∀ m : MW.Staking.ExecMsg, MW.Interface.execTag m ∈ MW.Interface.names MW.Generated.Interface.staking_execute)
    ∧ MW.Generated.Interface.staking_entry_points = ["execute", "instantiate", "migrate", "query", "reply", "sudo"] :=
  ⟨MW.Interface.staking_execute_eq, MW.Interface.staking_execute_covered.2, MW.Interface.staking_entry_points_eq⟩

end MW.Props.C04
