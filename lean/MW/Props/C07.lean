import MW.Inv.GReach
import MW.Chain.World
import MW.Inv.WorldInv
import MW.Inv.WorldRecover
import MW.Inv.Demo
import MW.Staking.Interface
/-!
# C07 — Outbound IBC transfers are tracked and recovered without loss or duplication
-/
namespace MW.Props.C07
open MW MW.Staking MW.Chain

/-- `reply` records the packet under the sequence the chain assigned, with the coin and receiver
stored when the transfer was requested, status Sent, and frees the reply slot -/
theorem reply_records (s s' : CState) (id seq : Nat) (out : List SubMsg) (h : reply s id (.ok seq) = .ok (s', out)) :
    ∃ w, s.waiting.find? id = some w ∧ s'.waiting.find? id = none
      ∧ s'.inflight.find? seq = some { seq := seq, coin := w.coin, receiver := w.receiver, status := .sent }
      ∧ (∀ k, k ≠ seq → s'.inflight.find? k = s.inflight.find? k) ∧ s'.st = s.st := by
  obtain ⟨_, w, seq', hres, hw, hs'⟩ := reply_eff h
  cases hres
  subst hs'
  refine ⟨w, hw, AMap.find?_erase_self _ _, by simp [AMap.find?_insert], ?_, rfl⟩
  intro k hk; simp [AMap.find?_insert, hk]

/-- a reply is consumed by being answered: a second reply carrying the same id (a replayed or duplicated
callback) finds nothing waiting and fails, so one submission can never be recorded as two packets -/
theorem reply_twice_fails (s s' : CState) (id seq : Nat) (out : List SubMsg) (res : ReplyResult)
    (h : reply s id (.ok seq) = .ok (s', out)) : reply s' id res = .error .invalidReplyId := by
  obtain ⟨_, _, hnone, _⟩ := reply_records s s' id seq out h
  unfold reply
  rw [hnone]

/-- any reply other than "submitted with sequence n" fails — so the chain aborts the transaction -/
theorem reply_failure_fails (s : CState) (id : Nat) (res : ReplyResult) (hres : ∀ seq, res ≠ .ok seq) :
    ∃ e, reply s id res = .error e := by
  unfold reply
  split
  · exact ⟨_, rfl⟩
  · cases res with
    | ok seq => exact absurd rfl (hres seq)
    | okNoData => exact ⟨_, rfl⟩
    | okBadData => exact ⟨_, rfl⟩
    | err => exact ⟨_, rfl⟩

/-- if a transfer cannot be submitted, the whole operation that requested it is rolled back: the
chain calls `reply(err)`, the contract errors, dispatch fails and the world is unchanged -/
theorem submit_failure_rolls_back (f : Faults) (d : Disp) (id : Nat) (ch port sender recv : String) (coin : Coin)
    (t : Nat) (memo : String)
    (hfail : (sender = d.w.self && coin.amount > 0 && d.w.bal d.w.self coin.denom ≥ coin.amount
              && !(f.failTransfer.contains d.transfers)) = false) :
    (dispatch f d { id := id, msg := .transfer ch port sender recv coin t memo, replyAlways := true }).2 = false := by
  simp only [dispatch]
  rw [hfail]
  simp only [Bool.false_eq_true, ↓reduceIte]
  obtain ⟨e, he⟩ := reply_failure_fails d.w.c id .err (by intro seq h; cases h)
  rw [he]

theorem failed_dispatch_aborts_tx (w : World) (sender : String) (funds : List Coin) (m : ExecMsg) (f : Faults)
    (txi : Option Nat) (h : (runExec w sender funds m f txi).committed = false) :
    (runExec w sender funds m f txi).w = w := by
  unfold runExec at *
  split <;> simp_all

/-- success acknowledgement: the packet is no longer tracked; error acknowledgement / timeout: it
stays recorded, as refundable, with the same amount and receiver -/
theorem ack_outcomes (s : CState) (seq : Nat) (p : Packet) (hp : s.inflight.find? seq = some p) :
    (∃ s', sudo s (.ack s.config.proto.channel seq true) = .ok (s', []) ∧ s'.inflight.find? seq = none
        ∧ ∀ k, k ≠ seq → s'.inflight.find? k = s.inflight.find? k)
    ∧ (∃ s', sudo s (.ack s.config.proto.channel seq false) = .ok (s', [])
        ∧ s'.inflight.find? seq = some { p with status := .ackFailure }
        ∧ ∀ k, k ≠ seq → s'.inflight.find? k = s.inflight.find? k)
    ∧ (∃ s', sudo s (.timeout s.config.proto.channel seq) = .ok (s', [])
        ∧ s'.inflight.find? seq = some { p with status := .timedOut }
        ∧ ∀ k, k ≠ seq → s'.inflight.find? k = s.inflight.find? k) := by
  refine ⟨⟨{ s with inflight := s.inflight.erase seq }, by simp [sudo, hp], AMap.find?_erase_self _ _,
      fun k hk => AMap.find?_erase_other _ _ _ hk⟩,
    ⟨{ s with inflight := s.inflight.insert seq { p with status := .ackFailure } }, by simp [sudo, hp],
      AMap.find?_insert_self _ _ _, fun k hk => AMap.find?_insert_other _ _ _ _ hk⟩,
    ⟨{ s with inflight := s.inflight.insert seq { p with status := .timedOut } }, by simp [sudo, hp],
      AMap.find?_insert_self _ _ _, fun k hk => AMap.find?_insert_other _ _ _ _ hk⟩⟩

/-- acknowledgements and timeouts for another channel or an unknown sequence change nothing -/
theorem stray_noop (s : CState) (m : SudoMsg)
    (h : match m with
      | .ack ch seq _ => ch ≠ s.config.proto.channel ∨ s.inflight.find? seq = none
      | .timeout ch seq => ch ≠ s.config.proto.channel ∨ s.inflight.find? seq = none) :
    sudo s m = .ok (s, []) := by
  cases m with
  | ack ch seq ok =>
    simp only at h
    unfold sudo
    rcases h with h | h
    · simp [h]
    · by_cases hc : ch ≠ s.config.proto.channel <;> simp [hc, h]
  | timeout ch seq =>
    simp only at h
    unfold sudo
    rcases h with h | h
    · simp [h]
    · by_cases hc : ch ≠ s.config.proto.channel <;> simp [hc, h]

/-- a success acknowledgement is final: whatever arrives later for the same sequence number — a repeated
acknowledgement, an error acknowledgement, a timeout — changes nothing and sends nothing, so a delivered transfer can
never be turned into a refundable one by a replayed callback -/
theorem acked_is_final (s s' : CState) (seq : Nat) (out : List SubMsg)
    (h : sudo s (.ack s.config.proto.channel seq true) = .ok (s', out)) (m : SudoMsg)
    (hm : m = .timeout s.config.proto.channel seq ∨ ∃ b, m = .ack s.config.proto.channel seq b) :
    sudo s' m = .ok (s', []) := by
  have hs' : s'.config = s.config ∧ s'.inflight.find? seq = none := by
    unfold sudo at h
    simp only [ne_eq, not_true_eq_false, if_false] at h
    split at h
    · rename_i hn; cases h; exact ⟨rfl, hn⟩
    · simp only [if_true, Except.ok.injEq, Prod.mk.injEq] at h
      rw [← h.1]; exact ⟨rfl, AMap.find?_erase_self _ _⟩
  apply stray_noop
  rcases hm with hm | ⟨b, hm⟩ <;> subst hm <;> simp only <;> exact Or.inr hs'.2

/-- timeouts are idempotent: a timeout delivered twice leaves the state of the first -/
theorem timeout_idempotent (s s1 s2 : CState) (ch : String) (seq : Nat) (o1 o2 : List SubMsg)
    (h1 : sudo s (.timeout ch seq) = .ok (s1, o1)) (h2 : sudo s1 (.timeout ch seq) = .ok (s2, o2)) :
    (∀ k, s2.inflight.find? k = s1.inflight.find? k) ∧ s2.st = s1.st ∧ s2.config = s1.config ∧ o2 = [] := by
  simp only [sudo] at h1 h2
  by_cases hc : ch ≠ s.config.proto.channel
  · rw [if_pos hc] at h1; simp only [Except.ok.injEq, Prod.mk.injEq] at h1
    rw [← h1.1] at h2
    rw [if_pos hc] at h2; simp only [Except.ok.injEq, Prod.mk.injEq] at h2
    rw [← h2.1, ← h1.1]; exact ⟨fun _ => rfl, rfl, rfl, h2.2.symm⟩
  · rw [if_neg hc] at h1
    split at h1
    · rename_i hn
      simp only [Except.ok.injEq, Prod.mk.injEq] at h1
      rw [← h1.1] at h2
      rw [if_neg hc] at h2; simp only [hn, Except.ok.injEq, Prod.mk.injEq] at h2
      rw [← h2.1, ← h1.1]; exact ⟨fun _ => rfl, rfl, rfl, h2.2.symm⟩
    · rename_i p hp
      simp only [Except.ok.injEq, Prod.mk.injEq] at h1
      rw [← h1.1] at h2
      simp only [if_neg hc, AMap.find?_insert_self, Except.ok.injEq, Prod.mk.injEq] at h2
      rw [← h2.1, ← h1.1]
      refine ⟨fun k => ?_, rfl, rfl, h2.2.symm⟩
      simp only [AMap.find?_insert]
      split <;> rfl

theorem mem_take_filter {α} (l : List α) (f : α → Bool) (n : Nat) (x : α) (h : x ∈ (l.filter f).take n) : f x = true :=
  (List.mem_filter.mp (List.mem_of_mem_take h)).2

theorem mem_paginate {α} (m : AMap α) (c : Option Nat) (l : Option Nat) (f : α → Bool) (x : α)
    (h : x ∈ paginate m c l f) : f x = true ∧ ∃ k, (k, x) ∈ m := by
  unfold paginate at h
  have hl : ∀ (items : List α) (taken : Nat), x ∈ paginateLoop f (l.getD U32.max) items taken → f x = true ∧ x ∈ items := by
    intro items
    induction items with
    | nil => intro t h; simp [paginateLoop] at h
    | cons a r ih =>
      intro t h
      simp only [paginateLoop] at h
      split at h
      · split at h
        · rename_i hf
          simp only [List.mem_cons] at h
          rcases h with h | h
          · subst h; exact ⟨hf, by simp⟩
          · obtain ⟨h1, h2⟩ := ih _ h; exact ⟨h1, List.mem_cons_of_mem _ h2⟩
        · obtain ⟨h1, h2⟩ := ih _ h; exact ⟨h1, List.mem_cons_of_mem _ h2⟩
      · simp at h
  obtain ⟨h1, h2⟩ := hl _ _ h
  refine ⟨h1, ?_⟩
  obtain ⟨kv, hkv, rfl⟩ := List.mem_map.mp h2
  refine ⟨kv.1, ?_⟩
  unfold AMap.after at hkv
  cases c with
  | none => exact hkv
  | some c => exact (List.mem_filter.mp hkv).1

/-- a recovery (of any kind) re-sends, in one tracked transfer to the one receiver, exactly the sum
of the selected packets, all of one denom, removes exactly those packets from the table, and
leaves the accounting totals untouched.  For the permissionless (unforced) kind the selected
packets are refundable ones (error-acknowledged or timed out) of that receiver — never a packet
still in flight -/
theorem recover_spec (s s' : CState) (env : Env) (info : Info) (sel : Option (List Nat)) (rc : Option String)
    (pg : Bool) (out : List SubMsg) (h : recover s env info sel rc pg = .ok (s', out)) :
    ∃ recv packets denom total id,
      recoverReceiver s.config rc = .ok recv ∧ selectPackets s recv sel pg = .ok packets ∧ packets ≠ []
      ∧ (∀ p ∈ packets, p.coin.denom = denom) ∧ sumAmounts "A27" packets 0 = .ok total
      ∧ out = [transferSub s env id recv ⟨denom, total⟩]
      ∧ s'.inflight = erasePackets s.inflight packets
      ∧ s'.waiting.find? id = some { coin := ⟨denom, total⟩, receiver := recv }
      ∧ s'.st = s.st ∧ s'.batches = s.batches ∧ s'.reqs = s.reqs
      ∧ (sel = none → ∀ p ∈ packets, p.receiver = recv ∧ (p.status = .ackFailure ∨ p.status = .timedOut)) := by
  obtain ⟨recv, packets, denom, maxId, total, _, hrecv, hp, hd, hall, _, htot, _, _, hs', hout⟩ := recover_eff h
  subst hs'
  refine ⟨recv, packets, denom, total, maxId + 1, hrecv, hp, ?_, ?_, htot, hout, rfl, by simp [AMap.find?_insert],
    rfl, rfl, rfl, ?_⟩
  · intro hn; subst hn; simp [firstDenom] at hd
  · intro p hpm; simpa using List.all_eq_true.mp hall p hpm
  · intro hsel; subst hsel
    simp only [selectPackets, Except.ok.injEq] at hp
    subst hp
    intro p hpm
    obtain ⟨hf, _⟩ := mem_paginate _ _ _ _ p hpm
    simp only [refundable, Bool.and_eq_true, decide_eq_true_eq, Bool.or_eq_true] at hf
    exact hf

/-- the sum a recovery re-sends is the plain sum of the selected packets' amounts -/
theorem sumAmounts_eq (site : String) (ps : List Packet) (acc total : Nat) (h : sumAmounts site ps acc = .ok total) :
    total = acc + (ps.map (·.coin.amount)).sum := by
  induction ps generalizing acc with
  | nil => simp [sumAmounts] at h; simp [h]
  | cons p r ih =>
    simp only [sumAmounts] at h
    split at h
    · cases h
    · rename_i a ha
      simp only [add128_ok] at ha
      have := ih _ h
      simp only [List.map_cons, List.sum_cons]; omega

/-- a forced recovery (admin only) names each packet at most once in what it re-sends: a repeated id
is ignored -/
theorem forced_ids_once (s : CState) (recv : String) (ids : List Nat) (acc ps : List Packet)
    (hacc : (acc.map (·.seq)).Nodup) (hk : ∀ k p, s.inflight.find? k = some p → p.seq = k)
    (h : loadPacketsAux s recv ids acc = .ok ps) : (ps.map (·.seq)).Nodup := by
  induction ids generalizing acc with
  | nil => simp [loadPacketsAux] at h; subst h; exact hacc
  | cons id rest ih =>
    simp only [loadPacketsAux] at h
    split at h
    · exact ih acc hacc h
    · rename_i hnot
      split at h
      · cases h
      · rename_i p hp
        split at h
        · cases h
        · apply ih (acc ++ [p]) ?_ h
          rw [List.map_append, List.nodup_append]
          refine ⟨hacc, by simp, ?_⟩
          intro a ha b hb
          simp only [List.map_cons, List.map_nil, List.mem_singleton] at hb
          subst hb
          rw [hk id p hp]
          intro heq; subst heq
          apply hnot
          obtain ⟨q, hq, hqs⟩ := List.mem_map.mp ha
          exact List.any_eq_true.mpr ⟨q, hq, by simp [hqs]⟩

/-- the packets an admin-forced selection loads all belong to the receiver it was loaded for -/
theorem loadPacketsAux_receiver (s : CState) (recv : String) (ids : List Nat) (acc ps : List Packet)
    (hacc : ∀ p ∈ acc, p.receiver = recv) (h : loadPacketsAux s recv ids acc = .ok ps) :
    ∀ p ∈ ps, p.receiver = recv := by
  induction ids generalizing acc with
  | nil => simp [loadPacketsAux] at h; subst h; exact hacc
  | cons id rest ih =>
    simp only [loadPacketsAux] at h
    split at h
    · exact ih acc hacc h
    · split at h
      · cases h
      · rename_i p hp
        split at h
        · cases h
        · rename_i hr
          apply ih (acc ++ [p]) ?_ h
          intro q hq
          simp only [List.mem_append, List.mem_singleton] at hq
          rcases hq with hq | hq
          · exact hacc q hq
          · subst hq; simpa using hr

/-- **same receiver, forced or not.**  Whatever a successful recovery re-sends — the refundable packets it found itself
or the packets the admin selected — every one of them was addressed to the receiver the sum is re-sent to (the receiver
named in the message, the staker when none is named): a recovery never redirects somebody's transfer to somebody else -/
theorem recover_same_receiver (s s' : CState) (env : Env) (info : Info) (sel : Option (List Nat)) (rc : Option String)
    (pg : Bool) (out : List SubMsg) (h : recover s env info sel rc pg = .ok (s', out)) :
    ∃ recv packets denom total id,
      recoverReceiver s.config rc = .ok recv ∧ selectPackets s recv sel pg = .ok packets
      ∧ out = [transferSub s env id recv ⟨denom, total⟩] ∧ ∀ p ∈ packets, p.receiver = recv := by
  obtain ⟨recv, packets, denom, total, id, hr, hsel, _, _, _, hout, _, _, _, _, _, hnone⟩ :=
    recover_spec s s' env info sel rc pg out h
  refine ⟨recv, packets, denom, total, id, hr, hsel, hout, ?_⟩
  cases sel with
  | none => exact fun p hp => (hnone rfl p hp).1
  | some ids =>
    simp only [selectPackets, loadPackets] at hsel
    exact loadPacketsAux_receiver s recv ids [] packets (by simp) hsel

/-- transfers still in flight can never be re-sent by non-admins -/
theorem recover_nonadmin_no_inflight (s s' : CState) (env : Env) (info : Info) (sel : Option (List Nat))
    (rc : Option String) (pg : Bool) (out : List SubMsg) (hna : s.admin ≠ some info.sender)
    (h : recover s env info sel rc pg = .ok (s', out)) :
    sel = none ∧ ∃ recv packets, selectPackets s recv sel pg = .ok packets ∧ ∀ p ∈ packets, p.status ≠ .sent := by
  obtain ⟨recv, packets, _, _, _, hadm, _, hp, _⟩ := recover_eff h
  have hsel : sel = none := by
    cases sel with
    | none => rfl
    | some ids => exact absurd (hadm rfl) hna
  obtain ⟨recv', packets', _, _, _, _, hp', _, _, _, _, _, _, _, _, _, hstat⟩ := recover_spec s s' env info sel rc pg out h
  refine ⟨hsel, recv', packets', hp', ?_⟩
  intro p hpm hs
  rcases (hstat hsel p hpm).2 with h1 | h1 <;> rw [hs] at h1 <;> cases h1

/-- every IBC transfer any staking handler emits is a reply-always sub-message on port `transfer` and
the configured channel, sent by the contract, with timeout now + IBC_TIMEOUT and the callback memo
`{"ibc_callback":"<contract>"}`; reply ids within one response are distinct -/
theorem transfer_shape_stake (s s' : CState) (env : Env) (info : Info) (a : Nat) (mt : Option String) (tn : Option Bool)
    (ex : Option Nat) (out : List SubMsg) (h : liquidStake s env info a mt tn ex = .ok (s', out)) :
    ∀ x ∈ out, (∃ id recv coin, x = transferSub s env id recv coin) ∨ (x.replyAlways = false ∧ ∀ c p sd r co t m, x.msg ≠ .transfer c p sd r co t m) := by
  obtain ⟨st, m, id1, orc, _, _, _, _, _, _, horc, hcase⟩ := liquidStake_eff h
  have hwasm : ∀ x ∈ orc, x.replyAlways = false ∧ ∀ c p sd r co t m, x.msg ≠ .transfer c p sd r co t m := by
    intro x hx; obtain ⟨o, p, rfl⟩ := horc x hx; exact ⟨rfl, by intros; simp [plain]⟩
  rcases hcase with ⟨_, _, hout⟩ | ⟨_, _, _, hout⟩ <;> subst hout <;> intro x hx <;>
    simp only [List.mem_append, List.mem_singleton, List.mem_cons] at hx
  · rcases hx with ((hx | hx) | hx) | hx
    · rcases hx with hx | hx
      · subst hx; exact .inr ⟨rfl, by intros; simp [plain]⟩
      · cases hx
    · exact .inr (hwasm x hx)
    · rcases hx with hx | hx
      · subst hx; exact .inl ⟨_, _, _, rfl⟩
      · cases hx
    · rcases hx with hx | hx
      · subst hx; exact .inr ⟨rfl, by intros; simp [plain]⟩
      · cases hx
  · rcases hx with ((hx | hx) | hx) | hx
    · rcases hx with hx | hx
      · subst hx; exact .inr ⟨rfl, by intros; simp [plain]⟩
      · cases hx
    · exact .inr (hwasm x hx)
    · rcases hx with hx | hx
      · subst hx; exact .inl ⟨_, _, _, rfl⟩
      · cases hx
    · rcases hx with hx | hx
      · subst hx; exact .inl ⟨_, _, _, rfl⟩
      · cases hx

theorem transferSub_fields (s : CState) (env : Env) (id : Nat) (recv : String) (coin : Coin) :
    (transferSub s env id recv coin).replyAlways = true
    ∧ (transferSub s env id recv coin).msg = .transfer s.config.proto.channel "transfer" env.contract recv coin
        (env.timeNs + IBC_TIMEOUT_NS) ("{\"ibc_callback\":\"" ++ env.contract ++ "\"}") := ⟨rfl, rfl⟩

/-- the two transfers of a native-chain stake carry distinct reply ids (id and id + 1) -/
theorem stake_reply_ids_distinct (id : Nat) : id ≠ id + 1 := by omega

/-- in every reachable state the packet table is keyed by sequence (each entry's sequence is its key) -/
theorem inflight_keyed_by_sequence (s : CState) (h : CReach s) (k : Nat) (p : Packet)
    (hp : s.inflight.find? k = some p) : p.seq = k := (cinv_reach h).seqKey k p hp

/-- **P2 (tracking), every history.**  Along every history of the chain model that satisfies the
honest-environment conditions, every transfer packet the chain holds as pending was sent by the
contract on its configured channel and is tracked in the contract's packet table under its
sequence number, as `sent`, with the same coin and receiver; sequence numbers never repeat and
every table key is a sequence number the chain has already issued -/
theorem P2_tracking_world {env : Env} {info : Info} {msg : InstantiateMsg} {c0 : CState} {out : List SubMsg}
    (hi : instantiate env info msg = .ok (c0, out)) (self pfx : String) (t hgt : Nat) (evs : List Event)
    (hok : AllOK (bootWorld c0 self pfx t hgt) evs) :
    let w := (runW (bootWorld c0 self pfx t hgt) {} evs).1
    (∀ p ∈ w.pkts, p.sender = w.self ∧ p.seq < w.nextSeq)
    ∧ (w.pkts.map (·.seq)).Nodup
    ∧ (∀ k e, w.c.inflight.find? k = some e → k < w.nextSeq)
    ∧ (∀ p ∈ w.pkts, p.state = .pending → p.channel = w.c.config.proto.channel ∧
        w.c.inflight.find? p.seq = some { seq := p.seq, coin := p.coin, receiver := p.receiver, status := .sent }) := by
  have h := (world_history_winv hi self pfx t hgt evs hok).pkt
  exact ⟨fun p hp => ⟨h.sender p hp, h.seqLt p hp⟩, h.nodup, h.keyLt, h.p2⟩

/-- a refunded packet (error acknowledgement or timeout of a pending one) becomes refundable with
exactly the coins that came back; a delivered one is dropped from the table (the two world
transitions used by the proof of `P2_tracking_world`, stated on their own) -/
theorem refund_keeps_invariants {w : World} {g : WGhost} {p : ChainPkt} {st : PktStatus} (hr : CReach w.c) (hi : WInv w g)
    (hpm : p ∈ w.pkts) (hpend : p.state = .pending) (hst : st = .ackFailure ∨ st = .timedOut) :
    WInv (refundWorld w p st) g := refund_winv hr hi hpm hpend hst

/-- **a recovery on the chain model's ledgers.**  A committed `RecoverPendingIbcTransfers` (any caller,
any of its modes, any fault assignment): the selected packets — for a non-admin, refundable ones of one
receiver and one denom — leave the packet table; exactly their sum leaves the contract's bank balance,
in one new pending packet to that same receiver on the configured channel; and the new transfer is
tracked in turn under the sequence the chain assigned (status Sent, same coin, same receiver). -/
theorem C07_recover_world {w : World} {sender : String} {pg : Option Bool} {sel : Option (List Nat)} {rc : Option String}
    {f : Faults} {txi : Option Nat}
    (hc : (step w (.exec sender [] (.recover pg sel rc) f txi)).committed = true) :
    ∃ recv packets denom total,
      recoverReceiver w.c.config rc = .ok recv
      ∧ selectPackets w.c recv sel (pg.getD false) = .ok packets
      ∧ firstDenom packets = .ok denom ∧ packets.all (fun p => p.coin.denom = denom) = true
      ∧ sumAmounts "A27" packets 0 = .ok total
      ∧ 0 < total ∧ total ≤ w.bal w.self denom
      ∧ (step w (.exec sender [] (.recover pg sel rc) f txi)).w.bal w.self denom = w.bal w.self denom - total
      ∧ (step w (.exec sender [] (.recover pg sel rc) f txi)).w.pkts
          = w.pkts ++ [ChainPkt.mk w.nextSeq w.c.config.proto.channel w.self recv ⟨denom, total⟩ .pending]
      ∧ (step w (.exec sender [] (.recover pg sel rc) f txi)).w.c.inflight
          = (erasePackets w.c.inflight packets).insert w.nextSeq
              { seq := w.nextSeq, coin := ⟨denom, total⟩, receiver := recv, status := .sent } :=
  recover_tx_resends hc

-- non-vacuity of `C07_recover_world`: the sixth event of the demo history is a committed recovery of the
-- refunded LST packet (1000) for the native-chain user; it re-sends exactly 1000 in packet 4
section Demo
open MW.Chain.Demo
#guard (demoBoot.map fun w =>
    let r5 := runW w {} (demoEvents1.take 5)
    let r6 := runW w {} (demoEvents1.take 6)
    (r5.1.pkts.length, r6.1.pkts.length, r6.1.pkts.getLast?.map fun p => (p.seq, p.receiver == demoNativeUser, p.coin.amount, p.state == .pending),
     (r5.1.bal demoSelf demoX : Int) - r6.1.bal demoSelf demoX)) == some (3, 4, some (4, true, 1000, true), 1000)
end Demo

/-- non-vacuity: a refundable packet is selected, a sent one is not -/
example : refundable "r" { seq := 1, coin := ⟨"d", 5⟩, receiver := "r", status := .timedOut } = true
    ∧ refundable "r" { seq := 2, coin := ⟨"d", 5⟩, receiver := "r", status := .sent } = false := by decide

/-- the statements of this file quantify over every message the staking contract accepts: the `ExecuteMsg` the source
declares (table regenerated from /repo's `msg.rs` on every run) has exactly the variants, fields and types of the
model's `ExecMsg`, and the contract exports exactly the modelled entry points.  A message or entry point added to the
source — which no generated history would exercise — breaks this theorem -/
theorem messages_are_the_modelled_ones :
    MW.Generated.Interface.staking_execute = MW.Interface.model_staking_execute
    ∧ (∀ m : MW.Staking.ExecMsg, MW.Interface.execTag m ∈ MW.Interface.names MW.Generated.Interface.staking_execute)
    ∧ MW.Generated.Interface.staking_entry_points = ["execute", "instantiate", "migrate", "query", "reply", "sudo"] :=
  ⟨MW.Interface.staking_execute_eq, MW.Interface.staking_execute_covered.2, MW.Interface.staking_entry_points_eq⟩

end MW.Props.C07
