/-!
# Sorted association lists keyed by `Nat` (model of `cw_storage_plus::Map<u64, V>`)

Keys are big-endian `u64`s in storage, so iteration order is ascending numeric order.
Sortedness is an invariant proved separately (not a subtype) so that the model stays
executable and printable.
-/
namespace MW

abbrev AMap (α : Type) := List (Nat × α)

namespace AMap
variable {α : Type}

def find? (m : AMap α) (k : Nat) : Option α :=
  match m with
  | [] => none
  | (k', v) :: rest => if k' = k then some v else find? rest k

/-- insert or replace, keeping ascending key order -/
def insert (m : AMap α) (k : Nat) (v : α) : AMap α :=
  match m with
  | [] => [(k, v)]
  | (k', v') :: rest =>
    if k < k' then (k, v) :: (k', v') :: rest
    else if k = k' then (k, v) :: rest
    else (k', v') :: insert rest k v

/-- remove the entry with key `k` (keys are unique in a well-formed map) -/
def erase (m : AMap α) (k : Nat) : AMap α := m.filter (fun kv => !decide (kv.1 = k))

def keys (m : AMap α) : List Nat := m.map (·.1)
def values (m : AMap α) : List α := m.map (·.2)

/-- entries with key strictly greater than the cursor (`Bound::exclusive`) -/
def after (m : AMap α) (cursor : Option Nat) : AMap α :=
  match cursor with
  | none => m
  | some c => m.filter (fun kv => c < kv.1)

def maxKey? (m : AMap α) : Option Nat := (m.getLast?).map (·.1)

def Sorted (m : AMap α) : Prop := m.Pairwise (fun a b => a.1 < b.1)

end AMap
end MW
