import MW.Ownership
import MW.Staking.Validate
/-!
# The treasury contract (contracts/treasury/src)
-/
namespace MW.Treasury
open MW MW.Staking

structure SwapRoute where
  poolId : Nat
  tokenIn : String
  tokenOut : String
deriving DecidableEq, Repr, Inhabited

structure TConfig where
  trader : String
  routes : List (List SwapRoute)
deriving DecidableEq, Repr, Inhabited

structure TState where
  config : TConfig
  own : Own
  version : String × String
deriving Repr, Inhabited

def CONTRACT_NAME : String := "treasury"
def CONTRACT_VERSION : String := "0.4.20"
def IBC_TIMEOUT_NS : Nat := 1000000000000

structure TInstantiate where
  admin : Option String
  trader : Option String
  routes : List (List SwapRoute)
deriving Repr, Inhabited

inductive TExec where
  | transferOwnership (newOwner : String)
  | acceptOwnership
  | revokeOwnershipTransfer
  | spendFunds (amount : Coin) (receiver : String) (channel : Option String)
  | swapIn (routes : List SwapRoute) (tokenIn : Coin) (minOut : Nat)
  | swapOut (routes : List SwapRoute) (tokenOut : Coin) (maxIn : Nat)
  | updateConfig (trader : Option String) (routes : Option (List (List SwapRoute)))
deriving Repr, Inhabited

abbrev TOut := TState × List SubMsg

def optAddr (chainPrefix : String) (o : Option String) (dflt : String) : R String :=
  match o with
  | some a => addrValidate chainPrefix a
  | none => .ok dflt

/-- `contract::instantiate` -/
def instantiate (env : Env) (info : Info) (msg : TInstantiate) : R TOut := do
  let admin ← optAddr env.chainPrefix msg.admin info.sender
  let trader ← optAddr env.chainPrefix msg.trader info.sender
  pure ({ config := { trader := trader, routes := msg.routes },
          own := { admin := some admin, pending := none, minTime := none },
          version := (CONTRACT_NAME, CONTRACT_VERSION) }, [])

/-- `Config::assert_allowed_swap_route`: non-empty and equal to an allow-listed route -/
def routeAllowed (cfg : TConfig) (routes : List SwapRoute) : Bool :=
  !routes.isEmpty && cfg.routes.any (fun r => r == routes)

/-- `execute_spend_funds` -/
def spendFunds (s : TState) (env : Env) (info : Info) (amount : Coin) (receiver : String)
    (channel : Option String) : R TOut := do
  ensure (s.own.isAdmin info.sender) .admin
  match channel with
  | none => do
    let _ ← validateAddress receiver "osmo"
    pure (s, [plain (.bankSend receiver [amount])])
  | some ch => do
    let _ ← validateAddress receiver "celestia"
    let t ← add64 "A43" env.timeNs IBC_TIMEOUT_NS
    pure (s, [plain (.transfer ch "transfer" env.contract receiver amount t
                      ("{\"ibc_callback\":\"" ++ env.contract ++ "\"}"))])

def firstIn (routes : List SwapRoute) : R String :=
  match routes with
  | r :: _ => .ok r.tokenIn
  | [] => .error (.panic "A44a")

def lastOut (routes : List SwapRoute) : R String :=
  match routes.getLast? with
  | some r => .ok r.tokenOut
  | none => .error (.panic "A44b")

/-- `execute_swap_exact_amount_in` -/
def swapIn (s : TState) (env : Env) (info : Info) (routes : List SwapRoute) (tokenIn : Coin)
    (minOut : Nat) : R TOut := do
  ensure (s.config.trader == info.sender) .unauthorized
  ensure (routeAllowed s.config routes) .swapRouteNotAllowed
  let d ← firstIn routes
  ensure (d == tokenIn.denom) .invalidTokenIn
  pure (s, [plain (.swapIn env.contract (routes.map fun r => ⟨r.poolId, r.tokenOut⟩) tokenIn minOut)])

/-- `execute_swap_exact_amount_out` -/
def swapOut (s : TState) (env : Env) (info : Info) (routes : List SwapRoute) (tokenOut : Coin)
    (maxIn : Nat) : R TOut := do
  ensure (s.config.trader == info.sender) .unauthorized
  ensure (routeAllowed s.config routes) .swapRouteNotAllowed
  let d ← lastOut routes
  ensure (d == tokenOut.denom) .invalidTokenOut
  pure (s, [plain (.swapOut env.contract (routes.map fun r => ⟨r.poolId, r.tokenIn⟩) tokenOut maxIn)])

def optTrader (chainPrefix : String) (o : Option String) (cur : String) : R String :=
  match o with
  | some a => addrValidate chainPrefix a
  | none => .ok cur

/-- `execute_update_config` -/
def updateConfig (s : TState) (env : Env) (info : Info) (trader : Option String)
    (routes : Option (List (List SwapRoute))) : R TOut := do
  ensure (s.own.isAdmin info.sender) .admin
  let t ← optTrader env.chainPrefix trader s.config.trader
  pure ({ s with config := { trader := t, routes := routes.getD s.config.routes } }, [])

/-- `contract::execute` -/
def execute (s : TState) (env : Env) (info : Info) (msg : TExec) : R TOut :=
  match msg with
  | .transferOwnership o => do
    let own ← s.own.nominate env.seconds info.sender (addrValidate env.chainPrefix o)
    pure ({ s with own := own }, [])
  | .acceptOwnership => do
    let own ← s.own.accept env.seconds info.sender
    pure ({ s with own := own }, [])
  | .revokeOwnershipTransfer => do
    let own ← s.own.revoke info.sender
    pure ({ s with own := own }, [])
  | .spendFunds a r c => spendFunds s env info a r c
  | .swapIn r t m => swapIn s env info r t m
  | .swapOut r t m => swapOut s env info r t m
  | .updateConfig t r => updateConfig s env info t r

/-- `query_config` -/
def queryConfig (s : TState) : R (String × String × List (List SwapRoute)) :=
  match s.own.admin with
  | some a => .ok (a, s.config.trader, s.config.routes)
  | none => .error (.panic "A45")

end MW.Treasury
