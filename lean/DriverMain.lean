import Driver.Codec
import MW.Proto.Codec
import MW.Proto.Nested
import MW.Inv.WorldInv
import MW.Inv.WorldPayable
/-!
# Model driver: one JSON request per line on stdin, one JSON reply per line on stdout.

`boot` instantiates the model contract inside a fresh world, `event` advances the world by
one event and returns the log of entry-point calls the chain model made (with the model's
results) so that the orchestrator can replay exactly those calls against the real
contract, `dump` shows the model's query answers and the ledgers.
-/
open Lean MW MW.Staking MW.Chain Driver

structure DState where
  world : Option World := none
  build : Build := .osmosis
  treasury : Option MW.Treasury.TState := none
  tself : String := ""
  tprefix : String := "osmo"
  ghost : WGhost := {}          -- history counters of the world-level theorems (MW/Inv/WorldInv.lean)
  envOK : Bool := true          -- the honest-environment conditions held at every event so far

def parseFaults (j : Json) : Faults :=
  let ft := match optField j "fail_transfer" with
    | some (.arr a) => a.toList.filterMap (fun x => x.getNat?.toOption)
    | _ => []
  let fo := match optField j "fail_oracle" with
    | some (.bool b) => b
    | _ => false
  { failTransfer := ft, failOracle := fo }

def jCallExec (build : Build) (sender : String) (funds : Json) (msg : Json) (res : R (List SubMsg)) : Json :=
  Json.mkObj [("entry", "execute"), ("sender", .str sender), ("funds", funds), ("msg", msg),
              ("result", jResult build res)]

def jCall (build : Build) (execMsg : Json) (fundsJ : Json) : Call → Json
  | .execute info _ res => jCallExec build info.sender fundsJ execMsg res
  | .reply id r res => Json.mkObj [("entry", "reply"), ("id", jNat id), ("result_in", jReplyIn r), ("result", jResult build res)]
  | .sudo m res => Json.mkObj [("entry", "sudo"), ("msg", jSudo m), ("result", jResult build res)]

def getStr (j : Json) (k : String) : String :=
  match j.getObjVal? k with
  | .ok (.str s) => s
  | _ => ""

def getNatD (j : Json) (k : String) (d : Nat := 0) : Nat :=
  match j.getObjVal? k with
  | .ok (.str s) => s.toNat?.getD d
  | .ok v => (v.getNat?.toOption).getD d
  | _ => d

def getBool (j : Json) (k : String) : Bool :=
  match j.getObjVal? k with
  | .ok (.bool b) => b
  | _ => false

def strArr (j : Json) (k : String) : List String :=
  match j.getObjVal? k with
  | .ok (.arr a) => a.toList.filterMap (fun x => match x with | .str s => some s | _ => none)
  | _ => []

def txJson (build : Build) (r : TxResult) (execMsg fundsJ : Json) : Json :=
  Json.mkObj [("committed", .bool r.committed),
              ("calls", Json.arr (r.calls.map (jCall build execMsg fundsJ)).toArray)]

def handleEvent (st : DState) (w : World) (ev : Json) : DState × Json :=
  let build := st.build
  let kind := getStr ev "ev"
  let msgJ := (ev.getObjVal? "msg").toOption.getD .null
  let fundsJ := (ev.getObjVal? "funds").toOption.getD (Json.arr #[])
  let faults := parseFaults ((ev.getObjVal? "faults").toOption.getD (Json.mkObj []))
  -- besides the transaction, report whether the history is still inside the hypotheses of the
  -- world-level theorems and evaluate their equations on the new world (a run-time cross-check of
  -- the statements proved in MW/Inv/WorldInv.lean against the co-simulated histories)
  let fin (e : Event) (fj : Json := fundsJ) : DState × Json :=
    let r := step w e
    let ok := st.envOK && evOKb w e
    let g := wgstep w st.ghost e
    let j := match txJson build r msgJ fj with
      | .obj kvs => Json.obj (kvs.insert "envelope" (.bool ok) |>.insert "winv"
          (Json.arr ((winvChecks r.w g ++ [jinvCheck r.w g]).map Json.bool).toArray))
      | x => x
    ({ st with world := some r.w, ghost := g, envOK := ok }, j)
  let bad (s : String) : DState × Json := (st, Json.mkObj [("bad", .str s)])
  match kind with
  | "advance" => fin (.advance (getNatD ev "dt") (getNatD ev "dh"))
  | "exec" =>
    let sender := getStr ev "sender"
    let txi : Option Nat := match ev.getObjVal? "tx" with
      | .ok .null => none
      | .ok v => v.getNat?.toOption
      | _ => some 0
    match parseCoins fundsJ with
    | .error e => bad s!"funds: {e}"
    | .ok funds =>
      match parseExec msgJ with
      | .error _ =>
        -- the message does not deserialize: the attached funds are moved first (as for any execution; if
        -- that fails the contract is never called), then the entry point refuses the bytes
        let fundsOk := funds.isEmpty || (bankMove w.bal sender w.self funds).isSome
        (st, Json.mkObj [("committed", .bool false), ("calls", Json.arr (if fundsOk then #[
          jCallExec build sender fundsJ msgJ (.error .parse)] else #[]))])
      | .ok m => fin (.exec sender funds m faults txi)
  | "hook" =>
    let channel := getStr ev "channel"
    let ns := getStr ev "native_sender"
    match parseCoin ((ev.getObjVal? "coin").toOption.getD .null) with
    | .error e => bad s!"coin: {e}"
    | .ok coin =>
      let fj := Json.arr #[jCoin coin]
      match parseExec msgJ with
      | .error _ =>
        match deriveIntermediateSender channel ns w.chainPrefix with
        | none => (st, Json.mkObj [("committed", .bool false), ("calls", Json.arr #[])])
        | some acct =>
          (st, Json.mkObj [("committed", .bool false), ("calls", Json.arr (if coin.amount = 0 then #[] else #[
            jCallExec build acct fj msgJ (.error .parse)]))])
      | .ok m => fin (.hook channel ns coin m faults) fj
  | "ack" => fin (.ack (getNatD ev "seq") (getBool ev "success"))
  | "timeout" => fin (.timeout (getNatD ev "seq"))
  | "stray_ack" => fin (.strayAck (getStr ev "channel") (getNatD ev "seq") (getBool ev "success"))
  | "stray_timeout" => fin (.strayTimeout (getStr ev "channel") (getNatD ev "seq"))
  | "reseq" => fin (.reseq (getNatD ev "next"))
  | "donate" =>
    match parseCoin ((ev.getObjVal? "coin").toOption.getD .null) with
    | .error e => bad s!"coin: {e}"
    | .ok coin => fin (.donate (getStr ev "sender") coin)
  | "faucet" =>
    match parseCoin ((ev.getObjVal? "coin").toOption.getD .null) with
    | .error e => bad s!"coin: {e}"
    | .ok coin => fin (.faucet (getStr ev "to") coin)
  | _ => bad s!"unknown event {kind}"

def jR {α} (f : α → Json) (r : R α) : Json :=
  match r with
  | .ok a => Json.mkObj [("ok", f a)]
  | .error (.panic site) => Json.mkObj [("panic", .str site)]
  | .error e => Json.mkObj [("err", Json.mkObj [("kind", .str e.kind)])]

def argStr (a : Array Json) (i : Nat) : String :=
  match a[i]? with
  | some (.str s) => s
  | _ => ""

def argNat (a : Array Json) (i : Nat) : Nat :=
  match a[i]? with
  | some (.str s) => s.toNat?.getD 0
  | some v => (v.getNat?.toOption).getD 0
  | none => 0

/-- the model's version of the pure helper functions (`PURE` differential) -/
def handlePure (req : Json) : Json :=
  let f := getStr req "fn"
  let a : Array Json := match req.getObjVal? "args" with
    | .ok (.arr a) => a
    | _ => #[]
  match f with
  | "compute_mint_amount" => jR jStrNat (computeMint (argNat a 0) (argNat a 1) (argNat a 2))
  | "compute_unbond_amount" => jR jStrNat (computeUnbond (argNat a 0) (argNat a 1) (argNat a 2))
  | "multiply_ratio" => jR jStrNat (mulRatio "mr" (argNat a 0) (argNat a 1) (argNat a 2))
  | "decimal_from_ratio" => jR (fun x => Json.str (decimalToString x)) (decimalFromRatio "dr" (argNat a 0) (argNat a 1))
  | "validate_address_prefix" => jR Json.str (validatePrefix (argStr a 0))
  | "validate_address" => jR Json.str (validateAddress (argStr a 0) (argStr a 1))
  | "treasury_validate_address" => jR Json.str (validateAddress (argStr a 0) (argStr a 1))
  | "validate_addresses" =>
    let l : List String := match (a[0]? : Option Json) with
      | some (Json.arr xs) => xs.toList.filterMap (fun x => match x with | Json.str s => some s | _ => none)
      | _ => []
    jR (fun xs => Json.arr (xs.map Json.str).toArray) (validateAddresses l (argStr a 1))
  | "validate_denom" => jR Json.str (validateDenom (argStr a 0))
  | "validate_ibc_denom" => jR Json.str (validateIbcDenom (argStr a 0))
  | "derive_intermediate_sender" =>
    match deriveIntermediateSender (argStr a 0) (argStr a 1) (argStr a 2) with
    | some s => Json.mkObj [("ok", .str s)]
    | none => Json.mkObj [("err", Json.mkObj [("kind", "Std")])]
  | "channel_ok" => Json.mkObj [("ok", .bool (channelOk (argStr a 0)))]
  | "addr_validate" => jR Json.str (addrValidate (argStr a 0) (argStr a 1))
  | _ => Json.mkObj [("bad", .str s!"unknown pure fn {f}")]

def handle (st : DState) (req : Json) : DState × Json :=
  match getStr req "op" with
  | "pure" => (st, handlePure req)
  | "migrate" =>
    let msgJ := (req.getObjVal? "msg").toOption.getD .null
    match parseMStore ((req.getObjVal? "store").toOption.getD .null) with
    | .error e => (st, Json.mkObj [("bad", .str s!"store: {e}")])
    | .ok ms =>
      match parseMigrateMsg msgJ with
      | .error _ => (st, Json.mkObj [("result", jErr .parse)])
      | .ok m =>
        match migrate ms m with
        | .ok ms' => (st, Json.mkObj [("result", Json.mkObj [("ok", Json.mkObj [])]), ("store", dumpMStore ms')])
        | .error e => (st, Json.mkObj [("result", jErr e)])
  | "treasury_migrate" =>
    let v := (req.getObjVal? "version").toOption.getD .null
    let stored : Option (String × String) := match v with
      | .null => none
      | v => some (getStr v "contract", getStr v "version")
    match treasuryMigrate stored with
    | .ok _ => (st, Json.mkObj [("result", Json.mkObj [("ok", Json.mkObj [])])])
    | .error e => (st, Json.mkObj [("result", jErr e)])
  | "wire_roundtrip" =>
    -- the Lean wire codec on bytes produced for / by prost: decode then re-encode
    let hex := getStr req "hex"
    let nib (c : Char) : Nat := if c.isDigit then c.toNat - 48 else if c.toNat ≥ 97 then c.toNat - 87 else c.toNat - 55
    let rec bytesOf : List Char → List UInt8
      | a :: b :: rest => UInt8.ofNat (nib a * 16 + nib b) :: bytesOf rest
      | _ => []
    match MW.Proto.decodeFields (bytesOf hex.toList) with
    | some fs => (st, Json.mkObj [("ok", .str (MW.Proto.toHex (MW.Proto.encodeFields fs))), ("fields", jNat fs.length)])
    | none => (st, Json.mkObj [("err", Json.mkObj [("kind", "Decode")])])
  | "nested_roundtrip" =>
    -- the typed, nested Lean codec against the schema regenerated from the sources: decode the bytes as
    -- message type `type` (interned name index), re-encode the value tree
    let hex := getStr req "hex"
    let nib (c : Char) : Nat := if c.isDigit then c.toNat - 48 else if c.toNat ≥ 97 then c.toNat - 87 else c.toNat - 55
    let rec bytesOfN : List Char → List UInt8
      | a :: b :: rest => UInt8.ofNat (nib a * 16 + nib b) :: bytesOfN rest
      | _ => []
    let env : Nat → Option MW.Generated.MD := fun r => MW.Generated.schema.find? (fun m => m.name == r)
    let bs := bytesOfN hex.toList
    match env (getNatD req "type") with
    | none => (st, Json.mkObj [("err", Json.mkObj [("kind", "UnknownType")])])
    | some m =>
      match MW.Proto.decodeNested env (bs.length + 1) m bs with
      | some fs => (st, Json.mkObj [("ok", .str (MW.Proto.toHex (MW.Proto.encodeNested fs))), ("fields", jNat fs.size)])
      | none => (st, Json.mkObj [("err", Json.mkObj [("kind", "Decode")])])
  | "tboot" =>
    let self := getStr req "self"
    let chainPrefix := getStr req "chain_prefix"
    let env : Env := { timeNs := getNatD req "time", height := getNatD req "height", txIndex := some 0,
                       contract := self, chainPrefix }
    let msgJ := (req.getObjVal? "msg").toOption.getD .null
    match parseTInstantiate msgJ with
    | .error _ => ({ st with treasury := none }, Json.mkObj [("result", jErr .parse)])
    | .ok m =>
      match MW.Treasury.instantiate env { sender := getStr req "sender", funds := [] } m with
      | .error e => ({ st with treasury := none }, Json.mkObj [("result", jErr e)])
      | .ok (t, msgs) =>
        ({ st with treasury := some t, tself := self, tprefix := chainPrefix },
         Json.mkObj [("result", jResult .osmosis (.ok msgs)), ("dump", dumpTreasury t)])
  | "texec" =>
    match st.treasury with
    | none => (st, Json.mkObj [("bad", "tboot first")])
    | some t =>
      let env : Env := { timeNs := getNatD req "time", height := getNatD req "height", txIndex := some 0,
                         contract := st.tself, chainPrefix := st.tprefix }
      let msgJ := (req.getObjVal? "msg").toOption.getD .null
      match parseTExec msgJ with
      | .error _ => (st, Json.mkObj [("result", jErr .parse), ("dump", dumpTreasury t)])
      | .ok m =>
        match MW.Treasury.execute t env { sender := getStr req "sender", funds := [] } m with
        | .error e => (st, Json.mkObj [("result", jErr e), ("dump", dumpTreasury t)])
        | .ok (t', msgs) =>
          ({ st with treasury := some t' }, Json.mkObj [("result", jResult .osmosis (.ok msgs)), ("dump", dumpTreasury t')])
  | "boot" =>
    let build := if getStr req "build" == "miniwasm" then Build.miniwasm else Build.osmosis
    let self := getStr req "self"
    let chainPrefix := getStr req "chain_prefix"
    let sender := getStr req "sender"
    let timeNs := getNatD req "time"
    let height := getNatD req "height"
    let txi : Option Nat := match req.getObjVal? "tx" with
      | .ok .null => none
      | .ok v => v.getNat?.toOption
      | _ => some 0
    let env : Env := { timeNs, height, txIndex := txi, contract := self, chainPrefix }
    let msgJ := (req.getObjVal? "msg").toOption.getD .null
    let mk (res : R (List SubMsg)) (committed : Bool) : Json :=
      Json.mkObj [("committed", .bool committed), ("calls", Json.arr #[
        Json.mkObj [("entry", "instantiate"), ("sender", .str sender), ("funds", Json.arr #[]),
                    ("msg", msgJ), ("result", jResult build res)]])]
    match parseInstantiate msgJ with
    | .error _ => ({ st with build, world := none }, mk (.error .parse) false)
    | .ok m =>
      match instantiate env { sender, funds := [] } m with
      | .error e => ({ st with build, world := none }, mk (.error e) false)
      | .ok (c, msgs) =>
        let w : World := { c, self, chainPrefix, timeNs, height, bal := fun _ _ => 0,
                           supply := fun _ => 0, remote := fun _ _ => 0, pkts := [], nextSeq := getNatD req "first_seq" 1 }
        ({ st with build, world := some w, ghost := {}, envOK := true }, mk (.ok msgs) true)
  | "event" =>
    match st.world with
    | none => (st, Json.mkObj [("bad", "boot first")])
    | some w => handleEvent st w ((req.getObjVal? "ev").toOption.getD .null)
  | "dump" =>
    match st.world with
    | none => (st, Json.mkObj [("bad", "boot first")])
    | some w =>
      (st, Json.mkObj [("contract", dumpContract w.c (strArr req "users")),
                       ("ledger", dumpLedger w (strArr req "accounts") (strArr req "denoms"))])
  | "query" =>
    match st.world with
    | none => (st, Json.mkObj [("bad", "boot first")])
    | some w => (st, answerQuery w.c ((req.getObjVal? "msg").toOption.getD .null))
  | "legacy_batches" =>
    -- the stored batches as an older contract version wrote them: without the request counter
    -- (`unstake_requests_count` absent = `None`); the orchestrator rewrites the real store the same way
    match st.world with
    | none => (st, Json.mkObj [("bad", "boot first")])
    | some w =>
      let c' := { w.c with batches := w.c.batches.map fun kv => (kv.1, { kv.2 with reqCount := none }) }
      ({ st with world := some { w with c := c' } }, Json.mkObj [("ok", .null)])
  | "probe" =>
    -- a probe never changes the world: run the handler on the current store, then hand `reply` an
    -- arbitrary result (undecodable data, no data, an error, any sequence) for the first tracked
    -- sub-message it returned -- or, without a message, for an arbitrary reply id on the current store
    match st.world with
    | none => (st, Json.mkObj [("bad", "boot first")])
    | some w =>
      let rj := (req.getObjVal? "reply").toOption.getD .null
      let res : ReplyResult :=
        match rj.getObjVal? "ok", rj.getObjVal? "ok_raw", rj.getObjVal? "ok_nodata" with
        | .ok v, _, _ => .ok (v.getNat?.toOption.getD 0)
        | _, .ok (.str "ff"), _ => .okBadData
        | _, .ok (.str "0807"), _ => .ok 7
        | _, .ok _, _ => .ok 0              -- "", "1005": decodable, sequence field absent
        | _, _, .ok _ => .okNoData
        | _, _, _ => .err
      let build := st.build
      match req.getObjVal? "msg" with
      | .ok msgJ =>
        let fundsJ := (req.getObjVal? "funds").toOption.getD (Json.arr #[])
        let sender := getStr req "sender"
        match parseCoins fundsJ, parseExec msgJ with
        | .ok funds, .ok m =>
          let r := execute w.c (w.env (some 0)) { sender, funds } m
          match r with
          | .error e => (st, Json.mkObj [("execute", jErr e)])
          | .ok (c', msgs) =>
            match msgs.find? (·.replyAlways) with
            | none => (st, Json.mkObj [("execute", jResult build (.ok msgs))])
            | some sm =>
              let rr := reply c' sm.id res
              (st, Json.mkObj [("execute", jResult build (.ok msgs)), ("reply_id", jNat sm.id),
                               ("reply", jResult build (rr.map (·.2)))])
        | _, _ => (st, Json.mkObj [("execute", jErr .parse)])
      | .error _ =>
        let rr := reply w.c (getNatD req "id") res
        (st, Json.mkObj [("reply", jResult build (rr.map (·.2)))])
  | op => (st, Json.mkObj [("bad", .str s!"unknown op {op}")])

partial def loop (h : IO.FS.Stream) (out : IO.FS.Stream) (st : DState) : IO Unit := do
  let line ← h.getLine
  if line.isEmpty then return ()
  if line.trimAscii.toString.isEmpty then
    loop h out st
  else
    match Json.parse line with
    | .error e =>
      out.putStrLn (Json.mkObj [("bad", .str s!"json: {e}")]).compress
      out.flush
      loop h out st
    | .ok req =>
      let (st', resp) := handle st req
      out.putStrLn resp.compress
      out.flush
      loop h out st'

def main : IO Unit := do
  loop (← IO.getStdin) (← IO.getStdout) {}
