#!/usr/bin/env python3
"""Translator: prost-generated Rust sources -> wire schema (JSON).

Parses every `#[derive(.. ::prost::Message)] struct`, `::prost::Oneof` / `::prost::Enumeration`
enum and nested `pub mod` of a prost output file: message name, nesting, and for every field its
`#[prost(...)]` attribute (kind, label, tag(s), packedness, map key/value, enumeration / oneof
target) and the Rust type (to resolve which message a field refers to through `super::` paths).
Generated tonic client/server modules (`#[cfg(feature = "grpc")] pub mod ..`) are skipped.

Used for packages/initia-proto (regenerated on every run) and, with the same parser, for the
reference bindings osmosis-std / prost-types in the cargo registry.
"""
import json
import os
import re
import sys

SCALARS = {"string", "bytes", "uint64", "int64", "uint32", "int32", "bool", "sint32", "sint64", "fixed32",
           "fixed64", "sfixed32", "sfixed64", "float", "double"}
VARINT = {"uint64", "int64", "uint32", "int32", "bool", "sint32", "sint64", "enumeration"}
FIXED64 = {"fixed64", "sfixed64", "double"}
FIXED32 = {"fixed32", "sfixed32", "float"}


def wire_type(kind, label, packed):
    if kind == "map":
        return 2
    if label == "repeated" and packed:
        return 2
    if kind in VARINT:
        return 0
    if kind in FIXED64:
        return 1
    if kind in FIXED32:
        return 5
    return 2


def parse_prost_attr(text):
    """`string, tag = "1"` -> dict"""
    items = []
    depth = 0
    cur = ""
    inq = False
    for ch in text:
        if ch == '"':
            inq = not inq
        if ch == "," and not inq and depth == 0:
            items.append(cur.strip())
            cur = ""
        else:
            cur += ch
    if cur.strip():
        items.append(cur.strip())
    out = {"kind": None, "label": "singular", "raw": text.strip()}
    for it in items:
        if "=" in it:
            k, v = it.split("=", 1)
            k, v = k.strip(), v.strip().strip('"')
            if k == "tag":
                out["tags"] = [int(v)]
            elif k == "tags":
                out["tags"] = [int(x) for x in v.split(",")]
            elif k == "enumeration":
                out["kind"] = "enumeration"
                out["enum"] = v
            elif k == "oneof":
                out["kind"] = "oneof"
                out["oneof"] = v
            elif k in ("map", "btree_map", "hash_map"):
                out["kind"] = "map"
                kk, vv = [x.strip() for x in v.split(",", 1)]
                out["map_key"] = kk
                out["map_value"] = vv
            elif k == "bytes":
                out["kind"] = "bytes"
            elif k == "packed":
                out["packed"] = v == "true"
            else:
                out.setdefault("other", {})[k] = v
        else:
            if it in ("optional", "repeated", "required"):
                out["label"] = it
            elif it in SCALARS or it == "message" or it == "group":
                out["kind"] = it
            else:
                out.setdefault("flags", []).append(it)
    if out["label"] == "repeated" and out["kind"] in (VARINT | FIXED64 | FIXED32) and "packed" not in out:
        out["packed"] = True      # proto3 default
    out.setdefault("packed", False)
    return out


def inner_type(rust_ty):
    """the message/enum path inside Option<..> / Vec<..> / Box<..> / HashMap<K, V>"""
    t = re.sub(r"\s+", "", rust_ty)
    changed = True
    while changed:
        changed = False
        for w in ("::core::option::Option<", "::prost::alloc::vec::Vec<", "::prost::alloc::boxed::Box<", "Option<", "Vec<", "Box<"):
            if t.startswith(w) and t.endswith(">"):
                t = t[len(w):-1]
                changed = True
    m = re.match(r"(?:::std::collections::HashMap|::prost::alloc::collections::BTreeMap)<(.*)>$", t)
    if m:
        # value type after the first top-level comma
        depth = 0
        for i, ch in enumerate(m.group(1)):
            if ch == "<":
                depth += 1
            elif ch == ">":
                depth -= 1
            elif ch == "," and depth == 0:
                return inner_type(m.group(1)[i + 1:])
    return t


def resolve(path, module):
    """Rust path relative to `module` (list of segments) -> absolute list of segments"""
    if path.startswith("::"):
        return path[2:].split("::")
    segs = path.split("::")
    cur = list(module)
    while segs and segs[0] == "super":
        if cur:
            cur.pop()
        segs.pop(0)
    if segs and segs[0] == "crate":
        return segs[1:]
    return cur + segs


class Parser:
    def __init__(self, text, module, origin):
        self.lines = text.split("\n")
        self.i = 0
        self.module0 = list(module)
        self.origin = origin
        self.messages = []
        self.enums = []
        self.oneofs = []
        self.aliases = []

    def skip_block(self):
        """self.i is at a line containing the opening `{`; skip to the matching `}`"""
        depth = 0
        started = False
        while self.i < len(self.lines):
            line = self.lines[self.i]
            # ignore braces in string literals (doc strings in tonic code are comments, fine)
            code = re.sub(r'"(?:[^"\\]|\\.)*"', '""', line)
            code = code.split("//")[0]
            depth += code.count("{")
            if code.count("{"):
                started = True
            depth -= code.count("}")
            self.i += 1
            if started and depth <= 0:
                return

    def parse(self):
        self.parse_items(self.module0)
        return self

    def parse_items(self, module):
        pending_attrs = []
        while self.i < len(self.lines):
            line = self.lines[self.i]
            s = line.strip()
            if s.startswith("///") or s.startswith("//") or not s:
                self.i += 1
                continue
            if s.startswith("#["):
                attr = s
                while attr.count("[") > attr.count("]"):
                    self.i += 1
                    attr += " " + self.lines[self.i].strip()
                pending_attrs.append(attr)
                self.i += 1
                continue
            if s == "}":
                self.i += 1
                return
            m = re.match(r"pub mod (\w+) \{", s)
            if m:
                if any("cfg(feature" in a for a in pending_attrs):
                    self.skip_block()
                else:
                    self.i += 1
                    self.parse_items(module + [m.group(1)])
                pending_attrs = []
                continue
            m = re.match(r"pub struct (\w+) \{(\})?", s)
            if m:
                is_msg = any("::prost::Message" in a for a in pending_attrs)
                name = m.group(1)
                if m.group(2):
                    self.i += 1
                    fields = []
                else:
                    self.i += 1
                    fields = self.parse_fields(module)
                if is_msg:
                    self.messages.append({"module": module, "name": name, "fields": fields, "origin": self.origin,
                                          "type_url": next((re.search(r'type_url\s*=\s*"([^"]+)"', a).group(1) for a in pending_attrs
                                                            if "proto_message" in a and re.search(r'type_url\s*=\s*"([^"]+)"', a)), None)})
                pending_attrs = []
                continue
            m = re.match(r"pub enum (\w+) \{", s)
            if m:
                name = m.group(1)
                self.i += 1
                if any("::prost::Oneof" in a for a in pending_attrs):
                    variants = self.parse_oneof(module)
                    self.oneofs.append({"module": module, "name": name, "variants": variants})
                elif any("::prost::Enumeration" in a for a in pending_attrs):
                    values = self.parse_enum()
                    self.enums.append({"module": module, "name": name, "values": values})
                else:
                    self.i -= 1
                    self.skip_block()
                pending_attrs = []
                continue
            # re-exports and type aliases make a name of this module stand for a type defined elsewhere: recorded, and
            # resolved in `build_schema` (the alias gets the target's fields; its protobuf package stays this file's)
            if s.startswith("pub use ") or s.startswith("pub type "):
                text = s
                while not text.rstrip().endswith(";"):
                    self.i += 1
                    text += " " + self.lines[self.i].strip()
                self.i += 1
                text = text.rstrip(";").strip()
                mt = re.match(r"pub type (\w+)\s*=\s*(.+)$", text)
                if mt:
                    self.aliases.append({"module": module, "name": mt.group(1), "target": resolve(re.sub(r"\s+", "", mt.group(2)), module),
                                         "origin": self.origin})
                else:
                    body = text[len("pub use "):].strip()
                    mg = re.match(r"(.*)::\{(.*)\}$", body, re.S)
                    items = []
                    if mg:
                        for it in mg.group(2).split(","):
                            it = it.strip()
                            if it:
                                items.append(mg.group(1) + "::" + it)
                    else:
                        items.append(body)
                    for it in items:
                        ma = re.match(r"(.*?)(?:\s+as\s+(\w+))?$", it.strip())
                        path = re.sub(r"\s+", "", ma.group(1))
                        if path.endswith("::*") or path.split("::")[-1] in ("self",):
                            self.aliases.append({"module": module, "name": "*", "target": resolve(path[:-3], module), "origin": self.origin})
                            continue
                        nm = ma.group(2) or path.split("::")[-1]
                        self.aliases.append({"module": module, "name": nm, "target": resolve(path, module), "origin": self.origin})
                pending_attrs = []
                continue
            if re.match(r"(pub )?(impl|fn|use|const|static|type|trait)\b", s) or s.startswith("impl"):
                if "{" in s and not s.rstrip().endswith(";"):
                    self.skip_block()
                else:
                    self.i += 1
                pending_attrs = []
                continue
            # anything else: skip the line
            self.i += 1
            pending_attrs = []

    def parse_fields(self, module):
        fields = []
        attr = None
        while self.i < len(self.lines):
            s = self.lines[self.i].strip()
            if s == "}":
                self.i += 1
                return fields
            if s.startswith("#[prost("):
                text = s
                while text.count("(") > text.count(")"):
                    self.i += 1
                    text += " " + self.lines[self.i].strip()
                attr = parse_prost_attr(re.match(r"#\[prost\((.*)\)\]$", text).group(1))
                self.i += 1
                continue
            if s.startswith("#[") or s.startswith("//") or not s:
                while s.startswith("#[") and s.count("[") > s.count("]"):
                    self.i += 1
                    s += self.lines[self.i].strip()
                self.i += 1
                continue
            m = re.match(r"pub (r#)?(\w+):\s*(.*)$", s)
            if m:
                ty = m.group(3)
                while not ty.rstrip().endswith(","):
                    self.i += 1
                    ty += self.lines[self.i].strip()
                ty = ty.rstrip().rstrip(",")
                f = dict(attr or {"kind": None})
                f["name"] = m.group(2)
                f["rust_type"] = re.sub(r"\s+", "", ty)
                if f.get("kind") in ("message", "oneof") or (f.get("kind") == "map" and f.get("map_value") == "message"):
                    f["ref"] = resolve(inner_type(ty), module)
                if f.get("kind") == "enumeration":
                    f["ref"] = resolve(f["enum"], module)
                fields.append(f)
                attr = None
            self.i += 1
        return fields

    def parse_oneof(self, module):
        variants = []
        attr = None
        while self.i < len(self.lines):
            s = self.lines[self.i].strip()
            if s == "}":
                self.i += 1
                return variants
            if s.startswith("#[prost("):
                text = s
                while text.count("(") > text.count(")"):
                    self.i += 1
                    text += " " + self.lines[self.i].strip()
                attr = parse_prost_attr(re.match(r"#\[prost\((.*)\)\]$", text).group(1))
            else:
                m = re.match(r"(\w+)\((.*)\),?$", s)
                if m and attr is not None:
                    v = dict(attr)
                    v["name"] = m.group(1)
                    v["rust_type"] = re.sub(r"\s+", "", m.group(2))
                    if v["kind"] == "message":
                        v["ref"] = resolve(inner_type(m.group(2)), module)
                    if v["kind"] == "enumeration":
                        v["ref"] = resolve(v["enum"], module)
                    variants.append(v)
                    attr = None
            self.i += 1
        return variants

    def parse_enum(self):
        values = []
        while self.i < len(self.lines):
            s = self.lines[self.i].strip()
            if s == "}":
                self.i += 1
                return values
            m = re.match(r"(\w+)\s*=\s*(-?\d+),?$", s)
            if m:
                values.append([m.group(1), int(m.group(2))])
            self.i += 1
        return values


def path_key(segs):
    return "::".join(segs)


def build_schema(parsed_files):
    """flatten: oneof members become fields of their message; every field gets wire info"""
    oneofs = {}
    msgs = {}
    enums = {}
    for p in parsed_files:
        for o in p.oneofs:
            oneofs[path_key(o["module"] + [o["name"]])] = o
        for e in p.enums:
            enums[path_key(e["module"] + [e["name"]])] = e
    for p in parsed_files:
        for m in p.messages:
            key = path_key(m["module"] + [m["name"]])
            fields = []
            for f in m["fields"]:
                if f.get("kind") == "oneof":
                    o = oneofs.get(path_key(f["ref"]))
                    members = o["variants"] if o else []
                    for v in members:
                        fields.append(field_entry(v, oneof=f["name"]))
                    if o is None:
                        fields.append({"name": f["name"], "tag": -1, "kind": "oneof-unresolved", "label": "oneof", "packed": False, "wire": -1})
                else:
                    fields.append(field_entry(f))
            fields.sort(key=lambda x: x["tag"])
            msgs[key] = {"rust_path": key, "fqn": ".".join(m["module"] + [m["name"]]), "name": m["name"],
                         "module": m["module"], "fields": fields, "origin": m["origin"], "type_url": m.get("type_url")}
    # aliases (`pub use a::b::T;`, `pub type T = a::b::T;`): the name in this module is a message with the target's
    # fields -- which is what prost encodes and decodes for it
    for _ in range(3):          # chains of aliases
        for p in parsed_files:
            for a in getattr(p, "aliases", []):
                tkey = path_key(a["target"])
                if a["name"] == "*":
                    for k2, m2 in list(msgs.items()):
                        if m2["module"] == a["target"]:
                            nk = path_key(a["module"] + [m2["name"]])
                            if nk not in msgs:
                                msgs[nk] = dict(m2, rust_path=nk, fqn=".".join(a["module"] + [m2["name"]]), module=a["module"],
                                                origin=a["origin"], alias_of=k2)
                    continue
                key = path_key(a["module"] + [a["name"]])
                if tkey in msgs and key not in msgs:
                    m2 = msgs[tkey]
                    msgs[key] = dict(m2, rust_path=key, fqn=".".join(a["module"] + [a["name"]]), name=a["name"], module=a["module"],
                                     origin=a["origin"], alias_of=tkey)
    return {"messages": msgs, "enums": {k: {"values": v["values"]} for k, v in enums.items()}}


def field_entry(f, oneof=None):
    kind = f.get("kind")
    label = "oneof" if oneof else f.get("label", "singular")
    e = {"name": f["name"], "tag": (f.get("tags") or [-1])[0], "kind": kind, "label": label,
         "packed": bool(f.get("packed")), "wire": wire_type(kind, label, bool(f.get("packed")))}
    if oneof:
        e["oneof"] = oneof
    if "ref" in f:
        e["ref"] = path_key(f["ref"])
    if kind == "map":
        e["map_key"] = f["map_key"]
        e["map_value"] = f["map_value"]
    # attributes this translator (and the Lean codec the theorems are about) does not model, e.g. `default = ".."`,
    # `boxed`, `group`: recorded so that the generated table `unmodelledAttrs` is non-empty and the C20 table theorem
    # `no_unmodelled_attributes` stops checking
    extra = ["%s=%s" % kv for kv in sorted((f.get("other") or {}).items())] + sorted(f.get("flags") or [])
    if extra:
        e["unmodelled"] = extra
    return e


# ------------------------------------------------------------------------------------------
def parse_lib_rs(path):
    """module tree of lib.rs: list of (module path, included file)"""
    out = []
    stack = []
    for line in open(path).read().split("\n"):
        s = line.strip()
        m = re.match(r"pub mod ((?:r#)?\w+) \{", s)
        if m:
            stack.append(m.group(1).replace("r#", ""))
            continue
        m = re.match(r'include!\("proto/([^"]+)"\);', s)
        if m:
            out.append({"module": list(stack), "file": m.group(1)})
            continue
        if s == "}" and stack:
            stack.pop()
    return out


def parse_type_urls(path):
    text = open(path).read()
    out = []
    for m in re.finditer(r'impl TypeUrl for ([\w:#]+)\s*\{\s*const TYPE_URL: &\'static str\s*=\s*"([^"]*)";\s*\}', text):
        out.append({"rust_path": m.group(1).replace("r#", ""), "url": m.group(2)})
    return out


def initia_schema(root="/repo/packages/initia-proto"):
    tree = parse_lib_rs(os.path.join(root, "src", "lib.rs"))
    by_file = {t["file"]: t["module"] for t in tree}
    parsed = []
    files = sorted(os.listdir(os.path.join(root, "src", "proto")))
    not_compiled = []
    for fn in files:
        if not fn.endswith(".rs"):
            continue
        module = by_file.get(fn)
        if module is None:
            not_compiled.append(fn)
            module = fn[:-3].split(".")
        text = open(os.path.join(root, "src", "proto", fn)).read()
        parsed.append(Parser(text, module, fn).parse())
    sch = build_schema(parsed)
    sch["tree"] = tree
    sch["not_compiled"] = not_compiled
    sch["files"] = [f for f in files if f.endswith(".rs")]
    sch["type_urls"] = parse_type_urls(os.path.join(root, "src", "type_urls.rs"))
    # registrations to probe in the compiled crate: the parsed ones plus the pinned registry (a registration
    # rewritten as a macro is still compiled, and its constant is what `to_any` / `from_any` use)
    pinned = os.path.join(os.path.dirname(os.path.dirname(os.path.abspath(__file__))), "baselines", "type_url_registry.json")
    probe = {t["rust_path"]: t["url"] for t in sch["type_urls"]}
    if os.path.exists(pinned):
        for k in json.load(open(pinned))["rust_paths"]:
            if k in sch["messages"] and sch["messages"][k].get("origin") is not None:
                probe.setdefault(k, None)
    sch["type_url_probe"] = [{"rust_path": k, "url": probe[k]} for k in sorted(probe)]
    for m in sch["messages"].values():
        m["compiled"] = m["origin"] not in not_compiled
    return sch


def registry_dir(crate):
    base = os.path.expanduser("~/.cargo/registry/src")
    for d in os.listdir(base):
        p = os.path.join(base, d, crate)
        if os.path.isdir(p):
            return p
    return None


def reference_schema():
    """osmosis-std `types/{cosmos,ibc,cosmwasm,osmosis}` and prost-types, same parser"""
    parsed = []
    root = registry_dir("osmosis-std-0.25.0")
    if root:
        tdir = os.path.join(root, "src", "types")
        for dirpath, _, files in os.walk(tdir):
            for fn in files:
                if not fn.endswith(".rs") or fn == "mod.rs":
                    continue
                rel = os.path.relpath(os.path.join(dirpath, fn), tdir)
                module = rel[:-3].split(os.sep)
                parsed.append(Parser(open(os.path.join(dirpath, fn)).read(), module, "osmosis-std:" + rel).parse())
    root = registry_dir("prost-types-0.12.3")
    if root:
        parsed.append(Parser(open(os.path.join(root, "src", "protobuf.rs")).read(), ["prost_types"], "prost-types").parse())
    return build_schema(parsed)


if __name__ == "__main__":
    which = sys.argv[1] if len(sys.argv) > 1 else "initia"
    sch = initia_schema() if which == "initia" else reference_schema()
    json.dump(sch, sys.stdout, indent=1, sort_keys=True)
