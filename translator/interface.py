"""Translator for the contracts' message interface: regenerates, on every run, a Lean table of

  * the entry points each contract exports (`#[entry_point]` functions of contract.rs),
  * every variant of ExecuteMsg / QueryMsg / SudoMsg / MigrateMsg with its fields (serde names: cw_serde's
    `rename_all = "snake_case"` and explicit `#[serde(rename = ..)]`) and their Rust types,
  * the fields of InstantiateMsg and of the configuration structs the messages embed,

from /repo's sources.  `MW/Props/C08.lean`, `C13.lean`, `C16.lean` prove (by kernel evaluation) that this table equals
the interface the Lean model covers (`MW/Staking/Interface.lean`): a message variant, field or entry point added to,
removed from or re-typed in the source — which no generated history would ever exercise — breaks a theorem."""
import json
import os
import re
import sys

REPO = "/repo"


def strip_comments(text):
    out = []
    for line in text.split("\n"):
        s = line
        # drop // comments (no string literals with // occur in these files outside attributes we ignore)
        i = s.find("//")
        if i >= 0:
            s = s[:i]
        out.append(s)
    return "\n".join(out)


def snake(name):
    out = []
    for i, ch in enumerate(name):
        if ch.isupper():
            if i:
                out.append("_")
            out.append(ch.lower())
        else:
            out.append(ch)
    return "".join(out)


def block_after(text, start):
    """text[start] is '{' ; returns (body, end index after matching '}')"""
    depth = 0
    i = start
    while i < len(text):
        if text[i] == "{":
            depth += 1
        elif text[i] == "}":
            depth -= 1
            if depth == 0:
                return text[start + 1:i], i + 1
        i += 1
    raise ValueError("unbalanced braces")


def split_top(body, sep=","):
    """split on separators that are not nested in <>, (), {} or []"""
    parts, depth, cur = [], 0, []
    for ch in body:
        if ch in "<({[":
            depth += 1
        elif ch in ">)}]":
            depth -= 1
        if ch == sep and depth == 0:
            parts.append("".join(cur))
            cur = []
        else:
            cur.append(ch)
    if "".join(cur).strip():
        parts.append("".join(cur))
    return parts


def norm_type(t):
    return re.sub(r"\s+", "", t)


def parse_fields(body):
    fields = []
    for part in split_top(body):
        p = part.strip()
        # attributes in front of the field: kept (normalised) next to the type, so that a `#[serde(default)]`,
        # `alias`, `rename`, `skip`, `flatten`, ... on a field is part of the table
        attrs = []
        while p.startswith("#["):
            j = attr_end(p)
            attrs.append(re.sub(r"\s+", "", p[:j + 1]))
            p = p[j + 1:].strip()
        if not p:
            continue
        m = re.match(r"(?:pub\s+)?(r#)?(\w+)\s*:\s*(.*)$", p, re.S)
        if not m:
            raise ValueError("cannot parse field %r" % p)
        ty = norm_type(m.group(3))
        attrs = [a for a in attrs if a.startswith("#[serde(")]
        fields.append([m.group(2), ty + ("".join(" " + a for a in attrs))])
    return fields


def attr_end(p):
    depth = 0
    for j, ch in enumerate(p):
        if ch == "[":
            depth += 1
        elif ch == "]":
            depth -= 1
            if depth == 0:
                return j
    return len(p) - 1


def container_attrs(text, kind, name):
    """the attributes written directly above `pub enum|struct <name>` (derives, cw_serde, serde(...)), normalised"""
    m = re.search(r"((?:\s*#\[[^\n]*\]\s*\n)*)\s*pub %s %s\b" % (kind, re.escape(name)), text)
    if not m:
        return None
    attrs = [re.sub(r"\s+", "", a) for a in re.findall(r"#\[.*\]", m.group(1))]
    return " ".join(a for a in attrs if not a.startswith("#[allow") and not a.startswith("#[doc"))


def parse_enum(text, name):
    m = re.search(r"pub enum %s\s*\{" % re.escape(name), text)
    if not m:
        return None
    ca = container_attrs(text, "enum", name) or ""
    to_snake = "cw_serde" in ca or 'rename_all="snake_case"' in ca
    body, _ = block_after(text, m.end() - 1)
    variants = []
    for part in split_top(body):
        p = part.strip()
        rename = None
        extra = []
        while p.startswith("#["):
            j = 0
            depth = 0
            for j, ch in enumerate(p):
                if ch == "[":
                    depth += 1
                elif ch == "]":
                    depth -= 1
                    if depth == 0:
                        break
            attr = p[:j + 1]
            r = re.search(r'serde\(\s*rename\s*=\s*"([^"]+)"', attr)
            if r:
                rename = r.group(1)
            elif attr.startswith("#[serde("):
                extra.append(re.sub(r"\s+", "", attr))
            p = p[j + 1:].strip()
        if not p:
            continue
        m2 = re.match(r"(\w+)\s*(.*)$", p, re.S)
        vname, rest = m2.group(1), m2.group(2).strip()
        tag = rename or (snake(vname) if to_snake else vname)
        if extra:
            tag = tag + " " + " ".join(extra)
        if rest.startswith("{"):
            fb, _ = block_after(rest, 0)
            variants.append([tag, parse_fields(fb)])
        elif rest.startswith("("):
            inner = rest[1:rest.rfind(")")]
            variants.append([tag, [["0", norm_type(inner)]]])
        else:
            variants.append([tag, []])
    return variants


def parse_struct(text, name):
    m = re.search(r"pub struct %s\s*(\{|;)" % re.escape(name), text)
    if not m:
        return None
    if m.group(1) == ";":
        return []
    body, _ = block_after(text, m.end() - 1)
    return parse_fields(body)


def entry_points(text):
    eps = []
    for m in re.finditer(r"#\[(?:cfg_attr\([^\]]*entry_point\)|entry_point)\]\s*pub fn (\w+)", text):
        eps.append(m.group(1))
    return sorted(eps)


def storage_keys(text):
    """(constant or function name, constructor, storage key) of every cw-storage-plus item the file declares"""
    out = []
    for m in re.finditer(r"pub const (\w+)\s*:\s*[^=]*=\s*(\w+)::new\(\s*\"([^\"]*)\"", text):
        out.append([m.group(1), m.group(2) + ":" + m.group(3)])
    for m in re.finditer(r"(\w*Map|Item|Deque|SnapshotMap|SnapshotItem)::new\(\s*\"([^\"]*)\"\s*,", text):
        out.append(["<fn>", m.group(1) + ":" + m.group(2)])
    for m in re.finditer(r"(?:Multi|Unique)Index::new\([^\"]*\"([^\"]*)\"(?:\s*,\s*\"([^\"]*)\")?", text):
        out.append(["<index>", "Index:" + ":".join(x for x in m.groups() if x)])
    return sorted(out)


def all_sources(*p):
    """every non-test source file of a contract except the legacy layouts kept for migrations"""
    root = os.path.join(REPO, *p)
    out = []
    for dirpath, dirs, files in os.walk(root):
        rel = os.path.relpath(dirpath, root)
        if rel.startswith("tests") or rel.startswith(os.path.join("migrations", "states")):
            continue
        for fn in sorted(files):
            if fn.endswith(".rs"):
                out.append(strip_comments(open(os.path.join(dirpath, fn)).read()))
    return "\n".join(out)


def read(*p):
    return strip_comments(open(os.path.join(REPO, *p)).read())


def extract():
    st_msg = read("contracts", "staking", "src", "msg.rs")
    st_types = read("contracts", "staking", "src", "types.rs")
    st_contract = read("contracts", "staking", "src", "contract.rs")
    tr_msg = read("contracts", "treasury", "src", "msg.rs")
    tr_state = read("contracts", "treasury", "src", "state.rs")
    tr_contract = read("contracts", "treasury", "src", "contract.rs")
    out = {"staking": {}, "treasury": {}}
    s = out["staking"]
    s["entry_points"] = entry_points(st_contract)
    s["execute"] = parse_enum(st_msg, "ExecuteMsg")
    s["query"] = parse_enum(st_msg, "QueryMsg")
    s["sudo"] = parse_enum(st_msg, "SudoMsg")
    s["lifecycle"] = parse_enum(st_msg, "IBCLifecycleComplete")
    s["migrate"] = parse_enum(st_msg, "MigrateMsg")
    s["instantiate"] = parse_struct(st_msg, "InstantiateMsg")
    for n in ("UnsafeNativeChainConfig", "UnsafeProtocolChainConfig", "UnsafeProtocolFeeConfig"):
        s[n] = parse_struct(st_types, n)
    t = out["treasury"]
    t["entry_points"] = entry_points(tr_contract)
    t["execute"] = parse_enum(tr_msg, "ExecuteMsg")
    t["query"] = parse_enum(tr_msg, "QueryMsg")
    t["instantiate"] = parse_struct(tr_msg, "InstantiateMsg")
    t["migrate"] = parse_struct(tr_msg, "MigrateMsg")
    t["SwapRoute"] = parse_struct(tr_state, "SwapRoute")
    # stored layouts and storage keys (C18: what a migration must produce; a storage item added to the source is state
    # the model does not have)
    st_state = read("contracts", "staking", "src", "state.rs")
    mw = read("packages", "milky_way", "src", "staking.rs")
    for n in ("Config", "NativeChainConfig", "ProtocolChainConfig", "ProtocolFeeConfig", "State", "UnstakeRequest",
              "IbcWaitingForReply", "IBCTransfer"):
        s["stored_" + n] = parse_struct(st_state, n)
    s["stored_PacketLifecycleStatus"] = parse_enum(st_state, "PacketLifecycleStatus")
    s["stored_Batch"] = parse_struct(mw, "Batch")
    s["stored_BatchStatus"] = parse_enum(mw, "BatchStatus")
    s["storage_keys"] = storage_keys(all_sources("contracts", "staking", "src"))
    for n in ("State", "Config"):
        t["stored_" + n] = parse_struct(tr_state, n)
    t["storage_keys"] = storage_keys(all_sources("contracts", "treasury", "src"))
    s["attrs"] = [[n, container_attrs(st_msg, k, n) or "?"] for k, n in
                  (("enum", "ExecuteMsg"), ("enum", "QueryMsg"), ("enum", "SudoMsg"), ("enum", "IBCLifecycleComplete"),
                   ("enum", "MigrateMsg"), ("struct", "InstantiateMsg"))] + \
                 [[n, container_attrs(st_types, "struct", n) or "?"] for n in
                  ("UnsafeNativeChainConfig", "UnsafeProtocolChainConfig", "UnsafeProtocolFeeConfig")]
    s["attrs"] += [[n, container_attrs(st_state, "struct", n) or "?"] for n in
                   ("Config", "NativeChainConfig", "ProtocolChainConfig", "ProtocolFeeConfig", "State", "UnstakeRequest",
                    "IbcWaitingForReply", "IBCTransfer")] + \
                  [["PacketLifecycleStatus", container_attrs(st_state, "enum", "PacketLifecycleStatus") or "?"],
                   ["Batch", container_attrs(mw, "struct", "Batch") or "?"], ["BatchStatus", container_attrs(mw, "enum", "BatchStatus") or "?"]]
    t["attrs"] = [[n, container_attrs(tr_state, "struct", n) or "?"] for n in ("State", "Config")] + \
                 [[n, container_attrs(tr_msg, k, n) or "?"] for k, n in
                  (("enum", "ExecuteMsg"), ("enum", "QueryMsg"), ("struct", "InstantiateMsg"), ("struct", "MigrateMsg"))] + \
                 [["SwapRoute", container_attrs(tr_state, "struct", "SwapRoute") or "?"]]
    return canonical(out)


def canonical(out):
    """what serde and cw-storage-plus do not care about is normalised away, so that a harmless rewrite (fields or
    variants re-ordered, a storage constant renamed, a derive added) leaves the table unchanged: fields sorted by
    name, variants by tag, storage items as sorted `constructor:key`, only serde-relevant container attributes"""
    def serde_only(a):
        keep = [x for x in a.split(" ") if x.startswith("#[cw_serde") or x.startswith("#[serde(")]
        return " ".join(keep)
    for c in out.values():
        for key, v in list(c.items()):
            if v is None or key == "entry_points":
                continue
            if key == "storage_keys":
                c[key] = sorted([["item", b] for _, b in v], key=lambda x: x[1])
            elif key == "attrs":
                c[key] = sorted([[n, serde_only(a)] for n, a in v])
            elif v and isinstance(v[0][1], list):
                c[key] = sorted([[tag, sorted(fs)] for tag, fs in v])
            else:
                c[key] = sorted(v)
    return out


def lstr(s):
    return '"' + s.replace("\\", "\\\\").replace('"', '\\"') + '"'


def lean_fields(fs):
    return "[" + ", ".join("(%s, %s)" % (lstr(a), lstr(b)) for a, b in fs) + "]"


def lean_variants(vs):
    return "[\n" + ",\n".join("  (%s, %s)" % (lstr(v[0]), lean_fields(v[1])) for v in vs) + "]"


def gen_lean(iface):
    b = ["""/-! GENERATED by /verif/translator/interface.py from /repo's contract sources — do not edit.
The message interface of both contracts as the source declares it: entry points, message variants (serde names)
with their fields and Rust types, and the structs the messages embed. -/
namespace MW.Generated.Interface

abbrev Fields := List (String × String)
abbrev Variants := List (String × Fields)
"""]
    for contract in ("staking", "treasury"):
        c = iface[contract]
        for key in sorted(c):
            v = c[key]
            name = contract + "_" + key
            if v is None:
                b.append("def %s : Option Unit := none   -- not found in the source\n" % name)
            elif key == "entry_points":
                b.append("def %s : List String := [%s]\n" % (name, ", ".join(lstr(x) for x in v)))
            elif v and isinstance(v[0][1], list):
                b.append("def %s : Variants := %s\n" % (name, lean_variants(v)))
            else:
                b.append("def %s : Fields := %s\n" % (name, lean_fields(v)))
    b.append("end MW.Generated.Interface\n")
    return "\n".join(b)


def main():
    iface = extract()
    if "--json" in sys.argv:
        json.dump(iface, sys.stdout, indent=1)
        return
    root = os.path.dirname(os.path.dirname(os.path.abspath(__file__)))
    path = os.path.join(root, "lean", "MW", "Generated", "Interface.lean")
    text = gen_lean(iface)
    old = open(path).read() if os.path.exists(path) else None
    if old != text:
        with open(path, "w") as f:
            f.write(text)
    n = sum(len(v) for c in iface.values() for v in c.values() if v)
    print("interface: %d entries%s" % (n, " (changed)" if old != text else ""))


if __name__ == "__main__":
    main()
