"""Translator for the contracts' message interface: regenerates, on every run, a Lean table of

  * the entry points each contract exports (`#[entry_point]` functions of contract.rs),
  * every variant of ExecuteMsg / QueryMsg / SudoMsg / MigrateMsg with its fields (serde names: cw_serde's
    `rename_all = "snake_case"` and explicit `#[serde(rename = ..)]`) and their Rust types,
  * the fields of InstantiateMsg and of the configuration structs the messages embed,

from /repo's sources.  `MW/Props/C08.lean`, `C13.lean`, `C16.lean` prove (by kernel evaluation) that this table equals
the interface the Lean model covers (`MW/Staking/Interface.lean`): a message variant, field or entry point added to,
removed from or re-typed in the source — which no generated history would ever exercise — breaks a theorem."""
import json
import os
import re
import sys

REPO = "/repo"


def strip_comments(text):
    out = []
    for line in text.split("\n"):
        s = line
        # drop // comments (no string literals with // occur in these files outside attributes we ignore)
        i = s.find("//")
        if i >= 0:
            s = s[:i]
        out.append(s)
    return "\n".join(out)


def snake(name):
    out = []
    for i, ch in enumerate(name):
        if ch.isupper():
            if i:
                out.append("_")
            out.append(ch.lower())
        else:
            out.append(ch)
    return "".join(out)


def block_after(text, start):
    """text[start] is '{' ; returns (body, end index after matching '}')"""
    depth = 0
    i = start
    while i < len(text):
        if text[i] == "{":
            depth += 1
        elif text[i] == "}":
            depth -= 1
            if depth == 0:
                return text[start + 1:i], i + 1
        i += 1
    raise ValueError("unbalanced braces")


def split_top(body, sep=","):
    """split on separators that are not nested in <>, (), {} or []"""
    parts, depth, cur = [], 0, []
    for ch in body:
        if ch in "<({[":
            depth += 1
        elif ch in ">)}]":
            depth -= 1
        if ch == sep and depth == 0:
            parts.append("".join(cur))
            cur = []
        else:
            cur.append(ch)
    if "".join(cur).strip():
        parts.append("".join(cur))
    return parts


def norm_type(t):
    return re.sub(r"\s+", "", t)


def parse_fields(body):
    fields = []
    for part in split_top(body):
        p = part.strip()
        # drop attributes in front of the field
        while p.startswith("#["):
            j = p.find("]")
            p = p[j + 1:].strip()
        if not p:
            continue
        m = re.match(r"(?:pub\s+)?(r#)?(\w+)\s*:\s*(.*)$", p, re.S)
        if not m:
            raise ValueError("cannot parse field %r" % p)
        fields.append([m.group(2), norm_type(m.group(3))])
    return fields


def parse_enum(text, name):
    m = re.search(r"pub enum %s\s*\{" % re.escape(name), text)
    if not m:
        return None
    body, _ = block_after(text, m.end() - 1)
    variants = []
    for part in split_top(body):
        p = part.strip()
        rename = None
        while p.startswith("#["):
            j = 0
            depth = 0
            for j, ch in enumerate(p):
                if ch == "[":
                    depth += 1
                elif ch == "]":
                    depth -= 1
                    if depth == 0:
                        break
            attr = p[:j + 1]
            r = re.search(r'serde\(\s*rename\s*=\s*"([^"]+)"', attr)
            if r:
                rename = r.group(1)
            p = p[j + 1:].strip()
        if not p:
            continue
        m2 = re.match(r"(\w+)\s*(.*)$", p, re.S)
        vname, rest = m2.group(1), m2.group(2).strip()
        tag = rename or snake(vname)
        if rest.startswith("{"):
            fb, _ = block_after(rest, 0)
            variants.append([tag, parse_fields(fb)])
        elif rest.startswith("("):
            inner = rest[1:rest.rfind(")")]
            variants.append([tag, [["0", norm_type(inner)]]])
        else:
            variants.append([tag, []])
    return variants


def parse_struct(text, name):
    m = re.search(r"pub struct %s\s*(\{|;)" % re.escape(name), text)
    if not m:
        return None
    if m.group(1) == ";":
        return []
    body, _ = block_after(text, m.end() - 1)
    return parse_fields(body)


def entry_points(text):
    eps = []
    for m in re.finditer(r"#\[(?:cfg_attr\([^\]]*entry_point\)|entry_point)\]\s*pub fn (\w+)", text):
        eps.append(m.group(1))
    return sorted(eps)


def read(*p):
    return strip_comments(open(os.path.join(REPO, *p)).read())


def extract():
    st_msg = read("contracts", "staking", "src", "msg.rs")
    st_types = read("contracts", "staking", "src", "types.rs")
    st_contract = read("contracts", "staking", "src", "contract.rs")
    tr_msg = read("contracts", "treasury", "src", "msg.rs")
    tr_state = read("contracts", "treasury", "src", "state.rs")
    tr_contract = read("contracts", "treasury", "src", "contract.rs")
    out = {"staking": {}, "treasury": {}}
    s = out["staking"]
    s["entry_points"] = entry_points(st_contract)
    s["execute"] = parse_enum(st_msg, "ExecuteMsg")
    s["query"] = parse_enum(st_msg, "QueryMsg")
    s["sudo"] = parse_enum(st_msg, "SudoMsg")
    s["lifecycle"] = parse_enum(st_msg, "IBCLifecycleComplete")
    s["migrate"] = parse_enum(st_msg, "MigrateMsg")
    s["instantiate"] = parse_struct(st_msg, "InstantiateMsg")
    for n in ("UnsafeNativeChainConfig", "UnsafeProtocolChainConfig", "UnsafeProtocolFeeConfig"):
        s[n] = parse_struct(st_types, n)
    t = out["treasury"]
    t["entry_points"] = entry_points(tr_contract)
    t["execute"] = parse_enum(tr_msg, "ExecuteMsg")
    t["query"] = parse_enum(tr_msg, "QueryMsg")
    t["instantiate"] = parse_struct(tr_msg, "InstantiateMsg")
    t["migrate"] = parse_struct(tr_msg, "MigrateMsg")
    t["SwapRoute"] = parse_struct(tr_state, "SwapRoute")
    return out


def lstr(s):
    return '"' + s.replace("\\", "\\\\").replace('"', '\\"') + '"'


def lean_fields(fs):
    return "[" + ", ".join("(%s, %s)" % (lstr(a), lstr(b)) for a, b in fs) + "]"


def lean_variants(vs):
    return "[\n" + ",\n".join("  (%s, %s)" % (lstr(v[0]), lean_fields(v[1])) for v in vs) + "]"


def gen_lean(iface):
    b = ["""/-! GENERATED by /verif/translator/interface.py from /repo's contract sources — do not edit.
The message interface of both contracts as the source declares it: entry points, message variants (serde names)
with their fields and Rust types, and the structs the messages embed. -/
namespace MW.Generated.Interface

abbrev Fields := List (String × String)
abbrev Variants := List (String × Fields)
"""]
    for contract in ("staking", "treasury"):
        c = iface[contract]
        for key in sorted(c):
            v = c[key]
            name = contract + "_" + key
            if v is None:
                b.append("def %s : Option Unit := none   -- not found in the source\n" % name)
            elif key == "entry_points":
                b.append("def %s : List String := [%s]\n" % (name, ", ".join(lstr(x) for x in v)))
            elif v and isinstance(v[0][1], list):
                b.append("def %s : Variants := %s\n" % (name, lean_variants(v)))
            else:
                b.append("def %s : Fields := %s\n" % (name, lean_fields(v)))
    b.append("end MW.Generated.Interface\n")
    return "\n".join(b)


def main():
    iface = extract()
    if "--json" in sys.argv:
        json.dump(iface, sys.stdout, indent=1)
        return
    root = os.path.dirname(os.path.dirname(os.path.abspath(__file__)))
    path = os.path.join(root, "lean", "MW", "Generated", "Interface.lean")
    text = gen_lean(iface)
    old = open(path).read() if os.path.exists(path) else None
    if old != text:
        with open(path, "w") as f:
            f.write(text)
    n = sum(len(v) for c in iface.values() for v in c.values() if v)
    print("interface: %d entries%s" % (n, " (changed)" if old != text else ""))


if __name__ == "__main__":
    main()
