//! Which optional (non entry-point) names of /repo's crates exist: a helper that was renamed or removed switches the
//! corresponding `pure` operation off (the orchestrator reports that one correspondence as not checked) instead of
//! breaking the build of the whole harness.
use std::fs;

fn main() {
    let root = "/repo/contracts/staking/src";
    let mut text = String::new();
    fn walk(dir: &str, out: &mut String) {
        if let Ok(rd) = fs::read_dir(dir) {
            for e in rd.flatten() {
                let p = e.path();
                if p.is_dir() {
                    if p.file_name().map(|n| n == "tests").unwrap_or(false) {
                        continue;
                    }
                    walk(p.to_str().unwrap_or(""), out);
                } else if p.extension().map(|x| x == "rs").unwrap_or(false) {
                    if let Ok(s) = fs::read_to_string(&p) {
                        out.push_str(&s);
                        out.push('\n');
                    }
                }
            }
        }
    }
    walk(root, &mut text);
    let mut ttext = String::new();
    walk("/repo/contracts/treasury/src", &mut ttext);
    let has = |needle: &str| {
        if let Some(n) = needle.strip_prefix("T:") {
            ttext.contains(n)
        } else {
            text.contains(needle)
        }
    };
    for (cfg, needle) in [
        ("has_addess_hash", "pub fn addess_hash("),
        ("has_address_hash", "pub fn address_hash("),
        ("has_sender_prefix", "pub const SENDER_PREFIX"),
        ("has_compute_mint_amount", "pub fn compute_mint_amount("),
        ("has_compute_unbond_amount", "pub fn compute_unbond_amount("),
        ("has_validate_address_prefix", "pub fn validate_address_prefix("),
        ("has_validate_address", "pub fn validate_address("),
        ("has_validate_addresses", "pub fn validate_addresses("),
        ("has_validate_denom", "pub fn validate_denom("),
        ("has_validate_ibc_denom", "pub fn validate_ibc_denom("),
        ("has_staking_ibc_timeout", "pub const IBC_TIMEOUT"),
        ("has_treasury_ibc_timeout", "T:pub const IBC_TIMEOUT"),
        ("has_treasury_validate_address", "T:pub fn validate_address("),
    ] {
        println!("cargo:rustc-check-cfg=cfg({cfg})");
        if has(needle) {
            println!("cargo:rustc-cfg={cfg}");
        }
    }
    println!("cargo:rerun-if-changed=/repo/contracts/staking/src");
    println!("cargo:rerun-if-changed=/repo/contracts/treasury/src");
    println!("cargo:rerun-if-changed=build.rs");
}
