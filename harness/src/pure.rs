//! Pure helper functions of the real crates, callable one at a time.
use cosmwasm_std::{from_json, Decimal, Uint128};
use serde_json::{json, Value};

fn u128_arg(v: &Value) -> Uint128 {
    Uint128::new(v.as_str().unwrap_or("0").parse::<u128>().unwrap_or(0))
}

fn sarg(v: &Value) -> String {
    // strings travel hex-encoded (utf-8 bytes) under {"hex": ".."} or plain
    if let Some(h) = v.get("hex").and_then(|h| h.as_str()) {
        String::from_utf8(hex::decode(h).unwrap_or_default()).unwrap_or_default()
    } else {
        v.as_str().unwrap_or("").to_string()
    }
}

fn std_res<T: serde::Serialize, E: std::fmt::Display>(r: Result<T, E>) -> Value {
    match r {
        Ok(v) => json!({"ok": serde_json::to_value(v).unwrap()}),
        Err(e) => json!({"err": {"kind": "Std", "inner": "", "text": e.to_string()}}),
    }
}

pub fn call(req: &Value) -> Value {
    let f = req["fn"].as_str().unwrap_or("");
    let a = &req["args"];
    match f {
        "compute_mint_amount" => {
            #[cfg(has_compute_mint_amount)]
            {
                {
            let r = staking::helpers::compute_mint_amount(
                u128_arg(&a[0]),
                u128_arg(&a[1]),
                u128_arg(&a[2]),
            );
            json!({"ok": r.to_string()})
        }
            }
            #[cfg(not(has_compute_mint_amount))]
            {
                json!({"bad": "missing helper compute_mint_amount"})
            }
        }
        "compute_unbond_amount" => {
            #[cfg(has_compute_unbond_amount)]
            {
                {
            let r = staking::helpers::compute_unbond_amount(
                u128_arg(&a[0]),
                u128_arg(&a[1]),
                u128_arg(&a[2]),
            );
            json!({"ok": r.to_string()})
        }
            }
            #[cfg(not(has_compute_unbond_amount))]
            {
                json!({"bad": "missing helper compute_unbond_amount"})
            }
        }
        "multiply_ratio" => {
            let r = u128_arg(&a[0]).multiply_ratio(u128_arg(&a[1]), u128_arg(&a[2]));
            json!({"ok": r.to_string()})
        }
        "decimal_from_ratio" => {
            let r = Decimal::from_ratio(u128_arg(&a[0]), u128_arg(&a[1]));
            json!({"ok": r.to_string()})
        }
        "validate_address_prefix" => {
            #[cfg(has_validate_address_prefix)]
            {
                std_res(staking::helpers::validate_address_prefix(&sarg(&a[0])))
            }
            #[cfg(not(has_validate_address_prefix))]
            {
                json!({"bad": "missing helper validate_address_prefix"})
            }
        }
        "validate_address" => {
            #[cfg(has_validate_address)]
            {
                std_res(
            staking::helpers::validate_address(&sarg(&a[0]), &sarg(&a[1])).map(|x| x.to_string()),
        )
            }
            #[cfg(not(has_validate_address))]
            {
                json!({"bad": "missing helper validate_address"})
            }
        }
        "treasury_validate_address" => {
            #[cfg(has_treasury_validate_address)]
            {
                std_res(treasury::helpers::validate_address(&sarg(&a[0]), &sarg(&a[1])).map(|x| x.to_string()))
            }
            #[cfg(not(has_treasury_validate_address))]
            {
                json!({"bad": "missing helper treasury_validate_address"})
            }
        }
        "validate_addresses" => {
            #[cfg(has_validate_addresses)]
            {
                {
            let v: Vec<String> = a[0]
                .as_array()
                .map(|x| x.iter().map(sarg).collect())
                .unwrap_or_default();
            std_res(
                staking::helpers::validate_addresses(&v, &sarg(&a[1]))
                    .map(|x| x.into_iter().map(|y| y.to_string()).collect::<Vec<_>>()),
            )
        }
            }
            #[cfg(not(has_validate_addresses))]
            {
                json!({"bad": "missing helper validate_addresses"})
            }
        }
        "validate_denom" => {
            #[cfg(has_validate_denom)]
            {
                std_res(staking::helpers::validate_denom(sarg(&a[0])))
            }
            #[cfg(not(has_validate_denom))]
            {
                json!({"bad": "missing helper validate_denom"})
            }
        }
        "validate_ibc_denom" => {
            #[cfg(has_validate_ibc_denom)]
            {
                std_res(staking::helpers::validate_ibc_denom(sarg(&a[0])))
            }
            #[cfg(not(has_validate_ibc_denom))]
            {
                json!({"bad": "missing helper validate_ibc_denom"})
            }
        }
        "derive_intermediate_sender" => std_res(staking::helpers::derive_intermediate_sender(
            &sarg(&a[0]),
            &sarg(&a[1]),
            &sarg(&a[2]),
        )),
        "address_hash" => {
            #[allow(unused_variables)]
            let key = hex::decode(a[1].as_str().unwrap_or("")).unwrap_or_default();
            #[cfg(has_addess_hash)]
            {
                let h = staking::helpers::addess_hash(&sarg(&a[0]), &key);
                json!({"ok": hex::encode(h)})
            }
            #[cfg(all(has_address_hash, not(has_addess_hash)))]
            {
                let h = staking::helpers::address_hash(&sarg(&a[0]), &key);
                json!({"ok": hex::encode(h)})
            }
            #[cfg(not(any(has_addess_hash, has_address_hash)))]
            {
                json!({"bad": "missing helper address_hash"})
            }
        }
        "channel_ok" => {
            // the channel test in isolation: every other field of the section is valid
            let c = staking::types::UnsafeProtocolChainConfig {
                account_address_prefix: "osmo".to_string(),
                ibc_token_denom: format!("ibc/{}", "A".repeat(64)),
                ibc_channel_id: sarg(&a[0]),
                minimum_liquid_stake_amount: Uint128::zero(),
                oracle_address: None,
            };
            json!({"ok": c.validate().is_ok()})
        }
        "validate_protocol_chain_config" => {
            let bytes = serde_json::to_vec(&a[0]).unwrap();
            match from_json::<staking::types::UnsafeProtocolChainConfig>(&bytes) {
                Err(e) => json!({"err": {"kind": "Parse", "inner": "", "text": e.to_string()}}),
                Ok(c) => match c.validate() {
                    Ok(v) => json!({"ok": serde_json::to_value(v).unwrap()}),
                    Err(e) => json!({"err": {"kind": "Contract", "inner": "", "text": e.to_string()}}),
                },
            }
        }
        "validate_native_chain_config" => {
            let bytes = serde_json::to_vec(&a[0]).unwrap();
            match from_json::<staking::types::UnsafeNativeChainConfig>(&bytes) {
                Err(e) => json!({"err": {"kind": "Parse", "inner": "", "text": e.to_string()}}),
                Ok(c) => std_res(c.validate()),
            }
        }
        _ => json!({"bad": format!("unknown pure fn {f}")}),
    }
}
